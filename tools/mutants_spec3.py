MUTANTS = [
# ---------------- C04 whole list
("C04", "m3-terminate-pid-skips-first-link-consumer", "node/core.go",
 """	linkConsumers, monitorConsumers := n.targetManager.CleanupTarget(target)

	for _, pid := range linkConsumers {
		if pid.Node != n.name {
			remote[pid.Node] = true
		}
		n.sendExitMessage(target, pid, messageExit)
	}

	messageDown := gen.MessageDownPID{""",
 """	linkConsumers, monitorConsumers := n.targetManager.CleanupTarget(target)

	for _, pid := range linkConsumers[1:] {
		if pid.Node != n.name {
			remote[pid.Node] = true
		}
		n.sendExitMessage(target, pid, messageExit)
	}

	messageDown := gen.MessageDownPID{""", 1),
# ---------------- C08
("C08", "m3-ofo-all-children-significant", "act/supervisor_ofo.go",
 """	case SupervisorStrategyTemporary:
		if spec.Significant {""",
 """	case SupervisorStrategyTemporary:
		if spec.Significant || len(runningChildren) > 0 {""", 1),
("C08", "m3-ofo-restarts-first-spec", "act/supervisor_ofo.go",
 """		// do restart
		action.do = supActionStartChild
		action.spec = *spec
""",
 """		// do restart
		action.do = supActionStartChild
		action.spec = *s.spec[0]
""", 1),
("C08", "m3-ofo-terminated-pid-not-cleared", "act/supervisor_ofo.go",
 """		if cs.Name == name || cs.pid == pid {
			cs.pid = empty
			found = true
			spec = cs
			continue
		}

		if cs.pid == empty {
			continue
		}

		runningChildren = append(runningChildren, cs.pid)
		wait[cs.pid] = true
	}

	if found == false {
		// seems supervisor got exit-signal from a non-child process.
		// start supervisor termination""",
 """		if cs.Name == name || cs.pid == pid {
			found = true
			spec = cs
			continue
		}

		if cs.pid == empty {
			continue
		}

		runningChildren = append(runningChildren, cs.pid)
		wait[cs.pid] = true
	}

	if found == false {
		// seems supervisor got exit-signal from a non-child process.
		// start supervisor termination""", 1),
("C08", "m3-arfo-termination-in-spec-order", "act/supervisor_arfo.go",
 """		// in reverse order
		k := len(s.spec) - 1 - i""",
 """		// in reverse order
		k := i""", 1),
("C08", "m3-rfo-skips-terminated-child", "act/supervisor_arfo.go",
 """	if s.rest {
		s.restartI = specI // restart from the last to the i-th
	}""",
 """	if s.rest {
		s.restartI = specI + 1 // restart from the last to the i-th
	}""", 1),
("C08", "m3-arfo-rest-flag-inverted", "act/supervisor_arfo.go",
 """	if s.rest {
		s.restartI = specI // restart from the last to the i-th
	}""",
 """	if s.rest == false {
		s.restartI = specI // restart from the last to the i-th
	}""", 1),
("C08", "m3-ofo-nonchild-exit-ignored", "act/supervisor_ofo.go",
 """		action.terminate = runningChildren
		action.do = supActionTerminateChildren
		action.reason = reason
		s.wait = wait
		s.shutdown = true
		s.shutdownReason = reason
		return action
	}

	if spec.disabled {""",
 """		return action
	}

	if spec.disabled {""", 1),
("C08", "m3-ofo-autoshutdown-with-children", "act/supervisor_ofo.go",
 """		// auto shutdown is enabled
		if len(runningChildren) == 0 && s.autoshutdown {
			// there is no more running child processes. terminate supervisor
			action.reason = reason
			action.do = supActionTerminate
			return action
		}

		// do nothing
		return action

	case SupervisorStrategyTransient:""",
 """		// auto shutdown is enabled
		if s.autoshutdown {
			// there is no more running child processes. terminate supervisor
			action.reason = reason
			action.do = supActionTerminate
			return action
		}

		// do nothing
		return action

	case SupervisorStrategyTransient:""", 1),
# ---------------- C17
("C17", "m3-start-failure-members-left-running", "node/application.go",
 """			for _, pid := range a.members() {
				a.node.Kill(pid)
			}
""",
 """""", 1),
("C17", "m3-permanent-reason-not-recorded", "node/application.go",
 """		a.node.Log().Info("application %s (%s) will be stopped due to termination of %s with reason: %s", a.spec.Name, a.mode, pid, reason)
		a.reason = reason
		a.group.Range(func(pid gen.PID, _ bool) bool {""",
 """		a.node.Log().Info("application %s (%s) will be stopped due to termination of %s with reason: %s", a.spec.Name, a.mode, pid, reason)
		a.group.Range(func(pid gen.PID, _ bool) bool {""", 1),
("C17", "m3-terminate-callback-constant-reason", "node/application.go",
 """	a.behavior.Terminate(a.reason)""",
 """	a.behavior.Terminate(gen.TerminateReasonNormal)""", 1),
("C17", "m3-terminate-no-once-guard", "node/application.go",
 """	old := atomic.SwapInt32(&a.state, int32(gen.ApplicationStateLoaded))
	if old == int32(gen.ApplicationStateLoaded) {
		return
	}
	if a.stopped != nil {""",
 """	atomic.StoreInt32(&a.state, int32(gen.ApplicationStateLoaded))
	if a.stopped != nil {""", 1),
("C17", "m3-permanent-members-not-stopped", "node/application.go",
 """		a.reason = reason
		a.group.Range(func(pid gen.PID, _ bool) bool {
			a.node.SendExit(pid, gen.TerminateReasonShutdown)
			return true
		})
	case gen.ApplicationModeTransient:""",
 """		a.reason = reason
	case gen.ApplicationModeTransient:""", 1),
("C17", "m3-start-mode-not-stored", "node/application.go",
 """	a.mode = mode
	a.parent = options.CorePID.Node""",
 """	a.parent = options.CorePID.Node""", 1),
("C17", "m3-start-callback-before-members", "node/application.go",
 """	// start items
	for _, item := range a.spec.Group {""",
 """	a.behavior.Start(mode)
	// start items
	for _, item := range a.spec.Group {""", 1),
# ---------------- C18
("C18", "m3-sendevent-no-token-check", "node/core.go",
 """		if event.token != token {
			return gen.ErrEventOwner
		}

		if event.last != nil {
			event.last.Push(message)
		}""",
 """		if event.last != nil {
			event.last.Push(message)
		}""", 1),
("C18", "m3-linkevent-start-notify-threshold", "node/core.go",
 """		c := atomic.AddInt32(&event.consumers, 1)
		if event.notify == false || c > 1 {""",
 """		c := atomic.AddInt32(&event.consumers, 1)
		if event.notify == false || c > 2 {""", 1),
("C18", "m3-sendevent-remote-consumers-skipped", "node/core.go",
 """		remote[pid.Node] = true
	}

	for k := range remote {
		// remote consumer means that there is a connection established""",
 """	}

	for k := range remote {
		// remote consumer means that there is a connection established""", 1),
# ---------------- C19
("C19", "m3-pool-handles-requests-itself", "act/pool.go",
 """				if message.Type < gen.MailboxMessageTypeExit {""",
 """				if message.Type < gen.MailboxMessageTypeRequest {""", 1),
("C19", "m3-forward-loop-bound-short", "act/pool.go",
 """	for i := int64(0); i < l; i++ {
		err = nil
		v, _ := p.pool.Pop()""",
 """	for i := int64(1); i < l; i++ {
		err = nil
		v, _ := p.pool.Pop()""", 1),
("C19", "m3-forward-full-worker-dropped-from-ring", "act/pool.go",
 """		// mailbox is full. try next worker
		p.pool.Push(v)
	}""",
 """		// mailbox is full. try next worker
	}""", 1),
# ---------------- C11
("C11", "m3-atomcache-id-little-endian", "net/edf/encode.go",
 """			if id > 255 {
				buf := b.Extend(2)
				binary.BigEndian.PutUint16(buf, id)""",
 """			if id > 255 {
				buf := b.Extend(2)
				binary.LittleEndian.PutUint16(buf, id)""", 1),
# ---------------- C12
("C12", "m3-frame-length-off-by-one", "net/proto/connection.go",
 """	binary.BigEndian.PutUint32(buf.B[2:6], uint32(buf.Len()))
	buf.B[6] = orderPeer
	buf.B[7] = protoMessagePID""",
 """	binary.BigEndian.PutUint32(buf.B[2:6], uint32(buf.Len()-1))
	buf.B[6] = orderPeer
	buf.B[7] = protoMessagePID""", 1),
("C12", "m3-order-byte-at-wrong-index", "net/proto/connection.go",
 """	buf.B[6] = orderPeer
	buf.B[7] = protoMessagePID""",
 """	buf.B[5] = orderPeer
	buf.B[7] = protoMessagePID""", 1),
]
