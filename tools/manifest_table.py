# Table for genmanifest.py. claim(id, technique, level text, level note, design ref); na(id, reason)

claim("C02",
  "must-pass-through over SSA control-flow graphs (push=>wake, release=>re-check), edge-sensitive return classification, provenance of the fallback wrapper's fields",
  "Decides five structural clauses of local delivery on every mailbox push site and every runner of the current source: D1 accepted push is followed on all paths by a wake-up of the same process object; D2 refused push never returns nil / accepted push never returns an error constant / failed lookups return an error before any push; D3 after the release transition every path to return saw every mailbox queue empty or re-acquires (no lost wake-up); D4 fallback wrapper = refused target's pid + tag + original message, guarded and routed by name; D5 delayed send returns the armed timer's Stop and its callback sends once per addressing mode. These are necessary conditions: each has a concrete schedule that loses or duplicates a message when it is false. The behaviour itself (exactly-once under all interleavings) is not decided.",
  "sync/atomic is sequentially consistent; lib.QueueMPSC is a linearizable MPSC queue whose Push reports acceptance truthfully (O3 of C03 checks who writes head/tail only); time.Timer.Stop contract; global gen.Err* variables are non-nil",
  "DESIGN.md 4 C02")

for _p in ["C01","C03","C04","C05","C06","C07","C08","C09","C10","C11","C12","C13","C14","C15","C16","C17","C18","C19","C20"]:
    na(_p, "rules for this property are not built yet in this revision (see DESIGN.md section 8, build order); no claim is made")
