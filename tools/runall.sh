#!/bin/sh
# usage: tools/runall.sh [overlay.diff]  — runs the 20 quick checks (no evidence) in parallel, prints the last line of each
cd "$(dirname "$0")/.."
ARG=""
[ -n "$1" ] && ARG="-overlay-diff $1"
for i in 01 02 03 04 05 06 07 08 09 10 11 12 13 14 15 16 17 18 19 20; do echo C$i; done | xargs -P 5 -I{} sh -c "bin/ergocheck -p {} $ARG -no-evidence 2>&1 | tail -1" | sort
