#!/bin/sh
# usage: tools/mkmutant.sh C02 name   -- saves /repo's working-tree diff as a seeded variant and restores /repo
set -e
mkdir -p /verif/mutants/$1
git -C /repo diff > /verif/mutants/$1/$2.diff
git -C /repo checkout -- .
test -s /verif/mutants/$1/$2.diff || { echo "empty diff"; rm /verif/mutants/$1/$2.diff; exit 1; }
echo "saved mutants/$1/$2.diff"
