#!/usr/bin/env python3
"""usage: keep_seed.py <srcdir> <seed-id> <property> <confirm-log-file> [detected-by text]
Stores a confirmed seeded change under /verif/seeded/<seed-id>/ (patch.diff, demo, meta.json)."""
import json, os, shutil, subprocess, sys
src, sid, prop, log = sys.argv[1:5]
det = sys.argv[5] if len(sys.argv) > 5 else ""
dst = f"/verif/seeded/{sid}"
os.makedirs(dst, exist_ok=True)
shutil.copy(f"{src}/patch.diff", f"{dst}/patch.diff")
if os.path.isdir(f"{src}/demo"):
    shutil.rmtree(f"{dst}/demo", ignore_errors=True)
    shutil.copytree(f"{src}/demo", f"{dst}/demo")
    # point the demo at /repo by default
    gm = f"{dst}/demo/go.mod"
    if os.path.exists(gm):
        t = open(gm).read()
        import re
        t = re.sub(r"replace ergo.services/ergo => \S+", "replace ergo.services/ergo => /repo", t)
        open(gm, "w").write(t)
for f in os.listdir(src):
    if f.endswith("_test.go"):
        shutil.copy(f"{src}/{f}", f"{dst}/{f}")
m = json.load(open(f"{src}/meta.json"))
out = subprocess.run(["/verif/bin/ergocheck", "-p", prop, "-overlay-diff", f"{dst}/patch.diff", "-no-evidence"], capture_output=True, text=True)
viol = [l.strip() for l in out.stdout.splitlines() if l.strip().startswith(("VIOLATED:", "UNDECIDED:"))]
meta = {
    "property": prop,
    "summary": m.get("summary", ""),
    "needs": m.get("needs", ""),
    "files": m.get("files", []),
    "origin": "independent sub-agent given only the property text and a scratch worktree",
    "demo": m.get("demo", ""),
    "confirmed": {
        "how": "tools/confirm_seed.sh in a scratch worktree of /repo HEAD outside /repo and /verif: patched tree builds; demo passes on the clean tree and fails on the patched tree; test suite on the patched tree compared per test with the 505 stable baseline tests",
        "log": open(log).read()[-3000:],
    },
    "check_result": {
        "command": f"bin/ergocheck -p {prop} -overlay-diff seeded/{sid}/patch.diff",
        "exit": out.returncode,
        "reported": viol[:6],
        "detected": out.returncode == 1,
        "note": det,
    },
}
json.dump(meta, open(f"{dst}/meta.json", "w"), indent=1)
print(sid, "detected" if out.returncode == 1 else "MISSED", viol[:2])
