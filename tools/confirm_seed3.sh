#!/bin/sh
# usage: tools/confirm_seed.sh <seed-dir containing patch.diff and demo/> [timeout-seconds]
# Confirms a seeded change in a scratch worktree outside /repo and /verif: patched tree builds,
# demo fails with the patch and passes without it. Prints a summary; removes the worktree.
set -u
sd="$1"; to="${2:-180}"
export GOFLAGS=-mod=mod GOPROXY=off GOSUMDB=off GOTOOLCHAIN=local GOWORK=off
wt=$(mktemp -d /tmp/confirm.XXXXXX)
git -C /repo worktree add -q --detach "$wt/tree" HEAD || exit 2
cleanup(){ git -C /repo worktree remove --force "$wt/tree" 2>/dev/null; rm -rf "$wt"; }
trap cleanup EXIT
rundemo(){ # $1 = label
  if [ -d "$sd/demo" ]; then
    rm -rf "$wt/demo"; cp -r "$sd/demo" "$wt/demo"
    (cd "$wt/demo" && go mod edit -replace ergo.services/ergo="$wt/tree" && cp "$wt/tree/go.sum" . 2>/dev/null; unshare -n sh -c "ip link set lo up; exec timeout $to go run ." > "$wt/out.$1" 2>&1; echo $? > "$wt/rc.$1")
  elif [ -f "$sd/demo_test.go" ]; then
    pkg=$(python3 - "$sd/meta.json" <<'PY'
import json,re,sys
d=json.load(open(sys.argv[1])); demo=str(d.get('demo',''))
if d.get('demo_pkg'): print(d['demo_pkg']); sys.exit()
m=re.search(r'((?:testing/tests/\w+|act|node|lib|gen|app/\w+|meta|net/\w+))/zz_\w*\.go',demo) or re.search(r'\./((?:testing/tests/\w+|act|node|lib|gen|net/\w+))/?(?:\s|$|\)|;)',demo)
print(m.group(1) if m else '')
PY
)
    run=$(python3 - "$sd/meta.json" <<'PY'
import json,re,sys
d=json.load(open(sys.argv[1])); m=re.search(r'-run[ =]+[\'"]?([\w|^$.()]+)',str(d.get('demo','')))
print(m.group(1) if m else '')
PY
)
    [ -n "$run" ] && [ -z "${DEMO_RUN:-}" ] && DEMO_RUN="$run"
    [ -z "$pkg" ] && pkg=$(grep -o 'testing/tests/[0-9a-z_]*\|node\|act\|net/[a-z]*\|lib\|gen' "$sd/meta.json" | head -1)
    echo "demo test: package $pkg, -run ${DEMO_RUN:-Demo|Seed}"
    [ -d "$wt/tree/$pkg" ] || { [ -z "${DEMO_RUN:-}" ] && DEMO_RUN="."; }
    mkdir -p "$wt/tree/$pkg"
    cp "$sd/demo_test.go" "$wt/tree/$pkg/zz_demo_test.go"
    (cd "$wt/tree" && unshare -n sh -c "ip link set lo up; exec timeout $to go test -vet=off -count=1 -run '${DEMO_RUN:-Demo|Seed}' ./$pkg/" > "$wt/out.$1" 2>&1; echo $? > "$wt/rc.$1")
    rm -f "$wt/tree/$pkg/zz_demo_test.go"
  fi
  echo "--- demo on $1 tree: exit $(cat $wt/rc.$1)"; tail -5 "$wt/out.$1" | cut -c1-300
}
rundemo clean
(cd "$wt/tree" && git apply "$sd/patch.diff") || { echo "PATCH DOES NOT APPLY"; exit 3; }
(cd "$wt/tree" && go build ./... ) || { echo "PATCHED TREE DOES NOT BUILD"; exit 4; }
rundemo patched
if [ "${SUITE:-0}" = "1" ]; then /verif/tools/suite_ns.sh "$wt/tree" | tail -3; fi
c=$(cat $wt/rc.clean); p=$(cat $wt/rc.patched)
if [ "$c" = "0" ] && [ "$p" != "0" ]; then echo "CONFIRMED (clean passes, patched fails)"; else echo "NOT CONFIRMED (clean=$c patched=$p)"; fi
