MUTANTS = [
# ---------------- C15
("C15", "m4-accept-peer-creation-local", "net/handshake/accept.go",
 """	result.PeerCreation = intro.Creation""",
 """	result.PeerCreation = node.Creation()""", 1),
("C15", "m4-accept-salt-from-peer", "net/handshake/accept.go",
 """		salt = lib.RandomString(64)
		hash = sha256.New()
		hash.Write([]byte(fmt.Sprintf("%s:%s:%s", salt, m.Digest, options.Cookie)))""",
 """		salt = m.Salt
		hash = sha256.New()
		hash.Write([]byte(fmt.Sprintf("%s:%s:%s", salt, m.Digest, options.Cookie)))""", 1),
("C15", "m4-accept-hello-mismatch-continues", "net/handshake/accept.go",
 """		if m.Digest != fmt.Sprintf("%x", hash.Sum(nil)) {
			return result, fmt.Errorf("incorrect digest (accept stage 'hello')")
		}""",
 """		if m.Digest != fmt.Sprintf("%x", hash.Sum(nil)) {
			err = fmt.Errorf("incorrect digest (accept stage 'hello')")
		}""", 1),
("C15", "m4-start-peer-maxsize-local", "net/handshake/start.go",
 """	result.PeerMaxMessageSize = intro2.MaxMessageSize""",
 """	result.PeerMaxMessageSize = options.MaxMessageSize""", 1),
("C15", "m4-acceptor-cookie-overridden", "node/network.go",
 """		if hopts.Cookie == "" {
			hopts.Cookie = n.cookie
		}

		result, err := a.handshake.Accept(n.node, c, hopts)""",
 """		hopts.Cookie = n.cookie

		result, err := a.handshake.Accept(n.node, c, hopts)""", 1),
("C15", "m4-route-cookie-ignored", "node/network.go",
 """	if hopts.Cookie == "" {
		hopts.Cookie = n.cookie
	}
	if hopts.Flags.Enable == false {""",
 """	hopts.Cookie = n.cookie
	if hopts.Flags.Enable == false {""", 1),
("C15", "m4-disablespawn-enables", "node/network.go",
 """	for _, nn := range nodes {
		enable.nodes[nn] = false
	}
	enable.Unlock()
	return nil
}

type enableAppStart struct {""",
 """	for _, nn := range nodes {
		enable.nodes[nn] = true
	}
	enable.Unlock()
	return nil
}

type enableAppStart struct {""", 1),
("C15", "m4-spawn-flag-check-inverted", "net/proto/connection.go",
 """		if c.node_flags.Enable && c.node_flags.EnableRemoteSpawn == false {
			c.log.Warning("remote spawn is not allowed for %s", c.peer)
			return
		}""",
 """		if c.node_flags.Enable == false && c.node_flags.EnableRemoteSpawn == false {
			c.log.Warning("remote spawn is not allowed for %s", c.peer)
			return
		}""", 1),
("C15", "m4-appstart-permission-skipped", "node/core.go",
 """	if err := n.network.isEnabledApplicationStart(name, source); err != nil {
		return err
	}
""",
 """	if err := n.network.isEnabledApplicationStart(name, source); err != nil {
		n.log.Warning("application start %s requested by %s: %s", name, source, err)
	}
""", 1),
("C15", "m4-spawn-source-is-local-name", "net/proto/connection.go",
 """		pid, err := c.core.RouteSpawn(c.core.Name(), m.Name, m.Options, c.peer)""",
 """		pid, err := c.core.RouteSpawn(c.core.Name(), m.Name, m.Options, c.core.Name())""", 1),
# ---------------- C16
("C16", "m4-handshake-no-deadline", "net/handshake/handshake.go",
 """	conn.SetReadDeadline(time.Now().Add(timeout))""",
 """	_ = timeout""", 1),
# ---------------- C14
("C14", "m4-unregister-no-nodedown", "node/network.go",
 """	n.node.RouteNodeDown(name, reason)""",
 """	_ = reason""", 1),
# ---------------- C09
("C09", "m4-intensity-window-not-pruned", "act/supervisor.go",
 """	for len(restarts) > 0 && now-restarts[0] > periodMillis {
		restarts = restarts[1:]
	}""",
 """	for len(restarts) > 0 && now-restarts[0] > periodMillis {
		break
	}""", 1),
("C09", "m4-intensity-early-exit-off-by-one", "act/supervisor.go",
 """	if len(restarts) <= intensity {
		return restarts, false
	}""",
 """	if len(restarts) <= intensity+1 {
		return restarts, false
	}""", 1),
# ---------------- C10
("C10", "m4-node-stop-skips-wait", "node/node.go",
 """	if force == false {
		n.waitprocesses.Wait()
	}""",
 """	if force {
		n.waitprocesses.Wait()
	}""", 1),
# ---------------- C11
("C11", "m4-decode-uint16-reads-1-byte", "net/edf/decode.go",
 """	v := binary.BigEndian.Uint16(packet[:2])""",
 """	v := binary.BigEndian.Uint16(packet[1:3])""", 1),
# ---------------- C12
("C12", "m4-reader-alias-words-swapped", "net/proto/connection.go",
 """			idTo := [3]uint64{
				binary.BigEndian.Uint64(buf.B[25:33]),
				binary.BigEndian.Uint64(buf.B[33:41]),
				binary.BigEndian.Uint64(buf.B[41:49]),
			}

			msg, tail, err := edf.Decode(buf.B[49:], c.decodeOptions)""",
 """			idTo := [3]uint64{
				binary.BigEndian.Uint64(buf.B[25:33]),
				binary.BigEndian.Uint64(buf.B[41:49]),
				binary.BigEndian.Uint64(buf.B[33:41]),
			}

			msg, tail, err := edf.Decode(buf.B[49:], c.decodeOptions)""", 1),
# ---------------- C02
("C02", "m4-sendalias-meta-no-wake", "node/core.go",
 """		atomic.AddUint64(&m.messagesIn, 1)
		m.handle()
		return nil
	}

	switch options.Priority {""",
 """		atomic.AddUint64(&m.messagesIn, 1)
		return nil
	}

	switch options.Priority {""", 1),
# ---------------- C06
("C06", "m4-registerevent-store", "node/node.go",
 """	if _, exist := n.events.LoadOrStore(ev, event); exist {
		return token, gen.ErrTaken
	}""",
 """	n.events.Store(ev, event)""", 1),
# ---------------- C19
("C19", "m4-worker-options-mailbox-default", "act/pool.go",
 """			wopt := gen.ProcessOptions{
				MailboxSize: p.options.WorkerMailboxSize,
				LinkParent:  true,
			}
			pid, err := p.Spawn(p.options.WorkerFactory, wopt, p.options.WorkerArgs...)""",
 """			wopt := gen.ProcessOptions{
				LinkParent: true,
			}
			pid, err := p.Spawn(p.options.WorkerFactory, wopt, p.options.WorkerArgs...)""", 1),
]
