#!/usr/bin/env python3
"""Generate single-site seeded variants without touching /repo's working tree.

usage: tools/mutate.py specfile.py [name-filter]
The spec file defines MUTANTS = [(property, name, file, old, new, occurrence), ...].
For each: writes /verif/mutants/<prop>/<name>.diff (unified diff against /repo), checks that the
variant compiles (go build -overlay), runs the property's rule set on it (ergocheck -overlay-diff)
and prints detected / MISSED. Variants that do not compile are dropped.
"""
import difflib, json, os, subprocess, sys, tempfile
from concurrent.futures import ThreadPoolExecutor

ENV = dict(os.environ, GOFLAGS="-mod=mod", GOPROXY="off", GOSUMDB="off", GOTOOLCHAIN="local", GOWORK="off")

def main():
    spec = {}
    exec(open(sys.argv[1]).read(), spec)
    flt = sys.argv[2] if len(sys.argv) > 2 else ""
    todo = [m for m in spec["MUTANTS"] if not (flt and flt not in m[1] and flt != m[0])]
    with ThreadPoolExecutor(max_workers=5) as ex:
        for line in ex.map(one, todo):
            print(line, flush=True)

def one(m):
        prop, name, path, old, new, occ = m
        src = open(f"/repo/{path}").read()
        idx = -1
        for _ in range(occ):
            idx = src.find(old, idx + 1)
            if idx < 0:
                break
        if idx < 0:
            return f"{prop} {name}: OLD TEXT NOT FOUND"
        mutated = src[:idx] + new + src[idx + len(old):]
        diff = "".join(difflib.unified_diff(src.splitlines(True), mutated.splitlines(True), f"a/{path}", f"b/{path}"))
        diff = f"diff --git a/{path} b/{path}\n" + diff
        with tempfile.TemporaryDirectory() as td:
            mf = os.path.join(td, os.path.basename(path))
            open(mf, "w").write(mutated)
            ov = os.path.join(td, "overlay.json")
            json.dump({"Replace": {f"/repo/{path}": mf}}, open(ov, "w"))
            b = subprocess.run(["go", "build", "-overlay", ov, "./..."], cwd="/repo", env=ENV, capture_output=True, text=True)
            if b.returncode != 0:
                return f"{prop} {name}: does not compile: {b.stderr.strip().splitlines()[-1][:150] if b.stderr.strip() else ''}"
        os.makedirs(f"/verif/mutants/{prop}", exist_ok=True)
        out = f"/verif/mutants/{prop}/{name}.diff"
        open(out, "w").write(diff)
        r = subprocess.run(["/verif/bin/ergocheck", "-p", prop, "-overlay-diff", out, "-no-evidence"], capture_output=True, text=True)
        viol = [l.strip() for l in r.stdout.splitlines() if l.strip().startswith(("VIOLATED:", "UNDECIDED:")) or "matched" in l and "fewer" in l]
        if r.returncode == 1:
            return f"{prop} {name}: detected  {viol[0][:140] if viol else ''}"
        elif r.returncode == 0:
            return f"{prop} {name}: MISSED"
        else:
            return f"{prop} {name}: exit {r.returncode} {r.stdout[-200:]}"

main()
