MUTANTS = [
# ---------------- C01
("C01", "m2-meta-panic-double-terminate", "node/meta.go",
 """					old := atomic.SwapInt32(&m.state, int32(gen.MetaStateTerminated))
					if old != int32(gen.MetaStateTerminated) {
						m.p.node.aliases.Delete(m.id)
						reason = gen.TerminateReasonPanic
						m.p.node.RouteTerminateAlias(m.id, reason)
						m.behavior.Terminate(reason)
					}""",
 """					atomic.StoreInt32(&m.state, int32(gen.MetaStateTerminated))
					{
						m.p.node.aliases.Delete(m.id)
						reason = gen.TerminateReasonPanic
						m.p.node.RouteTerminateAlias(m.id, reason)
						m.behavior.Terminate(reason)
					}""", 1),
("C01", "m2-run-error-path-no-guard", "node/process.go",
 """			old := atomic.SwapInt32(&p.state, int32(gen.ProcessStateTerminated))
			if old == int32(gen.ProcessStateTerminated) {
				return
			}

			p.node.unregisterProcess(p, e)
			p.behavior.ProcessTerminate(err)
			return""",
 """			atomic.StoreInt32(&p.state, int32(gen.ProcessStateTerminated))

			p.node.unregisterProcess(p, e)
			p.behavior.ProcessTerminate(err)
			return""", 1),
("C01", "m2-kill-running-tears-down", "node/node.go",
 """	case int32(gen.ProcessStateWaitResponse), int32(gen.ProcessStateRunning):
		// do not unregister process until its goroutine stopped
		return nil
	case int32(gen.ProcessStateTerminated):""",
 """	case int32(gen.ProcessStateWaitResponse):
		// do not unregister process until its goroutine stopped
		return nil
	case int32(gen.ProcessStateTerminated):""", 1),
("C01", "m2-run-reacquire-unconditional", "node/process.go",
 """		// we got a new messages. try to use this goroutine again
		if atomic.CompareAndSwapInt32(
			&p.state,
			int32(gen.ProcessStateSleep),
			int32(gen.ProcessStateRunning),
		) == false {
			// another goroutine is already running
			return
		}
		goto next""",
 """		// we got a new messages. try to use this goroutine again
		atomic.CompareAndSwapInt32(
			&p.state,
			int32(gen.ProcessStateSleep),
			int32(gen.ProcessStateRunning),
		)
		goto next""", 1),
# ---------------- C02
("C02", "m2-meta-release-then-no-recheck", "node/meta.go",
 """		// check if we got a new message
		if m.system.Item() == nil {
			if m.main.Item() == nil {
				// no messages
				return
			}
		}

		// got some... try to use this goroutine""",
 """		if true {
			return
		}

		// got some... try to use this goroutine""", 1),
("C02", "m2-run-recheck-skips-urgent", "node/process.go",
 """			if p.mailbox.System.Item() == nil {
				if p.mailbox.Urgent.Item() == nil {
					if p.mailbox.Log.Item() == nil {
						// inbox is emtpy
						return
					}
				}
			}""",
 """			if p.mailbox.System.Item() == nil {
				if p.mailbox.Log.Item() == nil {
					// inbox is emtpy
					return
				}
			}""", 1),
("C02", "m2-serve-lock-before-push", "net/proto/connection.go",
 """		queue.Push(buf)
		if queue.Lock() {
			go c.handleRecvQueue(queue)
		}""",
 """		locked := queue.Lock()
		queue.Push(buf)
		if locked {
			go c.handleRecvQueue(queue)
		}""", 1),
("C02", "m2-unregister-meta-exit-no-handle", "node/node.go",
 """		if ok := m.system.Push(qm); ok == false {
			p.log.Error("unable to stop meta process %s. mailbox is full", m.id)
		}
		m.handle()
		return true""",
 """		if ok := m.system.Push(qm); ok == false {
			p.log.Error("unable to stop meta process %s. mailbox is full", m.id)
		}
		return true""", 1),
# ---------------- C03
("C03", "m2-meta-exit-to-main", "node/node.go",
 """		p.node.aliases.Delete(m.id)
		if ok := m.system.Push(qm); ok == false {""",
 """		p.node.aliases.Delete(m.id)
		if ok := m.main.Push(qm); ok == false {""", 1),
("C03", "m2-meta-pops-main-first", "node/meta.go",
 """			msg, ok := m.system.Pop()
			if ok == false {
				msg, ok = m.main.Pop()
				if ok == false {
					// no messages
					break
				}
			}""",
 """			msg, ok := m.main.Pop()
			if ok == false {
				msg, ok = m.system.Pop()
				if ok == false {
					// no messages
					break
				}
			}""", 1),
("C03", "m2-exit-message-to-system", "node/core.go",
 """	qm.Type = gen.MailboxMessageTypeExit
	qm.Message = message

	if ok := p.mailbox.Urgent.Push(qm); ok == false {""",
 """	qm.Type = gen.MailboxMessageTypeExit
	qm.Message = message

	if ok := p.mailbox.System.Push(qm); ok == false {""", 1),
# ---------------- C04
("C04", "m2-meta-termination-no-alias-drain", "node/meta.go",
 """			if old != int32(gen.MetaStateTerminated) {
				m.p.node.aliases.Delete(m.id)
				m.p.node.RouteTerminateAlias(m.id, reason)
				m.behavior.Terminate(reason)
			}
			return""",
 """			if old != int32(gen.MetaStateTerminated) {
				m.p.node.aliases.Delete(m.id)
				m.behavior.Terminate(reason)
			}
			return""", 1),
("C04", "m2-unregister-no-alias-drain", "node/node.go",
 """	for _, a := range p.aliases {
		n.RouteTerminateAlias(a, reason)
	}
""",
 """""", 1),
("C04", "m2-unregister-no-consumer-cleanup", "node/node.go",
 """	linkTargets, monitorTargets := n.targetManager.CleanupConsumer(p.pid)
""",
 """	var linkTargets, monitorTargets []any
""", 1),
("C04", "m2-exit-message-type-regular", "node/core.go",
 """	qm.From = from
	qm.Type = gen.MailboxMessageTypeExit
	qm.Message = message

	if ok := p.mailbox.Urgent.Push(qm); ok == false {""",
 """	qm.From = from
	qm.Type = gen.MailboxMessageTypeRegular
	qm.Message = message

	if ok := p.mailbox.Urgent.Push(qm); ok == false {""", 1),
# ---------------- C05
("C05", "m2-unregister-terminate-reason-normal", "node/node.go",
 """	n.RouteTerminatePID(p.pid, reason)
	// drop links and monitors created by this process""",
 """	n.RouteTerminatePID(p.pid, gen.TerminateReasonNormal)
	// drop links and monitors created by this process""", 1),
("C05", "m2-run-zombee-reason-normal", "node/process.go",
 """			p.node.unregisterProcess(p, gen.TerminateReasonKill)
			p.behavior.ProcessTerminate(gen.TerminateReasonKill)
			return
		}
		// check if something left in the inbox and try to handle it""",
 """			p.node.unregisterProcess(p, gen.TerminateReasonNormal)
			p.behavior.ProcessTerminate(gen.TerminateReasonKill)
			return
		}
		// check if something left in the inbox and try to handle it""", 1),
("C05", "m2-meta-exit-reason-dropped", "node/meta.go",
 """				if err, ok := message.Message.(error); ok {
					reason = err
					break
				}""",
 """				if _, ok := message.Message.(error); ok {
					reason = gen.TerminateReasonNormal
					break
				}""", 1),
# ---------------- C06
("C06", "m2-unregister-name-not-deleted", "node/node.go",
 """	if registered {
		n.names.Delete(p.name)
	}
""",
 """""", 1),
("C06", "m2-unregister-aliases-not-deleted", "node/node.go",
 """	for _, a := range p.aliases {
		n.aliases.Delete(a)
	}
""",
 """""", 1),
("C06", "m2-meta-alias-not-deleted", "node/meta.go",
 """			if old != int32(gen.MetaStateTerminated) {
				m.p.node.aliases.Delete(m.id)
				m.p.node.RouteTerminateAlias(m.id, reason)
				m.behavior.Terminate(reason)
			}
			return""",
 """			if old != int32(gen.MetaStateTerminated) {
				m.p.node.RouteTerminateAlias(m.id, reason)
				m.behavior.Terminate(reason)
			}
			return""", 1),
("C06", "m2-unregister-process-not-deleted", "node/node.go",
 """	n.processes.Delete(p.pid)

	// release the name, aliases and events""",
 """	// release the name, aliases and events""", 1),
# ---------------- C07
("C07", "m2-meta-call-reply-wrong-ref", "node/meta.go",
 """				result, reason = m.behavior.HandleCall(message.From, message.Ref, message.Message)
				options := gen.MessageOptions{
					Ref:              message.Ref,""",
 """				result, reason = m.behavior.HandleCall(message.From, message.Ref, message.Message)
				options := gen.MessageOptions{
					Ref:              m.p.node.MakeRef(),""", 1),
("C07", "m2-meta-reply-to-self", "node/meta.go",
 """				if reason == nil {
					if result != nil {
						m.p.node.RouteSendResponse(m.p.pid, message.From, options, result)
					}
					continue
				}""",
 """				if reason == nil {
					if result != nil {
						m.p.node.RouteSendResponse(message.From, m.p.pid, options, result)
					}
					continue
				}""", 1),
# ---------------- C14
("C14", "m2-nodedown-monitors-not-notified", "node/core.go",
 """		// Send down messages to all consumers
		for _, pid := range monitorConsumers {
			n.RouteSendPID(n.corePID, pid, messageOptions, message)
		}""",
 """		// Send down messages to all consumers
		for _, pid := range monitorConsumers[:0] {
			n.RouteSendPID(n.corePID, pid, messageOptions, message)
		}""", 1),
# ---------------- C16
("C16", "m2-read-short-frame-accepted", "net/proto/connection.go",
 """		if l < 8 {
			return nil, fmt.Errorf("received malformed message (len: %d)", l)
		}
""",
 """		if l < 2 {
			return nil, fmt.Errorf("received malformed message (len: %d)", l)
		}
""", 1),
# ---------------- C17
("C17", "m2-start-no-cas", "node/application.go",
 """	if swapped := atomic.CompareAndSwapInt32(&a.state,
		int32(gen.ApplicationStateLoaded), int32(gen.ApplicationStateRunning)); swapped == false {""",
 """	if swapped := atomic.SwapInt32(&a.state, int32(gen.ApplicationStateRunning)) == int32(gen.ApplicationStateLoaded); swapped == false {""", 1),
# ---------------- C20
("C20", "m2-enablejob-sets-disable", "node/cron.go",
 """	cj.disable = false
	c.scheduleJob(cj)
	return nil""",
 """	cj.disable = true
	c.scheduleJob(cj)
	return nil""", 1),
]
