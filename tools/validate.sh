#!/bin/sh
# validates MANIFEST.json and every evidence file against the schemas
python3-vt - <<'PY'
import json,jsonschema,glob,sys
ok=True
try:
    jsonschema.validate(json.load(open('/verif/MANIFEST.json')),json.load(open('/root/.vp/MANIFEST.schema.json')))
    print('manifest valid')
except Exception as e:
    print('MANIFEST INVALID',e); ok=False
es=json.load(open('/root/.vp/EVIDENCE.schema.json'))
for f in sorted(glob.glob('/verif/evidence/C*.json')):
    try:
        jsonschema.validate(json.load(open(f)),es)
    except Exception as e:
        print('EVIDENCE INVALID',f,str(e)[:300]); ok=False
print('evidence files:',len(glob.glob('/verif/evidence/C*.json')))
sys.exit(0 if ok else 1)
PY
