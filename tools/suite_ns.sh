#!/bin/sh
# Run the repository's test suite on a tree (default /repo) with a short per-package timeout and
# compare per-test passes with BASELINE.json's stable set (the package verdict is not
# usable: testing/tests/001_local hangs on the pristine tree, see DESIGN.md section 6).
# usage: tools/suite_ns.sh [tree]  (runs in a private network namespace: no port clashes, no lock needed)
tree="${1:-/repo}"
out=$(mktemp /tmp/suite.XXXXXX.json)
cd "$tree" && unshare -n sh -c "ip link set lo up; exec env GOFLAGS=-mod=mod GOPROXY=off GOSUMDB=off GOTOOLCHAIN=local GOWORK=off \
  go test -json -vet=off -count=1 -timeout 200s ./..." > "$out" 2>/dev/null
python3 - "$out" <<'PY'
import json,sys
passed=set(); failed=set()
for l in open(sys.argv[1]):
    try: e=json.loads(l)
    except Exception: continue
    if e.get('Test') and e.get('Action') in('pass','fail'):
        k=e['Package']+'::'+e['Test']
        (passed if e['Action']=='pass' else failed).add(k)
base=set(json.load(open('/root/.vp/BASELINE.json'))['stable_pass'])
missing=sorted(base-passed)
print('baseline stable:',len(base),'passed now:',len(base&passed),'missing:',len(missing))
for m in missing: print('  MISSING',m, '(failed)' if m in failed else '(not run/hung)')
sys.exit(1 if missing else 0)
PY
rc=$?
rm -f "$out"
exit $rc
