#!/usr/bin/env python3
"""Regenerates /verif/MANIFEST.json from the table below (one entry per claimed property)."""
import json, os, sys

ENV = "GOFLAGS=-mod=mod GOPROXY=off GOSUMDB=off GOTOOLCHAIN=local GOWORK=off"
SETUP = f"cd /verif && {ENV} go build -o bin/ergocheck ./cmd/ergocheck"

# property -> (technique, level text, level note, design ref)
CLAIMED = {}
NOT_APPLICABLE = {}

def claim(pid, technique, text, note, ref):
    CLAIMED[pid] = (technique, text, note, ref)

def na(pid, reason):
    NOT_APPLICABLE[pid] = reason

exec(open(os.path.join(os.path.dirname(__file__), "manifest_table.py")).read())

# the level text is the rule set's own description (single source: internal/rules/cNN.go)
import subprocess
DESC = {}
try:
    out = subprocess.run(["/verif/bin/ergocheck", "-describe"], capture_output=True, text=True, check=True).stdout
    DESC = json.loads(out)
except Exception as e:
    print("warning: bin/ergocheck -describe failed, using the table texts:", e, file=sys.stderr)

checks = []
for pid in sorted(CLAIMED):
    technique, text, note, ref = CLAIMED[pid]
    if pid in DESC:
        d = DESC[pid]
        text = d["explanation"] + " These are structural necessary conditions decided on every site/path of the current source. Not decided: " + "; ".join(d.get("not_decided") or []) + "."
    checks.append({
        "property_id": pid,
        "quick_cmd": f"./bin/ergocheck -p {pid} -tier quick",
        "thorough_cmd": f"./bin/ergocheck -p {pid} -tier thorough",
        "evidence_file": f"/verif/evidence/{pid}.json",
        "replay_cmd_template": "./bin/ergocheck -replay {path}",
        "engine": "ergocheck",
        "level_claimed": {"category": "other", "text": text, "design_ref": ref},
        "level_note": note,
        "technique": technique,
    })

all_ids = [json.loads(l)["id"] for l in open("/verif/properties.jsonl")]
for pid in all_ids:
    if pid not in CLAIMED and pid not in NOT_APPLICABLE:
        print("property", pid, "neither claimed nor listed not_applicable", file=sys.stderr)
        sys.exit(1)

manifest = {
    "version": 1,
    "setup_cmd": SETUP,
    "hooks": {
        "guard": "verif",
        "enable": "no source hooks: the checks analyse /repo's source as it is (static analysis); the tag exists only to satisfy the interface",
        "baseline_off_cmd": f"cd /repo && {ENV} go test -vet=off -count=1 -timeout 25m ./...",
        "source_commits": [],
        "add_only": True,
    },
    "engines": [{
        "name": "ergocheck",
        "path": "/verif/cmd/ergocheck",
        "serves_properties": sorted(CLAIMED),
        "kind_free_text": "repository-specific static analyzer (go/packages type-checked syntax, go/ssa, VTA call graph from golang.org/x/tools v0.29.0): per-property rule instances over CFG paths, value sets, provenance, layouts and tables; never executes the code under analysis",
    }],
    "checks": checks,
    "notes": "Every check decides structural clauses (necessary conditions) of its property on every path/site of /repo's current source; the behavioural remainder is listed per property in DESIGN.md section 4 and in each evidence file under coverage.not_decided. Known findings: /verif/known_findings.json.",
    "not_applicable": [{"property_id": k, "reason": NOT_APPLICABLE[k]} for k in sorted(NOT_APPLICABLE)],
}
json.dump(manifest, open("/verif/MANIFEST.json", "w"), indent=1)
print("MANIFEST.json:", len(checks), "checks,", len(NOT_APPLICABLE), "not applicable")
