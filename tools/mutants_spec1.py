MUTANTS = [
# ---------------- C01
("C01", "m-kill-no-terminated-arm", "node/node.go",
 """	case int32(gen.ProcessStateTerminated):
		atomic.StoreInt32(&p.state, int32(gen.ProcessStateTerminated))
		return nil
	case int32(gen.ProcessStateZombee):""",
 """	case int32(gen.ProcessStateZombee):""", 1),
("C01", "m-meta-handle-load-instead-of-cas", "node/meta.go",
 """	if atomic.CompareAndSwapInt32(&m.state, int32(gen.MetaStateSleep), int32(gen.MetaStateRunning)) == false {
		// running or terminated
		return
	}
""",
 """	if atomic.LoadInt32(&m.state) != int32(gen.MetaStateSleep) {
		// running or terminated
		return
	}
	atomic.StoreInt32(&m.state, int32(gen.MetaStateRunning))
""", 1),
("C01", "m-spawnmeta-start-before-init", "node/process.go",
 """	if err := m.init(); err != nil {
		return alias, err
	}

	// register to be able routing messages to this meta process
	p.metas.Store(m.id, m)
	p.node.aliases.Store(m.id, p)
	go m.start()
""",
 """	// register to be able routing messages to this meta process
	p.metas.Store(m.id, m)
	p.node.aliases.Store(m.id, p)
	go m.start()
	if err := m.init(); err != nil {
		return alias, err
	}
""", 1),
("C01", "m-run-release-by-store", "node/process.go",
 """		if atomic.CompareAndSwapInt32(
			&p.state,
			int32(gen.ProcessStateRunning),
			int32(gen.ProcessStateSleep),
		) == false {
			// process has been killed (was in zombee state)
			old := atomic.SwapInt32(&p.state, int32(gen.ProcessStateTerminated))
			if old == int32(gen.ProcessStateTerminated) {
				return
			}
			p.node.unregisterProcess(p, gen.TerminateReasonKill)
			p.behavior.ProcessTerminate(gen.TerminateReasonKill)
			return
		}
""",
 """		atomic.StoreInt32(&p.state, int32(gen.ProcessStateSleep))
""", 1),
# ---------------- C02
("C02", "m-callpid-no-wake", "node/core.go",
 """	atomic.AddUint64(&p.messagesIn, 1)
	p.run()
	return nil
}

func (n *node) RouteCallProcessID(""",
 """	atomic.AddUint64(&p.messagesIn, 1)
	return nil
}

func (n *node) RouteCallProcessID(""", 1),
("C02", "m-event-push-failure-nil", "node/core.go",
 """	if ok := queue.Push(qm); ok == false {
		return gen.ErrProcessMailboxFull
	}

	atomic.AddUint64(&p.messagesIn, 1)
	p.run()
	return nil
}
""",
 """	if ok := queue.Push(qm); ok == false {
		return nil
	}

	atomic.AddUint64(&p.messagesIn, 1)
	p.run()
	return nil
}
""", 1),
("C02", "m-meta-recheck-main-dropped", "node/meta.go",
 """		if m.system.Item() == nil {
			if m.main.Item() == nil {
				// no messages
				return
			}
		}
""",
 """		if m.system.Item() == nil {
			// no messages
			return
		}
""", 1),
("C02", "m-recvqueue-no-recheck", "net/proto/connection.go",
 """			// but check the queue before the exit this goroutine
			if i := q.Item(); i == nil {
				return
			}

			// there is something in the queue, try to lock it back
			if locked := q.Lock(); locked == false {
				// another goroutine is started
				return
			}
			// get back to work
			continue
""",
 """			return
""", 1),
("C02", "m-fallback-message-wrapped-twice", "node/core.go",
 """		fbm := gen.MessageFallback{
			PID:     p.pid,
			Tag:     p.fallback.Tag,
			Message: message,
		}""",
 """		fbm := gen.MessageFallback{
			PID:     p.pid,
			Tag:     p.fallback.Tag,
			Message: qm,
		}""", 2),
("C02", "m-limitqueue-true-when-full", "lib/mpsc.go",
 """		if q.flush == false {
			return false
		}""",
 """		if q.flush == false {
			return true
		}""", 1),
("C02", "m-isalive-includes-zombee", "node/process.go",
 """	alive := int32(gen.ProcessStateInit) |
		int32(gen.ProcessStateSleep) |
		int32(gen.ProcessStateRunning) |
		int32(gen.ProcessStateWaitResponse)
	return (state & alive) == state
}

func (p *process) isStateSRW()""",
 """	alive := int32(gen.ProcessStateInit) |
		int32(gen.ProcessStateSleep) |
		int32(gen.ProcessStateRunning) |
		int32(gen.ProcessStateZombee) |
		int32(gen.ProcessStateWaitResponse)
	return (state & alive) == state
}

func (p *process) isStateSRW()""", 1),
("C02", "m-sendpid-from-is-to", "node/core.go",
 """	qm := gen.TakeMailboxMessage()
	qm.From = from
	qm.Type = gen.MailboxMessageTypeRegular
	qm.Target = to
	qm.Message = message

	if ok := queue.Push(qm); ok == false {
		if p.fallback.Enable == false {""",
 """	qm := gen.TakeMailboxMessage()
	qm.From = to
	qm.Type = gen.MailboxMessageTypeRegular
	qm.Target = to
	qm.Message = message

	if ok := queue.Push(qm); ok == false {
		if p.fallback.Enable == false {""", 1),
# ---------------- C03
("C03", "m-actor-system-before-urgent", "act/actor.go",
 """			msg, ok := a.mailbox.Urgent.Pop()
			if ok {
				// got new urgent message. handle it
				message = msg.(*gen.MailboxMessage)
				break
			}

			msg, ok = a.mailbox.System.Pop()
			if ok {
				// got new system message. handle it
				message = msg.(*gen.MailboxMessage)
				break
			}
""",
 """			msg, ok := a.mailbox.System.Pop()
			if ok {
				// got new system message. handle it
				message = msg.(*gen.MailboxMessage)
				break
			}

			msg, ok = a.mailbox.Urgent.Pop()
			if ok {
				// got new urgent message. handle it
				message = msg.(*gen.MailboxMessage)
				break
			}
""", 1),
("C03", "m-inspect-to-system", "node/process.go",
 """	if ok := targetp.mailbox.Urgent.Push(qm); ok == false {""",
 """	if ok := targetp.mailbox.System.Push(qm); ok == false {""", 1),
("C03", "m-terminate-alias-down-normal", "node/core.go",
 """	messageDown := gen.MessageDownAlias{
		Alias:  target,
		Reason: reason,
	}
	messageOptions := gen.MessageOptions{
		Priority: gen.MessagePriorityHigh,
	}""",
 """	messageDown := gen.MessageDownAlias{
		Alias:  target,
		Reason: reason,
	}
	messageOptions := gen.MessageOptions{
		Priority: gen.MessagePriorityNormal,
	}""", 1),
("C03", "m-pop-skips-one", "lib/mpsc.go",
 """	atomic.StorePointer((*unsafe.Pointer)(unsafe.Pointer(&q.tail)), unsafe.Pointer(tail_next))
	atomic.AddInt64(&q.length, -1)
	return value, true
}

func (q *queueLimitMPSC) Pop()""",
 """	atomic.StorePointer((*unsafe.Pointer)(unsafe.Pointer(&q.tail)), unsafe.Pointer(tail_next))
	if tail_next.next != nil {
		atomic.StorePointer((*unsafe.Pointer)(unsafe.Pointer(&q.tail)), unsafe.Pointer(tail_next.next))
	}
	atomic.AddInt64(&q.length, -1)
	return value, true
}

func (q *queueLimitMPSC) Pop()""", 1),
# ---------------- C04
("C04", "m-monitorpid-adds-link", "node/core.go",
 """		if err := n.targetManager.AddMonitor(pid, target); err != nil {
			return err
		}
		// the target could have been removed in between (its termination
		// might not have seen this relation). check it once again
		if _, exist := n.processes.Load(target); exist == false {
			if err := n.targetManager.RemoveMonitor(pid, target); err == nil {""",
 """		if err := n.targetManager.AddLink(pid, target); err != nil {
			return err
		}
		// the target could have been removed in between (its termination
		// might not have seen this relation). check it once again
		if _, exist := n.processes.Load(target); exist == false {
			if err := n.targetManager.RemoveMonitor(pid, target); err == nil {""", 1),
("C04", "m-terminate-name-cleanup-wrong-key", "node/core.go",
 """	linkConsumers, monitorConsumers := n.targetManager.CleanupTarget(target)

	for _, pid := range linkConsumers {
		if pid.Node != n.name {
			remote[pid.Node] = true
		}
		n.sendExitMessage(n.corePID, pid, messageExit)
	}

	messageDown := gen.MessageDownProcessID{""",
 """	linkConsumers, monitorConsumers := n.targetManager.CleanupTarget(target.Name)

	for _, pid := range linkConsumers {
		if pid.Node != n.name {
			remote[pid.Node] = true
		}
		n.sendExitMessage(n.corePID, pid, messageExit)
	}

	messageDown := gen.MessageDownProcessID{""", 1),
("C04", "m-cleanuptarget-keeps-relations", "gen/default_target_manager.go",
 """				linkConsumers = append(linkConsumers, key.consumer)
			}
			delete(tm.relations, key)
		}""",
 """				linkConsumers = append(linkConsumers, key.consumer)
			}
		}""", 1),
("C04", "m-unlinkpid-removes-monitor", "node/core.go",
 """		return n.targetManager.RemoveLink(pid, target)
	}

	// remote target
	connection, err := n.network.GetConnection(target.Node)
	if err != nil {
		return err
	}

	if err := connection.UnlinkPID(pid, target); err != nil {""",
 """		return n.targetManager.RemoveMonitor(pid, target)
	}

	// remote target
	connection, err := n.network.GetConnection(target.Node)
	if err != nil {
		return err
	}

	if err := connection.UnlinkPID(pid, target); err != nil {""", 1),
("C04", "m-deletealias-no-drain", "node/process.go",
 """	p.node.RouteTerminateAlias(alias, gen.ErrUnregistered)

	for i, a := range p.aliases {""",
 """	for i, a := range p.aliases {""", 1),
("C04", "m-terminate-pid-exit-reason-normal", "node/core.go",
 """	messageExit := gen.MessageExitPID{
		PID:    target,
		Reason: reason,
	}
	linkConsumers, monitorConsumers := n.targetManager.CleanupTarget(target)""",
 """	messageExit := gen.MessageExitPID{
		PID:    target,
		Reason: gen.TerminateReasonNormal,
	}
	linkConsumers, monitorConsumers := n.targetManager.CleanupTarget(target)""", 1),
("C04", "m-linkalias-checks-processes", "node/core.go",
 """		if _, exist := n.aliases.Load(target); exist == false {
			return gen.ErrAliasUnknown
		}
		return n.targetManager.AddLink(pid, target)""",
 """		if _, exist := n.processes.Load(target); exist == false {
			return gen.ErrAliasUnknown
		}
		return n.targetManager.AddLink(pid, target)""", 1),
# ---------------- C05
("C05", "m-kill-reason-shutdown", "node/node.go",
 """	n.unregisterProcess(p, gen.TerminateReasonKill)

	go func() {""",
 """	n.unregisterProcess(p, gen.TerminateReasonShutdown)

	go func() {""", 1),
("C05", "m-actor-trap-parent-exit", "act/actor.go",
 """				if a.trap && message.From != a.Parent() {""",
 """				if a.trap {""", 1),
("C05", "m-pool-exitnode-reason-unknown", "act/pool.go",
 """				return fmt.Errorf("%s: %w", exit.Name, gen.ErrNoConnection)""",
 """				return fmt.Errorf("%s: %w", exit.Name, gen.ErrUnknown)""", 1),
("C05", "m-actor-recover-reason-kill", "act/actor.go",
 """				a.Log().Panic("Actor terminated. Panic reason: %#v at %s[%s:%d]",
					r, runtime.FuncForPC(pc).Name(), fn, line)
				rr = gen.TerminateReasonPanic""",
 """				a.Log().Panic("Actor terminated. Panic reason: %#v at %s[%s:%d]",
					r, runtime.FuncForPC(pc).Name(), fn, line)
				rr = gen.TerminateReasonKill""", 1),
("C05", "m-runner-panic-reason-kill", "node/process.go",
 """					p.node.unregisterProcess(p, gen.TerminateReasonPanic)
					p.behavior.ProcessTerminate(gen.TerminateReasonPanic)""",
 """					p.node.unregisterProcess(p, gen.TerminateReasonKill)
					p.behavior.ProcessTerminate(gen.TerminateReasonPanic)""", 1),
("C05", "m-webworker-exit-alias-unwrapped-format", "act/web_worker.go",
 """		return fmt.Errorf("%s: %w", exit.Alias, exit.Reason)""",
 """		return fmt.Errorf("%s: %s", exit.Alias, exit.Reason)""", 1),
# ---------------- C06
("C06", "m-spawn-names-store", "node/node.go",
 """		if _, exist := n.names.LoadOrStore(options.Register, p); exist {
			return p.pid, gen.ErrTaken
		}""",
 """		n.names.Store(options.Register, p)""", 1),
("C06", "m-registeralias-store", "node/node.go",
 """	if _, exist := n.aliases.LoadOrStore(alias, p); exist {
		return gen.ErrTaken
	}
	return nil""",
 """	n.aliases.Store(alias, p)
	return nil""", 1),
("C06", "m-unregister-events-not-deleted", "node/node.go",
 """	p.events.Range(func(k, _ any) bool {
		n.events.Delete(gen.Event{Name: k.(gen.Atom), Node: p.node.name})
		return true
	})
""",
 """""", 1),
("C06", "m-makeref-32bit", "node/core.go",
 """	ref.ID[0] = id
""",
 """	ref.ID[0] = id & 0xffffffff
""", 1),
("C06", "m-pid-truncated", "node/node.go",
 """		ID:       atomic.AddUint64(&n.nextID, 1),""",
 """		ID:       uint64(uint32(atomic.AddUint64(&n.nextID, 1))),""", 1),
("C06", "m-registername-no-rollback", "node/node.go",
 """	if _, exist := n.names.LoadOrStore(name, p); exist {
		p.registered.Store(false)
		return gen.ErrTaken
	}""",
 """	if _, exist := n.names.LoadOrStore(name, p); exist {
		return gen.ErrTaken
	}""", 1),
# ---------------- C07

("C07", "m-response-blocking-send", "node/core.go",
 """	select {
	case p.response <- response{ref: options.Ref, message: message}:
		atomic.AddUint64(&p.messagesIn, 1)
		return nil
	default:
		// process doesn't wait for a response anymore
		return gen.ErrResponseIgnored
	}""",
 """	p.response <- response{ref: options.Ref, message: message}
	atomic.AddUint64(&p.messagesIn, 1)
	return nil""", 1),
("C07", "m-actor-reply-zero-ref", "act/actor.go",
 """			a.SendResponse(message.From, message.Ref, result)

		case gen.MailboxMessageTypeEvent:""",
 """			a.SendResponse(message.From, gen.Ref{}, result)

		case gen.MailboxMessageTypeEvent:""", 1),
("C07", "m-callpid-waits-other-ref", "node/process.go",
 """	return p.waitResponse(options.Ref, timeout)
}

func (p *process) CallProcessID(""",
 """	return p.waitResponse(p.node.MakeRef(), timeout)
}

func (p *process) CallProcessID(""", 1),
# ---------------- C10
("C10", "m-pool-addworkers-nolink", "act/pool.go",
 """	wopt := gen.ProcessOptions{
		MailboxSize: p.options.WorkerMailboxSize,
		LinkParent:  true,
	}
	for i := 0; i < n; i++ {""",
 """	wopt := gen.ProcessOptions{
		MailboxSize: p.options.WorkerMailboxSize,
	}
	for i := 0; i < n; i++ {""", 1),
("C10", "m-stop-network-before-wait", "node/node.go",
 """	if force == false {
		n.waitprocesses.Wait()
	}

	n.NetworkStop()""",
 """	n.NetworkStop()

	if force == false {
		n.waitprocesses.Wait()
	}
""", 1),
("C10", "m-appstop-timeout-nil", "node/application.go",
 """	case <-time.After(timeout):
		return gen.ErrApplicationStopping""",
 """	case <-time.After(timeout):
		return nil""", 1),
("C10", "m-stop-exit-from-core", "node/node.go",
 """		n.RouteSendExit(p.parent, p.pid, gen.TerminateReasonShutdown)""",
 """		n.RouteSendExit(n.corePID, p.pid, gen.TerminateReasonShutdown)""", 1),
# ---------------- C11

("C11", "m-writeatom-threshold-256", "net/edf/encode.go",
 """			// atom cache id MUST be > 255, otherwise encode as a regular atom
			if id > 255 {""",
 """			// atom cache id MUST be > 255, otherwise encode as a regular atom
			if id > 256 {""", 1),
("C11", "m-encodestring-limit-uint32", "net/edf/encode.go",
 """	if lenString > math.MaxUint16 {""",
 """	if lenString > math.MaxUint32 {""", 1),
("C11", "m-encodeint16-4bytes", "net/edf/encode.go",
 """	buf := b.Extend(2)
	binary.BigEndian.PutUint16(buf, uint16(value.Int()))""",
 """	buf := b.Extend(4)
	binary.BigEndian.PutUint16(buf, uint16(value.Int()))""", 1),
("C11", "m-handshake-decode-cache-from-local", "net/handshake/start.go",
 """		DecodeAtomCache: h.makeDecodeAtomCache(intro2.AtomCache),""",
 """		DecodeAtomCache: h.makeDecodeAtomCache(intro.AtomCache),""", 1),
# ---------------- C12
("C12", "m-sendalias-id-words-swapped", "net/proto/connection.go",
 """	binary.BigEndian.PutUint64(buf.B[33:41], to.ID[1])
	binary.BigEndian.PutUint64(buf.B[41:49], to.ID[2])

	return c.send(buf, order, options.Compression)""",
 """	binary.BigEndian.PutUint64(buf.B[33:41], to.ID[2])
	binary.BigEndian.PutUint64(buf.B[41:49], to.ID[1])

	return c.send(buf, order, options.Compression)""", 1),
("C12", "m-reader-requestpid-offset", "net/proto/connection.go",
 """			msg, tail, err := edf.Decode(buf.B[49:], c.decodeOptions)""",
 """			msg, tail, err := edf.Decode(buf.B[48:], c.decodeOptions)""", 2),
("C12", "m-ack-to-wrong-party", "net/proto/connection.go",
 """			opts.Ref.ID[0] = importantRef
			c.SendResponseError(to, from, opts, err)""",
 """			opts.Ref.ID[0] = importantRef
			c.SendResponseError(from, to, opts, err)""", 1),
("C12", "m-read-cut-plus-one", "net/proto/connection.go",
 """		buf.B = buf.B[:l]

		return tail, nil""",
 """		buf.B = buf.B[:l+1]

		return tail, nil""", 1),
("C12", "m-reader-from-local-creation", "net/proto/connection.go",
 """			from := gen.PID{
				Node:     c.peer,
				ID:       idFrom,
				Creation: c.peer_creation,
			}
			to := gen.PID{
				Node:     c.core.Name(),
				ID:       idTO,
				Creation: c.core.Creation(),
			}

			opts := gen.MessageOptions{
				Priority: priority,
			}

			err = c.core.RouteSendPID(from, to, opts, msg)""",
 """			from := gen.PID{
				Node:     c.core.Name(),
				ID:       idFrom,
				Creation: c.core.Creation(),
			}
			to := gen.PID{
				Node:     c.core.Name(),
				ID:       idTO,
				Creation: c.core.Creation(),
			}

			opts := gen.MessageOptions{
				Priority: priority,
			}

			err = c.core.RouteSendPID(from, to, opts, msg)""", 1),
# ---------------- C13
("C13", "m-protoorder-mod-256", "net/proto/types.go",
 """	return uint8(id%255) + 1""",
 """	return uint8(id % 256)""", 1),
("C13", "m-serve-ignores-order-byte", "net/proto/connection.go",
 """		if order := int(buf.B[6]); order > 0 {
			qN = order % recvNQ
		}""",
 """		if order := int(buf.B[6]); order > 0 {
			qN = (order + recvN) % recvNQ
		}""", 1),
("C13", "m-sendresponse-order-zero", "net/proto/connection.go",
 """func (c *connection) SendResponse(from gen.PID, to gen.PID, options gen.MessageOptions, response any) error {
	if to.Creation != c.peer_creation {
		return gen.ErrProcessIncarnation
	}
	order := protoOrder(from.ID)""",
 """func (c *connection) SendResponse(from gen.PID, to gen.PID, options gen.MessageOptions, response any) error {
	if to.Creation != c.peer_creation {
		return gen.ErrProcessIncarnation
	}
	order := uint8(0)""", 1),
("C13", "m-worker-started-without-lock", "net/proto/connection.go",
 """		queue.Push(buf)
		if queue.Lock() {
			go c.handleRecvQueue(queue)
		}""",
 """		queue.Push(buf)
		queue.Lock()
		go c.handleRecvQueue(queue)""", 1),
# ---------------- C14
("C14", "m-serve-unregister-only-on-error", "node/network.go",
 """	err := proto.Serve(conn, redial)
	n.unregisterConnection(name, err)
	conn.Terminate(err)""",
 """	err := proto.Serve(conn, redial)
	if err != nil {
		n.unregisterConnection(name, err)
	}
	conn.Terminate(err)""", 1),
("C14", "m-nodedown-reason-param", "node/core.go",
 """			message = gen.MessageDownPID{
				PID:    t,
				Reason: gen.ErrNoConnection,
			}""",
 """			message = gen.MessageDownPID{
				PID:    t,
				Reason: reason,
			}""", 1),
("C14", "m-cleanupnode-no-alias-arm", "gen/default_target_manager.go",
 """		case Alias:
			if tt.Node == node {
				shouldDelete = true
			}
		case Event:""",
 """		case Event:""", 1),
("C14", "m-linkalias-no-incarnation-guard", "net/proto/connection.go",
 """func (c *connection) LinkAlias(pid gen.PID, target gen.Alias) error {
	if target.Creation != c.peer_creation {
		return gen.ErrProcessIncarnation
	}""",
 """func (c *connection) LinkAlias(pid gen.PID, target gen.Alias) error {""", 1),
("C14", "m-sendpid-no-incarnation-guard", "net/proto/connection.go",
 """func (c *connection) SendPID(from gen.PID, to gen.PID, options gen.MessageOptions, message any) error {
	if to.Creation != c.peer_creation {
		return gen.ErrProcessIncarnation
	}
""",
 """func (c *connection) SendPID(from gen.PID, to gen.PID, options gen.MessageOptions, message any) error {
""", 1),
# ---------------- C15
("C15", "m-accept-no-intro-digest", "net/handshake/accept.go",
 """	hash := sha256.New()
	hash.Write([]byte(fmt.Sprintf("%s:%s", salt, options.Cookie)))
	if intro.Digest != fmt.Sprintf("%x", hash.Sum(nil)) {
		return result, fmt.Errorf("incorrect digest (accept stage 'introduce')")
	}
""",
 """""", 1),
("C15", "m-start-digest-without-cookie", "net/handshake/start.go",
 """	hash.Write([]byte(fmt.Sprintf("%s:%s:%s", hello2.Salt, hello.Digest, options.Cookie)))

	if hello2.Digest != fmt.Sprintf("%x", hash.Sum(nil)) {""",
 """	hash.Write([]byte(fmt.Sprintf("%s:%s", hello2.Salt, hello.Digest)))

	if hello2.Digest != fmt.Sprintf("%x", hash.Sum(nil)) {""", 1),
("C15", "m-connect-no-name-check", "node/network.go",
 """	if result.Peer != name {
		conn.Close()
		return nil, fmt.Errorf("remote node %s introduced itself as %s", name, result.Peer)
	}
""",
 """""", 1),
("C15", "m-routespawn-ignores-permission", "node/core.go",
 """	factory, err := n.network.getEnabledSpawn(name, source)
	if err != nil {
		return empty, err
	}
""",
 """	factory, _ := n.network.getEnabledSpawn(name, source)
	if factory == nil {
		return empty, gen.ErrNameUnknown
	}
""", 1),
("C15", "m-flags-unmarshal-wrong-bit", "gen/network.go",
 """	nf.EnableRemoteSpawn = (flags & 2) > 0""",
 """	nf.EnableRemoteSpawn = (flags & 4) > 0""", 1),
("C15", "m-remotespawn-env-unconditional", "node/process.go",
 """	if p.node.Security().ExposeEnvRemoteSpawn {
		opts.ParentEnv = p.EnvList()
	}
	pid, err := p.node.RouteSpawn(node, name, opts, p.Node().Name())
	if err != nil {
		return gen.PID{}, err
	}

	if opts.LinkChild {
		// method LinkPID is not allowed to be used in the initialization state,
		// so we use linking manually.
		p.node.targetManager.AddLink(p.pid, pid)
	}

	return pid, err
}

func (p *process) RemoteSpawnRegister(""",
 """	opts.ParentEnv = p.EnvList()
	pid, err := p.node.RouteSpawn(node, name, opts, p.Node().Name())
	if err != nil {
		return gen.PID{}, err
	}

	if opts.LinkChild {
		// method LinkPID is not allowed to be used in the initialization state,
		// so we use linking manually.
		p.node.targetManager.AddLink(p.pid, pid)
	}

	return pid, err
}

func (p *process) RemoteSpawnRegister(""", 1),
("C15", "m-getenabledspawn-any-node", "node/network.go",
 """	if len(enable.nodes) > 0 {
		allowed = enable.nodes[source]
	}
	enable.RUnlock()
	if allowed == false {
		return nil, gen.ErrNotAllowed
	}
	return enable.factory, nil""",
 """	enable.RUnlock()
	if allowed == false {
		return nil, gen.ErrNotAllowed
	}
	return enable.factory, nil""", 1),
# ---------------- C16
("C16", "m-readmessage-no-cap", "net/handshake/handshake.go",
 """		if l > math.MaxUint16 {
			return nil, nil, fmt.Errorf("too long handshake message")
		}
""",
 """		_ = math.MaxUint16
""", 1),
("C16", "m-slice-decoder-no-count-check", "net/edf/decode.go",
 """			if n > len(packet) {
				return nil, nil, fmt.Errorf("incorrect data length")
			}

			x := reflect.MakeSlice(vtype, n, n)""",
 """			x := reflect.MakeSlice(vtype, n, n)""", 1),
("C16", "m-read-no-maxsize", "net/proto/connection.go",
 """		if c.node_maxmessagesize > 0 && l > c.node_maxmessagesize {
			return nil, fmt.Errorf("received too long message (len: %d, limit: %d)", l, c.node_maxmessagesize)
		}
""",
 """""", 1),
("C16", "m-decode-recover-no-error", "net/edf/decode.go",
 """			if r := recover(); r != nil {
				ret = fmt.Errorf("%v", r)
			}""",
 """			if r := recover(); r != nil {
				_ = r
			}""", 1),
("C16", "m-serve-indexes-type-byte-9", "net/proto/connection.go",
 """		if buf.B[1] != protoVersion {""",
 """		if buf.B[1] != protoVersion || buf.B[9] == 255 {""", 1),
# ---------------- C17
("C17", "m-start-rollback-keeps-running", "node/application.go",
 """			atomic.StoreInt32(&a.state, int32(gen.ApplicationStateLoaded))
			return err""",
 """			return err""", 1),
("C17", "m-transient-no-reason-check", "node/application.go",
 """		if reason == gen.TerminateReasonNormal || reason == gen.TerminateReasonShutdown {
			// do nothing
			break
		}
		a.node.Log().Info""",
 """		if reason == gen.TerminateReasonNormal {
			// do nothing
			break
		}
		a.node.Log().Info""", 1),
("C17", "m-terminate-callback-before-empty", "node/application.go",
 """	if a.group.Len() > 0 {
		// waiting for the last application member to be terminated
		return
	}
""",
 """	if a.group.Len() > 1 {
		// waiting for the last application member to be terminated
		return
	}
""", 1),
# ---------------- C18
("C18", "m-buffer-after-fanout", "node/core.go",
 """		if event.last != nil {
			event.last.Push(message)
		}
	}

	consumers := n.targetManager.GetConsumersForTarget(message.Event)""",
 """		defer func() {
			if event.last != nil {
				event.last.Push(message)
			}
		}()
	}

	consumers := n.targetManager.GetConsumersForTarget(message.Event)""", 1),
("C18", "m-unlink-threshold-one", "node/core.go",
 """		c := atomic.AddInt32(&event.consumers, -1)
		if event.notify == false || c > 0 {
			return nil
		}""",
 """		c := atomic.AddInt32(&event.consumers, -1)
		if event.notify == false || c > 1 {
			return nil
		}""", 1),
("C18", "m-unregisterevent-anyone", "node/node.go",
 """	event := value.(*eventOwner)
	if event.producer != pid {
		return gen.ErrEventOwner
	}
""",
 """	event := value.(*eventOwner)
	_ = event
""", 1),
("C18", "m-snapshot-before-relation", "node/core.go",
 """		event := value.(*eventOwner)
		if err := n.targetManager.AddMonitor(pid, target); err != nil {
			return nil, err
		}
		// the target could have been removed in between (its termination
		// might not have seen this relation). check it once again
		if _, exist := n.events.Load(target); exist == false {
			if err := n.targetManager.RemoveMonitor(pid, target); err == nil {
				return nil, gen.ErrEventUnknown
			}
			// has been handled by the termination. the down message is on its way
			return nil, nil
		}

		if event.last != nil {
			// load last N events
			item := event.last.Item()
			for {
				if item == nil {
					break
				}
				v := item.Value().(gen.MessageEvent)
				lastEventMessages = append(lastEventMessages, v)
				item = item.Next()
			}
		}
""",
 """		event := value.(*eventOwner)

		if event.last != nil {
			// load last N events
			item := event.last.Item()
			for {
				if item == nil {
					break
				}
				v := item.Value().(gen.MessageEvent)
				lastEventMessages = append(lastEventMessages, v)
				item = item.Next()
			}
		}
		if err := n.targetManager.AddMonitor(pid, target); err != nil {
			return nil, err
		}
		// the target could have been removed in between (its termination
		// might not have seen this relation). check it once again
		if _, exist := n.events.Load(target); exist == false {
			if err := n.targetManager.RemoveMonitor(pid, target); err == nil {
				return nil, gen.ErrEventUnknown
			}
			// has been handled by the termination. the down message is on its way
			return nil, nil
		}
""", 1),
# ---------------- C19
("C19", "m-forward-exit-type-too", "act/pool.go",
 """				if message.Type < gen.MailboxMessageTypeExit {""",
 """				if message.Type <= gen.MailboxMessageTypeExit {""", 1),
("C19", "m-forward-replacement-not-pushed", "act/pool.go",
 """			p.Forward(pid, message, gen.MessagePriorityNormal)
			p.pool.Push(pid)
			p.forwarded++
			p.restarts++
			return""",
 """			p.Forward(pid, message, gen.MessagePriorityNormal)
			p.forwarded++
			p.restarts++
			return""", 1),
# ---------------- C20
("C20", "m-hour-max-24", "node/cron_parse.go",
 """		min:  0,
		max:  23,""",
 """		min:  0,
		max:  24,""", 1),
("C20", "m-day-month-fields-swapped", "node/cron_parse.go",
 """	m, err = cronParseSpecField(fields[2], cronFieldDay)""",
 """	m, err = cronParseSpecField(fields[3], cronFieldDay)""", 1),
("C20", "m-removejob-not-disabled", "node/cron.go",
 """	cj.disable = true
	delete(c.jobs, name)
	return nil""",
 """	delete(c.jobs, name)
	_ = cj
	return nil""", 1),
("C20", "m-hour-mask-tested-against-minute", "node/cron_parse.go",
 """		h := t.Hour()""",
 """		h := t.Minute()""", 1),
("C20", "m-day-weekday-and-rule", "node/cron_parse.go",
 """		if csm.Day.IsRunAt(t) == false && csm.WeekDay.IsRunAt(t) == false {""",
 """		if csm.Day.IsRunAt(t) == false || csm.WeekDay.IsRunAt(t) == false {""", 1),
("C20", "m-addjob-ignores-parse-error", "node/cron.go",
 """	mask, err := cronParseSpec(job)
	if err != nil {
		return err
	}
""",
 """	mask, _ := cronParseSpec(job)
""", 1),
]
