// Package load loads the ergo tree (type-checked syntax, SSA, call graph) for the rules.
package load

import (
	"fmt"
	"go/ast"
	"go/token"
	"go/types"
	"os"
	"sort"
	"strings"
	"sync"
	"time"

	"golang.org/x/tools/go/callgraph"
	"golang.org/x/tools/go/callgraph/cha"
	"golang.org/x/tools/go/callgraph/vta"
	"golang.org/x/tools/go/packages"
	"golang.org/x/tools/go/ssa"
	"golang.org/x/tools/go/ssa/ssautil"
)

const Module = "ergo.services/ergo"

// Config selects the tree and the build configuration.
type Config struct {
	Dir     string            // tree root (default /repo, or $ERGO_REPO)
	Tags    string            // extra build tags
	GOARCH  string            // optional
	Overlay map[string][]byte // absolute path -> content
}

// Program is everything the rules look at.
type Program struct {
	Cfg      Config
	Fset     *token.FileSet
	Roots    []*packages.Package          // module packages (non-test), sorted
	ByPath   map[string]*packages.Package // all packages
	SSA      *ssa.Program
	SSAPkg   map[string]*ssa.Package
	SrcFuncs []*ssa.Function // functions (incl. anonymous) whose source is in the module

	cgOnce sync.Once
	cg     *callgraph.Graph

	LoadSeconds float64
	NumPkgsAll  int
}

func RepoDir() string {
	if d := os.Getenv("ERGO_REPO"); d != "" {
		return d
	}
	return "/repo"
}

// Load type-checks ./... of the tree and builds SSA. Any type error is fatal:
// nothing can be decided on a tree that does not compile.
func Load(cfg Config) (*Program, error) {
	t0 := time.Now()
	if cfg.Dir == "" {
		cfg.Dir = RepoDir()
	}
	env := append(os.Environ(),
		"GOFLAGS=-mod=mod", "GOPROXY=off", "GOSUMDB=off", "GOTOOLCHAIN=local", "GOWORK=off")
	if cfg.GOARCH != "" {
		env = append(env, "GOARCH="+cfg.GOARCH)
	}
	pc := &packages.Config{
		Mode:    packages.LoadAllSyntax,
		Dir:     cfg.Dir,
		Env:     env,
		Tests:   false,
		Overlay: cfg.Overlay,
	}
	if cfg.Tags != "" {
		pc.BuildFlags = []string{"-tags=" + cfg.Tags}
	}
	pkgs, err := packages.Load(pc, "./...")
	if err != nil {
		return nil, fmt.Errorf("load: %w", err)
	}
	p := &Program{Cfg: cfg, ByPath: map[string]*packages.Package{}, SSAPkg: map[string]*ssa.Package{}}
	var errs []string
	packages.Visit(pkgs, nil, func(pk *packages.Package) {
		p.ByPath[pk.PkgPath] = pk
		p.NumPkgsAll++
		for _, e := range pk.Errors {
			errs = append(errs, e.Error())
		}
	})
	if len(errs) > 0 {
		sort.Strings(errs)
		if len(errs) > 10 {
			errs = errs[:10]
		}
		return nil, fmt.Errorf("tree does not type-check: %s", strings.Join(errs, "; "))
	}
	for _, pk := range pkgs {
		if pk.PkgPath == Module || strings.HasPrefix(pk.PkgPath, Module+"/") {
			if len(pk.Syntax) == 0 {
				continue
			}
			p.Roots = append(p.Roots, pk)
		}
	}
	sort.Slice(p.Roots, func(i, j int) bool { return p.Roots[i].PkgPath < p.Roots[j].PkgPath })
	if len(p.Roots) == 0 {
		return nil, fmt.Errorf("no packages of %s loaded from %s", Module, cfg.Dir)
	}
	p.Fset = p.Roots[0].Fset

	prog, spkgs := ssautil.AllPackages(pkgs, ssa.InstantiateGenerics)
	prog.Build()
	p.SSA = prog
	for i, sp := range spkgs {
		if sp != nil {
			p.SSAPkg[pkgs[i].PkgPath] = sp
		}
	}
	for _, sp := range prog.AllPackages() {
		if _, ok := p.SSAPkg[sp.Pkg.Path()]; !ok {
			p.SSAPkg[sp.Pkg.Path()] = sp
		}
	}
	// source functions of the module
	all := ssautil.AllFunctions(prog)
	normalizeOperands(all)
	for fn := range all {
		if fn.Pkg == nil && fn.Parent() == nil {
			if fn.Origin() == nil {
				continue
			}
		}
		pk := fn.Package()
		if pk == nil && fn.Parent() != nil {
			pk = fn.Parent().Package()
		}
		if pk == nil || pk.Pkg == nil {
			continue
		}
		pp := pk.Pkg.Path()
		if pp != Module && !strings.HasPrefix(pp, Module+"/") {
			continue
		}
		if strings.HasPrefix(pp, Module+"/testing") {
			continue // test harness library, not part of the decided program
		}
		if fn.Synthetic != "" && fn.Syntax() == nil {
			continue
		}
		if fn.Blocks == nil {
			continue
		}
		p.SrcFuncs = append(p.SrcFuncs, fn)
	}
	sort.Slice(p.SrcFuncs, func(i, j int) bool {
		a, b := p.SrcFuncs[i], p.SrcFuncs[j]
		if a.String() != b.String() {
			return a.String() < b.String()
		}
		return a.Pos() < b.Pos()
	})
	p.LoadSeconds = time.Since(t0).Seconds()
	return p, nil
}

// CallGraph builds (once) the VTA call graph seeded with CHA.
func (p *Program) CallGraph() *callgraph.Graph {
	p.cgOnce.Do(func() {
		p.cg = vta.CallGraph(ssautil.AllFunctions(p.SSA), cha.CallGraph(p.SSA))
	})
	return p.cg
}

// Pkg returns the module package with the given path suffix ("node", "net/proto").
func (p *Program) Pkg(suffix string) *packages.Package {
	return p.ByPath[Module+"/"+suffix]
}

func (p *Program) SPkg(suffix string) *ssa.Package {
	return p.SSAPkg[Module+"/"+suffix]
}

// Func finds a package-level function or method by "pkgsuffix", "Recv" (may be ""), "name".
func (p *Program) Func(pkgSuffix, recv, name string) *ssa.Function {
	sp := p.SPkg(pkgSuffix)
	if sp == nil {
		return nil
	}
	if recv == "" {
		return sp.Func(name)
	}
	tn, _ := sp.Pkg.Scope().Lookup(recv).(*types.TypeName)
	if tn == nil {
		return nil
	}
	for _, t := range []types.Type{tn.Type(), types.NewPointer(tn.Type())} {
		ms := p.SSA.MethodSets.MethodSet(t)
		for i := 0; i < ms.Len(); i++ {
			if ms.At(i).Obj().Name() == name {
				fn := p.SSA.MethodValue(ms.At(i))
				if fn != nil && fn.Synthetic == "" {
					return fn
				}
				if fn != nil {
					// wrapper for promoted/value method: find the declared one
					if d, ok := ms.At(i).Obj().(*types.Func); ok {
						if f := p.SSA.FuncValue(d); f != nil {
							return f
						}
					}
				}
			}
		}
	}
	return nil
}

// Named looks up a named type in a module package.
func (p *Program) Named(pkgSuffix, name string) *types.Named {
	pk := p.Pkg(pkgSuffix)
	if pk == nil {
		return nil
	}
	tn, _ := pk.Types.Scope().Lookup(name).(*types.TypeName)
	if tn == nil {
		return nil
	}
	n, _ := tn.Type().(*types.Named)
	return n
}

// Pos renders a position relative to the tree root.
func (p *Program) Pos(pos token.Pos) string {
	if !pos.IsValid() {
		return "-"
	}
	ps := p.Fset.Position(pos)
	f := strings.TrimPrefix(ps.Filename, p.Cfg.Dir+"/")
	return fmt.Sprintf("%s:%d", f, ps.Line)
}

// FuncDecl returns the syntax of a declared function "Recv.name" / "name" in a package.
func (p *Program) FuncDecl(pkgSuffix, recv, name string) (*ast.FuncDecl, *packages.Package) {
	pk := p.Pkg(pkgSuffix)
	if pk == nil {
		return nil, nil
	}
	for _, f := range pk.Syntax {
		for _, d := range f.Decls {
			fd, ok := d.(*ast.FuncDecl)
			if !ok || fd.Name.Name != name {
				continue
			}
			r := ""
			if fd.Recv != nil && len(fd.Recv.List) == 1 {
				t := fd.Recv.List[0].Type
				if s, ok := t.(*ast.StarExpr); ok {
					t = s.X
				}
				if id, ok := t.(*ast.Ident); ok {
					r = id.Name
				}
			}
			if r == recv {
				return fd, pk
			}
		}
	}
	return nil, pk
}

// normalizeOperands puts binary operations with a constant on the LEFT into the orientation
// the rules read ("value op constant"): `0 == x` becomes `x == 0`, `3 < x` becomes `x > 3`,
// `1 + x` becomes `x + 1`. The meaning is unchanged (the operator is mirrored for the ordered
// comparisons); only the in-memory SSA is touched. It keeps a purely notational choice of the
// source from looking like a missing guard.
func normalizeOperands(all map[*ssa.Function]bool) {
	mirror := map[token.Token]token.Token{
		token.EQL: token.EQL, token.NEQ: token.NEQ,
		token.LSS: token.GTR, token.GTR: token.LSS,
		token.LEQ: token.GEQ, token.GEQ: token.LEQ,
		token.ADD: token.ADD, token.MUL: token.MUL,
		token.AND: token.AND, token.OR: token.OR, token.XOR: token.XOR,
	}
	for fn := range all {
		for _, b := range fn.Blocks {
			for _, in := range b.Instrs {
				bo, ok := in.(*ssa.BinOp)
				if !ok {
					continue
				}
				op, known := mirror[bo.Op]
				if !known {
					continue
				}
				if _, lc := bo.X.(*ssa.Const); !lc {
					continue
				}
				if _, rc := bo.Y.(*ssa.Const); rc {
					continue
				}
				if bo.Op == token.ADD {
					// string concatenation is not commutative
					if bt, isB := bo.X.Type().Underlying().(*types.Basic); isB && bt.Info()&types.IsString != 0 {
						continue
					}
				}
				bo.X, bo.Y, bo.Op = bo.Y, bo.X, op
			}
		}
	}
}
