// Package core holds obligations, verdicts, evidence and known-findings plumbing.
package core

import (
	"encoding/json"
	"fmt"
	"os"
	"path/filepath"
	"sort"
	"strings"
)

type Verdict string

const (
	Discharged Verdict = "discharged"
	Violated   Verdict = "violated"
	Undecided  Verdict = "undecided"
)

// Obligation is one rule instance with its verdict.
type Obligation struct {
	Rule     string  `json:"rule"`     // e.g. "C02.D1 push=>wake"
	Key      string  `json:"key"`      // stable: rule id + construct (never a line number)
	Instance string  `json:"instance"` // what was checked, in words
	Func     string  `json:"func,omitempty"`
	Pos      string  `json:"pos,omitempty"`
	Verdict  Verdict `json:"verdict"`
	Detail   string  `json:"detail,omitempty"` // discharging fact, or the offending path/construct
}

// Report collects the obligations of one property run.
type Report struct {
	Property    string
	Obligations []Obligation
	Floors      map[string]int // rule id -> minimal instance count confirmed by hand
	Notes       []string
	Functions   int // functions examined by rules
	CallSites   int
	Paths       int
	funcsSeen   map[string]bool
}

func NewReport(prop string) *Report {
	return &Report{Property: prop, Floors: map[string]int{}, funcsSeen: map[string]bool{}}
}

func ruleID(rule string) string {
	if i := strings.IndexByte(rule, ' '); i > 0 {
		return rule[:i]
	}
	return rule
}

func (r *Report) Add(o Obligation) {
	if o.Key == "" {
		o.Key = ruleID(o.Rule) + "|" + o.Func + "|" + o.Instance
	}
	r.Obligations = append(r.Obligations, o)
	if o.Func != "" && !r.funcsSeen[o.Func] {
		r.funcsSeen[o.Func] = true
		r.Functions++
	}
}

func (r *Report) OK(rule, key, fn, pos, instance, detail string) {
	r.Add(Obligation{Rule: rule, Key: key, Func: fn, Pos: pos, Instance: instance, Verdict: Discharged, Detail: detail})
}
func (r *Report) Bad(rule, key, fn, pos, instance, detail string) {
	r.Add(Obligation{Rule: rule, Key: key, Func: fn, Pos: pos, Instance: instance, Verdict: Violated, Detail: detail})
}
func (r *Report) Unk(rule, key, fn, pos, instance, detail string) {
	r.Add(Obligation{Rule: rule, Key: key, Func: fn, Pos: pos, Instance: instance, Verdict: Undecided, Detail: detail})
}

// Floor declares that rule must have at least n instances.
func (r *Report) Floor(rule string, n int) { r.Floors[ruleID(rule)] = n }

func (r *Report) SawFunc(name string) {
	if !r.funcsSeen[name] {
		r.funcsSeen[name] = true
		r.Functions++
	}
}

func (r *Report) InstancesByRule() map[string]int {
	m := map[string]int{}
	for _, o := range r.Obligations {
		m[ruleID(o.Rule)]++
	}
	return m
}

// ---------------------------------------------------------------------------------
// known findings

type Finding struct {
	Property string `json:"property"`
	Status   string `json:"status"` // "open" | "fixed"
	Key      string `json:"key"`    // obligation key
	What     string `json:"what"`
	Commit   string `json:"commit,omitempty"`
	Witness  string `json:"witness,omitempty"`
	ID       string `json:"id,omitempty"`
}

type Findings struct {
	Findings []Finding `json:"findings"`
}

func LoadFindings(path string) (*Findings, error) {
	b, err := os.ReadFile(path)
	if err != nil {
		return nil, err
	}
	var f Findings
	if err := json.Unmarshal(b, &f); err != nil {
		return nil, err
	}
	return &f, nil
}

func (f *Findings) open(prop, key string) *Finding {
	for i := range f.Findings {
		x := &f.Findings[i]
		if x.Status == "open" && x.Property == prop && x.Key == key {
			return x
		}
	}
	return nil
}

// ---------------------------------------------------------------------------------
// finishing a run

type Outcome struct {
	Violations    []Obligation
	Known         []Obligation
	StaleFindings []Finding
	FloorFailures []string
}

// Decide applies floors and known findings.
func (r *Report) Decide(kf *Findings) Outcome {
	var out Outcome
	counts := r.InstancesByRule()
	var rules []string
	for k := range r.Floors {
		rules = append(rules, k)
	}
	sort.Strings(rules)
	for _, k := range rules {
		if counts[k] < r.Floors[k] {
			out.FloorFailures = append(out.FloorFailures,
				fmt.Sprintf("rule %s matched %d instances, fewer than the %d confirmed on the reference tree: a checked construct (a guard, a site, an arm) was removed or the rule's anchors no longer resolve; run with -list and compare with the evidence of the reference tree", k, counts[k], r.Floors[k]))
		}
	}
	seenKnown := map[string]bool{}
	for _, o := range r.Obligations {
		if o.Verdict == Discharged {
			continue
		}
		if kf != nil && o.Verdict == Violated {
			if f := kf.open(r.Property, o.Key); f != nil {
				o.Detail = f.What + " :: " + o.Detail
				out.Known = append(out.Known, o)
				seenKnown[o.Key] = true
				continue
			}
		}
		out.Violations = append(out.Violations, o)
	}
	if kf != nil {
		for _, f := range kf.Findings {
			if f.Status == "open" && f.Property == r.Property && !seenKnown[f.Key] {
				out.StaleFindings = append(out.StaleFindings, f)
			}
		}
	}
	return out
}

// Evidence is the schema'd evidence file.
type Evidence struct {
	PropertyID  string         `json:"property_id"`
	Tier        string         `json:"tier"`
	Seed        int            `json:"seed"`
	Level       string         `json:"level"`
	Coverage    map[string]any `json:"coverage"`
	Assumptions []string       `json:"assumptions"`
	WallS       float64        `json:"wall_s"`
	Violations  int            `json:"violations"`
}

func WriteJSON(path string, v any) error {
	if err := os.MkdirAll(filepath.Dir(path), 0o755); err != nil {
		return err
	}
	b, err := json.MarshalIndent(v, "", " ")
	if err != nil {
		return err
	}
	tmp := path + ".tmp"
	if err := os.WriteFile(tmp, append(b, '\n'), 0o644); err != nil {
		return err
	}
	return os.Rename(tmp, path)
}

func SafeName(s string) string {
	var b strings.Builder
	for _, c := range s {
		switch {
		case c >= 'a' && c <= 'z', c >= 'A' && c <= 'Z', c >= '0' && c <= '9', c == '.', c == '-':
			b.WriteRune(c)
		default:
			b.WriteByte('_')
		}
	}
	x := b.String()
	if len(x) > 120 {
		x = x[:120]
	}
	return x
}
