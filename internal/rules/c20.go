package rules

import (
	"fmt"
	"go/ast"
	"go/constant"
	"go/token"
	"go/types"
	"sort"
	"strings"

	"golang.org/x/tools/go/ssa"

	"verif/internal/core"
	"verif/internal/load"
)

func init() {
	Registry["C20"] = Set{
		Explanation: "Decides structural clauses of the cron scheduler: K1 field plumbing — crontab field i (minute, hour, day, month, weekday) is parsed with the descriptor of unit i and stored in the list IsRunAt consults for that unit (minute/hour/month: the AND list; day and weekday: their own OR lists), each descriptor carries the mask type and the value range of its unit, each mask type is tested against the matching time.Time accessor, and every settable bit index is below the type nibble (bit 60); the day/weekday combination rule is AND with each wildcard and OR when both are restricted; K2 AddJob returns the parser's error before the job is inserted and refuses a taken name; K3 the action is dominated by the 'disabled' test of the very job popped, and RemoveJob/DisableJob set that flag; K4 every path through the minute callback that is not the node-down exit re-arms the timer and reschedules (the recognised clock-skew early return is listed, not armed: it cannot be exhibited without controlling the clock); K5 a job enters the spool for a minute at most once: the push is behind a per-job compare-and-swap that the callback clears when it takes the job out. Added while probing: K1 the day/weekday combination is verified as a truth table by exhaustive abstract execution of cronSpecMask.IsRunAt over {list empty, list matches}; an empty list matches; K3 EnableJob clears the disabled flag; K6 the mask evaluation uses calendar operations only (no Time.Add/Sub/Truncate). K7 the constructor initialises the 'next minute' field with the minute the timer is armed for. K8 no critical section of the cron's lock calls anything that takes that lock again. K9 lock pairing — in every function that touches the cron lock a forward data flow over (held read/write, unlock deferred) shows: no return while the lock is held without a deferred unlock, no unlock (explicit or deferred) of a lock that is not held or of the other kind, no second lock (a leaked lock blocks every later job operation and the minute tick for ever, an unlock of an unlocked mutex is a fatal error that takes the node down). K5 also: every job popped from the spool has its flag cleared on every path of that iteration (a job popped while disabled included). K10 the schedule scans advance by exactly one minute per iteration from the loop variable itself; no skip-ahead. K11 the minute callback pops the spool and stores the next minute inside ONE write-locked section of the cron lock (AddJob/EnableJob/UpdateJob decide under that lock whether the job belongs to the minute being fired: with the spool emptied outside the lock a job enabled in between was queued for the minute already taken out and fired for a minute its specification does not denote); K4 accepts the reschedule walk inlined in that section. K12 every range loop of the field parser whose bounds come from the text runs only behind the false edge of a comparison 'start > end' of those very bounds whose true edge returns an error (a reversed stepped range sets no bit).",
		NotDecided: []string{
			"that the compiled masks denote exactly the crontab semantics for every spec and minute (lists, ranges, steps, L, xL, x#n)",
			"time zones and daylight-saving transitions beyond the rule that the mask evaluation uses calendar operations only; the clock-skew early return of the minute callback (listed, not armed)",
		},
		Assumptions: []string{"time.Time accessors", "time.AfterFunc / Reset contract"},
		Run:         runC20,
	}
}

func runC20(p *load.Program, r *core.Report) {
	pk := p.Pkg("node")
	if pk == nil {
		r.Unk("C20.anchors", "C20.anchors|pkg", "", "", "package node", "not found")
		return
	}
	info := pk.TypesInfo
	// ---- K1 descriptors
	rule := "C20.K1 field-plumbing"
	r.Floor(rule, 5)
	type desc struct {
		min, max int64
		mask     string
		pos      token.Pos
	}
	descs := map[string]desc{}
	for _, file := range pk.Syntax {
		for _, d := range file.Decls {
			gd, ok := d.(*ast.GenDecl)
			if !ok || gd.Tok != token.VAR {
				continue
			}
			for _, sp := range gd.Specs {
				vs := sp.(*ast.ValueSpec)
				for i, id := range vs.Names {
					if !strings.HasPrefix(id.Name, "cronField") || i >= len(vs.Values) {
						continue
					}
					cl, ok := vs.Values[i].(*ast.CompositeLit)
					if !ok {
						continue
					}
					var de desc
					de.pos = id.Pos()
					for _, el := range cl.Elts {
						kv, ok := el.(*ast.KeyValueExpr)
						if !ok {
							continue
						}
						switch types.ExprString(kv.Key) {
						case "min":
							if tv, ok := info.Types[kv.Value]; ok && tv.Value != nil {
								de.min, _ = constant.Int64Val(tv.Value)
							}
						case "max":
							if tv, ok := info.Types[kv.Value]; ok && tv.Value != nil {
								de.max, _ = constant.Int64Val(tv.Value)
							}
						case "mask":
							de.mask = types.ExprString(kv.Value)
						}
					}
					descs[id.Name] = de
				}
			}
		}
	}
	wantDesc := map[string]desc{
		"cronFieldMin": {0, 59, "cronMaskTypeMin", 0}, "cronFieldHour": {0, 23, "cronMaskTypeHour", 0},
		"cronFieldDay": {1, 31, "cronMaskTypeDay", 0}, "cronFieldMonth": {1, 12, "cronMaskTypeMonth", 0},
		"cronFieldWeekDay": {1, 7, "cronMaskTypeWeekDay", 0},
	}
	{
		var probs []string
		var names []string
		for n := range wantDesc {
			names = append(names, n)
		}
		sort.Strings(names)
		for _, n := range names {
			w := wantDesc[n]
			g, ok := descs[n]
			if !ok {
				probs = append(probs, "descriptor "+n+" not found")
				continue
			}
			if g.min != w.min || g.max != w.max {
				probs = append(probs, fmt.Sprintf("%s accepts %d..%d (the unit's range is %d..%d)", n, g.min, g.max, w.min, w.max))
			}
			if g.mask != w.mask {
				probs = append(probs, fmt.Sprintf("%s produces masks of type %s (expected %s): the field is tested against the wrong clock component", n, g.mask, w.mask))
			}
			if g.max >= 60 {
				probs = append(probs, fmt.Sprintf("%s allows bit %d which collides with the mask type nibble", n, g.max))
			}
		}
		key := "C20.K1|descriptors"
		inst := "each unit's descriptor has the unit's value range and mask type; all bit indexes stay below the type nibble"
		if len(probs) > 0 {
			r.Bad(rule, key, "", "", inst, strings.Join(probs, "; "))
		} else {
			r.OK(rule, key, "node.cronField*", p.Pos(descs["cronFieldMin"].pos), inst, "5 descriptors verified")
		}
	}
	// spec field i -> descriptor -> destination list
	if fd, _ := p.FuncDecl("node", "", "cronParseSpec"); fd != nil {
		type parse struct {
			idx  int64
			desc string
			dest string
		}
		var parses []parse
		var cur *parse
		ast.Inspect(fd.Body, func(n ast.Node) bool {
			as, ok := n.(*ast.AssignStmt)
			if !ok {
				return true
			}
			for _, rhs := range as.Rhs {
				if ce, ok := rhs.(*ast.CallExpr); ok && types.ExprString(ce.Fun) == "cronParseSpecField" && len(ce.Args) == 2 {
					pr := parse{idx: -1, desc: types.ExprString(ce.Args[1])}
					if ie, ok := ce.Args[0].(*ast.IndexExpr); ok {
						if tv, ok := info.Types[ie.Index]; ok && tv.Value != nil {
							pr.idx, _ = constant.Int64Val(tv.Value)
						}
					}
					parses = append(parses, pr)
					cur = &parses[len(parses)-1]
				}
			}
			// destination: mask.X = m  or mask.X = append(mask.X, m...)
			if len(as.Lhs) == 1 {
				if se, ok := as.Lhs[0].(*ast.SelectorExpr); ok && types.ExprString(se.X) == "mask" && cur != nil && cur.dest == "" {
					cur.dest = se.Sel.Name
				}
			}
			return true
		})
		want := map[int64][2]string{0: {"cronFieldMin", "MinHourMonth"}, 1: {"cronFieldHour", "MinHourMonth"}, 2: {"cronFieldDay", "Day"}, 3: {"cronFieldMonth", "MinHourMonth"}, 4: {"cronFieldWeekDay", "WeekDay"}}
		var probs []string
		seen := map[int64]bool{}
		for _, pr := range parses {
			w, ok := want[pr.idx]
			if !ok {
				probs = append(probs, fmt.Sprintf("field index %d parsed", pr.idx))
				continue
			}
			seen[pr.idx] = true
			if pr.desc != w[0] {
				probs = append(probs, fmt.Sprintf("crontab field %d is parsed with %s (expected %s)", pr.idx, pr.desc, w[0]))
			}
			if pr.dest != w[1] {
				probs = append(probs, fmt.Sprintf("the masks of crontab field %d are stored in %s (expected %s)", pr.idx, pr.dest, w[1]))
			}
		}
		for i := int64(0); i < 5; i++ {
			if !seen[i] {
				probs = append(probs, fmt.Sprintf("crontab field %d is never parsed", i))
			}
		}
		key := "C20.K1|cronParseSpec"
		inst := "crontab fields 0..4 are parsed as minute, hour, day, month, weekday and stored in the list consulted for that unit"
		if len(probs) > 0 {
			r.Bad(rule, key, "node.cronParseSpec", p.Pos(fd.Pos()), inst, strings.Join(probs, "; "))
		} else {
			r.OK(rule, key, "node.cronParseSpec", p.Pos(fd.Pos()), inst, "5 fields verified")
		}
	} else {
		r.Unk(rule, "C20.K1|cronParseSpec", "", "", "cronParseSpec found", "not found")
	}
	// mask type -> time accessor
	if fd, _ := p.FuncDecl("node", "cronMask", "IsRunAt"); fd != nil {
		want := map[string]string{"cronMaskTypeMin": "Minute", "cronMaskTypeHour": "Hour", "cronMaskTypeDay": "Day", "cronMaskTypeMonth": "Month", "cronMaskTypeWeekDay": "Weekday"}
		var probs []string
		seen := map[string]bool{}
		ast.Inspect(fd.Body, func(n ast.Node) bool {
			cc, ok := n.(*ast.CaseClause)
			if !ok || len(cc.List) != 1 {
				return true
			}
			label := types.ExprString(cc.List[0])
			w, ok := want[label]
			if !ok {
				return true
			}
			seen[label] = true
			var first string
			for _, s := range cc.Body {
				ast.Inspect(s, func(m ast.Node) bool {
					if ce, ok := m.(*ast.CallExpr); ok && first == "" {
						if se, ok := ce.Fun.(*ast.SelectorExpr); ok && types.ExprString(se.X) == "t" {
							first = se.Sel.Name
						}
					}
					return true
				})
			}
			if first != w {
				probs = append(probs, fmt.Sprintf("masks of type %s are tested against t.%s() (expected t.%s())", label, first, w))
			}
			return true
		})
		for k := range want {
			if !seen[k] {
				probs = append(probs, "no arm for "+k)
			}
		}
		key := "C20.K1|cronMask.IsRunAt"
		inst := "each mask type is tested against the matching component of the time"
		if len(probs) > 0 {
			sort.Strings(probs)
			r.Bad(rule, key, "node.cronMask.IsRunAt", p.Pos(fd.Pos()), inst, strings.Join(probs, "; "))
		} else {
			r.OK(rule, key, "node.cronMask.IsRunAt", p.Pos(fd.Pos()), inst, "5 arms verified")
		}
	}
	// day / weekday combination
	if f := p.Func("node", "cronSpecMask", "IsRunAt"); f != nil {
		key := "C20.K1|cronSpecMask.IsRunAt"
		inst := "day and weekday are combined by AND with a wildcard and by OR when both are restricted; minute/hour/month must all match"
		// exhaustive execution over the abstraction {list empty?, list matches?} x 3 lists
		lastField := func(v ssa.Value) string {
			if _, path, ok := fieldPath(v); ok && len(path) > 0 {
				return path[len(path)-1]
			}
			return ""
		}
		x := &boolExec{
			leafBool: func(v ssa.Value) string {
				c, ok := v.(*ssa.Call)
				if !ok || !callsNamed(c, "IsRunAt") || len(c.Call.Args) == 0 {
					return ""
				}
				if n := lastField(c.Call.Args[0]); n != "" {
					return "run:" + n
				}
				return ""
			},
			leafLen: lastField,
		}
		x.run(f)
		vars := []string{"empty:Day", "empty:WeekDay", "run:Day", "run:WeekDay", "run:MinHourMonth"}
		valid := func(e map[string]bool) bool {
			// an empty list matches every minute (cronMaskList.IsRunAt starts from true)
			return !(e["empty:Day"] && !e["run:Day"]) && !(e["empty:WeekDay"] && !e["run:WeekDay"])
		}
		want := func(e map[string]bool) bool {
			if !e["run:MinHourMonth"] {
				return false
			}
			switch {
			case e["empty:Day"]:
				return e["run:WeekDay"]
			case e["empty:WeekDay"]:
				return e["run:Day"]
			}
			return e["run:Day"] || e["run:WeekDay"]
		}
		if x.err != "" {
			r.Unk(rule, key, fname(f), p.Pos(f.Pos()), inst, "the combination function could not be executed abstractly: "+x.err)
		} else {
			cex, covered := x.check(vars, valid, want)
			switch {
			case len(cex) > 0:
				r.Bad(rule, key, fname(f), p.Pos(f.Pos()), inst, fmt.Sprintf("%d of %d abstract inputs give the wrong answer, e.g. %s", len(cex), covered, cex[0]))
			case covered != 18:
				r.Unk(rule, key, fname(f), p.Pos(f.Pos()), inst, fmt.Sprintf("only %d of the 18 abstract inputs were covered", covered))
			default:
				r.OK(rule, key, fname(f), p.Pos(f.Pos()), inst, fmt.Sprintf("truth table verified on all %d abstract inputs (%d paths)", covered, len(x.rows)))
			}
		}
	}
	// the empty-list convention the table relies on
	if f := p.Func("node", "cronMaskList", "IsRunAt"); f != nil {
		key := "C20.K1|cronMaskList.IsRunAt"
		inst := "a list matches when it is empty, fails when a minute/hour/month mask fails, and otherwise matches when one of its day/weekday masks matches"
		var probs []string
		// the value returned when the loop body never runs is the constant true
		emptyTrue := false
		eachInstr(f, func(in ssa.Instruction) {
			ret, ok := in.(*ssa.Return)
			if !ok {
				return
			}
			if ph, ok := unspill(ret.Results[0]).(*ssa.Phi); ok {
				for _, e := range ph.Edges {
					if b, okb := constBool(e); okb && b {
						emptyTrue = true
					}
				}
			}
			if b, okb := constBool(ret.Results[0]); okb && b && len(f.Blocks) > 0 && ret.Block() == f.Blocks[0] {
				emptyTrue = true
			}
		})
		if !emptyTrue {
			probs = append(probs, "an empty list does not evaluate to true")
		}
		if len(probs) > 0 {
			r.Bad(rule, key, fname(f), p.Pos(f.Pos()), inst, strings.Join(probs, "; "))
		} else {
			r.OK(rule, key, fname(f), p.Pos(f.Pos()), inst, "the loop-free exit returns the initial value true")
		}
	}

	// ---- K6 calendar steps are calendar arithmetic
	{
		rule6 := "C20.K6 calendar-arithmetic"
		r.Floor(rule6, 1)
		key := "C20.K6|mask-evaluation"
		inst := "whether a minute matches a day/month rule is computed with calendar operations (AddDate, Date), never by adding a duration: a day is not always 24 hours in the job's time zone"
		var bad []string
		cal := 0
		for _, g := range funcsOfPkgs(p, "node") {
			if g.Name() != "IsRunAt" || g.Signature.Recv() == nil || !strings.HasPrefix(namedOf(g.Signature.Recv().Type()), "node.cron") {
				continue
			}
			eachInstr(g, func(in ssa.Instruction) {
				cc := callCommon(in)
				if cc == nil {
					return
				}
				sf := staticCallee(cc)
				if sf == nil || sf.Pkg == nil || sf.Pkg.Pkg.Path() != "time" || sf.Signature.Recv() == nil || namedOf(sf.Signature.Recv().Type()) != "time.Time" {
					return
				}
				switch sf.Name() {
				case "Add", "Sub", "Truncate", "Round":
					bad = append(bad, fmt.Sprintf("%s calls Time.%s at %s", fname(g), sf.Name(), p.Pos(in.Pos())))
				case "AddDate":
					cal++
				}
			})
		}
		switch {
		case len(bad) > 0:
			r.Bad(rule6, key, "node.cronMask.IsRunAt", "", inst, strings.Join(bad, "; ")+": around a daylight-saving change the computed day falls into the neighbouring month and the job fires on a wrong day (or not at all)")
		case cal == 0:
			r.Unk(rule6, key, "", "", inst, "no calendar operation found in the mask evaluation: the rule no longer sees the code")
		default:
			r.OK(rule6, key, "node.cronMask.IsRunAt", "", inst, fmt.Sprintf("%d AddDate call(s), no duration arithmetic", cal))
		}
	}

	// ---- K7 the minute jobs are matched against is initialised by the constructor
	{
		rule7 := "C20.K7 next-minute-initialised"
		r.Floor(rule7, 1)
		key := "C20.K7|createCron"
		inst := "the 'next minute' every job is matched against is set when the cron is created, to the minute the timer is armed for (a job added before the first tick is matched against that minute, not against the zero time)"
		create := p.Func("node", "", "createCron")
		if create == nil {
			r.Unk(rule7, key, "", "", inst, "createCron not found")
		} else {
			// the duration given to AfterFunc is X.Sub(now); the field must be stored with that X
			var armed ssa.Value
			eachInstr(create, func(in ssa.Instruction) {
				cc := callCommon(in)
				if cc != nil && isPkgFunc(cc, "time", "AfterFunc") {
					if sub, ok := cc.Args[0].(*ssa.Call); ok && callsNamed(sub, "Sub") {
						armed = sub.Common().Args[0]
					}
				}
			})
			stored := false
			var other string
			eachInstr(create, func(in ssa.Instruction) {
				st, ok := in.(*ssa.Store)
				if !ok {
					return
				}
				own, fl := fieldOwner(st.Addr)
				if own == nil || own.Obj().Name() != "cron" || fl != "next" {
					return
				}
				if armed != nil && (st.Val == armed || resolveLocalCopy(st.Val) == armed || canon(st.Val) == canon(armed)) {
					stored = true
				} else {
					other = p.Pos(st.Pos())
				}
			})
			switch {
			case armed == nil:
				r.Unk(rule7, key, fname(create), p.Pos(create.Pos()), inst, "the timer's first duration is not of the form next.Sub(now)")
			case stored:
				r.OK(rule7, key, fname(create), p.Pos(create.Pos()), inst, "c.next = the minute the timer is armed for")
			case other != "":
				r.Bad(rule7, key, fname(create), other, inst, "the field is initialised with something else than the minute the timer is armed for")
			default:
				r.Bad(rule7, key, fname(create), p.Pos(create.Pos()), inst, "the field stays the zero time until the first tick: a job added before it is matched against 0001-01-01 00:00 — \"0 0 1 1 *\" fires right after every node start, a job due in the coming minute is skipped")
			}
		}
	}

	// ---- K8 the cron's lock is not re-entered
	c20ScanStep(p, r)
	lockPairing(p, r, "C20.K9 cron-lock-paired", "C20.K9", 9, func(o string) bool { return o == "node.cron" })
	lockReentrancy(p, r, "C20.K8 cron-lock-not-reentered", "C20.K8", 9, func(o string) bool { return o == "node.cron" })

	// ---- K2
	rule2 := "C20.K2 add-job"
	r.Floor(rule2, 1)
	add := p.Func("node", "cron", "AddJob")
	if add == nil {
		r.Unk(rule2, "C20.K2|fn", "", "", "AddJob found", "not found")
	} else {
		fn := fname(add)
		var parse *ssa.Call
		var insert ssa.Instruction
		eachInstr(add, func(in ssa.Instruction) {
			if c, ok := in.(*ssa.Call); ok && callsNamed(in, "cronParseSpec") {
				parse = c
			}
			if mu, ok := in.(*ssa.MapUpdate); ok {
				if _, path, okp := fieldPath(mu.Map); okp && len(path) > 0 && path[len(path)-1] == "jobs" {
					insert = in
				}
			}
		})
		key := "C20.K2|" + fn
		inst := "a malformed spec is rejected before the job is inserted; a taken name is refused"
		var probs []string
		if parse == nil || insert == nil {
			probs = append(probs, fmt.Sprintf("parser call found: %v, insert found: %v", parse != nil, insert != nil))
		} else {
			errv := tupleExtract(parse, 1)
			isNil, nn, _ := nilEdges(errv)
			if len(isNil) == 0 || !edgesDominate(isNil, insert) {
				probs = append(probs, "the job is inserted without the parser having succeeded")
			}
			for _, e := range nn {
				for _, ret := range walkAvoid([]Point{{e.To(), 0}}, nil, isReturn) {
					if errKind(ret.(*ssa.Return).Results[0]) == "nil" {
						probs = append(probs, "a parse error is swallowed")
					}
				}
			}
			// the parsed mask is the one stored in the job
			maskv := tupleExtract(parse, 0)
			stored := false
			eachInstr(add, func(in ssa.Instruction) {
				if st, ok := in.(*ssa.Store); ok && st.Val == maskv {
					if _, fl := fieldOwner(st.Addr); fl == "mask" {
						stored = true
					}
				}
			})
			if !stored {
				probs = append(probs, "the compiled mask is not stored in the job")
			}
			taken := false
			eachInstr(add, func(in ssa.Instruction) {
				if ret, ok := in.(*ssa.Return); ok && reasonOrigin(ret.Results[0], 0) == "global:ErrTaken" {
					taken = true
				}
			})
			if !taken {
				probs = append(probs, "a second job with the same name replaces the first")
			}
		}
		if len(probs) > 0 {
			r.Bad(rule2, key, fn, p.Pos(add.Pos()), inst, strings.Join(probs, "; "))
		} else {
			r.OK(rule2, key, fn, p.Pos(add.Pos()), inst, "insert dominated by the parser's nil error; mask stored; ErrTaken on duplicates")
		}
	}

	// ---- K3 / K4 / K5 in the minute callback
	rule3 := "C20.K3 disabled-jobs-do-not-fire"
	rule4 := "C20.K4 timer-rearmed"
	rule5 := "C20.K5 spooled-once"
	r.Floor(rule3, 4)
	r.Floor(rule4, 1)
	r.Floor(rule5, 2)
	create := p.Func("node", "", "createCron")
	var cb *ssa.Function
	if create != nil {
		eachInstr(create, func(in ssa.Instruction) {
			if cc := callCommon(in); cc != nil && isPkgFunc(cc, "time", "AfterFunc") {
				if mc, ok := cc.Args[1].(*ssa.MakeClosure); ok {
					cb = mc.Fn.(*ssa.Function)
				}
			}
		})
	}
	if cb == nil {
		r.Unk(rule3, "C20.K3|callback", "", "", "minute callback found", "no time.AfterFunc closure in createCron")
		return
	}
	fn := fname(cb)
	// the action goroutine
	var goAct ssa.Instruction
	eachInstr(cb, func(in ssa.Instruction) {
		if g, ok := in.(*ssa.Go); ok {
			if mc, ok := g.Call.Value.(*ssa.MakeClosure); ok {
				hasDo := false
				eachInstr(mc.Fn.(*ssa.Function), func(i2 ssa.Instruction) {
					if cc := callCommon(i2); cc != nil && cc.IsInvoke() && cc.Method.Name() == "Do" {
						hasDo = true
					}
				})
				if hasDo {
					goAct = in
				}
			}
		}
	})
	{
		key := "C20.K3|" + fn + "|disable-test"
		inst := "the action of a job runs only if that job's disabled flag was found false after it was taken from the spool"
		ok := false
		if goAct != nil {
			eachInstr(cb, func(in ssa.Instruction) {
				v, okv := in.(ssa.Value)
				if !okv {
					return
				}
				if _, path, okp := fieldPath(v); okp && len(path) > 0 && path[len(path)-1] == "disable" {
					// enabled edge (disable == false)
					if refs := v.Referrers(); refs != nil {
						for _, rf := range *refs {
							if b, okb := rf.(*ssa.BinOp); okb && (b.Op == token.EQL || b.Op == token.NEQ) {
								bv, _ := constBool(b.Y)
								t, fl, _ := boolEdges(b)
								enabled := fl
								if (b.Op == token.EQL) != bv {
									enabled = t
								}
								if edgesDominate(enabled, goAct) {
									ok = true
								}
							}
						}
					}
					_, fl, c := boolEdges(v)
					if c && edgesDominate(fl, goAct) {
						ok = true
					}
				}
			})
		}
		if ok {
			r.OK(rule3, key, fn, p.Pos(goAct.Pos()), inst, "go action dominated by the disable == false edge")
		} else {
			r.Bad(rule3, key, fn, p.Pos(cb.Pos()), inst, "the action is started without testing the job's disabled flag: a disabled or removed job that was already spooled still fires")
		}
	}
	for _, name := range []string{"RemoveJob", "DisableJob", "EnableJob"} {
		f := p.Func("node", "cron", name)
		key := "C20.K3|" + name
		wantVal := name != "EnableJob"
		inst := name + " marks the job disabled (so a copy already in the spool does not fire)"
		if !wantVal {
			inst = name + " clears the job's disabled flag before it is scheduled again"
		}
		if f == nil {
			r.Unk(rule3, key, "", "", inst, "not found")
			continue
		}
		errIdx := errResultIndex(f)
		bad := reaches([]Point{{f.Blocks[0], 0}}, func(in ssa.Instruction) bool {
			st, ok := in.(*ssa.Store)
			if !ok {
				return false
			}
			_, fl := fieldOwner(st.Addr)
			b, okb := constBool(st.Val)
			return fl == "disable" && okb && b == wantVal
		}, func(in ssa.Instruction) bool {
			ret, ok := in.(*ssa.Return)
			return ok && maybeNilResult(ret, errIdx)
		})
		if bad == nil {
			r.OK(rule3, key, fname(f), p.Pos(f.Pos()), inst, fmt.Sprintf("disable = %v on every successful path", wantVal))
		} else {
			r.Bad(rule3, key, fname(f), p.Pos(f.Pos()), inst, fmt.Sprintf("a successful return does not set the disabled flag to %v", wantVal))
		}
	}
	// K11: the tick empties the spool for minute M and moves 'next' to M+1; AddJob / EnableJob decide
	// against 'next' whether to put a job into the spool. The two must exclude each other: the whole
	// sequence "pop everything, store the new next minute" runs under the cron's write lock.
	{
		rule11 := "C20.K11 spool-emptied-and-refilled-in-one-critical-section"
		r.Floor(rule11, 1)
		key := "C20.K11|" + fn
		inst := "the minute callback pops the spool and advances the next minute inside one write-locked section"
		var pop, nextStore ssa.Instruction
		eachInstr(cb, func(in ssa.Instruction) {
			cc := callCommon(in)
			if cc != nil && cc.IsInvoke() && cc.Method.Name() == "Pop" {
				if _, path, okp := fieldPath(cc.Value); okp && len(path) > 0 && path[len(path)-1] == "spool" {
					pop = in
				}
			}
			if st, ok := in.(*ssa.Store); ok {
				if _, fl := fieldOwner(st.Addr); fl == "next" {
					nextStore = in
				}
			}
		})
		isLk := func(in ssa.Instruction, kind string) bool {
			m := mutexOpOf(in)
			return m != nil && !m.deferred && m.kind == kind && strings.HasSuffix(m.owner, "cron")
		}
		switch {
		case pop == nil:
			r.Unk(rule11, key, fn, p.Pos(cb.Pos()), inst, "no Pop on the spool found in the callback")
		case nextStore == nil:
			r.Bad(rule11, key, fn, p.Pos(pop.Pos()), inst, "the callback does not store the next minute itself (it calls a helper that takes the lock on its own): between the pop of a job and that call, EnableJob/AddJob still see the minute being fired as 'next' and queue the job again — it fires twice, or with the following minute as action time")
		default:
			var probs []string
			if reaches([]Point{{cb.Blocks[0], 0}}, func(in ssa.Instruction) bool { return isLk(in, "Lock") }, func(in ssa.Instruction) bool { return in == pop }) != nil {
				probs = append(probs, "the spool is popped without the write lock")
			}
			if hit := reaches([]Point{after(pop)}, func(in ssa.Instruction) bool { return in == nextStore }, func(in ssa.Instruction) bool { return isLk(in, "Unlock") }); hit != nil {
				// an unlock on a path that then returns is fine (clock-skew exit); one that goes on to the store is not
				if instrReachable(hit, nextStore) {
					probs = append(probs, "the lock is released at "+p.Pos(hit.Pos())+" between the pop and the store of the next minute")
				}
			}
			if len(probs) > 0 {
				r.Bad(rule11, key, fn, p.Pos(pop.Pos()), inst, strings.Join(probs, "; ")+": EnableJob/AddJob running in between queue a job for the minute that is being fired")
			} else {
				r.OK(rule11, key, fn, p.Pos(pop.Pos()), inst, "Lock before the first Pop, no Unlock before the store of the next minute")
			}
		}
	}
	// K4
	{
		key := "C20.K4|" + fn
		inst := "every exit of the minute callback other than 'node is down' (and the listed clock-skew exit) re-arms the timer and reschedules the jobs"
		isReset := func(in ssa.Instruction) bool { return callsNamed(in, "Reset") }
		// rescheduling: the helper that walks the jobs, or that walk inlined (scheduleJob inside a loop)
		walkHasScheduleJob := false
		eachInstr(cb, func(in ssa.Instruction) {
			if callsNamed(in, "scheduleJob") && loopHeaderOf(in) != nil {
				walkHasScheduleJob = true
			}
		})
		isSched := func(in ssa.Instruction) bool {
			if callsNamed(in, "schedule") {
				return true
			}
			// the walk inlined: the range over the job table (it may be empty) whose body calls scheduleJob
			if rg, ok := in.(*ssa.Range); ok && walkHasScheduleJob {
				if _, path, okp := fieldPath(rg.X); okp && len(path) > 0 && path[len(path)-1] == "jobs" {
					return true
				}
			}
			return false
		}
		var bad []string
		listed := 0
		eachInstr(cb, func(in ssa.Instruction) {
			ret, ok := in.(*ssa.Return)
			if !ok {
				return
			}
			// passes Reset and schedule on every path to this return?
			missReset := reaches([]Point{{cb.Blocks[0], 0}}, isReset, func(i ssa.Instruction) bool { return i == ssa.Instruction(ret) }) != nil
			missSched := reaches([]Point{{cb.Blocks[0], 0}}, isSched, func(i ssa.Instruction) bool { return i == ssa.Instruction(ret) }) != nil
			if !missReset && !missSched {
				return
			}
			// node-down exit: dominated by IsAlive() == false
			nodeDown := false
			skew := false
			eachInstr(cb, func(i2 ssa.Instruction) {
				c, okc := i2.(*ssa.Call)
				if okc && callsNamed(i2, "IsAlive") {
					_, fl, _ := boolEdges(c)
					if edgesDominate(fl, ret) {
						nodeDown = true
					}
				}
				// clock-skew exit: dominated by the != edge of a comparison of two time.Time values both derived from Truncate
				if b, okb := i2.(*ssa.BinOp); okb && (b.Op == token.NEQ || b.Op == token.EQL) && strings.HasSuffix(b.X.Type().String(), "time.Time") {
					t, fl, _ := boolEdges(b)
					ne := t
					if b.Op == token.EQL {
						ne = fl
					}
					if edgesDominate(ne, ret) {
						skew = true
					}
				}
			})
			switch {
			case nodeDown:
			case skew:
				listed++
			default:
				bad = append(bad, p.Pos(ret.Pos()))
			}
		})
		if len(bad) > 0 {
			r.Bad(rule4, key, fn, p.Pos(cb.Pos()), inst, "return(s) at "+strings.Join(bad, ", ")+" leave the timer unarmed: no job ever fires again")
		} else {
			r.OK(rule4, key, fn, p.Pos(cb.Pos()), inst, fmt.Sprintf("all other exits pass Reset and schedule; %d clock-skew exit(s) listed (not armed)", listed))
		}
	}
	// K5
	{
		sj := p.Func("node", "cron", "scheduleJob")
		key := "C20.K5|scheduleJob"
		inst := "a job is pushed into the spool only after winning a per-job compare-and-swap (at most one spool entry per minute)"
		if sj == nil {
			r.Unk(rule5, key, "", "", inst, "scheduleJob not found")
		} else {
			var push ssa.Instruction
			eachInstr(sj, func(in ssa.Instruction) {
				cc := callCommon(in)
				if cc != nil && cc.IsInvoke() && cc.Method.Name() == "Push" {
					if _, path, ok := fieldPath(cc.Value); ok && len(path) > 0 && path[len(path)-1] == "spool" {
						push = in
					}
				}
			})
			ok := false
			flag := ""
			eachInstr(sj, func(in ssa.Instruction) {
				c, okc := in.(*ssa.Call)
				if !okc {
					return
				}
				sf := staticCallee(c.Common())
				if sf == nil || sf.Name() != "CompareAndSwap" || sf.Pkg == nil || sf.Pkg.Pkg.Path() != "sync/atomic" {
					return
				}
				t, _, _ := boolEdges(c)
				if push != nil && edgesDominate(t, push) {
					ok = true
					if _, path, okp := fieldPath(c.Common().Args[0]); okp && len(path) > 0 {
						flag = path[len(path)-1]
					}
				}
			})
			if ok {
				r.OK(rule5, key, fname(sj), p.Pos(push.Pos()), inst, "Push dominated by the success edge of CompareAndSwap on "+flag)
				// the callback clears it after Pop
				key2 := "C20.K5|" + fn + "|clear"
				cleared := false
				eachInstr(cb, func(in ssa.Instruction) {
					cc := callCommon(in)
					if cc == nil {
						return
					}
					if sf := staticCallee(cc); sf != nil && sf.Name() == "Store" && sf.Pkg != nil && sf.Pkg.Pkg.Path() == "sync/atomic" {
						if _, path, okp := fieldPath(cc.Args[0]); okp && len(path) > 0 && path[len(path)-1] == flag {
							if b, okb := constBool(cc.Args[1]); okb && !b {
								cleared = true
							}
						}
					}
				})
				// ... for EVERY job it takes out: no path from the successful Pop to the next Pop or to the
				// end of the callback avoids the clearing store (a job popped while disabled included)
				var pop ssa.Instruction
				eachInstr(cb, func(in ssa.Instruction) {
					cc := callCommon(in)
					if cc != nil && cc.IsInvoke() && cc.Method.Name() == "Pop" {
						if _, path, okp := fieldPath(cc.Value); okp && len(path) > 0 && path[len(path)-1] == "spool" {
							pop = in
						}
					}
				})
				isClear := func(in ssa.Instruction) bool {
					cc := callCommon(in)
					if cc == nil {
						return false
					}
					if sf := staticCallee(cc); sf != nil && sf.Name() == "Store" && sf.Pkg != nil && sf.Pkg.Pkg.Path() == "sync/atomic" {
						if _, path, okp := fieldPath(cc.Args[0]); okp && len(path) > 0 && path[len(path)-1] == flag {
							b, okb := constBool(cc.Args[1])
							return okb && !b
						}
					}
					return false
				}
				skipped := ""
				if pop != nil {
					if okv := tupleExtract(pop.(ssa.Value), 1); okv != nil {
						if got, _, complete := boolEdges(okv); complete && len(got) > 0 {
							if hit := reaches(edgePoints(got), isClear, func(in ssa.Instruction) bool { return in == pop || isReturn(in) }); hit != nil {
								skipped = p.Pos(hit.Pos())
							}
						}
					}
				}
				if cleared && skipped != "" {
					r.Bad(rule5, key2, fn, p.Pos(cb.Pos()), "the callback clears the flag when it takes the job out of the spool", "a popped job can reach "+skipped+" without Store(false) on "+flag+": a job taken out while it was disabled keeps the flag although it is not in the spool any more — after EnableJob it is never queued again and never fires")
				} else if cleared {
					r.OK(rule5, key2, fn, p.Pos(cb.Pos()), "the callback clears the flag when it takes the job out of the spool", "Store(false) after Pop")
				} else {
					r.Bad(rule5, key2, fn, p.Pos(cb.Pos()), "the callback clears the flag when it takes the job out of the spool", "the flag is never cleared: the job fires once and never again")
				}
			} else {
				r.Bad(rule5, key, fname(sj), p.Pos(sj.Pos()), inst, "the push is unconditional: enabling an already scheduled job (or disable+enable within a minute) puts it into the spool twice and it fires twice at that minute")
			}
		}
	}
	c20RangeBoundsChecked(p, r)
}

// c20ScanStep: K10 — the run times a job reports are found by walking the minutes of the period:
// the loop variable starts at the first minute and is advanced by exactly one minute on every
// iteration; nothing else assigns it. Any "skip ahead" has to reason about calendar boundaries in the
// job's location (an hour of a +5:30 zone does not start on an hour of absolute time) and is refused.
func c20ScanStep(p *load.Program, r *core.Report) {
	rule := "C20.K10 schedule-scan-visits-every-minute"
	r.Floor(rule, 2)
	for _, f := range funcsOfPkgs(p, "node") {
		if f.Parent() != nil || !strings.HasSuffix(namedOf(derefRecv(f)), "cron") {
			continue
		}
		seq := 0
		eachInstr(f, func(in ssa.Instruction) {
			ph, ok := in.(*ssa.Phi)
			if !ok || namedOf(ph.Type()) != "time.Time" || loopHeaderOf(in) == nil {
				return
			}
			// a loop-carried time value: some edge is computed from the phi itself
			var steps []ssa.Value
			for _, e := range ph.Edges {
				if c, okc := e.(*ssa.Call); okc && callsNamed(c, "Add") {
					steps = append(steps, e)
				}
			}
			if len(steps) == 0 {
				return
			}
			seq++
			fn := fname(f)
			key := fmt.Sprintf("C20.K10|%s|scan#%d", fn, seq)
			inst := "the scan advances by exactly one minute per iteration, from the value of the previous iteration"
			var probs []string
			for _, s := range steps {
				c := s.(*ssa.Call)
				args := c.Common().Args
				if len(args) != 2 || args[0] != ssa.Value(ph) {
					probs = append(probs, "the next value is not computed from the loop variable itself (it was changed inside the body)")
					continue
				}
				if d, okd := constInt(args[1]); !okd || d != 60000000000 {
					probs = append(probs, "the step is not the constant time.Minute")
				}
			}
			if len(probs) > 0 {
				r.Bad(rule, key, fn, p.Pos(in.Pos()), inst, strings.Join(uniq(probs), "; ")+": minutes are skipped — run times the spec denotes are not reported (for jobs in time zones whose offset is not a whole number of hours a skip to 'the next hour' of absolute time misses the first 30 or 45 minutes of every matching hour)")
			} else {
				r.OK(rule, key, fn, p.Pos(in.Pos()), inst, "now = now.Add(time.Minute) is the only assignment in the loop")
			}
		})
	}
}

func derefRecv(f *ssa.Function) types.Type {
	if f.Signature.Recv() == nil {
		return types.Typ[types.Invalid]
	}
	return f.Signature.Recv().Type()
}

var _ = load.Module

// c20RangeBoundsChecked: K12 — a crontab range a-b (with or without a step) denotes the values from a
// to b. The loop that sets the bits `for x := start; x <= end; x += step` sets nothing when start > end:
// the spec would be accepted and the job would silently never run for that field (or AddJob would
// panic on the empty mask). Every such loop whose bounds are both parsed from the text is reached
// only behind the false edge of a comparison `start > end` of those very two values whose true edge
// returns an error.
func c20RangeBoundsChecked(p *load.Program, r *core.Report) {
	rule := "C20.K12 reversed-range-refused"
	r.Floor(rule, 1)
	f := p.Func("node", "", "cronParseSpecField")
	if f == nil {
		r.Unk(rule, "C20.K12|fn", "", "", "the field parser is found", "not found")
		return
	}
	parse := p.Func("node", "", "cronParseInt")
	fromText := func(v ssa.Value) bool {
		seen := map[ssa.Value]bool{}
		var w func(x ssa.Value) bool
		w = func(x ssa.Value) bool {
			if x == nil || seen[x] {
				return false
			}
			seen[x] = true
			switch y := x.(type) {
			case *ssa.Extract:
				if c, ok := y.Tuple.(*ssa.Call); ok && parse != nil && staticCallee(c.Common()) == parse {
					return true
				}
			case *ssa.Phi:
				for _, e := range y.Edges {
					if w(e) {
						return true
					}
				}
			}
			return false
		}
		return w(v)
	}
	n := 0
	eachInstr(f, func(in ssa.Instruction) {
		iff, ok := in.(*ssa.If)
		if !ok {
			return
		}
		b, ok := iff.Cond.(*ssa.BinOp)
		if !ok || b.Op != token.LEQ {
			return
		}
		ph, ok := b.X.(*ssa.Phi)
		if !ok || len(sccOf(iff.Block())) == 0 {
			return
		}
		// the loop variable: one edge from outside the loop (the start), one from inside
		var start ssa.Value
		for i, e := range ph.Edges {
			// the entry edge: its predecessor is not dominated by the loop header (a back edge is)
			if !ph.Block().Dominates(ph.Block().Preds[i]) {
				start = e
			}
		}
		end := b.Y
		if start == nil || !fromText(start) || !fromText(end) {
			return
		}
		n++
		fn := fname(f)
		key := fmt.Sprintf("C20.K12|%s|range-loop#%d", fn, n)
		inst := "the range loop runs only after 'start > end' of its own two bounds was answered with an error"
		guarded := false
		eachInstr(f, func(x ssa.Instruction) {
			c, ok := x.(*ssa.BinOp)
			if !ok {
				return
			}
			var tru, fls []Edge
			t, fl, complete := boolEdges(c)
			if !complete {
				return
			}
			switch {
			case c.Op == token.GTR && c.X == start && c.Y == end, c.Op == token.LSS && c.X == end && c.Y == start:
				tru, fls = t, fl
			case c.Op == token.LEQ && c.X == start && c.Y == end && x != ssa.Instruction(b), c.Op == token.GEQ && c.X == end && c.Y == start:
				tru, fls = fl, t
			default:
				return
			}
			if !edgesDominate(fls, in) {
				return
			}
			// the reversed edge returns an error
			idx := errResultIndex(f)
			bad := false
			for _, rt := range walkAvoid(edgePoints(tru), nil, isReturn) {
				if idx >= 0 && errKind(rt.(*ssa.Return).Results[idx]) == "nil" {
					bad = true
				}
			}
			if reaches(edgePoints(tru), nil, func(y ssa.Instruction) bool { return y == in }) != nil {
				bad = true
			}
			if !bad {
				guarded = true
			}
		})
		if guarded {
			r.OK(rule, key, fn, p.Pos(in.Pos()), inst, "comparison of the loop's start and end dominates the loop; the reversed edge returns an error")
		} else {
			r.Bad(rule, key, fn, p.Pos(in.Pos()), inst, "no comparison of these two bounds guards the loop (a test of one branch's local value does not cover the other): a reversed range such as 50-10/5 is accepted and sets no bit — the job never runs for it, or AddJob panics on the empty mask")
		}
	})
}
