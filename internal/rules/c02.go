package rules

import (
	"fmt"
	"go/token"
	"go/types"
	"strings"

	"golang.org/x/tools/go/ssa"

	"verif/internal/core"
	"verif/internal/load"
)

func init() {
	Registry["C02"] = Set{
		Explanation: "Decides the structural clauses of local delivery: D1 every successful push on a process/meta mailbox queue is followed on every path by a wake-up of the same process object; D2 the branch taken when the push is refused never returns nil and the accepted branch never returns an error constant, lookups that fail return an error before any push; D3 after the runner's release transition (CAS Running->Sleep / Unlock) every path to return has seen every queue of the mailbox empty or re-acquires (no lost wake-up, Dekker ordering against D1); D4 the fallback re-route wraps the refused target's pid, its tag and the original message and is guarded by Enable, by Name != own name and by a test that this process has not redirected the message before (the nested wrappers carry the pids; without it two full processes that are each other's fallback recurse until the stack overflows) — and by nothing else; D5 SendAfter hands back the Stop of the very timer whose callback performs exactly one route call, and that call is not made through a method that refuses by the state of the originating process; the callback has an arm for every kind of target the immediate Send has one for. Added while probing: D6 a push that was refused releases or reroutes its mailbox message exactly once; D7 every QueueMPSC.Push returns true only after the item was linked and false without touching the list; D8 the alive predicate accepts exactly Init, Sleep, Running, WaitResponse; D9 each Route* builds the mailbox message from its own arguments (From, Message, Type, and Ref for calls); D3 also covers the network receive producer: the frame is pushed before the queue lock is tried and the lock is tried after every push. D10 the functions that deliver a message, request, inspect request or forwarded message into another process's mailbox push only behind the true edge of that process's alive predicate (exit/event/log helpers are listed exemptions). D11 inside one function a released mailbox message is neither released again nor handed on (forward data flow of the set of released SSA values, through phi nodes, killed at re-definition).",
		NotDecided: []string{
			"linearizability of the lock-free MPSC queue under concurrent producers",
			"exactly-once on the consumer side (one handler call per popped message)",
			"cancel-vs-fire races of time.Timer.Stop (trusted runtime contract)",
		},
		Assumptions: []string{"sync/atomic operations are sequentially consistent", "lib.QueueMPSC.Push returns true iff the item was enqueued", "global error variables (gen.Err*) are non-nil"},
		Run:         runC02,
	}
}

// mailboxPush is one Push call on a mailbox queue.
type mailboxPush struct {
	In     ssa.Instruction
	Call   *ssa.CallCommon
	Fn     *ssa.Function
	Base   ssa.Value // the process / meta object
	Kind   string    // "process" | "meta" | "forwarded"
	Queues []string  // queue field names that may be pushed to
	Result ssa.Value // bool result (nil if unused)
	Msg    ssa.Value
}

// findMailboxPushes enumerates Push calls on lib.QueueMPSC values and classifies them by the
// origin of the queue value. Queues that are not mailbox queues (cron spool, event buffer,
// pool ring, network receive queues) are returned in `other`.
func findMailboxPushes(a *Anchors, r *core.Report) (pushes []mailboxPush, other []ssa.Instruction, undecided []ssa.Instruction) {
	p := a.P
	for _, f := range p.SrcFuncs {
		eachInstr(f, func(in ssa.Instruction) {
			cc := callCommon(in)
			if cc == nil || !cc.IsInvoke() || cc.Method.Name() != "Push" {
				return
			}
			if n, _ := cc.Value.Type().(*types.Named); n != a.QueueIface {
				return
			}
			r.CallSites++
			leaves := queueLeaves(cc.Value)
			mp := mailboxPush{In: in, Call: cc, Fn: f}
			if v, ok := in.(ssa.Value); ok {
				if refs := v.Referrers(); refs != nil && len(*refs) > 0 {
					mp.Result = v
				}
			}
			if len(cc.Args) > 0 {
				mp.Msg = cc.Args[0]
			}
			nMail, nOther := 0, 0
			for _, l := range leaves {
				switch {
				case l.Owner == a.MailboxT && len(l.Path) >= 1:
					nMail++
					mp.Kind = "process"
					mp.Queues = append(mp.Queues, l.Path[len(l.Path)-1])
					if mp.Base == nil {
						mp.Base = l.Base
					} else if mp.Base != l.Base {
						mp.Base = nil
						nOther++
					}
				case l.Owner == a.MetaT && len(l.Path) >= 1:
					nMail++
					mp.Kind = "meta"
					mp.Queues = append(mp.Queues, l.Path[len(l.Path)-1])
					if mp.Base == nil {
						mp.Base = l.Base
					} else if mp.Base != l.Base {
						mp.Base = nil
						nOther++
					}
				default:
					nOther++
				}
			}
			switch {
			case nMail > 0 && nOther == 0:
				pushes = append(pushes, mp)
			case nMail == 0:
				// a forwarded mailbox queue: struct field initialised from a mailbox queue elsewhere
				if fw := forwardedQueue(a, leaves); fw != "" {
					mp.Kind = "forwarded"
					mp.Queues = []string{fw}
					if len(leaves) == 1 {
						mp.Base = leaves[0].Base
					}
					pushes = append(pushes, mp)
				} else {
					other = append(other, in)
				}
			default:
				undecided = append(undecided, in)
			}
		})
	}
	return
}

// forwardedQueue: the queue is field F of struct S (not a mailbox), and every store to S.F in
// the module stores a parameter whose arguments at all call sites are mailbox queue loads.
// Returns the mailbox queue name, "" otherwise.
func forwardedQueue(a *Anchors, leaves []qleaf) string {
	if len(leaves) != 1 || leaves[0].Owner == nil || len(leaves[0].Path) == 0 {
		return ""
	}
	owner := leaves[0].Owner
	fld := leaves[0].Path[len(leaves[0].Path)-1]
	res := ""
	stores := 0
	for _, f := range a.P.SrcFuncs {
		bad := false
		eachInstr(f, func(in ssa.Instruction) {
			st, ok := in.(*ssa.Store)
			if !ok {
				return
			}
			if n, fl := fieldOwner(st.Addr); n != owner || fl != fld {
				return
			}
			stores++
			par, ok := st.Val.(*ssa.Parameter)
			if !ok {
				bad = true
				return
			}
			idx := -1
			for i, q := range f.Params {
				if q == par {
					idx = i
				}
			}
			// all static call sites of f
			sites := 0
			for _, g := range a.P.SrcFuncs {
				eachInstr(g, func(in2 ssa.Instruction) {
					cc := callCommon(in2)
					if cc == nil || staticCallee(cc) != f {
						return
					}
					sites++
					ls := queueLeaves(cc.Args[idx])
					for _, l := range ls {
						if l.Owner == a.MailboxT && len(l.Path) > 0 {
							res = l.Path[len(l.Path)-1]
						} else {
							bad = true
						}
					}
				})
			}
			if sites == 0 {
				bad = true
			}
		})
		if bad {
			return ""
		}
	}
	if stores == 0 {
		return ""
	}
	return res
}

// isWakeOf reports whether instruction `in` wakes the process/meta object `base`.
func isWakeOf(a *Anchors, in ssa.Instruction, mp mailboxPush) bool {
	cc := callCommon(in)
	if cc == nil {
		return false
	}
	if f := staticCallee(cc); f != nil && (f == a.ProcWake || f == a.MetaWake) {
		if len(cc.Args) == 0 {
			return false
		}
		rv := canon(cc.Args[0])
		return mp.Base != nil && rv == mp.Base
	}
	if mp.Kind == "forwarded" {
		// call of a func-valued field of the same struct object the queue was read from,
		// where that field is initialised with the bound wake method of the same process
		if cc.IsInvoke() {
			return false
		}
		ls := queueLeaves(cc.Value)
		if len(ls) == 1 && ls[0].Owner != nil && ls[0].Base == mp.Base {
			return forwardedWake(a, ls[0])
		}
	}
	return false
}

// forwardedWake: field F of S is only ever stored from a parameter whose arguments are bound
// method values of the wake function, with the same receiver as the queue argument.
func forwardedWake(a *Anchors, l qleaf) bool {
	owner := l.Owner
	fld := l.Path[len(l.Path)-1]
	ok := false
	for _, f := range a.P.SrcFuncs {
		bad := false
		eachInstr(f, func(in ssa.Instruction) {
			st, isSt := in.(*ssa.Store)
			if !isSt {
				return
			}
			if n, fl := fieldOwner(st.Addr); n != owner || fl != fld {
				return
			}
			par, isPar := st.Val.(*ssa.Parameter)
			if !isPar {
				bad = true
				return
			}
			idx := -1
			for i, q := range f.Params {
				if q == par {
					idx = i
				}
			}
			for _, g := range a.P.SrcFuncs {
				eachInstr(g, func(in2 ssa.Instruction) {
					cc := callCommon(in2)
					if cc == nil || staticCallee(cc) != f {
						return
					}
					mc, isMC := cc.Args[idx].(*ssa.MakeClosure)
					if !isMC {
						bad = true
						return
					}
					bf, _ := mc.Fn.(*ssa.Function)
					// bound method wrapper: its object is the wake function
					if bf == nil || bf.Object() == nil || a.ProcWake == nil || bf.Object() != a.ProcWake.Object() {
						bad = true
						return
					}
					// receiver must be the base of the queue argument(s)
					recv := canon(mc.Bindings[0])
					for _, arg := range cc.Args {
						for _, ql := range queueLeaves(arg) {
							if ql.Owner == a.MailboxT && ql.Base != recv {
								bad = true
							}
						}
					}
					ok = true
				})
			}
		})
		if bad {
			return false
		}
	}
	return ok
}

func runC02(p *load.Program, r *core.Report) {
	a, problems := getAnchors(p)
	for _, pr := range problems {
		r.Unk("C02.anchors", "C02.anchors|"+pr, "", "", "anchors resolve", pr)
	}
	if len(problems) > 0 {
		return
	}
	pushes, other, und := findMailboxPushes(a, r)
	for _, in := range und {
		r.Unk("C02.D1 push=>wake", "C02.D1|"+fname(in.Parent())+"|mixed-origin", fname(in.Parent()), p.Pos(in.Pos()),
			"queue value of this Push has mailbox and non-mailbox origins", "cannot classify the queue")
	}
	r.Notes = append(r.Notes, fmt.Sprintf("Push sites on lib.QueueMPSC: %d mailbox, %d non-mailbox (cron spool, event buffer, pool ring, receive queues)", len(pushes), len(other)))

	ruleD1 := "C02.D1 push=>wake"
	ruleD2 := "C02.D2 truthful-result"
	r.Floor(ruleD1, 18)
	r.Floor(ruleD2, 15)
	seq := map[string]int{}
	for _, mp := range pushes {
		fn := fname(mp.Fn)
		inst := fmt.Sprintf("push on %s mailbox queue %s", mp.Kind, strings.Join(uniq(mp.Queues), "|"))
		seq[fn+inst]++
		key := fmt.Sprintf("C02.D1|%s|%s#%d", fn, inst, seq[fn+inst])
		pos := p.Pos(mp.In.Pos())

		// success starts
		var succ, fail []Point
		if mp.Result != nil {
			t, f, complete := boolEdges(mp.Result)
			if !complete || len(t) == 0 {
				r.Unk(ruleD1, key, fn, pos, inst, "result of Push is used in a way that is not a branch")
				continue
			}
			for _, e := range t {
				succ = append(succ, Point{e.To(), 0})
			}
			for _, e := range f {
				fail = append(fail, Point{e.To(), 0})
			}
		} else {
			succ = []Point{after(mp.In)}
		}
		if mp.Base == nil {
			r.Unk(ruleD1, key, fn, pos, inst, "queues of different objects may be pushed here")
			continue
		}
		r.Paths++
		// a wake-up may be left to the function that is initialising the target: it keeps the
		// process in a table T until it has registered it, takes it out of T and wakes it (D6). A
		// sender that, AFTER its push, still finds the target in T may return without a wake-up.
		cut := map[Edge]bool{}
		eachInstr(mp.Fn, func(in ssa.Instruction) {
			c, ok := in.(*ssa.Call)
			if !ok || !isSyncMapLoad(c.Common()) || !instrReachable(mp.In, in) {
				return
			}
			if own, _ := fieldOwner(c.Common().Args[0]); own != a.NodeT {
				return
			}
			_, path, okp := fieldPath(c.Common().Args[0])
			if !okp || len(path) == 0 || !wakeHandedOver(a, path[len(path)-1]) {
				return
			}
			if okv := tupleExtract(c, 1); okv != nil {
				if hit, _, complete := boolEdges(okv); complete {
					for _, e := range hit {
						cut[e] = true
					}
				}
			}
		})
		bad := reachAvoidEdges(succ, cut, func(in ssa.Instruction) bool { return isWakeOf(a, in, mp) }, isReturn)
		if bad != nil {
			r.Bad(ruleD1, key, fn, pos, inst,
				fmt.Sprintf("a path from the accepted push reaches the return at %s without waking the process that owns the queue: the message stays in a sleeping process's mailbox", p.Pos(bad.Pos())))
		} else {
			r.OK(ruleD1, key, fn, pos, inst, "every path from the accepted push to a return calls the wake-up function on the same object")
		}

		// D2
		if mp.Result == nil {
			continue
		}
		key2 := strings.Replace(key, "C02.D1|", "C02.D2|", 1)
		errIdx := errResultIndex(mp.Fn)
		if errIdx < 0 {
			continue
		}
		// the function's result is a delivery report only for a message the caller handed in: an
		// internal control message built from a constant (the exit sent to a meta process whose owner
		// has gone) is not what the result speaks about
		if pl := storedMessageOf(mp.Msg); pl != nil {
			if _, isGlobalLoad := reasonOriginGlobal(pl); isGlobalLoad && mp.Kind == "meta" {
				r.Notes = append(r.Notes, fmt.Sprintf("D2 not applied to %s at %s: the pushed message is an internal constant (%s), the function's result does not report its delivery", fn, pos, "package-level error value"))
				continue
			}
		}
		var probs []string
		// refused branch must not return nil; must not wake as if delivered is fine
		for _, ret := range walkAvoid(fail, nil, isReturn) {
			rv := ret.(*ssa.Return).Results[errIdx]
			if k := errKind(rv); k == "nil" {
				probs = append(probs, fmt.Sprintf("the refused-push branch returns nil at %s (send reports success for a dropped message)", p.Pos(ret.Pos())))
			}
		}
		for _, ret := range walkAvoid(succ, nil, isReturn) {
			rv := ret.(*ssa.Return).Results[errIdx]
			if k := errKind(rv); k == "global" {
				// only a violation when this return is not also reachable from the failure edge
				fromFail := false
				for _, x := range walkAvoid(fail, nil, isReturn) {
					if x == ret {
						fromFail = true
					}
				}
				if !fromFail {
					probs = append(probs, fmt.Sprintf("the accepted-push branch returns an error constant at %s (send reports failure for a delivered message)", p.Pos(ret.Pos())))
				}
			}
		}
		if len(probs) > 0 {
			r.Bad(ruleD2, key2, fn, pos, inst, strings.Join(probs, "; "))
		} else {
			r.OK(ruleD2, key2, fn, pos, inst, "refused branch returns a non-nil error or the fallback's result; accepted branch returns no error constant")
		}
	}

	pooledIntra(a.P, r, "C02.D11 mailbox-message-released-once", "C02.D11", 5, "mailbox message", func(*ssa.Function) bool { return true })
	c02Lookup(a, r, pushes)
	c02SleepRecheck(a, r)
	c02Fallback(a, r, pushes)
	c02SendAfter(a, r)
	c02InitKick(a, r)
	c02PushTruthful(a, r)
	c02AlivePredicate(a, r)
	c02AliveGuard(a, r, pushes)
	c02MessageFields(a, r, pushes)
}

// c02AliveGuard: D10 — the functions that deliver a regular message, a request, an inspect request
// or a forwarded message into a process mailbox decide "is the target still there" with the alive
// predicate (D8) and nothing weaker: the push is dominated by the true edge of target.isAlive().
// (Exit and event deliveries go through their own helpers and are listed as exempt: an exit for a
// dying process is harmless, events are fanned out from the relation table.)
func c02AliveGuard(a *Anchors, r *core.Report, pushes []mailboxPush) {
	aliveGuard(a, r, "C02.D10 liveness-by-the-alive-predicate", "C02.D10", 9, pushes, nil)
}

// aliveGuard: see c02AliveGuard; only restricts the functions considered (nil: all).
func aliveGuard(a *Anchors, r *core.Report, rule, rid string, floor int, pushes []mailboxPush, only func(*ssa.Function) bool) {
	r.Floor(rule, floor)
	exempt := map[string]string{
		"sendExitMessage":   "exit signal: the target is terminating or will; no liveness test by design",
		"sendEventMessage":  "event fan-out from the relation table",
		"RouteSendExit":     "exit signal",
		"unregisterProcess": "exit to the process's own meta processes",
		"spawn":             "exit to the meta processes of a process that failed to start",
		"Log":               "log record for a logger process: the logger is removed from the node's logger table when its process is released",
	}
	seq := map[string]int{}
	for _, mp := range pushes {
		if mp.Kind == "meta" {
			continue
		}
		f := mp.Fn
		if _, ex := exempt[root(f).Name()]; ex {
			continue
		}
		if only != nil && !only(f) {
			continue
		}
		// only pushes whose target process was looked up or handed in (not the process's own mailbox)
		fn := fname(f)
		seq[fn]++
		key := fmt.Sprintf("%s|%s|push#%d", rid, fn, seq[fn])
		inst := "the push into another process's mailbox happens only after that process's alive predicate said yes"
		ok := false
		eachInstr(f, func(in ssa.Instruction) {
			c, isCall := in.(*ssa.Call)
			if !isCall || !callsNamed(in, "isAlive") || len(c.Common().Args) == 0 {
				return
			}
			if canon(c.Common().Args[0]) != canon(mp.Base) {
				return
			}
			t, _, _ := boolEdges(c)
			if len(t) > 0 && edgesDominate(t, mp.In) {
				ok = true
			}
		})
		if ok {
			r.OK(rule, key, fn, a.P.Pos(mp.In.Pos()), inst, "dominated by the true edge of isAlive() on the same process")
		} else {
			r.Bad(rule, key, fn, a.P.Pos(mp.In.Pos()), inst, "the push is not behind isAlive() of the target: a process that was killed while busy (Zombee) or is terminating accepts the message, the sender is told 'delivered', and nobody ever handles it")
		}
	}
}

// c02AlivePredicate: D8 — the predicate that decides whether a process accepts messages counts
// exactly the live states (never Terminated or Zombee).
func c02AlivePredicate(a *Anchors, r *core.Report) {
	rule := "C02.D8 alive-predicate"
	r.Floor(rule, 1)
	ws := procWordSpec(a)
	for _, f := range funcsOfPkgs(a.P, "node") {
		if f.Parent() != nil || !recvIs(f, a.ProcessT) || f.Name() != "isAlive" {
			continue
		}
		fn := fname(f)
		key := "C02.D8|" + fn
		inst := "a process accepts messages exactly in the states Init, Sleep, Running, WaitResponse"
		// (state & mask) == state with a constant mask
		var mask int64 = -1
		eachInstr(f, func(in ssa.Instruction) {
			b, ok := in.(*ssa.BinOp)
			if !ok || b.Op != token.AND {
				return
			}
			if c, ok := constInt(b.Y); ok {
				mask = c
			} else if c, ok := constInt(b.X); ok {
				mask = c
			}
		})
		want := ws.initv | ws.sleep | ws.running | ws.wait
		switch {
		case mask < 0:
			r.Unk(rule, key, fn, a.P.Pos(f.Pos()), inst, "no constant state mask found in the predicate")
		case mask&(ws.terminated|ws.zombie) != 0:
			r.Bad(rule, key, fn, a.P.Pos(f.Pos()), inst, fmt.Sprintf("the mask %d contains Terminated/Zombee: a send to a dead process reports success and the message is never handled", mask))
		case mask != want:
			r.Bad(rule, key, fn, a.P.Pos(f.Pos()), inst, fmt.Sprintf("the mask is %d, the live states are %d: sends to a live process are refused (or accepted in a state that never handles them)", mask, want))
		default:
			r.OK(rule, key, fn, a.P.Pos(f.Pos()), inst, fmt.Sprintf("mask %d = Init|Sleep|Running|WaitResponse", mask))
		}
	}
}

// c02MessageFields: D9 — the mailbox message a routing function enqueues is built from that call's
// own arguments: sender, payload, and (for requests) the reference.
func c02MessageFields(a *Anchors, r *core.Report, pushes []mailboxPush) {
	rule := "C02.D9 message-built-from-arguments"
	r.Floor(rule, 10)
	tnames := enumConsts(a.P.Named("gen", "MailboxMessageType"))
	seq := map[string]int{}
	for _, mp := range pushes {
		f := mp.Fn
		if f.Parent() != nil || !recvIs(f, a.NodeT) {
			continue
		}
		qm := stripIface(mp.Msg)
		if _, isCall := qm.(*ssa.Call); !isCall {
			continue // not built here (Forward)
		}
		fn := fname(f)
		seq[fn]++
		key := fmt.Sprintf("C02.D9|%s|push#%d", fn, seq[fn])
		stores := map[string]ssa.Value{}
		if refs := qm.Referrers(); refs != nil {
			for _, rf := range *refs {
				if fa, ok := rf.(*ssa.FieldAddr); ok {
					_, fl := fieldOwner(fa)
					for _, rr := range *fa.Referrers() {
						if st, ok := rr.(*ssa.Store); ok && st.Addr == ssa.Value(fa) {
							stores[fl] = st.Val
						}
					}
				}
			}
		}
		fromPar := paramOfType(f, "gen.PID", 0)
		var msgPar *ssa.Parameter
		ps := f.Params[1:]
		msgPar = ps[len(ps)-1]
		var probs []string
		if v, ok := stores["From"]; !ok || !isParamValue(v, fromPar) {
			probs = append(probs, "From is not the sender given to this call: the receiver sees (and replies to) another process")
		}
		if v, ok := stores["Message"]; !ok || !(stripIface(v) == ssa.Value(msgPar) || isParamValue(stripIface(v), msgPar)) {
			probs = append(probs, "Message is not the payload given to this call")
		}
		t, okT := stores["Type"]
		tname := ""
		if okT {
			if c, ok := constInt(t); ok {
				tname = tnames[c]
			}
		}
		wantType := ""
		switch {
		case strings.HasPrefix(f.Name(), "RouteSend"):
			wantType = "MailboxMessageTypeRegular"
		case strings.HasPrefix(f.Name(), "RouteCall"):
			wantType = "MailboxMessageTypeRequest"
		case f.Name() == "sendExitMessage":
			wantType = "MailboxMessageTypeExit"
		case f.Name() == "sendEventMessage":
			wantType = "MailboxMessageTypeEvent"
		}
		if wantType != "" && tname != wantType {
			probs = append(probs, "Type is "+tname+", expected "+wantType+": the receiver dispatches it to the wrong handler")
		}
		if strings.HasPrefix(f.Name(), "RouteCall") {
			v, ok := stores["Ref"]
			okRef := false
			if ok {
				_, path, okp := fieldPath(v)
				b, _, _ := fieldPath(v)
				if okp && len(path) > 0 && path[len(path)-1] == "Ref" && spilledParam(b) != nil && namedOf(spilledParam(b).Type()) == "gen.MessageOptions" {
					okRef = true
				}
				if okp && len(path) > 0 && path[len(path)-1] == "Ref" {
					if pa, isP := b.(*ssa.Parameter); isP && namedOf(pa.Type()) == "gen.MessageOptions" {
						okRef = true
					}
				}
			}
			if !okRef {
				probs = append(probs, "Ref is not the reference given in the options: the reply cannot be matched by the caller")
			}
		}
		inst := "the enqueued mailbox message carries this call's sender, payload" + map[bool]string{true: ", reference", false: ""}[strings.HasPrefix(f.Name(), "RouteCall")] + " and the right type"
		if len(probs) > 0 {
			r.Bad(rule, key, fn, a.P.Pos(mp.In.Pos()), inst, strings.Join(probs, "; "))
		} else {
			r.OK(rule, key, fn, a.P.Pos(mp.In.Pos()), inst, "From, Message, Type"+map[bool]string{true: ", Ref", false: ""}[strings.HasPrefix(f.Name(), "RouteCall")]+" verified")
		}
	}
}

// c02PushTruthful: D7 — in every QueueMPSC implementation Push returns true only after the item was
// linked into the list (head swap + next store), and returns false without having touched the list.
func c02PushTruthful(a *Anchors, r *core.Report) {
	rule := "C02.D7 push-result-truthful"
	r.Floor(rule, 2)
	qi, _ := a.QueueIface.Underlying().(*types.Interface)
	for _, f := range funcsOfPkgs(a.P, "lib") {
		if f.Parent() != nil || f.Name() != "Push" || f.Signature.Recv() == nil || qi == nil || !types.Implements(f.Signature.Recv().Type(), qi) {
			continue
		}
		fn := fname(f)
		key := "C02.D7|" + fn
		inst := "Push reports true exactly when the item was enqueued"
		isSwap := func(in ssa.Instruction) bool { cc := callCommon(in); return cc != nil && isAtomic(cc, "SwapPointer") }
		isLink := func(in ssa.Instruction) bool { cc := callCommon(in); return cc != nil && isAtomic(cc, "StorePointer") }
		var probs []string
		eachInstr(f, func(in ssa.Instruction) {
			ret, ok := in.(*ssa.Return)
			if !ok {
				return
			}
			bv, okb := constBool(ret.Results[0])
			if !okb {
				probs = append(probs, "the result is not a constant at "+a.P.Pos(ret.Pos()))
				return
			}
			missSwap := reaches([]Point{{f.Blocks[0], 0}}, isSwap, func(i ssa.Instruction) bool { return i == ssa.Instruction(ret) }) != nil
			missLink := reaches([]Point{{f.Blocks[0], 0}}, isLink, func(i ssa.Instruction) bool { return i == ssa.Instruction(ret) }) != nil
			if bv && (missSwap || missLink) {
				probs = append(probs, "true is returned at "+a.P.Pos(ret.Pos())+" on a path that did not enqueue the item (the message is dropped but the send reports success)")
			}
			if !bv {
				// no enqueue on any path to a false return
				var swapBefore bool
				eachInstr(f, func(i2 ssa.Instruction) {
					if isSwap(i2) && instrReachable(i2, ret) {
						swapBefore = true
					}
				})
				if swapBefore {
					probs = append(probs, "false is returned at "+a.P.Pos(ret.Pos())+" after the item was enqueued (the message is handled although the send reported a full mailbox)")
				}
			}
		})
		// the enqueued item carries the pushed value
		okVal := false
		var par *ssa.Parameter
		for _, pa := range f.Params {
			if pa.Name() != f.Params[0].Name() {
				par = pa
			}
		}
		eachInstr(f, func(in ssa.Instruction) {
			if st, ok := in.(*ssa.Store); ok && st.Val == ssa.Value(par) {
				if _, fl := fieldOwner(st.Addr); fl == "value" {
					okVal = true
				}
			}
		})
		if !okVal {
			probs = append(probs, "the new item does not carry the pushed value")
		}
		if len(probs) > 0 {
			r.Bad(rule, key, fn, a.P.Pos(f.Pos()), inst, strings.Join(uniq(probs), "; "))
		} else {
			r.OK(rule, key, fn, a.P.Pos(f.Pos()), inst, "true only after swap+link, false only before any enqueue")
		}
	}
}

// wakeHandedOver: some function that switches a fresh process to Sleep (the D6 function) removes the
// process from the node's table `table` and wakes it afterwards (the Delete dominates the wake-up).
func wakeHandedOver(a *Anchors, table string) bool {
	ws := procWordSpec(a)
	for _, op := range stateOps(a.P, ws.owner, ws.field) {
		if !(op.Kind == "plainstore" || op.Kind == "store") || !op.HasNew || op.New != ws.sleep {
			continue
		}
		f := op.Fn
		var del ssa.Instruction
		eachInstr(f, func(in ssa.Instruction) {
			c, ok := in.(*ssa.Call)
			if !ok {
				return
			}
			if m, okm := syncMapCall(c.Common()); !okm || m != "Delete" {
				return
			}
			if own, _ := fieldOwner(c.Common().Args[0]); own != a.NodeT {
				return
			}
			if _, path, okp := fieldPath(c.Common().Args[0]); okp && len(path) > 0 && path[len(path)-1] == table && instrReachable(op.In, in) {
				del = in
			}
		})
		if del == nil {
			continue
		}
		ok := false
		eachInstr(f, func(in ssa.Instruction) {
			cc := callCommon(in)
			if cc != nil && staticCallee(cc) == a.ProcWake && len(cc.Args) > 0 && canon(cc.Args[0]) == op.Base && instrDominates(del, in) {
				ok = true
			}
		})
		if ok {
			return true
		}
	}
	return false
}

// c02InitKick: D6 — messages accepted while the process was still initialising (state Init: the
// senders' wake-ups were no-ops) are picked up by a wake-up after the state became Sleep. From the
// initial store of Sleep every path to a return either wakes the process or has seen every queue empty.
func c02InitKick(a *Anchors, r *core.Report) {
	rule := "C02.D6 init-kick"
	r.Floor(rule, 4)
	ws := procWordSpec(a)
	for _, op := range stateOps(a.P, ws.owner, ws.field) {
		if !(op.Kind == "plainstore" || op.Kind == "store") || !op.HasNew || op.New != ws.sleep {
			continue
		}
		f := op.Fn
		fn := fname(f)
		base := op.Base
		isWake := func(in ssa.Instruction) bool {
			cc := callCommon(in)
			if cc == nil || staticCallee(cc) != a.ProcWake || len(cc.Args) == 0 {
				return false
			}
			return canon(cc.Args[0]) == base
		}
		for _, q := range a.MailboxQs {
			key := "C02.D6|" + fn + "|" + q
			inst := "after the freshly initialised process is switched to Sleep, a message queued in " + q + " during init is picked up without later traffic"
			cut := map[Edge]bool{}
			eachInstr(f, func(in ssa.Instruction) {
				cc := callCommon(in)
				if cc == nil || !cc.IsInvoke() || cc.Method.Name() != "Item" {
					return
				}
				ls := queueLeaves(cc.Value)
				if len(ls) != 1 || ls[0].Owner != a.MailboxT || len(ls[0].Path) == 0 || ls[0].Path[len(ls[0].Path)-1] != q || ls[0].Base != base {
					return
				}
				if v, ok := in.(ssa.Value); ok {
					e, _, _ := nilEdges(v)
					for _, x := range e {
						cut[x] = true
					}
				}
			})
			r.Paths++
			bad := reachAvoidEdges([]Point{after(op.In)}, cut, isWake, isReturn)
			if bad != nil {
				r.Bad(rule, key, fn, a.P.Pos(op.In.Pos()), inst, "the return at "+a.P.Pos(bad.Pos())+" is reachable without waking the process and without having seen "+q+" empty: a send that succeeded during init stays in the mailbox of a sleeping process")
			} else {
				r.OK(rule, key, fn, a.P.Pos(op.In.Pos()), inst, "every path wakes the process (or saw the queue empty)")
			}
		}
	}
}

func uniq(s []string) []string {
	m := map[string]bool{}
	var out []string
	for _, x := range s {
		if !m[x] {
			m[x] = true
			out = append(out, x)
		}
	}
	return out
}

func errResultIndex(f *ssa.Function) int {
	res := f.Signature.Results()
	for i := res.Len() - 1; i >= 0; i-- {
		if types.Identical(res.At(i).Type(), types.Universe.Lookup("error").Type()) {
			return i
		}
	}
	return -1
}

// errKind classifies an error-typed return operand: "nil", "global" (load of a package-level
// error variable), "phi-nil" (may be nil), "other".
func errKind(v ssa.Value) string {
	v = unspill(v)
	switch x := v.(type) {
	case *ssa.Const:
		if x.Value == nil {
			return "nil"
		}
	case *ssa.UnOp:
		if x.Op == token.MUL {
			if _, ok := x.X.(*ssa.Global); ok {
				return "global"
			}
		}
	case *ssa.MakeInterface:
		return "other"
	}
	return "other"
}

// c02Lookup: in every function that pushes to a process mailbox after looking the target up
// in an identity table, the not-found edge and the not-alive edge return an error and reach no push.
func c02Lookup(a *Anchors, r *core.Report, pushes []mailboxPush) {
	rule := "C02.D2b failed-lookup=>error"
	fns := map[*ssa.Function]bool{}
	for _, mp := range pushes {
		fns[mp.Fn] = true
	}
	n := 0
	for _, f := range a.P.SrcFuncs {
		if !fns[f] {
			continue
		}
		errIdx := errResultIndex(f)
		if errIdx < 0 {
			continue
		}
		eachInstr(f, func(in ssa.Instruction) {
			cc := callCommon(in)
			if cc == nil {
				return
			}
			var okVal ssa.Value
			what := ""
			if isSyncMapLoad(cc) {
				// identity tables are sync.Map fields of the node struct
				if own, _ := fieldOwner(cc.Args[0]); own != a.NodeT {
					return
				}
				// the lookup that finds the addressee precedes the push; a lookup made after the
				// push (is the target still being initialised? see D1) is not a lookup of the target
				before := false
				for _, mp := range pushes {
					if mp.Fn == f && instrReachable(in, mp.In) {
						before = true
					}
				}
				if !before {
					return
				}
				if v, isV := in.(ssa.Value); isV {
					okVal = tupleExtract(v, 1)
					_, path, _ := fieldPath(cc.Args[0])
					what = "lookup in table " + strings.Join(path, ".")
				}
			} else if sf := staticCallee(cc); sf != nil && recvIs(sf, a.ProcessT) && sf.Name() == "isAlive" {
				// a re-validation of the owner after a new meta process was entered into its table is not a
				// test "of the target": its dead edge stops the new meta process by design (judged by C06.G3r)
				reval := false
				eachInstr(f, func(i2 ssa.Instruction) {
					c2 := callCommon(i2)
					if c2 == nil || len(c2.Args) < 3 || len(cc.Args) == 0 {
						return
					}
					if m, ok := syncMapCall(c2); !ok || (m != "Store" && m != "LoadOrStore") {
						return
					}
					if own, _ := fieldOwner(c2.Args[0]); own != a.ProcessT {
						return
					}
					if pt, ok := stripIface(c2.Args[2]).Type().(*types.Pointer); !ok || pt.Elem() != types.Type(a.MetaT) {
						return
					}
					b, _, _ := fieldPath(c2.Args[0])
					if canon(b) == canon(cc.Args[0]) && instrDominates(i2, in) {
						reval = true
					}
				})
				if reval {
					return
				}
				okVal, _ = in.(ssa.Value)
				what = "liveness test of the target"
			}
			if okVal == nil {
				return
			}
			_, fls, complete := boolEdges(okVal)
			feedsChain := false
			if refs := okVal.Referrers(); refs != nil {
				for _, rf := range *refs {
					if _, isPhi := rf.(*ssa.Phi); isPhi {
						feedsChain = true
					}
				}
			}
			if !complete || feedsChain {
				complete = false
				// a fallback chain: "look in table A, if it is not there look in table B" merges the
				// two results; the failure edge is the one on which the merged result is false.
				// Judged once, at the last lookup of the chain.
				if refs := okVal.Referrers(); refs != nil {
					for _, rf := range *refs {
						ph, isPhi := rf.(*ssa.Phi)
						if !isPhi {
							continue
						}
						last := false
						allLoads := true
						for i, e := range ph.Edges {
							ex, isEx := e.(*ssa.Extract)
							if !isEx {
								allLoads = false
								continue
							}
							ld, isCall := ex.Tuple.(*ssa.Call)
							if !isCall || !isSyncMapLoad(ld.Common()) {
								allLoads = false
							}
							if e == okVal && i == len(ph.Edges)-1 {
								last = true
							}
						}
						if allLoads && last {
							if _, f2, c2 := boolEdges(ph); c2 {
								fls, complete = f2, true
								what = "chained " + what
							}
						} else if allLoads {
							return
						}
					}
				}
			}
			if !complete || len(fls) == 0 {
				return
			}
			n++
			var starts []Point
			for _, e := range fls {
				starts = append(starts, Point{e.To(), 0})
			}
			fn := fname(f)
			key := fmt.Sprintf("C02.D2b|%s|%s", fn, what)
			var probs []string
			for _, h := range walkAvoid(starts, nil, func(i ssa.Instruction) bool {
				if ret, ok := i.(*ssa.Return); ok {
					return errKind(ret.Results[errIdx]) == "nil"
				}
				c := callCommon(i)
				return c != nil && c.IsInvoke() && c.Method.Name() == "Push" && c.Value.Type() == types.Type(a.QueueIface)
			}) {
				if _, ok := h.(*ssa.Return); ok {
					probs = append(probs, "returns nil at "+a.P.Pos(h.Pos()))
				} else {
					probs = append(probs, "reaches a mailbox push at "+a.P.Pos(h.Pos()))
				}
			}
			if len(probs) > 0 {
				r.Bad(rule, key, fn, a.P.Pos(in.Pos()), what+" fails", "the failure edge "+strings.Join(probs, "; "))
			} else {
				r.OK(rule, key, fn, a.P.Pos(in.Pos()), what+" fails", "failure edge returns a non-nil error and reaches no push")
			}
		})
	}
	r.Floor(rule, 23)
	_ = n
}

func isSyncMapLoad(cc *ssa.CallCommon) bool {
	f := staticCallee(cc)
	if f == nil || f.Pkg == nil || f.Pkg.Pkg.Path() != "sync" || f.Name() != "Load" || f.Signature.Recv() == nil {
		return false
	}
	return strings.HasSuffix(f.Signature.Recv().Type().String(), "sync.Map")
}

// nilEdges returns the edges on which the interface/pointer value v is nil / non-nil.
// nilEdgesCell is nilEdges for a value that may first be parked in a local cell (a variable
// captured by a closure is heap-allocated: the call result is stored and every test loads it).
func nilEdgesCell(v ssa.Value) (isNil, nonNil []Edge) {
	isNil, nonNil, _ = nilEdges(v)
	if refs := v.Referrers(); refs != nil {
		for _, rf := range *refs {
			st, ok := rf.(*ssa.Store)
			if !ok || st.Val != v {
				continue
			}
			cell, ok := st.Addr.(*ssa.Alloc)
			if !ok {
				continue
			}
			// loads of the cell in the same function that this store reaches first
			for _, cr := range *cell.Referrers() {
				ld, ok := cr.(*ssa.UnOp)
				if !ok || ld.Op != token.MUL || ld.Parent() != st.Parent() {
					continue
				}
				if unspill(ld) != v && !(ld.Block() != st.Block() && instrDominates(st, ld)) {
					continue
				}
				a, b, _ := nilEdges(ld)
				isNil = append(isNil, a...)
				nonNil = append(nonNil, b...)
			}
		}
	}
	return
}

func nilEdges(v ssa.Value) (isNil, nonNil []Edge, complete bool) {
	complete = true
	refs := v.Referrers()
	if refs == nil {
		return nil, nil, false
	}
	for _, rf := range *refs {
		switch x := rf.(type) {
		case *ssa.BinOp:
			var o ssa.Value
			if x.X == v {
				o = x.Y
			} else {
				o = x.X
			}
			if !isNilConst(o) || (x.Op != token.EQL && x.Op != token.NEQ) {
				complete = false
				continue
			}
			t, f, c := boolEdges(x)
			if !c {
				complete = false
			}
			if x.Op == token.EQL {
				isNil = append(isNil, t...)
				nonNil = append(nonNil, f...)
			} else {
				isNil = append(isNil, f...)
				nonNil = append(nonNil, t...)
			}
		case *ssa.DebugRef:
		default:
			complete = false
		}
	}
	return
}

// c02SleepRecheck: D3 for the process runner, the meta handler and the network receive worker.
func c02SleepRecheck(a *Anchors, r *core.Report) {
	rule := "C02.D3 sleep-recheck"
	r.Floor(rule, 7)
	type region struct {
		fn      *ssa.Function
		what    string
		release []Point // success edge(s) of the release transition
		reacq   func(ssa.Instruction) bool
		queues  []string
		qtest   func(q string) []Edge // "q is empty" edges
		relPos  token.Pos
	}
	var regs []region

	mk := func(loop *ssa.Function, owner *types.Named, fld string, states map[string]int64, sleep, running string, queues []string, qpathLen int, what string) {
		if loop == nil {
			return
		}
		var rel []Point
		var relPos token.Pos
		for _, op := range stateOps(a.P, owner, fld) {
			if op.Fn != loop || op.Kind != "cas" {
				continue
			}
			if op.Old == states[running] && op.New == states[sleep] {
				t, _, c := boolEdges(op.Result)
				if c {
					for _, e := range t {
						rel = append(rel, Point{e.To(), 0})
					}
					relPos = op.In.Pos()
				}
			}
		}
		reacq := func(in ssa.Instruction) bool {
			cc := callCommon(in)
			if cc == nil || !isAtomic(cc, "CompareAndSwapInt32") {
				return false
			}
			n, fl := fieldOwner(cc.Args[0])
			if n != owner || fl != fld {
				return false
			}
			o, _ := constInt(cc.Args[1])
			nw, _ := constInt(cc.Args[2])
			return o == states[sleep] && nw == states[running]
		}
		qtest := func(q string) []Edge {
			var es []Edge
			eachInstr(loop, func(in ssa.Instruction) {
				cc := callCommon(in)
				if cc == nil || !cc.IsInvoke() || cc.Method.Name() != "Item" {
					return
				}
				ls := queueLeaves(cc.Value)
				if len(ls) != 1 || len(ls[0].Path) == 0 || ls[0].Path[len(ls[0].Path)-1] != q {
					return
				}
				if ls[0].Owner != a.MailboxT && ls[0].Owner != a.MetaT {
					return
				}
				v, _ := in.(ssa.Value)
				if v == nil {
					return
				}
				e, _, _ := nilEdges(v)
				es = append(es, e...)
			})
			return es
		}
		regs = append(regs, region{fn: loop, what: what, release: rel, reacq: reacq, queues: queues, qtest: qtest, relPos: relPos})
	}
	mk(a.ProcLoop, a.ProcessT, a.ProcStateFld, a.ProcState, "ProcessStateSleep", "ProcessStateRunning", a.MailboxQs, 2, "process runner")
	mk(a.MetaLoop, a.MetaT, a.MetaStateFld, a.MetaState, "MetaStateSleep", "MetaStateRunning", a.MetaQs, 1, "meta handler")

	for _, rg := range regs {
		fn := fname(rg.fn)
		if len(rg.release) == 0 {
			r.Unk(rule, "C02.D3|"+rg.what+"|release", fn, "", rg.what+": release transition Running->Sleep", "no compare-and-swap Running->Sleep with a branch on its result found in the runner")
			continue
		}
		for _, q := range rg.queues {
			key := "C02.D3|" + rg.what + "|" + q
			empties := rg.qtest(q)
			cut := map[Edge]bool{}
			for _, e := range empties {
				cut[e] = true
			}
			r.Paths++
			bad := reachAvoidEdges(rg.release, cut, rg.reacq, isReturn)
			if bad != nil {
				r.Bad(rule, key, fn, a.P.Pos(rg.relPos), fmt.Sprintf("%s: after the release, queue %s is seen empty or the runner re-acquires before returning", rg.what, q),
					fmt.Sprintf("a path from the successful release reaches the return at %s without having tested queue %s for emptiness after the release and without re-acquiring: a message pushed to %s just before the release is never handled", a.P.Pos(bad.Pos()), q, q))
			} else {
				r.OK(rule, key, fn, a.P.Pos(rg.relPos), fmt.Sprintf("%s: after the release, queue %s is seen empty or the runner re-acquires before returning", rg.what, q),
					fmt.Sprintf("%d emptiness test edge(s) of %s cut; no return reachable otherwise", len(empties), q))
			}
		}
	}

	// network receive worker: Unlock ... Item()==nil ... Lock
	recvWorkerRecheck(a, r, rule, "C02.D3")
}

// recvWorkerRecheck: the network receive worker re-examines its queue after Unlock (shared by
// C02.D3 and C12.R9: a frame stranded in a receive queue is a message that is never delivered).
func recvWorkerRecheck(a *Anchors, r *core.Report, rule, rid string) {
	// producer side: the frame is in the queue before the producer tries the lock (a lock attempt
	// made first can fail against a worker that has already seen the queue empty and is leaving)
	for _, f := range funcsOfPkgs(a.P, "net/proto") {
		var pushes, locks []ssa.Instruction
		eachInstr(f, func(in ssa.Instruction) {
			cc := callCommon(in)
			if cc == nil || !cc.IsInvoke() || cc.Value.Type() != types.Type(a.QueueIface) {
				return
			}
			switch cc.Method.Name() {
			case "Push":
				pushes = append(pushes, in)
			case "Lock":
				locks = append(locks, in)
			}
		})
		if len(pushes) == 0 {
			continue
		}
		for _, pu := range pushes {
			q := callCommon(pu).Value
			key := rid + "|recv-producer|" + fname(f)
			inst := "receive producer: the frame is pushed before the queue lock is tried, and the lock is tried after every push"
			var probs []string
			n := 0
			for _, l := range locks {
				if callCommon(l).Value != q {
					continue
				}
				n++
				if !instrDominates(pu, l) {
					probs = append(probs, "the lock attempt at "+a.P.Pos(l.Pos())+" is not preceded by the push")
				}
			}
			if n == 0 {
				continue // a function that only pushes (no worker hand-off here)
			}
			isLock := func(in ssa.Instruction) bool {
				cc := callCommon(in)
				return cc != nil && cc.IsInvoke() && cc.Method.Name() == "Lock" && cc.Value == q
			}
			if hit := reaches([]Point{after(pu)}, isLock, func(in ssa.Instruction) bool { return isReturn(in) || in == pu }); hit != nil {
				probs = append(probs, "a path from the push reaches "+a.P.Pos(hit.Pos())+" without trying the lock")
			}
			if len(probs) > 0 {
				r.Bad(rule, key, fname(f), a.P.Pos(pu.Pos()), inst, strings.Join(probs, "; ")+": a frame can be left in the queue with no worker")
			} else {
				r.OK(rule, key, fname(f), a.P.Pos(pu.Pos()), inst, "push dominates the lock attempt; every path from the push tries the lock")
			}
		}
	}
	for _, f := range funcsOfPkgs(a.P, "net/proto") {
		var unlocks []ssa.Instruction
		eachInstr(f, func(in ssa.Instruction) {
			cc := callCommon(in)
			if cc != nil && cc.IsInvoke() && cc.Method.Name() == "Unlock" && cc.Value.Type() == types.Type(a.QueueIface) {
				unlocks = append(unlocks, in)
			}
		})
		for _, u := range unlocks {
			q := callCommon(u).Value
			cut := map[Edge]bool{}
			eachInstr(f, func(in ssa.Instruction) {
				cc := callCommon(in)
				if cc != nil && cc.IsInvoke() && cc.Method.Name() == "Item" && cc.Value == q {
					if v, ok := in.(ssa.Value); ok {
						e, _, _ := nilEdges(v)
						for _, x := range e {
							cut[x] = true
						}
					}
				}
			})
			reacq := func(in ssa.Instruction) bool {
				cc := callCommon(in)
				return cc != nil && cc.IsInvoke() && cc.Method.Name() == "Lock" && cc.Value == q
			}
			fn := fname(f)
			key := rid + "|recv-worker|" + fn
			r.Paths++
			bad := reachAvoidEdges([]Point{after(u)}, cut, reacq, isReturn)
			inst := "receive worker: after Unlock the queue is seen empty or the worker re-locks before returning"
			if bad != nil {
				r.Bad(rule, key, fn, a.P.Pos(u.Pos()), inst, fmt.Sprintf("the return at %s is reachable after Unlock without an emptiness test of the queue and without Lock: a frame pushed just before Unlock is never decoded", a.P.Pos(bad.Pos())))
			} else {
				r.OK(rule, key, fn, a.P.Pos(u.Pos()), inst, fmt.Sprintf("%d emptiness edge(s) cut", len(cut)))
			}
		}
	}
}

// reachAvoidEdges: forward search from starts that does not traverse cut edges and stops at
// instructions satisfying stop; returns the first instruction satisfying target.
func reachAvoidEdges(starts []Point, cut map[Edge]bool, stop func(ssa.Instruction) bool, target func(ssa.Instruction) bool) ssa.Instruction {
	seen := map[*ssa.BasicBlock]bool{}
	work := append([]Point(nil), starts...)
	for len(work) > 0 {
		pt := work[len(work)-1]
		work = work[:len(work)-1]
		if pt.I == 0 {
			if seen[pt.B] {
				continue
			}
			seen[pt.B] = true
		}
		stopped := false
		for i := pt.I; i < len(pt.B.Instrs); i++ {
			in := pt.B.Instrs[i]
			if stop != nil && stop(in) {
				stopped = true
				break
			}
			if target(in) {
				return in
			}
		}
		if stopped {
			continue
		}
		for i, s := range pt.B.Succs {
			if cut[Edge{pt.B, i}] {
				continue
			}
			if !seen[s] {
				work = append(work, Point{s, 0})
			}
		}
	}
	return nil
}

// c02Fallback: D4
func c02Fallback(a *Anchors, r *core.Report, pushes []mailboxPush) {
	rule := "C02.D4 fallback-wrap"
	r.Floor(rule, 3)
	fbT := a.P.Named("gen", "MessageFallback")
	if fbT == nil {
		r.Unk(rule, "C02.D4|type", "", "", "gen.MessageFallback exists", "type not found")
		return
	}
	for _, f := range a.P.SrcFuncs {
		// a fallback site: an Alloc/local of type gen.MessageFallback whose fields are stored
		var cells []*ssa.Alloc
		eachInstr(f, func(in ssa.Instruction) {
			if al, ok := in.(*ssa.Alloc); ok {
				if pt, ok := al.Type().(*types.Pointer); ok && pt.Elem() == types.Type(fbT) {
					cells = append(cells, al)
				}
			}
		})
		for i, cell := range cells {
			// a wrapper that is BUILT here (its fields are assigned), not one that is unpacked
			built := false
			for _, rf := range *cell.Referrers() {
				if fa, ok := rf.(*ssa.FieldAddr); ok {
					for _, rr := range *fa.Referrers() {
						if st, ok := rr.(*ssa.Store); ok && st.Addr == ssa.Value(fa) {
							built = true
						}
					}
				}
			}
			if !built {
				continue
			}
			fn := fname(f)
			key := fmt.Sprintf("C02.D4|%s#%d", fn, i+1)
			pos := a.P.Pos(cell.Pos())
			// the push whose refusal leads here
			var mp *mailboxPush
			for k := range pushes {
				if pushes[k].Fn == f && pushes[k].Result != nil {
					_, fl, _ := boolEdges(pushes[k].Result)
					for _, e := range fl {
						if e.To() == cell.Block() || e.To().Dominates(cell.Block()) {
							mp = &pushes[k]
						}
					}
				}
			}
			if mp == nil {
				r.Bad(rule, key, fn, pos, "fallback message is built on the refused-push branch", "the fallback wrapper is not dominated by the refusal edge of a mailbox push")
				continue
			}
			var probs []string
			fields := map[string]ssa.Value{}
			for _, rf := range *cell.Referrers() {
				fa, ok := rf.(*ssa.FieldAddr)
				if !ok {
					continue
				}
				_, fl := fieldOwner(fa)
				for _, rr := range *fa.Referrers() {
					if st, ok := rr.(*ssa.Store); ok && st.Addr == ssa.Value(fa) {
						fields[fl] = st.Val
					}
				}
			}
			// PID = base.pid ; Tag = base.fallback.Tag ; Message = the original message (the value stored in qm.Message)
			chk := func(fl string, wantPath []string) {
				v, ok := fields[fl]
				if !ok {
					probs = append(probs, "field "+fl+" is not set")
					return
				}
				b, path, _ := fieldPath(v)
				if b != mp.Base || strings.Join(path, ".") != strings.Join(wantPath, ".") {
					probs = append(probs, fmt.Sprintf("field %s is %s of another object or another field (want %s of the refused target)", fl, strings.Join(path, "."), strings.Join(wantPath, ".")))
				}
			}
			pidFld := fieldOfType(a.ProcessT, a.P.Named("gen", "PID"), "pid")
			chk("PID", []string{pidFld})
			chk("Tag", []string{"fallback", "Tag"})
			// original message: same SSA value as stored into the pushed mailbox message's Message field
			if mv, ok := fields["Message"]; !ok {
				probs = append(probs, "field Message is not set")
			} else if orig := storedMessageOf(mp.Msg); orig == nil || stripIface(orig) != stripIface(mv) {
				probs = append(probs, "field Message is not the message that was refused")
			}
			// guards: Enable true edge and Name != name dominate
			enOK, nameOK := false, false
			eachInstr(f, func(in ssa.Instruction) {
				iff, ok := in.(*ssa.If)
				if !ok {
					return
				}
				switch c := iff.Cond.(type) {
				case *ssa.BinOp:
					bx, px, _ := fieldPath(c.X)
					by, py, _ := fieldPath(c.Y)
					sx, sy := strings.Join(px, "."), strings.Join(py, ".")
					if (sx == "fallback.Enable" && bx == mp.Base) || (sy == "fallback.Enable" && by == mp.Base) {
						var o ssa.Value = c.Y
						if sy == "fallback.Enable" {
							o = c.X
						}
						if bv, ok := constBool(o); ok {
							// edge on which Enable is true
							idx := 0
							if (c.Op == token.EQL) != bv {
								idx = 1
							}
							if edgeDominates(Edge{iff.Block(), idx}, cell) {
								enOK = true
							}
						}
					}
					isNamePair := (sx == "fallback.Name" && sy == "name") || (sy == "fallback.Name" && sx == "name")
					if isNamePair && bx == mp.Base && by == mp.Base {
						idx := 1
						if c.Op == token.NEQ {
							idx = 0
						}
						if edgeDominates(Edge{iff.Block(), idx}, cell) {
							nameOK = true
						}
					}
				case *ssa.UnOp:
					// if p.fallback.Enable { ... }
					b, path, _ := fieldPath(c)
					if c.Op == token.MUL && strings.Join(path, ".") == "fallback.Enable" && b == mp.Base {
						if edgeDominates(Edge{iff.Block(), 0}, cell) {
							enOK = true
						}
					}
				}
			})
			if !enOK {
				probs = append(probs, "not guarded by fallback.Enable of the refused target")
			}
			if !nameOK {
				probs = append(probs, "not guarded by fallback.Name != the target's own name (a process would fall back to itself)")
			}
			// routed to the fallback name
			routed := false
			eachInstr(f, func(in ssa.Instruction) {
				cc := callCommon(in)
				if cc == nil {
					return
				}
				sf := staticCallee(cc)
				if sf == nil || !recvIs(sf, a.NodeT) || !strings.HasPrefix(sf.Name(), "Route") {
					return
				}
				if !cell.Block().Dominates(in.Block()) && cell.Block() != in.Block() {
					return
				}
				// some argument is a ProcessID whose Name is base.fallback.Name and the message is the cell
				usesCell, usesName := false, false
				for _, arg := range cc.Args {
					if mi, ok := arg.(*ssa.MakeInterface); ok {
						if ld, ok := mi.X.(*ssa.UnOp); ok && ld.X == ssa.Value(cell) {
							usesCell = true
						}
					}
					if ld, ok := arg.(*ssa.UnOp); ok {
						if al, ok := ld.X.(*ssa.Alloc); ok {
							for _, rf := range *al.Referrers() {
								if fa, ok := rf.(*ssa.FieldAddr); ok {
									if _, fl := fieldOwner(fa); fl == "Name" {
										for _, rr := range *fa.Referrers() {
											if st, ok := rr.(*ssa.Store); ok {
												b, path, _ := fieldPath(st.Val)
												if b == mp.Base && strings.Join(path, ".") == "fallback.Name" {
													usesName = true
												}
											}
										}
									}
								}
							}
						}
					}
				}
				if usesCell && usesName {
					routed = true
				}
			})
			if !routed {
				probs = append(probs, "the wrapper is not routed to the process named fallback.Name of the refused target")
			}
			// nothing else decides whether the refused message is redirected: between the refusal
			// edge and the wrapper every branch tests the target's fallback configuration
			// (fallback.Enable, fallback.Name against its own name) and nothing about the message
			{
				_, fl, _ := boolEdges(mp.Result)
				cycleTested := false
				seenB := map[*ssa.BasicBlock]bool{}
				var work []*ssa.BasicBlock
				for _, e := range fl {
					work = append(work, e.To())
				}
				for len(work) > 0 {
					b := work[len(work)-1]
					work = work[:len(work)-1]
					if seenB[b] || b == cell.Block() {
						continue
					}
					seenB[b] = true
					if len(b.Instrs) == 0 {
						continue
					}
					if iff, ok := b.Instrs[len(b.Instrs)-1].(*ssa.If); ok && b.Dominates(cell.Block()) {
						if isFallbackCycleTest(iff.Cond) {
							cycleTested = true
						} else if !derivesFromFallbackConfig(iff.Cond, 0) {
							probs = append(probs, "the redirect also depends on "+iff.Cond.String()+" at "+a.P.Pos(iff.Cond.Pos())+": a refused message can be left undelivered although a fallback is configured")
						}
					}
					work = append(work, b.Succs...)
				}
				if !cycleTested {
					probs = append(probs, "no test whether this process has redirected the message before: fallback processes that refer to each other and are all full hand the message round until the stack overflows (a fatal error: the node dies)")
				}
			}
			if len(probs) > 0 {
				r.Bad(rule, key, fn, pos, "fallback wrapper carries the refused target's pid, its tag and the original message, guarded and routed by name", strings.Join(probs, "; "))
			} else {
				r.OK(rule, key, fn, pos, "fallback wrapper carries the refused target's pid, its tag and the original message, guarded and routed by name", "PID, Tag, Message origins and both guards verified")
			}
		}
	}
}

// isFallbackCycleTest: the condition is the result of a function given (the refused target's pid, the
// message) that walks the nested gen.MessageFallback wrappers and compares their PID with that pid.
func isFallbackCycleTest(v ssa.Value) bool {
	if b, ok := v.(*ssa.BinOp); ok {
		if _, isC := b.Y.(*ssa.Const); isC {
			v = b.X
		}
	}
	c, ok := v.(*ssa.Call)
	if !ok {
		return false
	}
	g := staticCallee(c.Common())
	if g == nil || len(g.Blocks) == 0 || len(g.Params) != 2 || len(c.Common().Args) != 2 {
		return false
	}
	if _, path, okp := fieldPath(c.Common().Args[0]); !okp || len(path) == 0 || path[len(path)-1] != "pid" {
		return false
	}
	hit := false
	eachInstr(g, func(in ssa.Instruction) {
		b, ok := in.(*ssa.BinOp)
		if !ok || b.Op != token.EQL {
			return
		}
		for _, pr := range [][2]ssa.Value{{b.X, b.Y}, {b.Y, b.X}} {
			if !isParamValue(pr[0], g.Params[0]) && pr[0] != ssa.Value(g.Params[0]) {
				continue
			}
			if _, path, okp := fieldPath(pr[1]); okp && len(path) > 0 && path[len(path)-1] == "PID" {
				hit = true
			}
			if fv, ok := pr[1].(*ssa.Field); ok {
				if st, ok := fv.X.Type().Underlying().(*types.Struct); ok && st.Field(fv.Field).Name() == "PID" {
					hit = true
				}
			}
		}
	})
	return hit
}

// derivesFromFallbackConfig: the condition is built from the fields fallback.* / name of a process only.
func derivesFromFallbackConfig(v ssa.Value, d int) bool {
	if d > 5 {
		return false
	}
	switch x := v.(type) {
	case *ssa.Const:
		return true
	case *ssa.BinOp:
		return derivesFromFallbackConfig(x.X, d+1) && derivesFromFallbackConfig(x.Y, d+1)
	case *ssa.UnOp:
		if _, path, ok := fieldPath(x); ok && len(path) > 0 {
			j := strings.Join(path, ".")
			return strings.HasPrefix(j, "fallback.") || j == "name"
		}
		return derivesFromFallbackConfig(x.X, d+1)
	case *ssa.FieldAddr:
		if _, path, ok := fieldPath(x); ok && len(path) > 0 {
			j := strings.Join(path, ".")
			return strings.HasPrefix(j, "fallback.") || j == "name"
		}
	}
	return false
}

func stripIface(v ssa.Value) ssa.Value {
	if mi, ok := v.(*ssa.MakeInterface); ok {
		return mi.X
	}
	return v
}

// storedMessageOf: given the pushed *MailboxMessage value, the value stored in its Message field.
func storedMessageOf(qm ssa.Value) ssa.Value {
	qm = stripIface(qm)
	refs := qm.Referrers()
	if refs == nil {
		return nil
	}
	for _, rf := range *refs {
		if fa, ok := rf.(*ssa.FieldAddr); ok {
			if _, fl := fieldOwner(fa); fl == "Message" {
				for _, rr := range *fa.Referrers() {
					if st, ok := rr.(*ssa.Store); ok && st.Addr == ssa.Value(fa) {
						return st.Val
					}
				}
			}
		}
	}
	return nil
}

func fieldOfType(owner *types.Named, t *types.Named, dflt string) string {
	if owner == nil || t == nil {
		return dflt
	}
	st, _ := owner.Underlying().(*types.Struct)
	if st == nil {
		return dflt
	}
	for i := 0; i < st.NumFields(); i++ {
		if st.Field(i).Name() == dflt && types.Identical(st.Field(i).Type(), t) {
			return dflt
		}
	}
	for i := 0; i < st.NumFields(); i++ {
		if types.Identical(st.Field(i).Type(), t) {
			return st.Field(i).Name()
		}
	}
	return dflt
}

// c02SendAfter: D5
func c02SendAfter(a *Anchors, r *core.Report) {
	rule := "C02.D5 delayed-send"
	r.Floor(rule, 1)
	for _, f := range funcsOfPkgs(a.P, "node") {
		if f.Parent() != nil {
			continue
		}
		// functions that call time.AfterFunc with a closure containing Route* calls and return a CancelFunc
		eachInstr(f, func(in ssa.Instruction) {
			cc := callCommon(in)
			if cc == nil || !isPkgFunc(cc, "time", "AfterFunc") {
				return
			}
			mc, ok := cc.Args[1].(*ssa.MakeClosure)
			if !ok {
				return
			}
			cl := mc.Fn.(*ssa.Function)
			// does the closure route?
			var routes []ssa.Instruction
			eachInstr(cl, func(i2 ssa.Instruction) {
				c2 := callCommon(i2)
				if c2 == nil {
					return
				}
				if sf := staticCallee(c2); sf != nil && (recvIs(sf, a.NodeT) || recvIs(sf, a.ProcessT)) && (strings.HasPrefix(sf.Name(), "Route") || strings.HasPrefix(sf.Name(), "Send")) {
					routes = append(routes, i2)
				}
			})
			if len(routes) == 0 {
				return
			}
			res := f.Signature.Results()
			if res.Len() == 0 {
				return
			}
			fn := fname(f)
			key := "C02.D5|" + fn
			pos := a.P.Pos(in.Pos())
			var probs []string
			timer := in.(ssa.Value)
			// every return whose error is nil returns timer.Stop bound to this timer
			errIdx := errResultIndex(f)
			okRet := 0
			eachInstr(f, func(i3 ssa.Instruction) {
				ret, ok := i3.(*ssa.Return)
				if !ok {
					return
				}
				if errIdx >= 0 && errKind(ret.Results[errIdx]) != "nil" {
					return
				}
				if !instrReachable(in, i3) {
					return
				}
				v := ret.Results[0]
				if ct, ok := v.(*ssa.ChangeType); ok {
					v = ct.X
				}
				mc2, ok := v.(*ssa.MakeClosure)
				if !ok {
					probs = append(probs, "success return at "+a.P.Pos(ret.Pos())+" does not return a bound method of the timer")
					return
				}
				bf := mc2.Fn.(*ssa.Function)
				if bf.Object() == nil || bf.Object().Name() != "Stop" || mc2.Bindings[0] != timer {
					probs = append(probs, "success return at "+a.P.Pos(ret.Pos())+" returns something else than Stop of the timer armed here")
					return
				}
				okRet++
			})
			if okRet == 0 {
				probs = append(probs, "no success return hands out the timer's Stop")
			}
			// at most one route per path in the callback: no route reachable from after another route
			for _, r1 := range routes {
				h := walkAvoid([]Point{after(r1)}, nil, func(i ssa.Instruction) bool {
					for _, r2 := range routes {
						if i == r2 {
							return true
						}
					}
					return false
				})
				if len(h) > 0 {
					probs = append(probs, fmt.Sprintf("the timer callback may send twice (%s then %s)", a.P.Pos(r1.Pos()), a.P.Pos(h[0].Pos())))
				}
			}
			// every recognised addressing mode (type-switch arm) sends
			isRoute := func(i ssa.Instruction) bool {
				for _, r2 := range routes {
					if i == r2 {
						return true
					}
				}
				return false
			}
			arms := 0
			eachInstr(cl, func(i4 ssa.Instruction) {
				ta, ok := i4.(*ssa.TypeAssert)
				if !ok || !ta.CommaOk {
					return
				}
				okv := tupleExtract(ta, 1)
				if okv == nil {
					return
				}
				t, _, c := boolEdges(okv)
				if !c || len(t) == 0 {
					return
				}
				arms++
				var st []Point
				for _, e := range t {
					st = append(st, Point{e.To(), 0})
				}
				if ret := reaches(st, isRoute, isReturn); ret != nil {
					probs = append(probs, fmt.Sprintf("the arm for target type %s sends nothing", ta.AssertedType))
				}
			})
			if arms == 0 {
				if ret := reaches([]Point{{cl.Blocks[0], 0}}, isRoute, isReturn); ret != nil {
					probs = append(probs, "the timer callback has a path that sends nothing")
				}
			}
			// the callback recognises every kind of target the immediate Send recognises (the two
			// type switches are siblings): a kind that only Send knows is accepted by SendAfter —
			// it returns a cancel function and no error — and then never sent
			if sendF := a.P.Func("node", a.ProcessT.Obj().Name(), "Send"); sendF != nil && arms > 0 {
				kinds := func(g *ssa.Function) map[string]bool {
					out := map[string]bool{}
					eachInstr(g, func(x ssa.Instruction) {
						if ta, ok := x.(*ssa.TypeAssert); ok && ta.CommaOk {
							out[ta.AssertedType.String()] = true
						}
					})
					return out
				}
				have := kinds(cl)
				for k := range kinds(sendF) {
					if !have[k] {
						probs = append(probs, "Send accepts a target of type "+k+", the delayed send has no arm for it: SendAfter reports success and the message is never sent")
					}
				}
			}
			// the send of the callback is unconditional: a route made through a method of the
			// originating process must not be subject to that process's state test (Send* return
			// ErrNotAllowed once the originator has terminated — the delayed message would never be sent)
			for _, r1 := range routes {
				sf := staticCallee(callCommon(r1))
				if sf == nil || !recvIs(sf, a.ProcessT) || len(sf.Blocks) == 0 {
					continue
				}
				stateTest := false
				// the method and the process methods it dispatches to (Send -> SendPID ...)
				family2 := []*ssa.Function{sf}
				eachInstr(sf, func(x ssa.Instruction) {
					if c2 := callCommon(x); c2 != nil {
						if g := staticCallee(c2); g != nil && recvIs(g, a.ProcessT) && len(g.Blocks) > 0 && strings.HasPrefix(g.Name(), "Send") {
							family2 = append(family2, g)
						}
					}
				})
				for _, sf := range family2 {
					eachInstr(sf, func(x ssa.Instruction) {
						c2 := callCommon(x)
						if c2 == nil {
							return
						}
						if g := staticCallee(c2); g != nil && recvIs(g, a.ProcessT) && (strings.HasPrefix(g.Name(), "isState") || g.Name() == "isAlive" || g.Name() == "State") {
							if v, ok := x.(ssa.Value); ok {
								t, fl, complete := boolEdges(v)
								if complete {
									for _, es := range [][]Edge{t, fl} {
										for _, e := range es {
											if rt, isRet := e.To().Instrs[len(e.To().Instrs)-1].(*ssa.Return); isRet && len(e.To().Instrs) <= 3 {
												_ = rt
												stateTest = true
											}
										}
									}
								}
							}
						}
					})
				}
				if stateTest {
					probs = append(probs, fmt.Sprintf("the callback sends through %s, which refuses by the state of the originating process: after the originator has terminated the delayed message is not sent at all", fname(sf)))
				}
			}
			if len(probs) > 0 {
				r.Bad(rule, key, fn, pos, "delayed send: cancel function is the armed timer's Stop; the callback sends exactly once", strings.Join(probs, "; "))
			} else {
				r.OK(rule, key, fn, pos, "delayed send: cancel function is the armed timer's Stop; the callback sends exactly once", fmt.Sprintf("%d success return(s), %d route call(s) in callback", okRet, len(routes)))
			}
		})
	}
}

func instrReachable(from, to ssa.Instruction) bool {
	return reaches([]Point{after(from)}, nil, func(i ssa.Instruction) bool { return i == to }) != nil
}

// reasonOriginGlobal: v is (an interface wrapping) the load of a package-level variable.
func reasonOriginGlobal(v ssa.Value) (*ssa.Global, bool) {
	for i := 0; i < 4; i++ {
		switch x := v.(type) {
		case *ssa.MakeInterface:
			v = x.X
		case *ssa.ChangeInterface:
			v = x.X
		}
	}
	if ld, ok := v.(*ssa.UnOp); ok && ld.Op == token.MUL {
		if g, ok := ld.X.(*ssa.Global); ok {
			return g, true
		}
	}
	return nil, false
}
