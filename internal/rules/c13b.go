package rules

import (
	"fmt"
	"go/token"
	"strings"

	"golang.org/x/tools/go/ssa"

	"verif/internal/core"
	"verif/internal/load"
)

// c13OneLinkPerFrame: F9 — a frame goes over exactly one link of the pool, the one its order byte
// selects (pool[order % len]; round-robin for order 0): in the function that writes frames every
// write to a link writer uses an item indexed by a remainder of the pool length and nothing
// derived from it (a "neighbour" link taking over a failed write puts a sender's frames on two TCP
// streams which the peer reads independently), and no second write is reachable from a first one.
func c13OneLinkPerFrame(p *load.Program, r *core.Report, sendFn *ssa.Function) {
	rule := "C13.F9 one-link-per-frame"
	r.Floor(rule, 1)
	if sendFn == nil {
		r.Unk(rule, "C13.F9|send", "", "", "the frame writer is found", "not found")
		return
	}
	fn := fname(sendFn)
	var writes []ssa.Instruction
	eachInstr(sendFn, func(in ssa.Instruction) {
		cc := callCommon(in)
		if cc == nil || !cc.IsInvoke() || cc.Method.Name() != "Write" {
			return
		}
		if _, path, ok := fieldPath(cc.Value); ok && len(path) > 0 && path[len(path)-1] == "fl" {
			writes = append(writes, in)
		}
	})
	key := "C13.F9|" + fn
	inst := "the frame is written to the one link its order selects"
	if len(writes) == 0 {
		r.Unk(rule, key, fn, p.Pos(sendFn.Pos()), inst, "no write to a link writer found")
		return
	}
	var probs []string
	for _, w := range writes {
		if h := reaches([]Point{after(w)}, nil, func(x ssa.Instruction) bool {
			for _, w2 := range writes {
				if x == w2 {
					return true
				}
			}
			return false
		}); h != nil {
			probs = append(probs, fmt.Sprintf("a second write (%s) is reachable after the write at %s", p.Pos(h.Pos()), p.Pos(w.Pos())))
		}
		// the item: leaves of the value whose field fl is used
		base, _, _ := fieldPath(callCommon(w).Value)
		seen := map[ssa.Value]bool{}
		var leaves []ssa.Value
		var walk func(v ssa.Value)
		walk = func(v ssa.Value) {
			if v == nil || seen[v] {
				return
			}
			seen[v] = true
			switch x := v.(type) {
			case *ssa.Phi:
				for _, e := range x.Edges {
					walk(e)
				}
			case *ssa.UnOp:
				walk(x.X)
			default:
				leaves = append(leaves, v)
			}
		}
		walk(base)
		for _, lf := range leaves {
			ia, ok := lf.(*ssa.IndexAddr)
			if !ok {
				if c, isC := lf.(*ssa.Const); isC && c.IsNil() {
					continue
				}
				probs = append(probs, "the link written to is not an element of the pool ("+lf.String()+")")
				continue
			}
			if _, path, okp := fieldPath(ia.X); !okp || len(path) == 0 || path[len(path)-1] != "pool" {
				probs = append(probs, "the link written to is not an element of the pool")
				continue
			}
			rem, ok := ia.Index.(*ssa.BinOp)
			if !ok || rem.Op != token.REM {
				probs = append(probs, fmt.Sprintf("the link at %s is indexed by %s, not by a remainder of the pool length: it is not the link the order selects", p.Pos(ia.Pos()), ia.Index.String()))
				continue
			}
			if inner, ok := rem.X.(*ssa.BinOp); ok && (inner.Op == token.ADD || inner.Op == token.SUB) {
				if _, isC := constInt(inner.Y); isC {
					probs = append(probs, fmt.Sprintf("the link at %s is a neighbour ((n±k) %% len) of the selected one", p.Pos(ia.Pos())))
				}
			}
		}
	}
	if len(probs) > 0 {
		r.Bad(rule, key, fn, p.Pos(writes[0].Pos()), inst, strings.Join(uniq(probs), "; ")+": frames of one sender travel over two links, which the peer reads independently — later ones are handled first")
	} else {
		r.OK(rule, key, fn, p.Pos(writes[0].Pos()), inst, fmt.Sprintf("%d write site(s), each to pool[x %% len], none reachable from another", len(writes)))
	}
}

// c13SinglePathToSocket: F10 — the link writer buffers what it is given and flushes the buffer;
// the order of the bytes on the socket is the order of the Write calls only because everything
// goes through that one buffer. The constructors hand the underlying writer to bufio.NewWriter and
// keep it nowhere else (a "direct" path for big chunks lets a big frame overtake the small ones
// still sitting in the buffer — and can land in the middle of a partially flushed frame).
func c13SinglePathToSocket(p *load.Program, r *core.Report) {
	rule := "C13.F10 link-writer-has-one-path-to-the-socket"
	r.Floor(rule, 2)
	for _, f := range funcsOfPkgs(p, "lib") {
		if f.Parent() != nil || !strings.HasPrefix(f.Name(), "NewFlusher") || len(f.Params) == 0 {
			continue
		}
		w := f.Params[0]
		if w.Type().String() != "io.Writer" {
			continue
		}
		fn := fname(f)
		key := "C13.F10|" + fn
		inst := "the underlying writer is given to the buffered writer and kept nowhere else"
		bad := ""
		nb := 0
		var visit func(v ssa.Value, d int)
		visit = func(v ssa.Value, d int) {
			refs := v.Referrers()
			if refs == nil || d > 3 {
				return
			}
			for _, x := range *refs {
				switch y := x.(type) {
				case *ssa.DebugRef:
				case *ssa.Call:
					if sf := staticCallee(y.Common()); sf != nil && sf.Pkg != nil && sf.Pkg.Pkg.Path() == "bufio" && strings.HasPrefix(sf.Name(), "NewWriter") {
						nb++
						continue
					}
					bad = "passed to " + y.String()
				case *ssa.Store:
					if y.Val == v {
						bad = "stored at " + p.Pos(y.Pos()) + " (" + y.Addr.String() + ")"
					}
				case *ssa.MakeInterface:
					visit(y, d+1)
				case *ssa.ChangeInterface:
					visit(y, d+1)
				case *ssa.MakeClosure:
					bad = "captured by a closure at " + p.Pos(y.Pos())
				default:
					bad = "used by " + x.String()
				}
			}
		}
		visit(w, 0)
		if bad == "" && nb > 0 {
			r.OK(rule, key, fn, p.Pos(f.Pos()), inst, "its only use is bufio.NewWriter(w)")
		} else if bad == "" {
			r.Bad(rule, key, fn, p.Pos(f.Pos()), inst, "the writer is not wrapped into a buffered writer")
		} else {
			r.Bad(rule, key, fn, p.Pos(f.Pos()), inst, "the underlying writer is also "+bad+": bytes can reach the socket round the buffer and overtake what is still buffered (frames of one sender out of order, or a frame torn by another)")
		}
	}
}
