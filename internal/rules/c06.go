package rules

import (
	"fmt"
	"go/token"
	"go/types"
	"sort"
	"strings"

	"golang.org/x/tools/go/ssa"

	"verif/internal/core"
	"verif/internal/load"
)

func init() {
	Registry["C06"] = Set{
		Explanation: "Decides structural clauses of registry integrity: G1 every insert into the node's identity tables (names, aliases, events) is a LoadOrStore whose 'already present' edge returns an error without side effects on the table; a plain Store is accepted only for keys minted in the same function from the node's counters (pid from nextID, meta alias from MakeRef); G2 the id counters are modified only by atomic add, a PID carries the untruncated counter, and the tuple of Ref.ID words written by MakeRef is an injective function of the 64-bit counter (bit provenance: every counter bit is copied to some ID bit); G3 unregisterProcess reaches on every path the delete of the pid, of the registered name, of every alias, of every event, the exit of every meta process, the drain of relations targeting each of those identities and the drain of relations held BY the process; G4 remove-by-swap on slices overwrites the found slot with the element that is then dropped; G5 the per-process registered flag is claimed by CAS before the name insert and rolled back when the insert loses, and cleared when the name is removed. Added while probing: G3m at every meta-process teardown site the alias is deleted from the alias table before the Terminate callback; G5 requires a compare-and-swap for a process that is already published. G3o in the process release function every delete of the name, aliases and events precedes the first termination notice; G3 now requires delete and drain each for every element on every path (same loop body or separate complete walks). G3r where a meta process is entered into its owner's table the owner's liveness is looked at again after the insert (insert-then-check against the terminator's mark-dead-then-walk) and on the dead edge the new meta process is pushed an exit message and woken. G7 a process enters an event name / alias into its own list (the list its termination releases) only behind the success edge of the node-level claim of that very identity.",
		NotDecided: []string{
			"uniqueness across the 2^64 wrap of the counters",
			"process listings racing with termination",
			"which of several racing claimants wins (only that at most one can)",
		},
		Assumptions: []string{"sync.Map.LoadOrStore is atomic", "the counters are seeded once at node start (constructor stores are accepted)"},
		Run:         runC06,
	}
}

func runC06(p *load.Program, r *core.Report) {
	a, problems := getAnchors(p)
	for _, pr := range problems {
		r.Unk("C06.anchors", "C06.anchors|"+pr, "", "", "anchors resolve", pr)
	}
	if len(problems) > 0 {
		return
	}
	c06Inserts(a, r)
	c06Counters(a, r)
	c06Release(a, r)
	c06SwapDelete(a, r)
	c06NameFlag(a, r)
	c06MetaRelease(a, r)
	c06MetaRegistration(a, r)
	ownListInsertAfterClaim(a, r, "C06.G7 own-list-insert-after-claim", "C06.G7", 2, map[string]bool{"events": true, "aliases": true})
	c06ReleaseOrder(a, r)
}

// c06ReleaseOrder: G3o — released before anybody is told. In the process release function every
// delete of the process's name, aliases and events from the identity tables precedes the first
// RouteTerminate* notification: a process that learns of the termination (a supervisor getting the
// exit signal) can claim the name again at once. Deletes and notifications inside Range callbacks
// count at the position of the Range call; the hand-over to the meta processes (alias delete + exit
// message) is not an identity anybody re-claims and is exempt.
func c06ReleaseOrder(a *Anchors, r *core.Report) {
	rule := "C06.G3o released-before-notified"
	r.Floor(rule, 1)
	f := a.P.Func("node", a.NodeT.Obj().Name(), "unregisterProcess")
	key := "C06.G3o|unregisterProcess"
	inst := "the name, aliases and events of a terminating process are deleted from the tables before the first termination notice goes out"
	if f == nil {
		r.Unk(rule, key, "", "", inst, "unregisterProcess not found")
		return
	}
	effect := func(in ssa.Instruction) (del, notify bool) {
		var scan func(g *ssa.Function, depth int)
		one := func(i2 ssa.Instruction) {
			cc := callCommon(i2)
			if cc == nil {
				return
			}
			if m, ok := syncMapCall(cc); ok && (m == "Delete" || m == "LoadAndDelete") {
				switch tableOf(a, cc) {
				case "names", "aliases", "events":
					del = true
				}
			}
			if strings.HasPrefix(calleeName(cc), "RouteTerminate") {
				notify = true
			}
		}
		scan = func(g *ssa.Function, depth int) {
			if depth > 2 {
				return
			}
			meta := false
			eachInstr(g, func(i2 ssa.Instruction) {
				if c2 := callCommon(i2); c2 != nil && staticCallee(c2) == a.MetaWake {
					meta = true
				}
			})
			if meta {
				return
			}
			eachInstr(g, one)
		}
		one(in)
		if cc := callCommon(in); cc != nil {
			for _, arg := range cc.Args {
				if mc, ok := arg.(*ssa.MakeClosure); ok {
					scan(mc.Fn.(*ssa.Function), 1)
				}
			}
		}
		return
	}
	var notifies []Point
	nDel := 0
	eachInstr(f, func(in ssa.Instruction) {
		d, n := effect(in)
		if d {
			nDel++
		}
		if n {
			notifies = append(notifies, after(in))
		}
	})
	hit := reaches(notifies, nil, func(in ssa.Instruction) bool { d, _ := effect(in); return d })
	switch {
	case nDel == 0 || len(notifies) == 0:
		r.Unk(rule, key, fname(f), a.P.Pos(f.Pos()), inst, fmt.Sprintf("identity deletes found: %d, notifications found: %d", nDel, len(notifies)))
	case hit != nil:
		r.Bad(rule, key, fname(f), a.P.Pos(hit.Pos()), inst, "the delete at "+a.P.Pos(hit.Pos())+" is reachable after a termination notice: a supervisor that reacts to the exit signal restarts the child while its name (or event) is still taken, gets 'resource is taken' and terminates")
	default:
		r.OK(rule, key, fname(f), a.P.Pos(f.Pos()), inst, fmt.Sprintf("%d delete site(s), none reachable after a notification", nDel))
	}
}

// c06MetaRelease: G3 for meta processes — wherever a meta process is torn down (its Terminate
// callback is invoked) the alias that identifies it has been removed from the alias table on every
// path: a terminated meta process does not stay addressable.
func c06MetaRelease(a *Anchors, r *core.Report) {
	rule := "C06.G3m meta-release"
	r.Floor(rule, 1)
	mc := metaClassify(a)
	for _, f := range funcsOfPkgs(a.P, "node") {
		if len(f.Blocks) == 0 {
			continue
		}
		seq := 0
		eachInstr(f, func(in ssa.Instruction) {
			cb := mc(in)
			if cb == nil || cb.kind != "term" {
				return
			}
			seq++
			key := fmt.Sprintf("C06.G3m|%s|Terminate#%d", fname(f), seq)
			inst := "the meta process's alias is removed from the alias table before its Terminate callback runs"
			isDel := func(i ssa.Instruction) bool {
				cc := callCommon(i)
				if cc == nil {
					return false
				}
				m, ok := syncMapCall(cc)
				return ok && (m == "Delete" || m == "LoadAndDelete") && tableOf(a, cc) == "aliases"
			}
			if hit := reaches([]Point{{f.Blocks[0], 0}}, isDel, func(i ssa.Instruction) bool { return i == in }); hit != nil {
				r.Bad(rule, key, fname(f), a.P.Pos(in.Pos()), inst, "a path reaches the callback without aliases.Delete: the alias of a dead meta process stays registered (sends to it find the parent process, a new SpawnMeta can never reuse it)")
			} else {
				r.OK(rule, key, fname(f), a.P.Pos(in.Pos()), inst, "every path from the function entry passes aliases.Delete")
			}
		})
	}
}

// identity tables: sync.Map fields of the node struct, classified by the static key type at their write sites.
func syncMapCall(cc *ssa.CallCommon) (method string, ok bool) {
	f := staticCallee(cc)
	if f == nil || f.Pkg == nil || f.Pkg.Pkg.Path() != "sync" || f.Signature.Recv() == nil {
		return "", false
	}
	if !strings.HasSuffix(f.Signature.Recv().Type().String(), "sync.Map") {
		return "", false
	}
	return f.Name(), true
}

func tableOf(a *Anchors, cc *ssa.CallCommon) string {
	own, fl := fieldOwner(cc.Args[0])
	if own == a.NodeT {
		return fl
	}
	return ""
}

// dependsOnMint: does value v (backward, within the function family) depend on a call satisfying pred?
func dependsOn(v ssa.Value, pred func(*ssa.Call) bool) bool {
	seen := map[ssa.Value]bool{}
	var rec func(v ssa.Value, d int) bool
	rec = func(v ssa.Value, d int) bool {
		if v == nil || seen[v] || d > 14 {
			return false
		}
		seen[v] = true
		switch x := v.(type) {
		case *ssa.Call:
			if pred(x) {
				return true
			}
			for _, a := range x.Common().Args {
				if rec(a, d+1) {
					return true
				}
			}
		case *ssa.Convert:
			return rec(x.X, d+1)
		case *ssa.ChangeType:
			return rec(x.X, d+1)
		case *ssa.MakeInterface:
			return rec(x.X, d+1)
		case *ssa.Field:
			return rec(x.X, d+1)
		case *ssa.Extract:
			return rec(x.Tuple, d+1)
		case *ssa.Phi:
			for _, e := range x.Edges {
				if rec(e, d+1) {
					return true
				}
			}
		case *ssa.UnOp:
			if x.Op != token.MUL {
				return rec(x.X, d+1)
			}
			// load: find stores to the same cell / same field (owner, name) in the function family
			fn := root(x.Parent())
			own, fl := fieldOwner(x.X)
			cell := canonCell(x.X)
			for _, g := range family(fn) {
				found := false
				eachInstr(g, func(in ssa.Instruction) {
					if found {
						return
					}
					st, ok := in.(*ssa.Store)
					if !ok {
						return
					}
					match := false
					if fl != "" {
						o2, f2 := fieldOwner(st.Addr)
						match = o2 == own && f2 == fl
					} else if canonCell(st.Addr) == cell {
						match = true
					}
					// store into a sub-field of the loaded local struct
					if !match {
						if fa, ok := st.Addr.(*ssa.FieldAddr); ok && canonCell(fa.X) == cell {
							match = true
						}
						if ia, ok := st.Addr.(*ssa.IndexAddr); ok {
							if fa, ok := ia.X.(*ssa.FieldAddr); ok && canonCell(fa.X) == cell {
								match = true
							}
						}
					}
					if match && rec(st.Val, d+1) {
						found = true
					}
				})
				if found {
					return true
				}
			}
		}
		return false
	}
	return rec(v, 0)
}

func isMint(c *ssa.Call) bool {
	cc := c.Common()
	if isAtomic(cc, "AddUint64") {
		return true
	}
	if sf := staticCallee(cc); sf != nil && sf.Name() == "MakeRef" {
		return true
	}
	if cc.IsInvoke() && cc.Method.Name() == "MakeRef" {
		return true
	}
	return false
}

// c06Inserts: G1
func c06Inserts(a *Anchors, r *core.Report) {
	rule := "C06.G1 claim-by-LoadOrStore"
	r.Floor(rule, 6)
	seq := map[string]int{}
	for _, f := range funcsOfPkgs(a.P, "node") {
		eachInstr(f, func(in ssa.Instruction) {
			cc := callCommon(in)
			if cc == nil {
				return
			}
			m, ok := syncMapCall(cc)
			if !ok || (m != "Store" && m != "LoadOrStore" && m != "Swap" && m != "CompareAndSwap") {
				return
			}
			tbl := tableOf(a, cc)
			if tbl == "" {
				// p.node.aliases: the owner is still the node struct; other maps (p.metas, app tables) are not identity tables
				return
			}
			if tbl != "names" && tbl != "aliases" && tbl != "events" && tbl != "processes" {
				return
			}
			fn := fname(f)
			seq[fn+tbl]++
			key := fmt.Sprintf("C06.G1|%s|%s#%d", fn, tbl, seq[fn+tbl])
			pos := a.P.Pos(in.Pos())
			inst := "insert into identity table " + tbl + " cannot take an identity that is already owned"
			switch m {
			case "LoadOrStore":
				v, _ := in.(ssa.Value)
				loaded := tupleExtract(v, 1)
				if loaded == nil {
					r.Bad(rule, key, fn, pos, inst, "the 'loaded' result of LoadOrStore is ignored: a second claimant is told it succeeded")
					return
				}
				t, _, c := boolEdges(loaded)
				if !c || len(t) == 0 {
					r.Unk(rule, key, fn, pos, inst, "'loaded' is not used as a branch")
					return
				}
				errIdx := errResultIndex(f)
				var starts []Point
				for _, e := range t {
					starts = append(starts, Point{e.To(), 0})
				}
				var probs []string
				for _, ret := range walkAvoid(starts, nil, isReturn) {
					if errIdx >= 0 && errKind(ret.(*ssa.Return).Results[errIdx]) == "nil" {
						probs = append(probs, "the already-taken edge returns nil at "+a.P.Pos(ret.Pos()))
					}
				}
				// on the already-taken edge nothing may Store/Delete in that table
				for _, h := range walkAvoid(starts, nil, func(i ssa.Instruction) bool {
					c2 := callCommon(i)
					if c2 == nil {
						return false
					}
					m2, ok := syncMapCall(c2)
					return ok && (m2 == "Store" || m2 == "Delete") && tableOf(a, c2) == tbl
				}) {
					probs = append(probs, "the already-taken edge modifies the table at "+a.P.Pos(h.Pos())+" (the rightful owner's entry is overwritten or removed)")
				}
				if len(probs) > 0 {
					r.Bad(rule, key, fn, pos, inst, strings.Join(probs, "; "))
				} else {
					r.OK(rule, key, fn, pos, inst, "LoadOrStore; the already-present edge returns an error and leaves the table alone")
				}
			case "Store":
				if dependsOn(cc.Args[1], isMint) {
					r.OK(rule, key, fn, pos, inst, "plain Store of a key minted in this function from the node's counters (unique by G2)")
				} else {
					r.Bad(rule, key, fn, pos, inst, "plain Store with a key that is not freshly minted here: an existing owner's entry is silently replaced and two processes answer to one identity")
				}
			default:
				r.Unk(rule, key, fn, pos, inst, "unexpected sync.Map operation "+m)
			}
		})
	}
}

// bit provenance of an expression with respect to a source value: for each result bit the
// source bit it copies (0..63), -1 for constant zero, -2 unknown.
func bitProv(v ssa.Value, src ssa.Value, d int) [64]int {
	var out [64]int
	unknown := func() [64]int {
		var u [64]int
		for i := range u {
			u[i] = -2
		}
		return u
	}
	if d > 8 {
		return unknown()
	}
	if v == src {
		for i := range out {
			out[i] = i
		}
		return out
	}
	switch x := v.(type) {
	case *ssa.Const:
		if c, ok := constInt(x); ok {
			for i := range out {
				if uint64(c)>>uint(i)&1 == 1 {
					out[i] = -2 // constant one: not a copy of the source
				} else {
					out[i] = -1
				}
			}
			return out
		}
	case *ssa.Convert:
		in := bitProv(x.X, src, d+1)
		w := 64
		if b, ok := x.Type().Underlying().(*types.Basic); ok {
			switch b.Kind() {
			case types.Uint8, types.Int8:
				w = 8
			case types.Uint16, types.Int16:
				w = 16
			case types.Uint32, types.Int32:
				w = 32
			}
		}
		for i := range out {
			if i < w {
				out[i] = in[i]
			} else {
				out[i] = -1
			}
		}
		return out
	case *ssa.BinOp:
		switch x.Op {
		case token.AND:
			for _, pr := range [][2]ssa.Value{{x.X, x.Y}, {x.Y, x.X}} {
				if m, ok := constInt(pr[1]); ok {
					in := bitProv(pr[0], src, d+1)
					for i := range out {
						if uint64(m)>>uint(i)&1 == 1 {
							out[i] = in[i]
						} else {
							out[i] = -1
						}
					}
					return out
				}
			}
		case token.SHR:
			if c, ok := constInt(x.Y); ok && c >= 0 && c < 64 {
				in := bitProv(x.X, src, d+1)
				for i := range out {
					if i+int(c) < 64 {
						out[i] = in[i+int(c)]
					} else {
						out[i] = -1
					}
				}
				return out
			}
		case token.SHL:
			if c, ok := constInt(x.Y); ok && c >= 0 && c < 64 {
				in := bitProv(x.X, src, d+1)
				for i := range out {
					if i-int(c) >= 0 {
						out[i] = in[i-int(c)]
					} else {
						out[i] = -1
					}
				}
				return out
			}
		case token.OR, token.XOR, token.ADD:
			l, rr := bitProv(x.X, src, d+1), bitProv(x.Y, src, d+1)
			for i := range out {
				switch {
				case l[i] == -1:
					out[i] = rr[i]
				case rr[i] == -1:
					out[i] = l[i]
				default:
					out[i] = -2
				}
			}
			if x.Op == token.ADD {
				// carries destroy copies above the lowest overlapping bit; accept only if disjoint
				for i := range out {
					if l[i] != -1 && rr[i] != -1 {
						for j := i; j < 64; j++ {
							out[j] = -2
						}
						break
					}
				}
			}
			return out
		}
	}
	return unknown()
}

// c06Counters: G2
func c06Counters(a *Anchors, r *core.Report) {
	rule := "C06.G2 identifiers-never-repeat"
	r.Floor(rule, 4)
	// counters: uint64 fields of the node struct that are operands of atomic.AddUint64
	counters := map[string]bool{}
	for _, f := range funcsOfPkgs(a.P, "node") {
		eachInstr(f, func(in ssa.Instruction) {
			cc := callCommon(in)
			if cc != nil && isAtomic(cc, "AddUint64") {
				if own, fl := fieldOwner(cc.Args[0]); own == a.NodeT {
					// only counters whose result becomes an identifier (PID.ID / Ref.ID)
					counters[fl] = true
				}
			}
		})
	}
	// keep the ones used for identifiers
	idCounters := map[string][]ssa.Instruction{}
	for _, f := range funcsOfPkgs(a.P, "node") {
		eachInstr(f, func(in ssa.Instruction) {
			c, ok := in.(*ssa.Call)
			if !ok || !isAtomic(c.Common(), "AddUint64") {
				return
			}
			own, fl := fieldOwner(c.Common().Args[0])
			if own != a.NodeT {
				return
			}
			// does the result flow into an ID field store?
			flows := false
			var follow func(v ssa.Value, d int)
			follow = func(v ssa.Value, d int) {
				if d > 6 || v.Referrers() == nil {
					return
				}
				for _, rf := range *v.Referrers() {
					switch x := rf.(type) {
					case *ssa.Store:
						if x.Val == v {
							if fa, ok := x.Addr.(*ssa.FieldAddr); ok {
								if _, f2 := fieldOwner(fa); f2 == "ID" {
									flows = true
								}
							}
							if ia, ok := x.Addr.(*ssa.IndexAddr); ok {
								if fa, ok := ia.X.(*ssa.FieldAddr); ok {
									if _, f2 := fieldOwner(fa); f2 == "ID" {
										flows = true
									}
								}
							}
						}
					case *ssa.BinOp:
						follow(x, d+1)
					case *ssa.Convert:
						follow(x, d+1)
					}
				}
			}
			follow(c, 0)
			if flows {
				idCounters[fl] = append(idCounters[fl], in)
			}
		})
	}
	if len(idCounters) < 2 {
		r.Unk(rule, "C06.G2|counters", "", "", "the pid counter and the reference counter are found", fmt.Sprintf("found %d counters feeding ID fields", len(idCounters)))
		return
	}
	var cn []string
	for c := range idCounters {
		cn = append(cn, c)
	}
	sort.Strings(cn)
	for _, c := range cn {
		// every write of the counter field is an atomic add or a constructor store
		var bad []string
		for _, f := range funcsOfPkgs(a.P, "node") {
			eachInstr(f, func(in ssa.Instruction) {
				switch x := in.(type) {
				case *ssa.Store:
					if own, fl := fieldOwner(x.Addr); own == a.NodeT && fl == c {
						if fa, ok := x.Addr.(*ssa.FieldAddr); ok {
							if _, fresh := fa.X.(*ssa.Alloc); fresh {
								return // constructor
							}
						}
						bad = append(bad, "plain store at "+a.P.Pos(in.Pos()))
					}
				default:
					cc := callCommon(in)
					if cc != nil && isAtomic(cc) && len(cc.Args) > 0 {
						if own, fl := fieldOwner(cc.Args[0]); own == a.NodeT && fl == c {
							n := staticCallee(cc).Name()
							if n != "AddUint64" && n != "LoadUint64" {
								bad = append(bad, n+" at "+a.P.Pos(in.Pos()))
							} else if n == "AddUint64" {
								if d, ok := constInt(cc.Args[1]); !ok || d <= 0 {
									bad = append(bad, "AddUint64 with a non-positive or non-constant delta at "+a.P.Pos(in.Pos()))
								}
							}
						}
					}
				}
			})
		}
		key := "C06.G2|counter|" + c
		inst := "identifier counter " + c + " only ever grows (atomic add of a positive constant)"
		if len(bad) > 0 {
			r.Bad(rule, key, "", "", inst, strings.Join(bad, "; ")+": identifiers can repeat")
		} else {
			r.OK(rule, key, fname(idCounters[c][0].Parent()), a.P.Pos(idCounters[c][0].Pos()), inst, fmt.Sprintf("%d mint site(s)", len(idCounters[c])))
		}
		// injectivity of what is stored
		for _, mint := range idCounters[c] {
			call := mint.(*ssa.Call)
			f := mint.Parent()
			covered := map[int]bool{}
			var words []string
			eachInstr(f, func(in ssa.Instruction) {
				st, ok := in.(*ssa.Store)
				if !ok {
					return
				}
				isID := false
				word := ""
				if fa, ok := st.Addr.(*ssa.FieldAddr); ok {
					if _, f2 := fieldOwner(fa); f2 == "ID" {
						isID, word = true, "ID"
					}
				}
				if ia, ok := st.Addr.(*ssa.IndexAddr); ok {
					if fa, ok := ia.X.(*ssa.FieldAddr); ok {
						if _, f2 := fieldOwner(fa); f2 == "ID" {
							k, _ := constInt(ia.Index)
							isID, word = true, fmt.Sprintf("ID[%d]", k)
						}
					}
				}
				if !isID {
					return
				}
				bp := bitProv(st.Val, call, 0)
				n := 0
				for _, b := range bp {
					if b >= 0 {
						covered[b] = true
						n++
					}
				}
				words = append(words, fmt.Sprintf("%s copies %d counter bits", word, n))
			})
			var missing []string
			lo := -1
			for b := 0; b <= 64; b++ {
				if b < 64 && !covered[b] {
					if lo < 0 {
						lo = b
					}
				} else if lo >= 0 {
					if lo == b-1 {
						missing = append(missing, fmt.Sprint(lo))
					} else {
						missing = append(missing, fmt.Sprintf("%d..%d", lo, b-1))
					}
					lo = -1
				}
			}
			fn := fname(f)
			key := "C06.G2|" + fn + "|injective"
			inst := "the identifier words stored from counter " + c + " determine the counter value (no two counter values give the same identifier)"
			if len(missing) > 0 {
				period := uint64(1)
				for b := 0; b < 64 && covered[b]; b++ {
					period <<= 1
				}
				r.Bad(rule, key, fn, a.P.Pos(mint.Pos()), inst, fmt.Sprintf("counter bits %s are not copied into any identifier word (%s): the same identifier is produced again after %d increments", strings.Join(missing, ", "), strings.Join(words, "; "), period))
			} else {
				r.OK(rule, key, fn, a.P.Pos(mint.Pos()), inst, strings.Join(words, "; "))
			}
		}
	}
}

// c06Release: G3
func c06Release(a *Anchors, r *core.Report) {
	releaseRules(a, r, "C06.G3 complete-release", 10)
}

// releaseRules emits the complete-release obligations under the given rule name (shared by C06.G3 and C04.L2).
func releaseRules(a *Anchors, r *core.Report, rule string, floor int) {
	rid := strings.SplitN(rule, " ", 2)[0]
	r.Floor(rule, floor)
	f := a.P.Func("node", a.NodeT.Obj().Name(), "unregisterProcess")
	if f == nil {
		r.Unk(rule, rid+"|fn", "", "", "the process release function is found", "(*node).unregisterProcess not found")
		return
	}
	fn := fname(f)
	del := func(tbl string) func(ssa.Instruction) bool {
		return func(in ssa.Instruction) bool {
			cc := callCommon(in)
			if cc == nil {
				return false
			}
			m, ok := syncMapCall(cc)
			return ok && (m == "Delete" || m == "LoadAndDelete") && tableOf(a, cc) == tbl
		}
	}
	// the alias table holds the process's own aliases and the ids of its meta processes (m.id)
	delAliases := func(meta bool) func(ssa.Instruction) bool {
		return func(in ssa.Instruction) bool {
			if !del("aliases")(in) {
				return false
			}
			cc := callCommon(in)
			key := stripIface(cc.Args[len(cc.Args)-1])
			_, path, ok := fieldPath(key)
			isMetaID := ok && len(path) > 0 && path[len(path)-1] == "id"
			return isMetaID == meta
		}
	}
	named := func(names ...string) func(ssa.Instruction) bool {
		return func(in ssa.Instruction) bool { return callsNamed(in, names...) }
	}
	// unconditional obligations
	for _, ob := range []struct {
		what string
		pred func(ssa.Instruction) bool
		why  string
	}{
		{"delete the pid from the process table", del("processes"), "the terminated process stays in listings and keeps receiving"},
		{"drain relations targeting the pid (RouteTerminatePID)", named("RouteTerminatePID"), "links and monitors on the pid are never notified"},
		{"drop relations held BY the process (CleanupConsumer)", named("CleanupConsumer"), "the dead process stays in the relation set as requester forever"},
	} {
		key := rid + "|" + fn + "|" + ob.what
		if bad := pathsMiss(f, ob.pred); bad != nil {
			r.Bad(rule, key, fn, a.P.Pos(bad.Pos()), "process release: "+ob.what+" on every path", "a path to the return at "+a.P.Pos(bad.Pos())+" skips it: "+ob.why)
		} else {
			r.OK(rule, key, fn, a.P.Pos(f.Pos()), "process release: "+ob.what+" on every path", "all paths")
		}
	}
	// name: on the registered-true edge: delete + RouteTerminateProcessID
	{
		key := rid + "|" + fn + "|registered name"
		inst := "process release: when a name is registered it is deleted and its relations drained"
		var regLoad ssa.Value
		eachInstr(f, func(in ssa.Instruction) {
			cc := callCommon(in)
			if cc == nil {
				return
			}
			if sf := staticCallee(cc); sf != nil && sf.Name() == "Load" && sf.Pkg != nil && sf.Pkg.Pkg.Path() == "sync/atomic" {
				_, path, _ := fieldPath(cc.Args[0])
				if len(path) > 0 && path[len(path)-1] == "registered" {
					regLoad, _ = in.(ssa.Value)
				}
			}
		})
		if regLoad == nil {
			r.Bad(rule, key, fn, a.P.Pos(f.Pos()), inst, "the registered flag is not consulted")
		} else {
			// path-sensitive: the flag may be read once and tested twice (delete first, drain later)
			leaf := func(v ssa.Value) string {
				c, ok := v.(*ssa.Call)
				if !ok {
					return ""
				}
				if sf := staticCallee(c.Common()); sf != nil && sf.Name() == "Load" && sf.Pkg != nil && sf.Pkg.Pkg.Path() == "sync/atomic" && len(c.Common().Args) > 0 {
					if _, path, _ := fieldPath(c.Common().Args[0]); len(path) > 0 && path[len(path)-1] == "registered" {
						return "registered"
					}
				}
				return ""
			}
			entry := []Point{{f.Blocks[0], 0}}
			known := map[string]bool{"registered": true}
			b1 := reachesUnder(entry, leaf, known, del("names"), isReturn)
			b2 := reachesUnder(entry, leaf, known, named("RouteTerminateProcessID"), isReturn)
			if b1 != nil || b2 != nil {
				r.Bad(rule, key, fn, a.P.Pos(f.Pos()), inst, "with the registered flag set a path skips names.Delete or RouteTerminateProcessID: the name cannot be claimed again / its links are never notified")
			} else {
				r.OK(rule, key, fn, a.P.Pos(f.Pos()), inst, "both on every path on which the registered flag is set")
			}
		}
	}
	// loops / closures: pairs in the same body
	pairs := []struct {
		what     string
		first    func(ssa.Instruction) bool
		second   func(ssa.Instruction) bool
		whyFirst string
	}{
		{"every alias: delete from the alias table and drain its relations", delAliases(false), named("RouteTerminateAlias"), "alias"},
		{"every event: delete from the event table and drain its relations", del("events"), named("RouteTerminateEvent"), "event"},
		{"every meta process: remove its alias and deliver the exit (push + wake)", delAliases(true), func(in ssa.Instruction) bool {
			cc := callCommon(in)
			return cc != nil && staticCallee(cc) == a.MetaWake
		}, "meta"},
	}
	for _, pr := range pairs {
		key := rid + "|" + fn + "|" + pr.whyFirst
		ok1, why1 := everyElement(f, pr.first)
		ok2, why2 := everyElement(f, pr.second)
		if ok1 && ok2 {
			r.OK(rule, key, fn, a.P.Pos(f.Pos()), "process release: "+pr.what, "both calls are made for every element (complete walk on every path)")
		} else {
			r.Bad(rule, key, fn, a.P.Pos(f.Pos()), "process release: "+pr.what, "the pair is incomplete ("+strings.TrimSpace(why1+" "+why2)+"): an identity of the terminated process stays claimed or its relations are never drained")
		}
	}
	// same for the explicit unregister functions
	for _, e := range []struct {
		fn     string
		recv   string
		tbl    string
		drain  string
		method string
	}{
		{"UnregisterName", a.NodeT.Obj().Name(), "names", "RouteTerminateProcessID", ""},
		{"unregisterEvent", a.NodeT.Obj().Name(), "events", "RouteTerminateEvent", ""},
		{"DeleteAlias", a.ProcessT.Obj().Name(), "aliases", "RouteTerminateAlias", "unregisterAlias"},
	} {
		g := a.P.Func("node", e.recv, e.fn)
		key := rid + "|" + e.fn
		inst := e.fn + ": removing the identity from table " + e.tbl + " is followed by the drain of its relations"
		if g == nil {
			r.Unk(rule, key, "", "", inst, "function not found")
			continue
		}
		// success returns (nil error) must have passed delete (directly or via helper) and drain
		errIdx := errResultIndex(g)
		isDel := func(in ssa.Instruction) bool {
			if del(e.tbl)(in) {
				return true
			}
			return e.method != "" && callsNamed(in, e.method)
		}
		okAll := true
		for _, pred := range []func(ssa.Instruction) bool{isDel, named(e.drain)} {
			bad := reaches([]Point{{g.Blocks[0], 0}}, pred, func(in ssa.Instruction) bool {
				ret, ok := in.(*ssa.Return)
				return ok && (errIdx < 0 || maybeNilResult(ret, errIdx))
			})
			if bad != nil {
				okAll = false
			}
		}
		if okAll {
			r.OK(rule, key, fname(g), a.P.Pos(g.Pos()), inst, "every successful return passed the delete and the drain")
		} else {
			r.Bad(rule, key, fname(g), a.P.Pos(g.Pos()), inst, "a successful return is reachable without the delete or without the drain")
		}
	}
}

// everyElement: some call satisfying pred is made once for every element of a collection, on every
// path of f: either inside a Range callback (the call on every path of the callback, the callback
// never stops the walk, the Range call itself on every path of f), or inside a loop of f that is
// left only by exhaustion and whose header every path of f passes.
func everyElement(f *ssa.Function, pred func(ssa.Instruction) bool) (bool, string) {
	why := "no such call"
	for _, g := range family(f) {
		var sites []ssa.Instruction
		eachInstr(g, func(in ssa.Instruction) {
			if pred(in) {
				sites = append(sites, in)
			}
		})
		for _, s := range sites {
			if g != f {
				// callback of a Range-like call in f
				if pathsMiss(g, pred) != nil {
					why = "a path through the callback skips the call"
					continue
				}
				if !closureAlwaysContinues(g) {
					why = "the callback can stop the walk"
					continue
				}
				isWalk := func(in ssa.Instruction) bool {
					cc := callCommon(in)
					if cc == nil {
						return false
					}
					for _, a := range cc.Args {
						if mc, ok := a.(*ssa.MakeClosure); ok && mc.Fn == ssa.Value(g) {
							return true
						}
					}
					return false
				}
				if g.Parent() == f && pathsMiss(f, isWalk) != nil {
					why = "a path skips the walk"
					continue
				}
				return true, ""
			}
			if ok, w := loopExitsOnlyAtHeader(s); !ok {
				why = "the loop " + w
				continue
			}
			hdr := loopHeaderOf(s)
			if hdr == nil {
				why = "not in a loop"
				continue
			}
			if pathsMiss(f, func(in ssa.Instruction) bool { return in.Block() == hdr }) != nil {
				why = "a path skips the loop"
				continue
			}
			return true, ""
		}
	}
	return false, why
}

// c06SwapDelete: G4 — S[a] = S[b]; S = S[1:]  requires b == 0 (the dropped element is saved into the vacated slot)
func c06SwapDelete(a *Anchors, r *core.Report) {
	swapDeleteRules(a, r, "C06.G4 swap-delete")
	resliceRemoval(a, r, "C06.G4 swap-delete")
}

func swapDeleteRules(a *Anchors, r *core.Report, rule string) {
	rid := strings.SplitN(rule, " ", 2)[0]
	r.Floor(rule, 1)
	for _, f := range a.P.SrcFuncs {
		eachInstr(f, func(in ssa.Instruction) {
			st, ok := in.(*ssa.Store)
			if !ok {
				return
			}
			dst, ok := st.Addr.(*ssa.IndexAddr)
			if !ok {
				return
			}
			ld, ok := st.Val.(*ssa.UnOp)
			if !ok || ld.Op != token.MUL {
				return
			}
			src, ok := ld.X.(*ssa.IndexAddr)
			if !ok {
				return
			}
			bd, pd, okd := fieldPath(dst.X)
			bs, ps, oks := fieldPath(src.X)
			if !okd || !oks || bd != bs || strings.Join(pd, ".") != strings.Join(ps, ".") {
				return
			}
			// followed by a reslice of the same field stored back
			var res *ssa.Slice
			for _, h := range walkAvoid([]Point{after(st)}, nil, func(i ssa.Instruction) bool {
				s2, ok := i.(*ssa.Store)
				if !ok {
					return false
				}
				sl, ok := s2.Val.(*ssa.Slice)
				if !ok {
					return false
				}
				b2, p2, ok2 := fieldPath(s2.Addr)
				b3, p3, ok3 := fieldPath(sl.X)
				return ok2 && ok3 && b2 == bd && b3 == bd && strings.Join(p2, ".") == strings.Join(pd, ".") && strings.Join(p3, ".") == strings.Join(pd, ".")
			}) {
				res = h.(*ssa.Store).Val.(*ssa.Slice)
				break
			}
			if res == nil {
				return
			}
			fn := fname(f)
			key := rid + "|" + fn + "|" + strings.Join(pd, ".")
			inst := "remove-by-swap on " + strings.Join(pd, ".") + ": the found slot receives the element that is then dropped"
			dropFirst := false
			if res.Low != nil {
				if c, ok := constInt(res.Low); ok && c == 1 && res.High == nil {
					dropFirst = true
				}
			}
			dropLast := res.Low == nil && res.High != nil
			srcIdx, srcConst := constInt(src.Index)
			_, dstConst := constInt(dst.Index)
			switch {
			case dropFirst:
				if srcConst && srcIdx == 0 && !dstConst {
					r.OK(rule, key, fn, a.P.Pos(st.Pos()), inst, "S[i] = S[0]; S = S[1:]")
				} else {
					r.Bad(rule, key, fn, a.P.Pos(st.Pos()), inst, "the first element is dropped but it was not saved into the found slot (the assignment goes the other way): the removed entry stays in the list and the first entry is lost")
				}
			case dropLast:
				if !srcConst && !dstConst {
					r.OK(rule, key, fn, a.P.Pos(st.Pos()), inst, "S[i] = S[last]; S = S[:last]")
				} else if dstConst {
					r.Bad(rule, key, fn, a.P.Pos(st.Pos()), inst, "the last element is dropped but a constant slot is overwritten instead of the found one")
				} else {
					r.OK(rule, key, fn, a.P.Pos(st.Pos()), inst, "S[i] = S[k]; S = S[:last]")
				}
			}
		})
	}
}

// resliceRemoval: G4r — anchored on the store-back itself: a struct field that holds a slice is cut by
// one element (F = F[1:] or F = F[:len-1]). Cutting the FIRST element is a removal of element i only
// if the first element was saved into slot i before (F[i] = F[0]); cutting the LAST one only after
// F[i] = F[last] or after the tail was shifted down (copy(F[i:], F[i+1:])). Anything else drops an
// element that was not the one to be removed.
func resliceRemoval(a *Anchors, r *core.Report, rule string) {
	rid := strings.SplitN(rule, " ", 2)[0]
	for _, f := range a.P.SrcFuncs {
		eachInstr(f, func(in ssa.Instruction) {
			st, ok := in.(*ssa.Store)
			if !ok {
				return
			}
			if _, isField := st.Addr.(*ssa.FieldAddr); !isField {
				return
			}
			sl, ok := st.Val.(*ssa.Slice)
			if !ok {
				return
			}
			bd, pd, okd := fieldPath(st.Addr)
			bs, ps, oks := fieldPath(sl.X)
			if !okd || !oks || canon(bd) != canon(bs) || strings.Join(pd, ".") != strings.Join(ps, ".") {
				return
			}
			dropFirst := false
			if sl.Low != nil && sl.High == nil {
				if c, ok := constInt(sl.Low); ok && c == 1 {
					dropFirst = true
				}
			}
			dropLast := sl.Low == nil && sl.High != nil
			if !dropFirst && !dropLast {
				return
			}
			sameField := func(v ssa.Value) bool {
				b, pth, ok := fieldPath(v)
				return ok && canon(b) == canon(bd) && strings.Join(pth, ".") == strings.Join(pd, ".")
			}
			// fills that precede the cut
			swapFirst, swapOther, shift := false, false, false
			eachInstr(f, func(x ssa.Instruction) {
				if !instrReachable(x, in) {
					return
				}
				if s2, ok := x.(*ssa.Store); ok {
					dst, ok1 := s2.Addr.(*ssa.IndexAddr)
					ld, ok2 := s2.Val.(*ssa.UnOp)
					if ok1 && ok2 && ld.Op == token.MUL {
						if src, ok3 := ld.X.(*ssa.IndexAddr); ok3 && sameField(dst.X) && sameField(src.X) {
							_, dstConst := constInt(dst.Index)
							if c, isC := constInt(src.Index); isC && c == 0 && !dstConst {
								swapFirst = true
							} else if !dstConst {
								swapOther = true
							}
						}
					}
				}
				if cc := callCommon(x); cc != nil {
					if b, ok := cc.Value.(*ssa.Builtin); ok && b.Name() == "copy" && len(cc.Args) == 2 {
						d, ok1 := cc.Args[0].(*ssa.Slice)
						s0, ok2 := cc.Args[1].(*ssa.Slice)
						if ok1 && ok2 && sameField(d.X) && sameField(s0.X) && d.Low != nil && s0.Low != nil {
							shift = true
						}
					}
				}
			})
			fn := fname(f)
			key := rid + "|" + fn + "|cut:" + strings.Join(pd, ".")
			inst := "the element cut off " + strings.Join(pd, ".") + " is one whose value was moved into the removed element's slot (or the tail was shifted down)"
			switch {
			case dropFirst && swapFirst && !shift:
				r.OK(rule, key, fn, a.P.Pos(in.Pos()), inst, "F[i] = F[0]; F = F[1:]")
			case dropFirst:
				r.Bad(rule, key, fn, a.P.Pos(in.Pos()), inst, "the FIRST element is cut off but it was not saved into the removed element's slot before (no F[i] = F[0]; a shifted tail needs F = F[:len-1]): a surviving entry drops out of the list — the owner's termination never releases it")
			case dropLast && (swapOther || shift):
				// the new length is the old one minus one: len(F)-1, or (for a shifted tail) the
				// index the shift started at plus the number of elements copy reported
				okLen := false
				if b, ok := sl.High.(*ssa.BinOp); ok {
					if c, isC := constInt(b.Y); isC && c == 1 && b.Op == token.SUB {
						if lc, ok := b.X.(*ssa.Call); ok {
							if bi, ok := lc.Common().Value.(*ssa.Builtin); ok && bi.Name() == "len" && sameField(lc.Common().Args[0]) {
								okLen = true
							}
						}
					}
					if b.Op == token.ADD {
						isCopy := func(v ssa.Value) bool {
							c, ok := v.(*ssa.Call)
							if !ok {
								return false
							}
							bi, ok := c.Common().Value.(*ssa.Builtin)
							return ok && bi.Name() == "copy"
						}
						if isCopy(b.X) || isCopy(b.Y) {
							okLen = true
						}
					}
				}
				if okLen {
					r.OK(rule, key, fn, a.P.Pos(in.Pos()), inst, "the last element is cut (new length = old length - 1) after a swap with it / a shift of the tail")
				} else {
					r.Bad(rule, key, fn, a.P.Pos(in.Pos()), inst, "after the swap/shift the list is cut to "+sl.High.String()+", which is not its length minus one (copy returns the number of elements MOVED, not the new length): removing any element but the first also drops entries from the end — they stay registered and the owner's termination never releases them")
				}
			default:
				// a plain truncation (pop) — not a removal by index
			}
		})
	}
}

// insertsFreshObject: the value stored by this LoadOrStore is an object allocated in this function
// (not yet reachable by anyone else).
func insertsFreshObject(ins ssa.Instruction) bool {
	cc := callCommon(ins)
	if cc == nil || len(cc.Args) < 3 {
		return false
	}
	v := cc.Args[2]
	if mi, ok := v.(*ssa.MakeInterface); ok {
		v = mi.X
	}
	_, ok := canon(v).(*ssa.Alloc)
	return ok
}

// c06NameFlag: G5
func c06NameFlag(a *Anchors, r *core.Report) {
	rule := "C06.G5 name-claim-flag"
	r.Floor(rule, 3)
	flagOp := func(in ssa.Instruction, method string) (ssa.Value, bool) {
		cc := callCommon(in)
		if cc == nil {
			return nil, false
		}
		sf := staticCallee(cc)
		if sf == nil || sf.Pkg == nil || sf.Pkg.Pkg.Path() != "sync/atomic" || sf.Name() != method || len(cc.Args) == 0 {
			return nil, false
		}
		_, path, _ := fieldPath(cc.Args[0])
		if len(path) == 0 || path[len(path)-1] != "registered" {
			return nil, false
		}
		v, _ := in.(ssa.Value)
		return v, true
	}
	namesInsert := func(in ssa.Instruction) bool {
		cc := callCommon(in)
		if cc == nil {
			return false
		}
		m, ok := syncMapCall(cc)
		return ok && m == "LoadOrStore" && tableOf(a, cc) == "names"
	}
	for _, f := range funcsOfPkgs(a.P, "node") {
		var ins ssa.Instruction
		eachInstr(f, func(in ssa.Instruction) {
			if namesInsert(in) {
				ins = in
			}
		})
		if ins == nil {
			continue
		}
		fn := fname(f)
		key := "C06.G5|" + fn
		inst := "a name insert is bracketed by the per-process registered flag"
		var cas ssa.Instruction
		eachInstr(f, func(in ssa.Instruction) {
			if _, ok := flagOp(in, "CompareAndSwap"); ok {
				cas = in
			}
		})
		loaded := tupleExtract(ins.(ssa.Value), 1)
		t, fl, _ := boolEdges(loaded)
		var tst, fst []Point
		for _, e := range t {
			tst = append(tst, Point{e.To(), 0})
		}
		for _, e := range fl {
			fst = append(fst, Point{e.To(), 0})
		}
		isStore := func(val bool) func(ssa.Instruction) bool {
			return func(in ssa.Instruction) bool {
				if _, ok := flagOp(in, "Store"); ok {
					cc := callCommon(in)
					if b, ok := constBool(cc.Args[1]); ok && b == val {
						return true
					}
				}
				return false
			}
		}
		var probs []string
		if cas != nil {
			// RegisterName shape: CAS(false,true) dominates the insert; lost insert rolls the flag back
			if !instrDominates(cas, ins) {
				probs = append(probs, "the flag is not claimed before the insert")
			}
			okv, _ := cas.(ssa.Value)
			_, cf, _ := boolEdges(okv)
			for _, e := range cf {
				if reaches([]Point{{e.To(), 0}}, nil, func(in ssa.Instruction) bool { return in == ins }) != nil {
					probs = append(probs, "the insert is reachable when the flag was already taken: one process can own two names")
				}
			}
			if reaches(tst, isStore(false), isReturn) != nil {
				probs = append(probs, "when the name is already taken the flag is not rolled back: the process can never register a name again")
			}
		} else if !insertsFreshObject(ins) {
			probs = append(probs, "the name is inserted for an already published process without claiming its registered flag by compare-and-swap: two concurrent registrations of different names for one process both succeed and one name leaks after termination")
		} else {
			// spawn shape: on success the flag is set
			if reaches(fst, isStore(true), func(in ssa.Instruction) bool {
				// publication of the process
				cc := callCommon(in)
				if cc == nil {
					return false
				}
				m, ok := syncMapCall(cc)
				return ok && m == "Store" && tableOf(a, cc) == "processes"
			}) != nil {
				probs = append(probs, "the process is published with a registered name but the registered flag unset: its name is not released at termination")
			}
		}
		if len(probs) > 0 {
			r.Bad(rule, key, fn, a.P.Pos(ins.Pos()), inst, strings.Join(probs, "; "))
		} else {
			r.OK(rule, key, fn, a.P.Pos(ins.Pos()), inst, "flag and table change together")
		}
	}
	// UnregisterName clears the flag
	if g := a.P.Func("node", a.NodeT.Obj().Name(), "UnregisterName"); g != nil {
		key := "C06.G5|" + fname(g)
		errIdx := errResultIndex(g)
		bad := reaches([]Point{{g.Blocks[0], 0}}, func(in ssa.Instruction) bool {
			if _, ok := flagOp(in, "Store"); ok {
				if b, ok := constBool(callCommon(in).Args[1]); ok && !b {
					return true
				}
			}
			return false
		}, func(in ssa.Instruction) bool {
			ret, ok := in.(*ssa.Return)
			return ok && maybeNilResult(ret, errIdx)
		})
		if bad != nil {
			r.Bad(rule, key, fname(g), a.P.Pos(g.Pos()), "removing a name clears the owner's registered flag", "a successful return does not clear the flag: the process cannot register another name and its termination deletes a name it no longer owns")
		} else {
			r.OK(rule, key, fname(g), a.P.Pos(g.Pos()), "removing a name clears the owner's registered flag", "cleared on every successful path")
		}
	}
}

var _ = load.Module

// c06MetaRegistration: G3r — a meta process can be spawned by another meta process, i.e. from a
// goroutine that runs concurrently with the termination of the owning process. Where a meta
// process is entered into its owner's table, the owner's liveness is looked at AFTER the insert
// (insert-then-check against the terminator's mark-dead-then-walk), and on the dead edge the new
// meta process is sent its exit and woken — otherwise it is registered after the walk and never
// stopped (its Start() runs for ever, its alias stays registered for a dead process).
func c06MetaRegistration(a *Anchors, r *core.Report) {
	rule := "C06.G3r meta-registered-for-a-terminating-process-is-stopped"
	r.Floor(rule, 1)
	exitT := int64(-1)
	if n := a.P.Named("gen", "MailboxMessageType"); n != nil {
		for v, name := range enumConsts(n) {
			if name == "MailboxMessageTypeExit" {
				exitT = v
			}
		}
	}
	for _, f := range funcsOfPkgs(a.P, "node") {
		eachInstr(f, func(in ssa.Instruction) {
			cc := callCommon(in)
			if cc == nil {
				return
			}
			m, ok := syncMapCall(cc)
			if !ok || (m != "Store" && m != "LoadOrStore") || len(cc.Args) < 3 {
				return
			}
			own, _ := fieldOwner(cc.Args[0])
			if own != a.ProcessT {
				return
			}
			mv := stripIface(cc.Args[2])
			pt, isPtr := mv.Type().(*types.Pointer)
			if !isPtr || pt.Elem() != types.Type(a.MetaT) {
				return
			}
			base, _, _ := fieldPath(cc.Args[0])
			base = canon(base)
			mvc := canon(mv)
			fn := fname(f)
			key := "C06.G3r|" + fn
			pos := a.P.Pos(in.Pos())
			inst := "after a meta process is entered into its owner's table the owner's liveness is checked again, and a dead owner's new meta process is stopped"
			isAliveCall := func(i ssa.Instruction) bool {
				c, isCall := i.(*ssa.Call)
				return isCall && callsNamed(i, "isAlive") && len(c.Common().Args) > 0 && canon(c.Common().Args[0]) == base
			}
			if hit := reaches([]Point{after(in)}, isAliveCall, isReturn); hit != nil {
				r.Bad(rule, key, fn, pos, inst, "the function can return at "+a.P.Pos(hit.Pos())+" without looking at the owner's state after the insert: a process that terminated between the first check and the insert has already walked its meta processes — the new one is never told to stop")
				return
			}
			// on the dead edge: exit pushed to the new meta process, then woken
			var probs []string
			n := 0
			for _, i := range walkAvoid([]Point{after(in)}, nil, isAliveCall) {
				c := i.(*ssa.Call)
				_, fl, complete := boolEdges(c)
				if !complete || len(fl) == 0 {
					probs = append(probs, "the result of the liveness check is not a plain branch condition")
					continue
				}
				n++
				var pts []Point
				for _, e := range fl {
					pts = append(pts, Point{e.To(), 0})
				}
				isExitPush := func(i2 ssa.Instruction) bool {
					c2 := callCommon(i2)
					if c2 == nil || !c2.IsInvoke() || c2.Method.Name() != "Push" || len(c2.Args) == 0 {
						return false
					}
					b2, _, okp := fieldPath(c2.Value)
					if !okp || canon(b2) != mvc {
						return false
					}
					// the pushed message is an exit
					qm := stripIface(c2.Args[0])
					isExit := false
					if refs := qm.Referrers(); refs != nil {
						for _, rf := range *refs {
							if fa, ok := rf.(*ssa.FieldAddr); ok {
								if _, fl := fieldOwner(fa); fl == "Type" {
									for _, rr := range *fa.Referrers() {
										if st, ok := rr.(*ssa.Store); ok {
											if c, ok := constInt(st.Val); ok && c == exitT {
												isExit = true
											}
										}
									}
								}
							}
						}
					}
					return isExit
				}
				isWake := func(i2 ssa.Instruction) bool {
					c2 := callCommon(i2)
					return c2 != nil && staticCallee(c2) == a.MetaWake && len(c2.Args) > 0 && canon(c2.Args[0]) == mvc
				}
				if hit := reaches(pts, isExitPush, isReturn); hit != nil {
					probs = append(probs, "on the dead-owner edge a return is reachable without an exit message pushed to the new meta process")
				} else {
					for _, pu := range walkAvoid(pts, nil, isExitPush) {
						if hit := reaches([]Point{after(pu)}, isWake, isReturn); hit != nil {
							probs = append(probs, "the exit is pushed but the meta process is not woken afterwards")
						}
					}
				}
			}
			if n == 0 {
				probs = append(probs, "no liveness check after the insert")
			}
			if len(probs) > 0 {
				r.Bad(rule, key, fn, pos, inst, strings.Join(probs, "; "))
			} else {
				r.OK(rule, key, fn, pos, inst, fmt.Sprintf("%d re-check(s) after the insert; dead edge pushes an exit to the new meta process and wakes it", n))
			}
		})
	}
}

// ownListInsertAfterClaim: G7 — a process writes an event name / alias into its own list (the list
// its termination walks to release them) only behind the success edge of the node-level claim of
// that very identity. An entry recorded for a claim that failed makes the process's termination
// release an identity that belongs to somebody else (the living owner's event disappears, its
// subscribers get a spurious termination notice, later publications fail with 'unknown event').
func ownListInsertAfterClaim(a *Anchors, r *core.Report, rule, rid string, floor int, lists map[string]bool) {
	r.Floor(rule, floor)
	for _, f := range funcsOfPkgs(a.P, "node") {
		if !recvIs(root(f), a.ProcessT) {
			continue
		}
		seq := 0
		eachInstr(f, func(in ssa.Instruction) {
			var key ssa.Value
			list := ""
			if cc := callCommon(in); cc != nil {
				if m, ok := syncMapCall(cc); ok && (m == "Store" || m == "LoadOrStore") && len(cc.Args) >= 3 {
					if own, fl := fieldOwner(cc.Args[0]); own == a.ProcessT && lists[fl] {
						list, key = fl, stripIface(cc.Args[1])
					}
				}
			}
			if st, ok := in.(*ssa.Store); ok {
				if own, fl := fieldOwner(st.Addr); own == a.ProcessT && lists[fl] {
					// p.list = append(p.list, x): the appended element
					if c, ok := st.Val.(*ssa.Call); ok {
						if b, ok := c.Call.Value.(*ssa.Builtin); ok && b.Name() == "append" && len(c.Call.Args) == 2 {
							list = fl
							key = appendedElement(c.Call.Args[1])
						}
					}
				}
			}
			if list == "" {
				return
			}
			seq++
			fn := fname(f)
			k := fmt.Sprintf("%s|%s|%s#%d", rid, fn, list, seq)
			pos := a.P.Pos(in.Pos())
			inst := "the identity is entered into the process's own " + list + " list only after the node-level claim of it succeeded"
			if key == nil {
				r.Unk(rule, k, fn, pos, inst, "cannot tell which identity is entered")
				return
			}
			ok := false
			why := "no successful node-level claim of the same identity dominates the insert"
			eachInstr(f, func(i2 ssa.Instruction) {
				c, isCall := i2.(*ssa.Call)
				if !isCall {
					return
				}
				g := staticCallee(c.Common())
				if g == nil || !recvIs(g, a.NodeT) || errResultIndex(g) < 0 {
					return
				}
				same := false
				for _, arg := range c.Common().Args {
					if stripIface(arg) == key || canon(stripIface(arg)) == canon(key) {
						same = true
					}
				}
				if !same {
					return
				}
				var errv ssa.Value = c
				if g.Signature.Results().Len() > 1 {
					errv = tupleExtract(c, errResultIndex(g))
				}
				if errv == nil {
					return
				}
				nilE, _ := nilEdgesCell(errv)
				if len(nilE) > 0 && edgesDominate(nilE, in) {
					ok = true
					why = "dominated by the success edge of " + g.Name()
				}
			})
			if ok {
				r.OK(rule, k, fn, pos, inst, why)
			} else {
				r.Bad(rule, k, fn, pos, inst, why+": when the claim fails (the name is taken by another process) the entry stays, and this process's termination releases the other owner's identity")
			}
		})
	}
}

// appendedElement: the single element appended by append(list, x) (SSA passes a slice built from a
// one-element array).
func appendedElement(v ssa.Value) ssa.Value {
	sl, ok := v.(*ssa.Slice)
	if !ok {
		return nil
	}
	al, ok := sl.X.(*ssa.Alloc)
	if !ok || al.Referrers() == nil {
		return nil
	}
	var val ssa.Value
	for _, rf := range *al.Referrers() {
		if ia, ok := rf.(*ssa.IndexAddr); ok && ia.Referrers() != nil {
			for _, r2 := range *ia.Referrers() {
				if st, ok := r2.(*ssa.Store); ok {
					val = st.Val
				}
			}
		}
	}
	return val
}
