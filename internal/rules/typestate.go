package rules

import (
	"fmt"
	"go/token"
	"go/types"
	"sort"
	"strings"

	"golang.org/x/tools/go/ssa"

	"verif/internal/core"
	"verif/internal/load"
)

// Token typestate of the goroutine executing a function with respect to one state word.
const (
	tsNone     uint16 = 1 << iota // no token: an outsider
	tsHeld                        // holds the run token (between acquisition and release)
	tsReleased                    // released the token (CAS Running->Sleep succeeded)
	tsPendH                       // holder swapped ->Terminated, old value not yet tested
	tsPendO                       // outsider swapped ->Terminated, old value not yet tested
	tsFinalH                      // elected finaliser, was the holder
	tsFinalO                      // elected finaliser, was an outsider
	tsDead                        // saw Terminated: somebody else finalises
)

func tsString(s uint16) string {
	names := []string{"outsider", "holds-token", "released", "swapped-untested(holder)", "swapped-untested(outsider)", "finaliser(holder)", "finaliser(outsider)", "lost-election"}
	var out []string
	for i, n := range names {
		if s&(1<<uint(i)) != 0 {
			out = append(out, n)
		}
	}
	if len(out) == 0 {
		return "unreachable"
	}
	return strings.Join(out, "|")
}

// wordSpec describes one state word and its protocol constants.
type wordSpec struct {
	what       string
	owner      *types.Named
	field      string
	sleep      int64
	running    int64
	wait       int64 // -1 if none
	terminated int64
	zombie     int64 // -1 if none
	initv      int64 // -1 if none
	names      map[int64]string
	universe   intSet
	// gated: teardown wrappers of the owner type — functions whose every teardown call is
	// dominated by the success edge of a once gate (CAS 0->1 on a field nothing else writes).
	// A call of such a function is a teardown that provably runs at most once per object; the
	// call site still has to prove exclusivity (token holder, or outsider that saw Sleep).
	gated map[*ssa.Function]string
}

type tsResult struct {
	in    map[*ssa.BasicBlock]uint16
	at    map[ssa.Instruction]uint16 // state immediately before the instruction
	ops   map[ssa.Instruction]*stateOp
	fn    *ssa.Function
	notes []string
	lost  map[Edge]bool // edges on which a swap->Terminated is known to have found Terminated (somebody else finalises)
}

// edge effects
type edgeFx struct {
	kind string // "cas-ok", "cas-fail", "old-is-T", "old-not-T"
	op   *stateOp
}

func tsAnalyze(f *ssa.Function, ws wordSpec, ops []stateOp, entry uint16) *tsResult {
	res := &tsResult{in: map[*ssa.BasicBlock]uint16{}, at: map[ssa.Instruction]uint16{}, ops: map[ssa.Instruction]*stateOp{}, fn: f}
	for i := range ops {
		if ops[i].Fn == f {
			res.ops[ops[i].In] = &ops[i]
		}
	}
	fx := map[Edge][]edgeFx{}
	for _, op := range res.ops {
		switch op.Kind {
		case "cas":
			if op.Result == nil {
				continue
			}
			t, fl, _ := boolEdges(op.Result)
			for _, e := range t {
				fx[e] = append(fx[e], edgeFx{"cas-ok", op})
			}
			for _, e := range fl {
				fx[e] = append(fx[e], edgeFx{"cas-fail", op})
			}
		case "swap":
			if op.Result == nil || !op.HasNew || op.New != ws.terminated {
				continue
			}
			// comparisons old == Terminated / old != Terminated
			if refs := op.Result.Referrers(); refs != nil {
				for _, rf := range *refs {
					b, ok := rf.(*ssa.BinOp)
					if !ok || (b.Op != token.EQL && b.Op != token.NEQ) {
						continue
					}
					var o ssa.Value = b.Y
					if b.Y == op.Result {
						o = b.X
					}
					c, ok := constInt(o)
					if !ok || c != ws.terminated {
						continue
					}
					t, fl, _ := boolEdges(b)
					if b.Op == token.NEQ {
						t, fl = fl, t
					}
					for _, e := range t {
						fx[e] = append(fx[e], edgeFx{"old-is-T", op})
					}
					for _, e := range fl {
						fx[e] = append(fx[e], edgeFx{"old-not-T", op})
					}
				}
			}
		}
	}
	// value-set refinement of the swapped-out value: on an edge into a block where the set of possible
	// old values excludes Terminated the election is won, where it is exactly {Terminated} it is lost
	// (covers `old != Sleep -> return`, switch forms, ...)
	for _, op := range res.ops {
		if op.Kind != "swap" || op.Result == nil || !op.HasNew || op.New != ws.terminated {
			continue
		}
		sets := refineSets(op.Result, ws.universe)
		for _, b := range f.Blocks {
			for i, succ := range b.Succs {
				set, ok := sets[succ]
				if !ok || len(succ.Preds) != 1 {
					continue
				}
				e := Edge{b, i}
				already := false
				for _, x := range fx[e] {
					if x.op == op {
						already = true
					}
				}
				if already {
					continue
				}
				if !set[ws.terminated] && len(set) > 0 {
					fx[e] = append(fx[e], edgeFx{"old-not-T", op})
				} else if len(set) == 1 && set[ws.terminated] {
					fx[e] = append(fx[e], edgeFx{"old-is-T", op})
				}
			}
		}
	}
	apply := func(s uint16, e edgeFx) uint16 {
		var out uint16
		for bit := uint16(1); bit <= tsDead; bit <<= 1 {
			if s&bit == 0 {
				continue
			}
			nb := bit
			switch e.kind {
			case "cas-ok":
				switch {
				case e.op.Old == ws.running && e.op.New == ws.sleep:
					if bit == tsHeld {
						nb = tsReleased
					}
				case e.op.New == ws.running && (e.op.Old == ws.sleep):
					if bit == tsNone || bit == tsReleased {
						nb = tsHeld
					}
				}
			case "old-is-T":
				if bit == tsPendH || bit == tsPendO {
					nb = tsDead
				}
			case "old-not-T":
				if bit == tsPendH {
					nb = tsFinalH
				} else if bit == tsPendO {
					nb = tsFinalO
				}
			}
			out |= nb
		}
		return out
	}
	res.lost = map[Edge]bool{}
	for e, list := range fx {
		for _, x := range list {
			if x.kind == "old-is-T" {
				res.lost[e] = true
			}
		}
	}
	if len(f.Blocks) == 0 {
		return res
	}
	res.in[f.Blocks[0]] = entry
	work := []*ssa.BasicBlock{f.Blocks[0]}
	outState := func(b *ssa.BasicBlock, s uint16, record bool) uint16 {
		for _, in := range b.Instrs {
			if record {
				res.at[in] |= s
			}
			if op, ok := res.ops[in]; ok && op.Kind == "swap" && op.HasNew && op.New == ws.terminated {
				var n uint16
				if s&(tsHeld) != 0 {
					n |= tsPendH
				}
				if s&(tsNone|tsReleased) != 0 {
					n |= tsPendO
				}
				// already pending/final/dead states stay
				n |= s & (tsPendH | tsPendO | tsFinalH | tsFinalO | tsDead)
				s = n
			}
			if cc := callCommon(in); cc != nil && len(ws.gated) > 0 {
				if sf := staticCallee(cc); sf != nil && ws.gated[sf] != "" {
					// after the once-gated teardown the goroutine is a finaliser: no handler callback may follow
					var n uint16
					if s&tsHeld != 0 {
						n |= tsFinalH
					}
					if s&(tsPendO) != 0 {
						n |= tsFinalO
					}
					n |= s &^ (tsHeld | tsPendO)
					s = n
				}
			}
		}
		return s
	}
	for len(work) > 0 {
		b := work[len(work)-1]
		work = work[:len(work)-1]
		s := outState(b, res.in[b], false)
		for i, succ := range b.Succs {
			es := s
			for _, e := range fx[Edge{b, i}] {
				es = apply(es, e)
			}
			if res.in[succ]|es != res.in[succ] {
				res.in[succ] |= es
				work = append(work, succ)
			}
		}
	}
	var blocks []*ssa.BasicBlock
	for b := range res.in {
		blocks = append(blocks, b)
	}
	sort.Slice(blocks, func(i, j int) bool { return blocks[i].Index < blocks[j].Index })
	for _, b := range blocks {
		outState(b, res.in[b], true)
	}
	return res
}

// ---------------------------------------------------------------------------------

type tsCallback struct {
	in   ssa.Instruction
	name string
	kind string // "run" (needs token) | "term" (needs finaliser) | "init" | "other"
}

// checkWord runs P1..P5 for one state word.
func checkWord(a *Anchors, r *core.Report, prefix string, ws wordSpec, loop, wake *ssa.Function,
	classify func(in ssa.Instruction) *tsCallback) {

	p := a.P
	ops := stateOps(p, ws.owner, ws.field)
	nm := func(v int64) string {
		if n, ok := ws.names[v]; ok {
			return n
		}
		return fmt.Sprint(v)
	}
	opDesc := func(op stateOp) string {
		switch op.Kind {
		case "cas":
			return fmt.Sprintf("CAS %s->%s", nm(op.Old), nm(op.New))
		case "swap", "store", "plainstore":
			if op.HasNew {
				return fmt.Sprintf("%s ->%s", op.Kind, nm(op.New))
			}
			return op.Kind + " ->(non-constant)"
		}
		return op.Kind
	}

	// ---- P0: writers write protocol constants only
	ruleP1 := prefix + ".P1 exclusive-acquisition"
	ruleP2 := prefix + ".P2 release-by-holder"
	seq := map[string]int{}
	for _, op := range ops {
		if op.Kind == "load" || op.Kind == "plainload" {
			continue
		}
		fn := fname(op.Fn)
		d := opDesc(op)
		seq[fn+d]++
		key := fmt.Sprintf("%s|%s|%s#%d", strings.SplitN(ruleP1, " ", 2)[0], fn, d, seq[fn+d])
		pos := p.Pos(op.In.Pos())
		if !op.HasNew || (op.Kind != "cas" && op.Kind != "swap" && op.Kind != "store" && op.Kind != "plainstore") {
			r.Unk(ruleP1, key, fn, pos, ws.what+" transition "+d, "the value written to the state word is not a protocol constant")
			continue
		}
		switch {
		case op.New == ws.running:
			if op.Kind == "cas" && (op.Old == ws.sleep || (ws.wait >= 0 && op.Old == ws.wait)) {
				detail := "acquisition by compare-and-swap from " + nm(op.Old)
				if ws.wait >= 0 && op.Old == ws.wait {
					// must be in the function that did Running->WaitResponse, dominated by that CAS's success edge
					ok := false
					for _, o2 := range ops {
						if o2.Fn == op.Fn && o2.Kind == "cas" && o2.Old == ws.running && o2.New == ws.wait && o2.Result != nil {
							t, _, c := boolEdges(o2.Result)
							if c && edgesDominate(t, op.In) {
								ok = true
							}
						}
					}
					if !ok {
						r.Bad(ruleP1, key, fn, pos, ws.what+" transition "+d, "WaitResponse->Running is not dominated by the success edge of the matching Running->WaitResponse in the same function: a goroutine that does not hold the token could take it")
						continue
					}
					detail = "return from wait, dominated by the success edge of Running->WaitResponse in the same function"
				}
				r.OK(ruleP1, key, fn, pos, ws.what+" transition "+d, detail)
			} else {
				r.Bad(ruleP1, key, fn, pos, ws.what+" transition "+d, "the word is set to Running by something else than a compare-and-swap from Sleep/WaitResponse: two goroutines can both believe they own the process")
			}
		case op.New == ws.sleep:
			key2 := strings.Replace(key, ".P1|", ".P2|", 1)
			switch {
			case op.Kind == "cas" && op.Old == ws.running && op.Fn == loop:
				r.OK(ruleP2, key2, fn, pos, ws.what+" transition "+d, "release inside the runner goroutine (token state checked by P3/P4)")
			case op.Kind == "plainstore" || op.Kind == "store":
				if msg := checkPublication(a, op, ws); msg != "" {
					r.Bad(ruleP2, key2, fn, pos, ws.what+" transition "+d, msg)
				} else {
					r.OK(ruleP2, key2, fn, pos, ws.what+" transition "+d, "initial store to Sleep happens before the object can be reached by a wake-up")
				}
			default:
				r.Bad(ruleP2, key2, fn, pos, ws.what+" transition "+d, "the word is set to Sleep outside the runner goroutine: a sender can start a second runner while the first one is still inside a callback")
			}
		case ws.wait >= 0 && op.New == ws.wait:
			if op.Kind == "cas" && op.Old == ws.running {
				r.OK(ruleP1, key, fn, pos, ws.what+" transition "+d, "enter wait by compare-and-swap from Running")
			} else {
				r.Bad(ruleP1, key, fn, pos, ws.what+" transition "+d, "WaitResponse is entered by something else than a compare-and-swap from Running")
			}
		}
	}

	// ---- T3 absorbing (reported under the caller's prefix as P7)
	ruleT3 := prefix + ".T3 terminated-is-final"
	for _, op := range ops {
		fn := fname(op.Fn)
		d := opDesc(op)
		key := fmt.Sprintf("%s|%s|%s", strings.SplitN(ruleT3, " ", 2)[0], fn, d)
		pos := p.Pos(op.In.Pos())
		switch op.Kind {
		case "cas":
			if op.Old == ws.terminated || (ws.zombie >= 0 && op.Old == ws.zombie) {
				r.Bad(ruleT3, key, fn, pos, ws.what+": "+d, "a compare-and-swap expects Terminated/Zombee as old value: a terminated process could come back")
			} else {
				r.OK(ruleT3, key, fn, pos, ws.what+": "+d, "expected old value is a live state")
			}
		case "swap":
			if op.HasNew && op.New != ws.terminated && op.Result != nil {
				// swap to a non-final value (Kill's ->Zombee): if old may be Terminated, it must be restored on that branch
				sets := refineSets(op.Result, ws.universe)
				restored := false
				for b, s := range sets {
					if len(s) == 1 && s[ws.terminated] {
						for _, in := range b.Instrs {
							for _, o2 := range ops {
								if o2.In == in && (o2.Kind == "store" || o2.Kind == "swap") && o2.HasNew && o2.New == ws.terminated {
									restored = true
								}
							}
						}
					}
				}
				if restored {
					r.OK(ruleT3, key, fn, pos, ws.what+": "+d, "on the branch where the old value was Terminated the word is set back to Terminated")
				} else {
					r.Bad(ruleT3, key, fn, pos, ws.what+": "+d, "a swap overwrites the word with a non-final value and does not restore Terminated when the old value was Terminated")
				}
			}
		case "store", "plainstore":
			if op.HasNew && op.New != ws.terminated && op.New != ws.sleep && (ws.initv < 0 || op.New != ws.initv) {
				r.Bad(ruleT3, key, fn, pos, ws.what+": "+d, "unconditional store of a non-final state")
			}
		}
	}

	// ---- P3/P4/P5 typestate over every function that contains a callback or an op
	ruleP3 := prefix + ".P3 callbacks-need-token"
	ruleP5 := prefix + ".P5 finaliser-discipline"
	fnset := map[*ssa.Function]bool{}
	for _, op := range ops {
		fnset[op.Fn] = true
	}
	var cbs []*tsCallback
	for _, f := range p.SrcFuncs {
		eachInstr(f, func(in ssa.Instruction) {
			if cb := classify(in); cb != nil {
				cbs = append(cbs, cb)
				fnset[f] = true
			}
		})
	}
	// once-gated teardown wrappers
	gateOf := map[ssa.Instruction]string{} // teardown call inside a wrapper -> description of its gate
	ws.gated = map[*ssa.Function]string{}
	{
		gates := onceGates(p, ws.owner, ws.field)
		byFn := map[*ssa.Function][]*tsCallback{}
		for _, cb := range cbs {
			byFn[cb.in.Parent()] = append(byFn[cb.in.Parent()], cb)
		}
		for f, list := range byFn {
			if f == loop || f.Parent() != nil || !recvIs(f, ws.owner) || len(f.Params) == 0 {
				continue
			}
			hasWordOp := false
			for _, op := range ops {
				if op.Fn == f && op.Kind != "load" && op.Kind != "plainload" {
					hasWordOp = true
				}
			}
			if hasWordOp {
				continue
			}
			all := true
			desc := ""
			for _, cb := range list {
				if cb.kind != "term" {
					all = false
					break
				}
				ok := false
				for fld, gops := range gates {
					for _, g := range gops {
						if g.Fn != f || g.Result == nil || canon(g.Base) != ssa.Value(f.Params[0]) {
							continue
						}
						t, _, c := boolEdges(g.Result)
						if c && edgesDominate(t, cb.in) {
							ok = true
							desc = "CAS " + fld + " 0->1"
							gateOf[cb.in] = desc
						}
					}
				}
				if !ok {
					all = false
				}
			}
			if all && len(list) > 0 {
				ws.gated[f] = desc
			}
		}
		// a call of a wrapper is a teardown site of the caller
		for _, f := range p.SrcFuncs {
			eachInstr(f, func(in ssa.Instruction) {
				cc := callCommon(in)
				if cc == nil {
					return
				}
				if sf := staticCallee(cc); sf != nil && ws.gated[sf] != "" {
					if _, isGo := in.(*ssa.Go); isGo {
						cbs = append(cbs, &tsCallback{in, "go " + sf.Name(), "term"}) // never accepted: a new goroutine holds nothing
					} else {
						cbs = append(cbs, &tsCallback{in, sf.Name(), "term-gated"})
					}
					fnset[f] = true
				}
			})
		}
	}
	results := map[*ssa.Function]*tsResult{}
	var fns []*ssa.Function
	for f := range fnset {
		fns = append(fns, f)
	}
	sort.Slice(fns, func(i, j int) bool { return fns[i].String() < fns[j].String() })
	for _, f := range fns {
		entry := tsNone
		if f == loop {
			entry = tsHeld
		} else if f.Parent() == loop {
			entry = tsHeld // deferred panic handler of the runner: the panic comes out of a callback
		}
		results[f] = tsAnalyze(f, ws, ops, entry)
	}
	// the runner is started on the success edge of the acquisition
	if loop != nil && wake != nil {
		key := strings.SplitN(ruleP3, " ", 2)[0] + "|" + fname(wake) + "|start of runner"
		ok := false
		var goIn ssa.Instruction
		eachInstr(wake, func(in ssa.Instruction) {
			if g, isGo := in.(*ssa.Go); isGo {
				if mc, isMC := g.Call.Value.(*ssa.MakeClosure); isMC && mc.Fn == ssa.Value(loop) {
					goIn = in
				}
			}
		})
		if goIn != nil {
			st := results[wake]
			if st != nil && st.at[goIn] == tsHeld {
				ok = true
			}
		}
		if ok {
			r.OK(ruleP3, key, fname(wake), p.Pos(goIn.Pos()), ws.what+": the runner goroutine is started holding the token", "the go statement is reached only through the success edge of CAS Sleep->Running")
		} else {
			pos := ""
			if goIn != nil {
				pos = p.Pos(goIn.Pos())
			}
			r.Bad(ruleP3, key, fname(wake), pos, ws.what+": the runner goroutine is started holding the token", "the go statement that starts the runner is reachable without a successful CAS Sleep->Running: two runners can execute callbacks at the same time")
		}
	}
	// ---- P5h: a failed release is a hand-over — the runner finishes the termination itself.
	// When the release CAS Running->Sleep fails, somebody outside has taken the word away from the
	// holder (Kill: Zombee, meta start: Terminated) and, the holder being alive, has not torn the
	// process down (P5: outsiders finalise only what they found in Sleep/Init). Every path from the
	// failure edge to the end of the runner therefore passes a teardown, unless a swap found
	// Terminated there (then the teardown has been done).
	if loop != nil {
		ruleH := prefix + ".P5h handed-over-termination-is-finished"
		isTeardown := map[ssa.Instruction]bool{}
		for _, cb := range cbs {
			if cb.kind == "term" || cb.kind == "term-gated" {
				isTeardown[cb.in] = true
			}
		}
		n := 0
		for i := range ops {
			op := &ops[i]
			if op.Fn != loop || op.Kind != "cas" || op.Old != ws.running || op.New != ws.sleep || op.Result == nil {
				continue
			}
			n++
			key := fmt.Sprintf("%s|%s|release#%d", strings.SplitN(ruleH, " ", 2)[0], fname(loop), n)
			pos := p.Pos(op.In.Pos())
			inst := ws.what + ": when the release fails the runner tears the process down on every path"
			_, fl, c := boolEdges(op.Result)
			if !c || len(fl) == 0 {
				r.Unk(ruleH, key, fname(loop), pos, inst, "the result of the release CAS is not a plain branch condition")
				continue
			}
			res := results[loop]
			seen := map[*ssa.BasicBlock]bool{}
			var bad ssa.Instruction
			var walk func(b *ssa.BasicBlock)
			walk = func(b *ssa.BasicBlock) {
				if seen[b] || bad != nil {
					return
				}
				seen[b] = true
				for _, in := range b.Instrs {
					if isTeardown[in] {
						return
					}
					if isReturn(in) {
						bad = in
						return
					}
					if _, ok := in.(*ssa.Panic); ok {
						return
					}
				}
				for i, s := range b.Succs {
					if res != nil && res.lost[Edge{b, i}] {
						continue
					}
					walk(s)
				}
			}
			for _, e := range fl {
				walk(e.To())
			}
			if bad != nil {
				r.Bad(ruleH, key, fname(loop), pos, inst, "the runner can return at "+p.Pos(bad.Pos())+" after a failed release without any teardown: the process was taken over (kill / termination handed over by the outsider) and nobody finishes it — no terminate callback, links and monitors are never told")
			} else {
				r.OK(ruleH, key, fname(loop), pos, inst, fmt.Sprintf("every path from the failure edge reaches a teardown call (or the lost-election edge of a swap) before the goroutine ends; %d blocks", len(seen)))
			}
		}
	}

	seq = map[string]int{}
	for _, cb := range cbs {
		f := cb.in.Parent()
		st := results[f].at[cb.in]
		fn := fname(f)
		seq[fn+cb.name]++
		pos := p.Pos(cb.in.Pos())
		switch cb.kind {
		case "run":
			key := fmt.Sprintf("%s|%s|%s#%d", strings.SplitN(ruleP3, " ", 2)[0], fn, cb.name, seq[fn+cb.name])
			inst := fmt.Sprintf("%s: callback %s runs only while the goroutine holds the token", ws.what, cb.name)
			if st == tsHeld {
				r.OK(ruleP3, key, fn, pos, inst, "state on every path to the call: holds-token")
			} else {
				r.Bad(ruleP3, key, fn, pos, inst, "possible states at the call: "+tsString(st)+" — the callback can run concurrently with the goroutine that owns the process")
			}
		case "term":
			key := fmt.Sprintf("%s|%s|%s#%d", strings.SplitN(ruleP5, " ", 2)[0], fn, cb.name, seq[fn+cb.name])
			inst := fmt.Sprintf("%s: teardown %s is executed only by the single elected finaliser", ws.what, cb.name)
			// a teardown call inside a closure started with `go` / deferred from a finaliser inherits the state at the go statement
			if st == tsNone && f.Parent() != nil && f != loop {
				if ps := inheritedState(f, results); ps != 0 {
					st = ps
				}
			}
			if g, ok := gateOf[cb.in]; ok && ws.gated[f] != "" {
				r.OK(ruleP5, key, fn, pos, inst, "at most once per object: dominated by the success edge of the once gate "+g+" (the field has no other writer); who may run it is decided at every call site of "+f.Name())
				continue
			}
			switch {
			case st == tsFinalH:
				r.OK(ruleP5, key, fn, pos, inst, "dominated by swap->Terminated with old != Terminated, executed by the token holder")
			case st == tsFinalO:
				// outsider: the state seen by its first read-modify-write must exclude a live runner
				msg, set := outsiderOldSet(f, results, ws, ops, cb.in)
				if msg == "" {
					r.OK(ruleP5, key, fn, pos, inst, "outsider finaliser; old state on every path to the teardown is in "+set+" (no runner can exist)")
				} else {
					r.Bad(ruleP5, key, fn, pos, inst, msg)
				}
			default:
				r.Bad(ruleP5, key, fn, pos, inst, "possible states at the call: "+tsString(st)+" — the teardown is not dominated by a swap to Terminated whose old value was tested, so it can run twice or next to a handler")
			}
		case "term-gated":
			// the callee runs its teardown at most once per object (once gate); here: exclusivity
			key := fmt.Sprintf("%s|%s|%s#%d", strings.SplitN(ruleP5, " ", 2)[0], fn, cb.name, seq[fn+cb.name])
			inst := fmt.Sprintf("%s: the once-gated teardown %s is started only by the token holder after the word is Terminated, or by an outsider that found the word in Sleep", ws.what, cb.name)
			if st == tsNone && f.Parent() != nil && f != loop {
				if ps := inheritedState(f, results); ps != 0 {
					st = ps
				}
			}
			switch {
			case st != 0 && st&^(tsHeld|tsFinalH) == 0:
				// holder: the word must already be Terminated (nobody is told 'alive' about a process being torn down,
				// and an outsider's swap then loses): a store/swap ->Terminated dominates, or the failure edge of the release CAS
				okT := false
				why := ""
				for i := range ops {
					op := &ops[i]
					if op.Fn != f {
						continue
					}
					if (op.Kind == "store" || op.Kind == "swap") && op.HasNew && op.New == ws.terminated && instrDominates(op.In, cb.in) {
						okT, why = true, opDesc(*op)+" dominates the call"
					}
					if op.Kind == "cas" && op.Old == ws.running && op.New == ws.sleep && op.Result != nil {
						if _, fl, c := boolEdges(op.Result); c && edgesDominate(fl, cb.in) {
							okT, why = true, "reached only through the failure edge of the release CAS (the only foreign transition out of Running is the swap to Terminated, which hands the teardown over)"
						}
					}
				}
				if okT {
					r.OK(ruleP5, key, fn, pos, inst, "token holder ("+tsString(st)+"); "+why)
				} else {
					r.Bad(ruleP5, key, fn, pos, inst, "the token holder starts the teardown while the word may still be Running: senders are told the process is alive and an outsider's swap to Terminated would hand over a teardown that already ran")
				}
			case st != 0 && st&^(tsPendO|tsFinalO) == 0:
				msg, set := outsiderOldSet(f, results, ws, ops, cb.in)
				if msg == "" {
					r.OK(ruleP5, key, fn, pos, inst, "outsider; old state on every path to the call is in "+set+" (no runner exists and none can start: the word is Terminated)")
				} else {
					r.Bad(ruleP5, key, fn, pos, inst, msg)
				}
			default:
				r.Bad(ruleP5, key, fn, pos, inst, "possible states at the call: "+tsString(st)+" — the caller neither holds the token nor has swapped the word to Terminated and found Sleep: the terminate callback can run next to a handler")
			}
		}
	}
}

// onceGates: integer fields of owner (other than the state word) whose every write in the module is
// an atomic compare-and-swap 0 -> 1: the success edge is taken at most once per object.
func onceGates(p *load.Program, owner *types.Named, stateFld string) map[string][]stateOp {
	out := map[string][]stateOp{}
	st, ok := owner.Underlying().(*types.Struct)
	if !ok {
		return out
	}
	for i := 0; i < st.NumFields(); i++ {
		fl := st.Field(i)
		b, ok := fl.Type().Underlying().(*types.Basic)
		if !ok || b.Kind() != types.Int32 || fl.Name() == stateFld {
			continue
		}
		ops := stateOps(p, owner, fl.Name())
		var cas []stateOp
		good := true
		for _, op := range ops {
			switch op.Kind {
			case "load", "plainload":
			case "cas":
				if op.Old == 0 && op.New == 1 {
					cas = append(cas, op)
				} else {
					good = false
				}
			default:
				good = false
			}
		}
		if good && len(cas) > 0 {
			out[fl.Name()] = cas
		}
	}
	return out
}

// inheritedState: for a closure created in parent and started by go/defer/call there, the
// typestate at the creation site in the parent.
func inheritedState(f *ssa.Function, results map[*ssa.Function]*tsResult) uint16 {
	par := f.Parent()
	if par == nil {
		return 0
	}
	pr := results[par]
	if pr == nil {
		return 0
	}
	var s uint16
	eachInstr(par, func(in ssa.Instruction) {
		if mc, ok := in.(*ssa.MakeClosure); ok && mc.Fn == ssa.Value(f) {
			s |= pr.at[in]
		}
	})
	if s == tsNone {
		// maybe the parent itself is a closure
		if ps := inheritedState(par, results); ps != 0 {
			return ps
		}
	}
	return s
}

// outsiderOldSet: the value set of the first read-modify-write result of the function on the
// path to `at` must be a subset of {Sleep, Init}.
func outsiderOldSet(f *ssa.Function, results map[*ssa.Function]*tsResult, ws wordSpec, ops []stateOp, at ssa.Instruction) (string, string) {
	// if `at` is inside a nested closure, evaluate at the closure creation point in the parent
	for f.Parent() != nil {
		var mk ssa.Instruction
		eachInstr(f.Parent(), func(in ssa.Instruction) {
			if mc, ok := in.(*ssa.MakeClosure); ok && mc.Fn == ssa.Value(f) {
				mk = in
			}
		})
		hasOps := false
		for _, op := range ops {
			if op.Fn == f && (op.Kind == "swap" || op.Kind == "cas") {
				hasOps = true
			}
		}
		if hasOps || mk == nil {
			break
		}
		at = mk
		f = f.Parent()
	}
	var first *stateOp
	for i := range ops {
		op := &ops[i]
		if op.Fn != f || op.Kind != "swap" || op.Result == nil {
			continue
		}
		if !instrDominates(op.In, at) {
			continue
		}
		if first == nil || instrDominates(op.In, first.In) {
			first = op
		}
	}
	if first == nil {
		return "no swap whose result is inspected dominates the teardown", ""
	}
	uni := ws.universe.clone()
	// a store of a constant that dominates the first swap removes the zero/unstarted value
	sets := refineSets(first.Result, uni)
	set := sets[at.Block()]
	if set == nil {
		return "teardown not reachable from the state inspection", ""
	}
	allowed := intSet{ws.sleep: true}
	if ws.initv >= 0 {
		allowed[ws.initv] = true
	}
	var bad []string
	for v := range set {
		if !allowed[v] && !(first.HasNew && first.New == ws.terminated && v == ws.terminated) {
			if n, ok := ws.names[v]; ok {
				bad = append(bad, n)
			} else {
				bad = append(bad, fmt.Sprint(v))
			}
		}
	}
	sort.Strings(bad)
	if len(bad) > 0 {
		return fmt.Sprintf("a goroutine that does not hold the token tears the process down although the state it found may be %s: the terminate callback then runs concurrently with the callback still executing in the runner", strings.Join(bad, ", ")), set.names(ws.names)
	}
	return "", set.names(ws.names)
}

// checkPublication: a plain/atomic store of Sleep outside the runner must happen before the
// object becomes reachable by wake-ups.
func checkPublication(a *Anchors, op stateOp, ws wordSpec) string {
	f := op.Fn
	if ws.owner == a.ProcessT {
		// process: the store must dominate the insert into the node's process table and be
		// dominated by the return of ProcessInit
		var pub, initc ssa.Instruction
		eachInstr(f, func(in ssa.Instruction) {
			cc := callCommon(in)
			if cc == nil {
				return
			}
			if sf := staticCallee(cc); sf != nil && sf.Pkg != nil && sf.Pkg.Pkg.Path() == "sync" && sf.Name() == "Store" {
				if own, fl := fieldOwner(cc.Args[0]); own == a.NodeT && fl != "" {
					if mi, ok := cc.Args[2].(*ssa.MakeInterface); ok {
						if pt, ok := mi.X.Type().(*types.Pointer); ok && pt.Elem() == types.Type(a.ProcessT) {
							pub = in
						}
					}
				}
			}
			if cc.IsInvoke() && cc.Method.Name() == "ProcessInit" {
				initc = in
			}
		})
		if pub == nil {
			return "no insert into the node's process table in the function that stores Sleep"
		}
		if !instrDominates(op.In, pub) {
			return "the process is inserted into the process table before its state is set to Sleep: Kill or a sender can reach a process that is still initialising"
		}
		if initc == nil || !instrDominates(initc, op.In) {
			return "the state is set to Sleep before ProcessInit has returned: a runner can start while init is executing"
		}
		return ""
	}
	// meta: one-shot store that dominates the first wake-up in the same function, and the function
	// has exactly one call site (go m.start()) outside loops
	var firstWake ssa.Instruction
	eachInstr(f, func(in ssa.Instruction) {
		cc := callCommon(in)
		if cc != nil && staticCallee(cc) == a.MetaWake && firstWake == nil {
			firstWake = in
		}
	})
	if firstWake != nil && !instrDominates(op.In, firstWake) {
		return "the handler is started before the state word is initialised"
	}
	sites := 0
	for _, g := range a.P.SrcFuncs {
		eachInstr(g, func(in ssa.Instruction) {
			if cc := callCommon(in); cc != nil && staticCallee(cc) == f {
				sites++
			}
		})
	}
	if sites != 1 {
		return fmt.Sprintf("the function that stores Sleep unconditionally has %d call sites (expected exactly one start per meta process)", sites)
	}
	return ""
}
