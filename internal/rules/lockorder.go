package rules

import (
	"fmt"
	"go/types"
	"sort"
	"strings"

	"golang.org/x/tools/go/ssa"
	"golang.org/x/tools/go/ssa/ssautil"

	"verif/internal/core"
	"verif/internal/load"
)

// lockReentrancy: sync.Mutex / sync.RWMutex are not re-entrant. For every critical section of a
// mutex field of the given owner types — from a Lock/RLock call to the matching Unlock/RUnlock, or
// to the function's end when the unlock is deferred — nothing called synchronously inside it
// (static callees, closures handed on, dynamic calls resolved through the VTA call graph; `go`
// statements excluded) locks the same field of the same owner type again. RLock inside RLock is
// not reported (it blocks only when a writer is queued in between; listed as not decided).
// One obligation per critical section.
type mutexOp struct {
	owner, field, kind string
	deferred           bool
}

func mutexOpOf(in ssa.Instruction) *mutexOp {
	var cc *ssa.CallCommon
	deferred := false
	switch x := in.(type) {
	case *ssa.Call:
		cc = x.Common()
	case *ssa.Defer:
		cc = x.Common()
		deferred = true
	default:
		return nil
	}
	f := cc.StaticCallee()
	if f == nil || f.Pkg == nil || f.Pkg.Pkg.Path() != "sync" || f.Signature.Recv() == nil || len(cc.Args) == 0 {
		return nil
	}
	switch f.Name() {
	case "Lock", "RLock", "Unlock", "RUnlock":
	default:
		return nil
	}
	fa, ok := cc.Args[0].(*ssa.FieldAddr)
	if !ok {
		return nil
	}
	st := derefStruct(fa.X.Type())
	if st == nil {
		return nil
	}
	owner := fa.X.Type().String()
	if pt, ok := fa.X.Type().(*types.Pointer); ok {
		owner = pt.Elem().String()
	}
	owner = strings.TrimPrefix(owner, load.Module+"/")
	return &mutexOp{owner, st.Field(fa.Field).Name(), f.Name(), deferred}
}

func fnInModule(f *ssa.Function) bool {
	pk := f.Pkg
	if pk == nil && f.Origin() != nil {
		pk = f.Origin().Pkg
	}
	if pk == nil && f.Parent() != nil {
		return fnInModule(f.Parent())
	}
	return pk != nil && strings.HasPrefix(pk.Pkg.Path(), load.Module) && !strings.Contains(pk.Pkg.Path(), load.Module+"/testing")
}

func lockReentrancy(p *load.Program, r *core.Report, rule, rid string, floor int, ownerMatches func(owner string) bool) {
	r.Floor(rule, floor)
	var all []*ssa.Function
	for f := range ssautil.AllFunctions(p.SSA) {
		if fnInModule(f) && len(f.Blocks) > 0 {
			all = append(all, f)
		}
	}
	sort.Slice(all, func(i, j int) bool { return all[i].String() < all[j].String() })
	takes := map[*ssa.Function][]*mutexOp{}
	for _, f := range all {
		eachInstr(f, func(in ssa.Instruction) {
			if l := mutexOpOf(in); l != nil && (l.kind == "Lock" || l.kind == "RLock") {
				takes[f] = append(takes[f], l)
			}
		})
	}
	cg := p.CallGraph()
	dyn := func(site ssa.CallInstruction) []*ssa.Function {
		var out []*ssa.Function
		if n := cg.Nodes[site.Parent()]; n != nil {
			for _, e := range n.Out {
				if e.Site == site && e.Callee.Func != nil && fnInModule(e.Callee.Func) {
					out = append(out, e.Callee.Func)
				}
			}
		}
		return out
	}
	callees := func(c *ssa.Call) []*ssa.Function {
		var out []*ssa.Function
		cc := c.Common()
		if g := cc.StaticCallee(); g != nil {
			if fnInModule(g) {
				out = append(out, g)
			}
		} else {
			out = append(out, dyn(c)...)
		}
		for _, a := range cc.Args {
			if mc, ok := a.(*ssa.MakeClosure); ok {
				out = append(out, mc.Fn.(*ssa.Function))
			}
		}
		return out
	}
	// callee lists, computed once
	calleesOf := map[*ssa.Function][]*ssa.Function{}
	for _, f := range all {
		var out []*ssa.Function
		seen := map[*ssa.Function]bool{}
		eachInstr(f, func(x ssa.Instruction) {
			c, ok := x.(*ssa.Call)
			if !ok {
				return
			}
			for _, g := range callees(c) {
				if !seen[g] {
					seen[g] = true
					out = append(out, g)
				}
			}
		})
		calleesOf[f] = out
	}
	// for a lock (owner, field): which functions take it, directly or through synchronous callees,
	// in a way that conflicts with holding it in mode `held` — with a witness path
	type lockID struct{ owner, field, held string }
	type reach struct {
		next *ssa.Function // nil: takes it itself
		kind string
	}
	memo := map[lockID]map[*ssa.Function]reach{}
	reachers := func(id lockID) map[*ssa.Function]reach {
		if m, ok := memo[id]; ok {
			return m
		}
		m := map[*ssa.Function]reach{}
		for f, ls := range takes {
			for _, l2 := range ls {
				if l2.owner == id.owner && l2.field == id.field && !(id.held == "RLock" && l2.kind == "RLock") {
					m[f] = reach{nil, l2.kind}
				}
			}
		}
		// backward closure over the callee relation
		callers := map[*ssa.Function][]*ssa.Function{}
		for f, cs := range calleesOf {
			for _, g := range cs {
				callers[g] = append(callers[g], f)
			}
		}
		var work []*ssa.Function
		for f := range m {
			work = append(work, f)
		}
		sort.Slice(work, func(i, j int) bool { return work[i].String() < work[j].String() })
		for len(work) > 0 {
			g := work[0]
			work = work[1:]
			cs := callers[g]
			sort.Slice(cs, func(i, j int) bool { return cs[i].String() < cs[j].String() })
			for _, f := range cs {
				if _, ok := m[f]; !ok {
					m[f] = reach{g, m[g].kind}
					work = append(work, f)
				}
			}
		}
		memo[id] = m
		return m
	}
	seq := map[string]int{}
	for _, f := range all {
		eachInstr(f, func(in ssa.Instruction) {
			l := mutexOpOf(in)
			if l == nil || (l.kind != "Lock" && l.kind != "RLock") || !ownerMatches(l.owner) {
				return
			}
			fn := fname(f)
			id := fn + "|" + l.owner + "." + l.field + "." + l.kind
			seq[id]++
			key := fmt.Sprintf("%s|%s#%d", rid, id, seq[id])
			inst := fmt.Sprintf("nothing called synchronously while %s.%s is held (%s) locks it again", l.owner, l.field, l.kind)
			// the critical section
			var calls []*ssa.Call
			seenB := map[*ssa.BasicBlock]bool{}
			work := []Point{{in.Block(), indexIn(in) + 1}}
			for len(work) > 0 {
				w := work[len(work)-1]
				work = work[:len(work)-1]
				if w.I == 0 {
					if seenB[w.B] {
						continue
					}
					seenB[w.B] = true
				}
				stopped := false
				for k := w.I; k < len(w.B.Instrs); k++ {
					x := w.B.Instrs[k]
					if u := mutexOpOf(x); u != nil && !u.deferred && (u.kind == "Unlock" || u.kind == "RUnlock") && u.owner == l.owner && u.field == l.field {
						stopped = true
						break
					}
					if c, ok := x.(*ssa.Call); ok {
						calls = append(calls, c)
					}
				}
				if !stopped {
					for _, s := range w.B.Succs {
						work = append(work, Point{s, 0})
					}
				}
			}
			rs := reachers(lockID{l.owner, l.field, l.kind})
			hit := ""
			for _, c := range calls {
				for _, g := range callees(c) {
					if r0, ok := rs[g]; ok {
						path := []string{fname(g)}
						for x := r0; x.next != nil && len(path) < 16; x = rs[x.next] {
							path = append(path, fname(x.next))
						}
						hit = strings.Join(path, " -> ") + " takes " + r0.kind
						break
					}
				}
				if hit != "" {
					break
				}
			}
			if hit != "" {
				r.Bad(rule, key, fn, p.Pos(in.Pos()), inst, "self-deadlock: "+hit+" (the goroutine waits for the lock it holds)")
			} else {
				r.OK(rule, key, fn, p.Pos(in.Pos()), inst, fmt.Sprintf("%d call(s) in the critical section, none reaches a function that locks it again (%d such functions in the program)", len(calls), len(rs)))
			}
		})
	}
}
