package rules

import (
	"fmt"
	"go/constant"
	"go/token"
	"go/types"
	"strings"

	"golang.org/x/tools/go/ssa"

	"verif/internal/core"
	"verif/internal/load"
)

func init() {
	Registry["C05"] = Set{
		Explanation: "Decides the structural clauses of 'terminates once, with the right reason, finally': T1 every teardown site (unregisterProcess, ProcessTerminate, meta Terminate) is reached only by the single finaliser elected by swap->Terminated with the old value tested, and an outsider finalises only when no runner can exist (typestate + enum value sets, shared with C01.P5); T2 at each teardown site the reason handed to the registry/links and to the terminate callback have the same origin and that origin is the cause (ProcessRun's result, TerminateReasonPanic in recover handlers, TerminateReasonKill on the kill paths); T3 Terminated is absorbing: no CAS expects Terminated/Zombee, a swap that may overwrite Terminated restores it; T4 every MessageExit* arm of the behaviours that return the reason directly (Actor, Pool, WebWorker) returns an error wrapping that message's Reason (ErrNoConnection for node exits) or, when trapping, re-dispatches as a regular message — for MessageExitPID if and only if the sender is not the parent (no further test on the not-parent edge); T5 every ProcessInit/ProcessRun implementation and the runner install a deferred recover that yields TerminateReasonPanic. Added while probing: T2 for the meta handler the reason's origin set must be exactly {HandleMessage result, HandleCall result, the exit message's reason} (plus the recover constant); T6 after a handler callback no further handler callback is reachable without consulting the state word (a terminated process handles nothing more); T7 unregisterProcess/unregisterSpawnName hand their reason parameter to every fan-out they start. T1h when the runner's release CAS fails (the word was taken over by Kill or by the meta start goroutine, which by T1 did not tear down a live runner) every path to the end of the runner passes a teardown or the lost-election edge of a swap: a handed-over termination is finished. T2 follows the reason through the reason-forwarding methods of the meta process (finalize, terminated) and the hand-over field: the mailbox goroutine's own teardown names {HandleMessage, HandleCall results, exit message reason}, the handed-over one {Start result, normal when nil, panic}, recover handlers panic. T8 every delivered MessageExitPID{PID: x} is sent in the name of x (ordinary termination, failed start, node down): the only sender an actor never traps is its parent, and the core is the parent of everything the node starts itself. T9 in every supervisor strategy the reason put into the action while the shutdown flag is set is read from the shutdownReason field (the cause recorded when the shutdown began), not from the child that happened to terminate last.",
		NotDecided: []string{
			"that nothing of the process runs afterwards in goroutines the user started",
			"the supervisor's own exit handling (its state machines; see C08)",
			"which of several racing causes wins",
		},
		Assumptions: []string{"sync/atomic operations are sequentially consistent", "fmt.Errorf with %w wraps its operand"},
		Run:         runC05,
	}
}

func runC05(p *load.Program, r *core.Report) {
	a, problems := getAnchors(p)
	for _, pr := range problems {
		r.Unk("C05.anchors", "C05.anchors|"+pr, "", "", "anchors resolve", pr)
	}
	if len(problems) > 0 {
		return
	}
	tmp := core.NewReport("C05")
	checkWord(a, tmp, "C05p", procWordSpec(a), a.ProcLoop, a.ProcWake, procClassify(a))
	checkWord(a, tmp, "C05m", metaWordSpec(a), a.MetaLoop, a.MetaWake, metaClassify(a))
	copyRules(tmp, r, map[string]string{"P5": "T1", "T3": "T3", "P5h": "T1h"})
	r.Floor("C05p.T1", 8)
	r.Floor("C05m.T1", 5)
	r.Floor("C05p.T3", 6)
	r.Floor("C05m.T3", 3)
	r.Floor("C05p.T1h", 1)
	r.Floor("C05m.T1h", 1)
	c05Reasons(a, r)
	c05ReasonForwarded(a, r)
	c05ExitArms(a, r)
	c05Panic(a, r)
	c05Recheck(a, r)
	c05ExitSender(a, r)
	c05ShutdownReason(a.P, r)
}

// c05Recheck: T6 — between two handler callbacks of one runner the state word is consulted, so a
// process/meta process that was terminated or killed meanwhile handles nothing further.
func c05Recheck(a *Anchors, r *core.Report) {
	rule := "C05.T6 state-recheck-between-callbacks"
	r.Floor(rule, 5)
	procB := ifaceOf(a.P, "gen", "ProcessBehavior")
	type target struct {
		f       *ssa.Function
		handler func(ssa.Instruction) bool
		check   func(ssa.Instruction) bool
		what    string
	}
	var ts []target
	// meta handler: callbacks of MetaBehavior; check = any read-modify-write or load of the meta state word
	if a.MetaLoop != nil {
		mc := metaClassify(a)
		ws := metaWordSpec(a)
		opsAt := map[ssa.Instruction]bool{}
		for _, op := range stateOps(a.P, ws.owner, ws.field) {
			if op.Kind == "load" || op.Kind == "cas" {
				opsAt[op.In] = true
			}
		}
		ts = append(ts, target{a.MetaLoop, func(in ssa.Instruction) bool { cb := mc(in); return cb != nil && cb.kind == "run" }, func(in ssa.Instruction) bool { return opsAt[in] }, "meta handler"})
	}
	// behaviour loops: handler = invoke on the behaviour interface (a field of the receiver) whose name starts with Handle; check = call of State()
	for _, f := range funcsOfPkgs(a.P, "act") {
		if f.Parent() != nil || f.Name() != "ProcessRun" || f.Signature.Recv() == nil || !types.Implements(f.Signature.Recv().Type(), procB) {
			continue
		}
		ts = append(ts, target{f, func(in ssa.Instruction) bool {
			cc := callCommon(in)
			return cc != nil && cc.IsInvoke() && strings.HasPrefix(cc.Method.Name(), "Handle") && cc.Method.Name() != "HandleLog"
		}, func(in ssa.Instruction) bool {
			cc := callCommon(in)
			if cc == nil {
				return false
			}
			if cc.IsInvoke() {
				return cc.Method.Name() == "State"
			}
			sf := staticCallee(cc)
			return sf != nil && sf.Name() == "State"
		}, "behaviour loop"})
	}
	for _, t := range ts {
		fn := fname(t.f)
		key := "C05.T6|" + fn
		inst := t.what + ": after a handler callback no further handler callback is reachable without consulting the state word"
		var bad []string
		n := 0
		eachInstr(t.f, func(in ssa.Instruction) {
			if !t.handler(in) {
				return
			}
			n++
			if h := reaches([]Point{after(in)}, t.check, t.handler); h != nil {
				bad = append(bad, a.P.Pos(in.Pos())+" -> "+a.P.Pos(h.Pos()))
			}
		})
		if n == 0 {
			r.Unk(rule, key, fn, a.P.Pos(t.f.Pos()), inst, "no handler callbacks found")
			continue
		}
		if len(bad) > 0 {
			r.Bad(rule, key, fn, a.P.Pos(t.f.Pos()), inst, "handler-to-handler path without a state check: "+strings.Join(uniq(bad), "; ")+" — queued messages are still handled after the process was terminated or killed")
		} else {
			r.OK(rule, key, fn, a.P.Pos(t.f.Pos()), inst, fmt.Sprintf("%d handler call sites", n))
		}
	}
}

// origin classifies where an error value comes from.
func reasonOrigin(v ssa.Value, depth int) string {
	if depth > 8 {
		return "?"
	}
	switch x := v.(type) {
	case *ssa.UnOp:
		if x.Op == token.MUL {
			if g, ok := x.X.(*ssa.Global); ok {
				return "global:" + g.Name()
			}
			if fa, ok := x.X.(*ssa.FieldAddr); ok {
				_, fl := fieldOwner(fa)
				return "field:" + fl
			}
			if cell, ok := canonCell(x.X).(*ssa.Alloc); ok {
				// a store to the cell earlier in the same block decides (flow-sensitive within the block)
				b := x.Block()
				for i := indexIn(x) - 1; i >= 0; i-- {
					if st, ok := b.Instrs[i].(*ssa.Store); ok && canonCell(st.Addr) == ssa.Value(cell) {
						return reasonOrigin(st.Val, depth+1)
					}
				}
				// local cell (possibly captured): union of all stores in the function family
				set := map[string]bool{}
				collectCellStores(cell, set, depth)
				return joinSet(set)
			}
		}
	case *ssa.Phi:
		set := map[string]bool{}
		for _, e := range x.Edges {
			set[reasonOrigin(e, depth+1)] = true
		}
		return joinSet(set)
	case *ssa.Call:
		cc := x.Common()
		if cc.IsInvoke() {
			return "call:" + cc.Method.Name()
		}
		if sf := staticCallee(cc); sf != nil {
			if sf.Pkg != nil && sf.Pkg.Pkg.Path() == "errors" && sf.Name() == "Unwrap" {
				return reasonOrigin(cc.Args[0], depth+1)
			}
			return "call:" + sf.Name()
		}
	case *ssa.Const:
		if x.Value == nil {
			return "nil"
		}
	case *ssa.Extract:
		return reasonOrigin(x.Tuple, depth+1)
	case *ssa.TypeAssert:
		return reasonOrigin(x.X, depth+1)
	case *ssa.Parameter:
		return "param:" + x.Name()
	case *ssa.MakeInterface:
		return reasonOrigin(x.X, depth+1)
	}
	return "?"
}

func collectCellStores(cell *ssa.Alloc, set map[string]bool, depth int) {
	fn := root(cell.Parent())
	for _, g := range family(fn) {
		eachInstr(g, func(in ssa.Instruction) {
			st, ok := in.(*ssa.Store)
			if !ok {
				return
			}
			if canonCell(st.Addr) == ssa.Value(cell) {
				set[reasonOrigin(st.Val, depth+1)] = true
			}
		})
	}
}

func joinSet(set map[string]bool) string {
	delete(set, "nil")
	var ks []string
	for k := range set {
		ks = append(ks, k)
	}
	if len(ks) == 1 {
		return ks[0]
	}
	sortStrings(ks)
	return strings.Join(ks, "+")
}

func sortStrings(s []string) {
	for i := 1; i < len(s); i++ {
		for j := i; j > 0 && s[j] < s[j-1]; j-- {
			s[j], s[j-1] = s[j-1], s[j]
		}
	}
}

// c05Reasons: T2
func c05Reasons(a *Anchors, r *core.Report) {
	rule := "C05.T2 reason-agreement"
	r.Floor(rule, 13)
	pc := procClassify(a)
	mc := metaClassify(a)
	type site struct {
		in   ssa.Instruction
		name string
		arg  ssa.Value
	}
	isRecoverClosure := func(f *ssa.Function) bool {
		rec := false
		eachInstr(f, func(in ssa.Instruction) {
			if cc := callCommon(in); cc != nil {
				if b, ok := cc.Value.(*ssa.Builtin); ok && b.Name() == "recover" {
					rec = true
				}
			}
		})
		return rec
	}
	for _, f := range a.P.SrcFuncs {
		var sites []site
		eachInstr(f, func(in ssa.Instruction) {
			cb := pc(in)
			if cb == nil {
				cb = mc(in)
			}
			if cb == nil || cb.kind != "term" {
				// meta: RouteTerminateAlias(m.id, reason) is the registry half of the teardown
				cc := callCommon(in)
				if cc != nil {
					if sf := staticCallee(cc); sf != nil && recvIs(sf, a.NodeT) && sf.Name() == "RouteTerminateAlias" && recvIs(root(f), a.MetaT) {
						sites = append(sites, site{in, "RouteTerminateAlias", cc.Args[len(cc.Args)-1]})
					}
				}
				return
			}
			cc := callCommon(in)
			sites = append(sites, site{in, cb.name, cc.Args[len(cc.Args)-1]})
		})
		if len(sites) == 0 {
			continue
		}
		fn := fname(f)
		// group by block region: sites that share a dominating chain (same teardown sequence):
		// consecutive sites where the first dominates the next
		used := map[int]bool{}
		grp := 0
		for i := range sites {
			if used[i] {
				continue
			}
			group := []site{sites[i]}
			used[i] = true
			for j := i + 1; j < len(sites); j++ {
				if !used[j] && instrDominates(sites[i].in, sites[j].in) && sites[j].in.Block() == sites[i].in.Block() {
					group = append(group, sites[j])
					used[j] = true
				}
			}
			grp++
			var origins []string
			for _, s := range group {
				origins = append(origins, s.name+"("+reasonOrigin(s.arg, 0)+")")
			}
			key := fmt.Sprintf("C05.T2|%s|teardown#%d", fn, grp)
			pos := a.P.Pos(group[0].in.Pos())
			inst := "the reason given to the registry/links and to the terminate callback agree and name the cause"
			first := reasonOrigin(group[0].arg, 0)
			same := true
			for _, s := range group[1:] {
				if reasonOrigin(s.arg, 0) != first {
					same = false
				}
			}
			want := ""
			switch {
			case isRecoverClosure(f):
				want = "global:TerminateReasonPanic"
			case f == a.ProcLoop:
				// either ProcessRun's result or Kill after failed release
				if first != "call:ProcessRun" && first != "global:TerminateReasonKill" {
					want = "call:ProcessRun or global:TerminateReasonKill"
				} else if first == "call:ProcessRun" {
					// dominated by the non-nil edge of the ProcessRun result
				}
			case root(f).Name() == "Kill" || (f.Parent() != nil && root(f).Name() == "Kill"):
				want = "global:TerminateReasonKill"
			}
			// meta handler: the reason is what a handler returned or the reason carried by the exit
			// message (the recover closure's constant shares the variable); nothing else
			metaProblem := ""
			if f == a.MetaLoop {
				have := map[string]bool{}
				for _, o := range strings.Split(first, "+") {
					have[o] = true
				}
				for _, need := range []string{"call:HandleMessage", "call:HandleCall", "field:Message"} {
					if !have[need] {
						metaProblem += "origin " + need + " is missing; "
					}
					delete(have, need)
				}
				delete(have, "global:TerminateReasonPanic")
				for o := range have {
					metaProblem += "unexpected origin " + o + "; "
				}
			}
			switch {
			case !same:
				r.Bad(rule, key, fn, pos, inst, "different origins: "+strings.Join(origins, ", ")+" — observers and the callback would see different reasons")
			case want != "" && !strings.Contains(want, first):
				r.Bad(rule, key, fn, pos, inst, "reason is "+first+", expected "+want+" on this path")
			case metaProblem != "":
				r.Bad(rule, key, fn, pos, inst, "meta handler teardown: "+metaProblem+"the reason must be a handler's result or the reason of the exit message")
			case strings.Contains(first, "?"):
				r.Unk(rule, key, fn, pos, inst, "cannot determine the origin of the reason: "+strings.Join(origins, ", "))
			default:
				r.OK(rule, key, fn, pos, inst, strings.Join(origins, ", "))
			}
		}
	}
	// process: unregisterProcess and ProcessTerminate in Kill are in different functions (closure) — checked above separately with want=Kill.

	// meta: teardown reached through reason-forwarding methods (finalize(reason), terminated(reason)):
	// the forwarders hand their parameter on unchanged (their own sites are judged above: origin
	// param), every call from outside the chain is a teardown site whose argument must name the cause.
	fwd := map[*ssa.Function]*ssa.Parameter{}
	isTeardownArg := func(f *ssa.Function, par *ssa.Parameter) bool {
		found := false
		eachInstr(f, func(in ssa.Instruction) {
			cc := callCommon(in)
			if cc == nil || len(cc.Args) == 0 {
				return
			}
			last := cc.Args[len(cc.Args)-1]
			if last != ssa.Value(par) {
				return
			}
			if cb := mc(in); cb != nil && cb.kind == "term" {
				found = true
			}
			if sf := staticCallee(cc); sf != nil && fwd[sf] != nil {
				found = true
			}
		})
		return found
	}
	for changed := true; changed; {
		changed = false
		for _, f := range a.P.SrcFuncs {
			if f.Parent() != nil || !recvIs(f, a.MetaT) || fwd[f] != nil {
				continue
			}
			par := paramOfType(f, "error", 0)
			if par == nil {
				continue
			}
			if isTeardownArg(f, par) {
				fwd[f] = par
				changed = true
			}
		}
	}
	// origins of a meta field that carries a reason across goroutines (the hand-over cell)
	var deep func(o string, depth int) map[string]bool
	paramOrigins := func(f *ssa.Function, par *ssa.Parameter, depth int) map[string]bool {
		out := map[string]bool{}
		idx := -1
		for i, q := range f.Params {
			if q == par {
				idx = i
			}
		}
		for _, g := range a.P.SrcFuncs {
			eachInstr(g, func(in ssa.Instruction) {
				cc := callCommon(in)
				if cc == nil || staticCallee(cc) != f || idx < 0 || idx >= len(cc.Args) {
					return
				}
				for o := range deep(reasonOrigin(cc.Args[idx], 0), depth+1) {
					out[o] = true
				}
			})
		}
		return out
	}
	deep = func(o string, depth int) map[string]bool {
		out := map[string]bool{}
		for _, part := range strings.Split(o, "+") {
			switch {
			case depth > 4:
				out["?"] = true
			case strings.HasPrefix(part, "field:") && part != "field:Message":
				fld := strings.TrimPrefix(part, "field:")
				n := 0
				for _, g := range a.P.SrcFuncs {
					eachInstr(g, func(in ssa.Instruction) {
						st, ok := in.(*ssa.Store)
						if !ok {
							return
						}
						if own, fl := fieldOwner(st.Addr); own != a.MetaT || fl != fld {
							return
						}
						n++
						if par, ok := st.Val.(*ssa.Parameter); ok && fwd[g] == par {
							for x := range paramOrigins(g, par, depth) {
								out[x] = true
							}
							return
						}
						for x := range deep(reasonOrigin(st.Val, 0), depth+1) {
							out[x] = true
						}
					})
				}
				if n == 0 {
					out["?"] = true
				}
			default:
				out[part] = true
			}
		}
		return out
	}
	setStr := func(m map[string]bool) string {
		var ks []string
		for k := range m {
			ks = append(ks, k)
		}
		sortStrings(ks)
		return strings.Join(ks, "+")
	}
	seq := map[string]int{}
	for _, f := range a.P.SrcFuncs {
		eachInstr(f, func(in ssa.Instruction) {
			cc := callCommon(in)
			if cc == nil {
				return
			}
			sf := staticCallee(cc)
			if sf == nil || fwd[sf] == nil {
				return
			}
			idx := -1
			for i, q := range sf.Params {
				if q == fwd[sf] {
					idx = i
				}
			}
			arg := cc.Args[idx]
			fn := fname(f)
			seq[fn]++
			key := fmt.Sprintf("C05.T2|%s|%s-call#%d", fn, sf.Name(), seq[fn])
			pos := a.P.Pos(in.Pos())
			inst := "the reason handed to the meta process's teardown (" + sf.Name() + ") names the cause"
			if fwd[f] != nil {
				// inside the chain: the parameter is handed on unchanged
				if arg == ssa.Value(fwd[f]) {
					r.OK(rule, key, fn, pos, inst, "forwards its own reason parameter")
				} else {
					r.Bad(rule, key, fn, pos, inst, "a reason-forwarding method hands on "+reasonOrigin(arg, 0)+" instead of the reason it was given")
				}
				return
			}
			first := reasonOrigin(arg, 0)
			have := deep(first, 0)
			check := func(must []string, may []string) string {
				h := map[string]bool{}
				for k := range have {
					h[k] = true
				}
				problem := ""
				for _, m := range must {
					if !h[m] {
						problem += "origin " + m + " is missing; "
					}
					delete(h, m)
				}
				for _, m := range may {
					delete(h, m)
				}
				for o := range h {
					problem += "unexpected origin " + o + "; "
				}
				return problem
			}
			problem := ""
			startSet := []string{"call:Start"}
			startMay := []string{"global:TerminateReasonNormal", "global:TerminateReasonPanic"}
			// the hand-over site: reached only through the failure edge of the release CAS — the word was
			// taken away by the goroutine that runs Start, the reason is the one that goroutine left
			handover := false
			if f == a.MetaLoop {
				ws := metaWordSpec(a)
				for _, op := range stateOps(a.P, ws.owner, ws.field) {
					if op.Fn == f && op.Kind == "cas" && op.Old == ws.running && op.New == ws.sleep && op.Result != nil {
						if _, fl, c := boolEdges(op.Result); c && edgesDominate(fl, in) {
							handover = true
						}
					}
				}
			}
			switch {
			case handover && !(strings.HasPrefix(first, "field:") && first != "field:Message"):
				problem = "this call finishes a termination that was handed over by the goroutine running Start (it is reached only when the release CAS fails), but it is given " + first + " instead of the reason that goroutine recorded; "
			case have["?"]:
				r.Unk(rule, key, fn, pos, inst, "cannot determine the origin of the reason: "+first)
				return
			case isRecoverClosure(f):
				problem = check([]string{"global:TerminateReasonPanic"}, nil)
			case f == a.MetaLoop && strings.HasPrefix(first, "field:") && first != "field:Message":
				// the hand-over cell: written by the goroutine that runs Start
				problem = check(startSet, startMay)
			case f == a.MetaLoop:
				problem = check([]string{"call:HandleMessage", "call:HandleCall", "field:Message"}, []string{"global:TerminateReasonPanic"})
			default:
				problem = check(startSet, []string{"global:TerminateReasonNormal"})
			}
			if problem != "" {
				r.Bad(rule, key, fn, pos, inst, "reason is "+setStr(have)+": "+problem+"links, monitors and the Terminate callback would be told a reason that is not the cause")
			} else {
				r.OK(rule, key, fn, pos, inst, setStr(have))
			}
		})
	}
	// the hand-over cell is written with the forwarder's parameter only
	for f, par := range fwd {
		eachInstr(f, func(in ssa.Instruction) {
			st, ok := in.(*ssa.Store)
			if !ok {
				return
			}
			own, fl := fieldOwner(st.Addr)
			if own != a.MetaT || st.Val.Type().String() != "error" {
				return
			}
			key := "C05.T2|" + fname(f) + "|handover:" + fl
			inst := "the reason handed over to the mailbox goroutine is the reason the caller gave"
			if st.Val == ssa.Value(par) {
				r.OK(rule, key, fname(f), a.P.Pos(in.Pos()), inst, "stores its reason parameter")
			} else {
				r.Bad(rule, key, fname(f), a.P.Pos(in.Pos()), inst, "stores "+reasonOrigin(st.Val, 0)+" instead of the reason parameter")
			}
		})
	}
}

// c05ReasonForwarded: T7 — the functions that release a process's identities hand the reason they
// were given to every fan-out they start (links, monitors, events, application): the observers'
// reason is the process's reason.
func c05ReasonForwarded(a *Anchors, r *core.Report) {
	rule := "C05.T7 reason-forwarded"
	r.Floor(rule, 6)
	for _, name := range []string{"unregisterProcess", "unregisterSpawnName"} {
		f := a.P.Func("node", a.NodeT.Obj().Name(), name)
		if f == nil {
			r.Unk(rule, "C05.T7|"+name, "", "", name+" found", "not found")
			continue
		}
		par := paramOfType(f, "error", 0)
		if par == nil {
			r.Unk(rule, "C05.T7|"+name, fname(f), a.P.Pos(f.Pos()), name+" has a reason parameter", "no error parameter")
			continue
		}
		seq := map[string]int{}
		for _, g := range family(f) {
			eachInstr(g, func(in ssa.Instruction) {
				cc := callCommon(in)
				if cc == nil {
					return
				}
				cn := calleeName(cc)
				if !strings.HasPrefix(cn, "RouteTerminate") && cn != "terminate" {
					return
				}
				last := cc.Args[len(cc.Args)-1]
				if last.Type().String() != "error" {
					return
				}
				seq[cn]++
				key := fmt.Sprintf("C05.T7|%s|%s#%d", name, cn, seq[cn])
				inst := "the fan-out is given the reason the process terminated with"
				v := last
				if fv, ok := v.(*ssa.FreeVar); ok {
					if b := resolveFreeVar(fv); b != nil {
						v = b
					}
				}
				ok := isParamValue(v, par) || canon(v) == ssa.Value(par)
				if ld, isLd := v.(*ssa.UnOp); isLd && !ok {
					if fv, isFv := ld.X.(*ssa.FreeVar); isFv {
						if b := resolveFreeVar(fv); b != nil {
							if al, isAl := b.(*ssa.Alloc); isAl {
								for _, rf := range *al.Referrers() {
									if st, isSt := rf.(*ssa.Store); isSt && st.Addr == ssa.Value(al) && st.Val == ssa.Value(par) {
										ok = true
									}
								}
							}
						}
					}
				}
				if ok {
					r.OK(rule, key, fname(g), a.P.Pos(in.Pos()), inst, cn+"(…, reason)")
				} else {
					r.Bad(rule, key, fname(g), a.P.Pos(in.Pos()), inst, cn+" is given "+reasonOrigin(last, 0)+" instead of the reason parameter: links and monitors see a different reason than the one the process ended with")
				}
			})
		}
	}
}

// c05ExitArms: T4
func c05ExitArms(a *Anchors, r *core.Report) {
	rule := "C05.T4 exit-arms"
	r.Floor(rule, 15)
	procB := ifaceOf(a.P, "gen", "ProcessBehavior")
	exitTypes := map[string]bool{"MessageExitPID": true, "MessageExitProcessID": true, "MessageExitAlias": true, "MessageExitEvent": true, "MessageExitNode": true}
	typeRegular, _ := constant.Int64Val(constant.MakeInt64(0))
	if n := a.P.Named("gen", "MailboxMessageType"); n != nil {
		for v, name := range enumConsts(n) {
			if name == "MailboxMessageTypeRegular" {
				typeRegular = v
			}
		}
	}
	for _, f := range funcsOfPkgs(a.P, "act") {
		if f.Parent() != nil || f.Name() != "ProcessRun" || f.Signature.Recv() == nil {
			continue
		}
		if !types.Implements(f.Signature.Recv().Type(), procB) {
			continue
		}
		fn := fname(f)
		// does this implementation return reasons directly from exit arms? (the supervisor routes them through its state machine)
		var arms []*ssa.TypeAssert
		eachInstr(f, func(in ssa.Instruction) {
			ta, ok := in.(*ssa.TypeAssert)
			if !ok || !ta.CommaOk {
				return
			}
			n, _ := ta.AssertedType.(*types.Named)
			if n == nil || n.Obj().Pkg() == nil || n.Obj().Pkg().Path() != load.Module+"/gen" || !exitTypes[n.Obj().Name()] {
				return
			}
			arms = append(arms, ta)
		})
		if len(arms) == 0 {
			continue
		}
		// exempt: implementations that hand the exit to a state machine (call childTerminated-like method with the reason)
		if strings.Contains(fn, "Supervisor") {
			continue
		}
		resultCell := namedResultCell(f)
		for _, ta := range arms {
			tn := ta.AssertedType.(*types.Named).Obj().Name()
			key := "C05.T4|" + fn + "|" + tn
			pos := a.P.Pos(ta.Pos())
			inst := "exit signal " + tn + ": untrapped -> terminate with an error wrapping its reason; trapped -> handled as a regular message"
			okv := tupleExtract(ta, 1)
			val := tupleExtract(ta, 0)
			if okv == nil {
				r.Unk(rule, key, fn, pos, inst, "type switch arm without ok value")
				continue
			}
			t, _, c := boolEdges(okv)
			if !c || len(t) == 0 {
				r.Unk(rule, key, fn, pos, inst, "cannot find the arm's entry edge")
				continue
			}
			var starts []Point
			for _, e := range t {
				starts = append(starts, Point{e.To(), 0})
			}
			// the trap re-dispatch: store of Regular into message.Type
			isRetryStore := func(in ssa.Instruction) bool {
				st, ok := in.(*ssa.Store)
				if !ok {
					return false
				}
				if own, fl := fieldOwner(st.Addr); own != nil && own.Obj().Name() == "MailboxMessage" && fl == "Type" {
					if cv, ok := constInt(st.Val); ok && cv == typeRegular {
						return true
					}
				}
				return false
			}
			var probs []string
			retries := walkAvoid(starts, func(in ssa.Instruction) bool { return isReturn(in) }, isRetryStore)
			// returns reachable without the retry store
			rets := walkAvoid(starts, isRetryStore, isReturn)
			if len(rets) == 0 {
				probs = append(probs, "the arm never terminates the process (no return reachable)")
			}
			for _, ret := range rets {
				ev := returnedError(ret.(*ssa.Return), resultCell)
				if msg := wrapsReason(ev, val, tn); msg != "" {
					probs = append(probs, fmt.Sprintf("return at %s: %s", a.P.Pos(ret.Pos()), msg))
				}
			}
			if len(retries) > 0 {
				// trapping: guarded by the trap flag; for ExitPID also by From != Parent()
				for _, rs := range retries {
					if !guardedByField(rs, starts, "trap") {
						probs = append(probs, "re-dispatch as regular message is not guarded by the trap flag")
					}
					if tn == "MessageExitPID" && !guardedByParentTest(rs, starts) {
						probs = append(probs, "a trapped exit from the PARENT is re-dispatched as a regular message: the child would survive its parent's exit")
					}
				}
				if tn == "MessageExitPID" {
					if ok, why := notParentAlwaysTrapped(f, isRetryStore); !ok {
						probs = append(probs, why)
					}
				}
			}
			if len(probs) > 0 {
				r.Bad(rule, key, fn, pos, inst, strings.Join(probs, "; "))
			} else {
				r.OK(rule, key, fn, pos, inst, fmt.Sprintf("%d terminating return(s) wrap the reason, %d trap re-dispatch(es) guarded", len(rets), len(retries)))
			}
		}
	}
}

func namedResultCell(f *ssa.Function) *ssa.Alloc {
	// named result with defer: the Return loads from an Alloc
	var cell *ssa.Alloc
	eachInstr(f, func(in ssa.Instruction) {
		ret, ok := in.(*ssa.Return)
		if !ok || len(ret.Results) == 0 {
			return
		}
		if ld, ok := ret.Results[len(ret.Results)-1].(*ssa.UnOp); ok && ld.Op == token.MUL {
			if al, ok := ld.X.(*ssa.Alloc); ok {
				cell = al
			}
		}
	})
	return cell
}

// returnedError: the error value returned by ret (looking through the named-result cell: the
// last store to it in the same block or in a dominating block).
func returnedError(ret *ssa.Return, cell *ssa.Alloc) ssa.Value {
	v := ret.Results[len(ret.Results)-1]
	if ld, ok := v.(*ssa.UnOp); ok && ld.Op == token.MUL && cell != nil && ld.X == ssa.Value(cell) {
		b := ret.Block()
		for b != nil {
			for i := len(b.Instrs) - 1; i >= 0; i-- {
				if st, ok := b.Instrs[i].(*ssa.Store); ok && st.Addr == ssa.Value(cell) {
					return st.Val
				}
			}
			b = b.Idom()
		}
	}
	return v
}

// wrapsReason: ev must be fmt.Errorf(format with %w, ..., exit.Reason | ErrNoConnection)
func wrapsReason(ev ssa.Value, exit ssa.Value, tn string) string {
	call, ok := ev.(*ssa.Call)
	if !ok || !isPkgFunc(call.Common(), "fmt", "Errorf") {
		return "does not return fmt.Errorf(... %w ...) (origin " + reasonOrigin(ev, 0) + ")"
	}
	cc := call.Common()
	if c, ok := cc.Args[0].(*ssa.Const); !ok || c.Value == nil || !strings.Contains(constant.StringVal(c.Value), "%w") {
		return "format string does not wrap (%w) the reason: errors.Unwrap would lose the cause"
	}
	// variadic slice elements
	found := false
	if sl, ok := cc.Args[1].(*ssa.Slice); ok {
		if al, ok := sl.X.(*ssa.Alloc); ok {
			for _, rf := range *al.Referrers() {
				ia, ok := rf.(*ssa.IndexAddr)
				if !ok {
					continue
				}
				for _, rr := range *ia.Referrers() {
					st, ok := rr.(*ssa.Store)
					if !ok {
						continue
					}
					v := st.Val
					if mi, ok := v.(*ssa.MakeInterface); ok {
						v = mi.X
					}
					if ci, ok := v.(*ssa.ChangeInterface); ok {
						v = ci.X
					}
					if tn == "MessageExitNode" {
						if ld, ok := v.(*ssa.UnOp); ok {
							if g, ok := ld.X.(*ssa.Global); ok && g.Name() == "ErrNoConnection" {
								found = true
							}
						}
					} else if fld, ok := v.(*ssa.Field); ok && fld.X == exit {
						st2, _ := fld.X.Type().Underlying().(*types.Struct)
						if st2 != nil && st2.Field(fld.Field).Name() == "Reason" {
							found = true
						}
					} else if ld, ok := v.(*ssa.UnOp); ok && ld.Op == token.MUL {
						// exit was spilled to a local: load of &local.Reason where local's only store is the asserted value
						if fa, ok := ld.X.(*ssa.FieldAddr); ok {
							if _, fl := fieldOwner(fa); fl == "Reason" {
								if singleStore(fa.X) == exit {
									found = true
								}
							}
						}
					}
				}
			}
		}
	}
	if !found {
		if tn == "MessageExitNode" {
			return "the wrapped error is not gen.ErrNoConnection"
		}
		return "the wrapped error is not the Reason of this exit message"
	}
	return ""
}

// guardedByField: every path from starts to `at` passes the true edge of a test of a bool
// field named fld of the receiver.
func guardedByField(at ssa.Instruction, starts []Point, fld string) bool {
	f := at.Parent()
	cut := map[Edge]bool{}
	eachInstr(f, func(in ssa.Instruction) {
		iff, ok := in.(*ssa.If)
		if !ok {
			return
		}
		// direct `if a.trap`, or phi of short-circuit a.trap && ...
		markField(iff.Cond, iff, fld, cut, 0)
	})
	if len(cut) == 0 {
		return false
	}
	return reachAvoidEdges(starts, cut, nil, func(in ssa.Instruction) bool { return in == at }) == nil
}

func markField(cond ssa.Value, iff *ssa.If, fld string, cut map[Edge]bool, depth int) {
	if depth > 3 {
		return
	}
	switch c := cond.(type) {
	case *ssa.UnOp:
		if c.Op == token.MUL {
			if _, path, ok := fieldPath(c); ok && len(path) > 0 && path[len(path)-1] == fld {
				cut[Edge{iff.Block(), 0}] = true
			}
		}
	case *ssa.BinOp:
		if c.Op == token.EQL || c.Op == token.NEQ {
			for _, pair := range [][2]ssa.Value{{c.X, c.Y}, {c.Y, c.X}} {
				if _, path, ok := fieldPath(pair[0]); ok && len(path) > 0 && path[len(path)-1] == fld {
					if b, ok := constBool(pair[1]); ok {
						idx := 0
						if (c.Op == token.EQL) != b {
							idx = 1
						}
						cut[Edge{iff.Block(), idx}] = true
					}
				}
			}
		}
	}
}

// guardedByParentTest: every path from starts to `at` passes the true edge of From != Parent().
func guardedByParentTest(at ssa.Instruction, starts []Point) bool {
	f := at.Parent()
	cut := map[Edge]bool{}
	eachInstr(f, func(in ssa.Instruction) {
		iff, ok := in.(*ssa.If)
		if !ok {
			return
		}
		b, ok := iff.Cond.(*ssa.BinOp)
		if !ok || (b.Op != token.NEQ && b.Op != token.EQL) {
			return
		}
		isFrom := func(v ssa.Value) bool {
			_, path, ok := fieldPath(v)
			return ok && len(path) > 0 && path[len(path)-1] == "From"
		}
		isParent := func(v ssa.Value) bool {
			c, ok := v.(*ssa.Call)
			if !ok {
				return false
			}
			cc := c.Common()
			if cc.IsInvoke() {
				return cc.Method.Name() == "Parent"
			}
			if sf := staticCallee(cc); sf != nil {
				return sf.Name() == "Parent"
			}
			return false
		}
		if (isFrom(b.X) && isParent(b.Y)) || (isFrom(b.Y) && isParent(b.X)) {
			idx := 0
			if b.Op == token.EQL {
				idx = 1
			}
			cut[Edge{iff.Block(), idx}] = true
		}
	})
	if len(cut) == 0 {
		return false
	}
	return reachAvoidEdges(starts, cut, nil, func(in ssa.Instruction) bool { return in == at }) == nil
}

// notParentAlwaysTrapped: the edge on which the sender is NOT the parent leads to the re-dispatch
// without any further test: no terminating return is reachable from it before the retry store.
// (The trap flag is tested before the sender; a third condition — "nor the leader" — would let an
// exit signal of a non-parent terminate a process that traps exits.)
func notParentAlwaysTrapped(f *ssa.Function, isRetryStore func(ssa.Instruction) bool) (bool, string) {
	var starts []Point
	eachInstr(f, func(in ssa.Instruction) {
		iff, ok := in.(*ssa.If)
		if !ok {
			return
		}
		b, ok := iff.Cond.(*ssa.BinOp)
		if !ok || (b.Op != token.NEQ && b.Op != token.EQL) {
			return
		}
		isFrom := func(v ssa.Value) bool {
			_, path, ok := fieldPath(v)
			return ok && len(path) > 0 && path[len(path)-1] == "From"
		}
		isParent := func(v ssa.Value) bool {
			c, ok := v.(*ssa.Call)
			if !ok {
				return false
			}
			cc := c.Common()
			if cc.IsInvoke() {
				return cc.Method.Name() == "Parent"
			}
			if sf := staticCallee(cc); sf != nil {
				return sf.Name() == "Parent"
			}
			return false
		}
		if (isFrom(b.X) && isParent(b.Y)) || (isFrom(b.Y) && isParent(b.X)) {
			idx := 0
			if b.Op == token.EQL {
				idx = 1
			}
			starts = append(starts, Point{iff.Block().Succs[idx], 0})
		}
	})
	if len(starts) == 0 {
		return true, ""
	}
	if h := reaches(starts, isRetryStore, func(in ssa.Instruction) bool {
		_, isIf := in.(*ssa.If)
		return isIf || isReturn(in)
	}); h != nil {
		return false, "on the edge where the sender is not the parent another test (or a terminating return) comes before the re-dispatch: a process that traps exits is terminated by the exit signal of a process that is not its parent"
	}
	return true, ""
}

// c05Panic: T5
func c05Panic(a *Anchors, r *core.Report) {
	rule := "C05.T5 panic=>reason"
	r.Floor(rule, 11)
	procB := ifaceOf(a.P, "gen", "ProcessBehavior")
	var targets []*ssa.Function
	for _, f := range funcsOfPkgs(a.P, "act") {
		if f.Parent() != nil || f.Signature.Recv() == nil {
			continue
		}
		if (f.Name() == "ProcessRun" || f.Name() == "ProcessInit") && types.Implements(f.Signature.Recv().Type(), procB) {
			targets = append(targets, f)
		}
	}
	for _, f := range funcsOfPkgs(a.P, "node") {
		if f.Parent() == nil && recvIs(f, a.MetaT) {
			// the function that invokes MetaBehavior.Init
			hasInit := false
			eachInstr(f, func(in ssa.Instruction) {
				if cb := metaClassify(a)(in); cb != nil && cb.kind == "init" {
					hasInit = true
				}
			})
			if hasInit {
				targets = append(targets, f)
			}
		}
	}
	for _, f := range targets {
		fn := fname(f)
		key := "C05.T5|" + fn
		inst := "a panic in the callback is recovered and turned into TerminateReasonPanic"
		ok := false
		guarded := false
		eachInstr(f, func(in ssa.Instruction) {
			d, isD := in.(*ssa.Defer)
			if !isD {
				return
			}
			mc, isMC := d.Call.Value.(*ssa.MakeClosure)
			if !isMC {
				return
			}
			cl := mc.Fn.(*ssa.Function)
			rec := false
			storesResult, usesPanic := false, false
			eachInstr(cl, func(in2 ssa.Instruction) {
				if cc := callCommon(in2); cc != nil {
					if b, isB := cc.Value.(*ssa.Builtin); isB && b.Name() == "recover" {
						rec = true
					}
				}
				if st, isSt := in2.(*ssa.Store); isSt {
					if _, isFV := st.Addr.(*ssa.FreeVar); isFV {
						storesResult = true
					}
				}
				if ld, isLd := in2.(*ssa.UnOp); isLd && ld.Op == token.MUL {
					if g, isG := ld.X.(*ssa.Global); isG && g.Name() == "TerminateReasonPanic" {
						usesPanic = true
					}
				}
			})
			if rec && storesResult && usesPanic {
				ok = true
				// the defer must dominate every callback invocation in f
				_ = guarded
			}
		})
		if ok {
			r.OK(rule, key, fn, a.P.Pos(f.Pos()), inst, "deferred recover stores TerminateReasonPanic into the named result")
		} else {
			r.Bad(rule, key, fn, a.P.Pos(f.Pos()), inst, "no deferred recover that sets the result to TerminateReasonPanic: a panicking handler would terminate with another reason (or crash the node)")
		}
	}
	// the runners: recover handler present (its reasons are checked by T2)
	for _, lp := range []*ssa.Function{a.ProcLoop, a.MetaLoop} {
		if lp == nil {
			continue
		}
		fn := fname(lp)
		key := "C05.T5|" + fn
		has := false
		eachInstr(lp, func(in ssa.Instruction) {
			if d, ok := in.(*ssa.Defer); ok {
				if mc, ok := d.Call.Value.(*ssa.MakeClosure); ok {
					eachInstr(mc.Fn.(*ssa.Function), func(in2 ssa.Instruction) {
						if cc := callCommon(in2); cc != nil {
							if b, ok := cc.Value.(*ssa.Builtin); ok && b.Name() == "recover" {
								has = true
							}
						}
					})
				}
			}
		})
		if has {
			r.OK(rule, key, fn, a.P.Pos(lp.Pos()), "the runner goroutine recovers panics of callbacks", "deferred recover handler present (its teardown is checked by T1/T2)")
		} else {
			r.Bad(rule, key, fn, a.P.Pos(lp.Pos()), "the runner goroutine recovers panics of callbacks", "no deferred recover in the runner goroutine")
		}
	}
}

// c05ExitSender: T8 — an actor exempts exactly one sender from exit trapping: its parent. The exit
// signal that reports "the process you are linked with is gone" (gen.MessageExitPID) therefore
// carries that process as its sender, at every site that delivers one — the ordinary termination,
// the failed start and the loss of the connection. Sent in the core's name it is taken for the
// parent's by every process the node started itself, and a trapping process is terminated.
func c05ExitSender(a *Anchors, r *core.Report) {
	rule := "C05.T8 exit-signal-names-the-gone-process-as-sender"
	r.Floor(rule, 3)
	// the PID stored into a MessageExitPID value
	exitPidOf := func(v ssa.Value) ssa.Value {
		v = stripIface(v)
		// composite literal: local alloc with field stores, loaded
		if ld, ok := v.(*ssa.UnOp); ok && ld.Op == token.MUL {
			v = ld.X
		}
		al, ok := v.(*ssa.Alloc)
		if !ok {
			return nil
		}
		if n := namedOf(al.Type().(*types.Pointer).Elem()); n != "gen.MessageExitPID" {
			return nil
		}
		var pid ssa.Value
		for _, rf := range *al.Referrers() {
			if fa, ok := rf.(*ssa.FieldAddr); ok {
				if _, fl := fieldOwner(fa); fl == "PID" {
					for _, r2 := range *fa.Referrers() {
						if st, ok := r2.(*ssa.Store); ok {
							pid = st.Val
						}
					}
				}
			}
		}
		return pid
	}
	same := func(x, y ssa.Value) bool {
		if x == y || canon(x) == canon(y) || resolveLocalCopy(x) == resolveLocalCopy(y) {
			return true
		}
		bx, px, okx := fieldPath(x)
		by, py, oky := fieldPath(y)
		return okx && oky && canon(bx) == canon(by) && strings.Join(px, ".") == strings.Join(py, ".")
	}
	seq := map[string]int{}
	for _, f := range funcsOfPkgs(a.P, "node") {
		eachInstr(f, func(in ssa.Instruction) {
			cc := callCommon(in)
			if cc == nil || !callsNamed(in, "sendExitMessage") {
				return
			}
			args := cc.Args
			if len(args) < 4 {
				return
			}
			from, msg := args[1], args[3]
			// collect (message, from) pairs: directly, or per incoming edge of aligned phis
			type pair struct{ m, f ssa.Value }
			var pairs []pair
			if mph, ok := msg.(*ssa.Phi); ok {
				fph, _ := from.(*ssa.Phi)
				for i, e := range mph.Edges {
					fv := from
					if fph != nil && fph.Block() == mph.Block() {
						fv = fph.Edges[i]
					}
					pairs = append(pairs, pair{e, fv})
				}
			} else {
				pairs = append(pairs, pair{msg, from})
			}
			n := 0
			var bad []string
			for _, pr := range pairs {
				pid := exitPidOf(pr.m)
				if pid == nil {
					continue
				}
				n++
				if !same(pid, pr.f) {
					bad = append(bad, "MessageExitPID{PID: x} is sent with a sender other than x")
				}
			}
			if n == 0 {
				return
			}
			fn := fname(f)
			seq[fn]++
			key := fmt.Sprintf("C05.T8|%s|exit#%d", fn, seq[fn])
			inst := "the exit signal for a linked process that is gone is sent in that process's name"
			if len(bad) > 0 {
				r.Bad(rule, key, fn, a.P.Pos(in.Pos()), inst, bad[0]+": a process started by the node itself has the core as its parent and does not trap 'its parent's' exit — a trapping process linked to a remote one is terminated when the connection drops")
			} else {
				r.OK(rule, key, fn, a.P.Pos(in.Pos()), inst, "sender == MessageExitPID.PID")
			}
		})
	}
}
