package rules

import (
	"fmt"
	"go/token"
	"go/types"
	"sort"
	"strings"

	"golang.org/x/tools/go/ssa"

	"verif/internal/core"
	"verif/internal/load"
)

func init() {
	Registry["C04"] = Set{
		Explanation: "Decides structural clauses of link/monitor notification: L1 each of the 8 local branches of RouteLink*/RouteMonitor* consults the identity table of the target's kind (PID->processes, ProcessID->names, Alias->aliases, Event->events), returns an error on the not-found edge before any relation is added, and link functions add links / monitor functions add monitors with the function's own target; L2 every removal of an identity that can be linked or monitored is followed by the RouteTerminate* of the same kind (process release, UnregisterName, DeleteAlias, unregisterEvent, the meta termination sites, failed spawn); L3 the existence check and the relation insert are ordered or atomic against the terminator's delete-then-drain (today all 8 sites check, then insert, without re-validation: open known finding F-F); L4 each RouteTerminate* drains with exactly one CleanupTarget and sends exactly one exit per link consumer and one High-priority down per monitor consumer, each carrying the function's target and reason; remote consumers' nodes get one Terminate frame; L5 RouteUnlink*/RouteDemonitor* call the matching Remove*; L7 in the default target manager every insert/delete on the relation set is paired on every path with the matching change of the per-target index, under the write lock. Added while probing: L2c the per-process alias list the drain walks is maintained by remove-by-swap correctly; L4 also requires that the exit/down loops walk the whole consumer lists CleanupTarget returned (first result: links, second: monitors); L6 LinkChild on every spawn form adds the parent->child link after the child exists; L7 additionally: an index entry is deleted only when its list is empty; L8 the helper that delivers exits builds a mailbox message of type Exit. L9 no critical section of the default target manager's lock calls anything that takes that lock again (lock re-entrancy through the call graph). L10 lock pairing — in every function that touches the target manager's lock a forward data flow over (held read/write, unlock deferred) shows: no return while the lock is held without a deferred unlock, no unlock (explicit or deferred) of a lock that is not held or of the other kind, no second lock (a leaked lock blocks every later link/monitor/termination for ever, an unlock of an unlocked mutex is a fatal error that takes the node down). L11 every method of the default target manager that changes the relation set takes the write lock exactly once, never the read lock, and touches the maps only inside that one critical section (what a Cleanup* returns is exactly what it removed). L2c also anchors on the cut itself: a field slice cut by its first element must have saved that element into the removed slot, cut by its last one after a swap with it or a shift of the tail. L6 for local starts the parent->child link is made by spawn, under LinkChild, before the child is entered into the process table; the spawn forms hand their options through. L6p the remote spawn forms record, under LinkParent and after a successful RouteSpawn, the mirror relation (remote child -> this process) on the parent's node, which is the node that reports the parent's termination. L12 a link/monitor request on a remote target records the relation BEFORE the request goes to the peer (the add call dominates the request) and takes it back on the request's failing edge: the peer may send the termination notice as soon as it has answered, and another goroutine handles it. L13 a process is reachable for exit signals while its ProcessInit callback runs (it can be linked already: Link*, Spawn with LinkChild): spawn enters it into a table of initializing processes before ProcessInit and takes it out only after processes.Store; the exit delivery helper consults that table first and the process table second. L13c the exit delivery helper wakes a process it found in the initializing table only behind the miss edge of a second lookup made after the push (spawn switches the process to Sleep just before it registers it: a wake-up in that moment would run and terminate an unregistered, uncounted process), and spawn counts the process in the wait group before it registers it.",
		NotDecided: []string{
			"behaviour of user-supplied TargetManager implementations",
			"delivery of the notification message itself (C02), remote fan-out framing (C12/C14)",
			"exactly-once under concurrent unlink/terminate (only single drain + single send per consumer is decided)",
		},
		Assumptions: []string{"sync.Map operations are atomic", "RWMutex semantics"},
		Run:         runC04,
	}
}

var kindTable = map[string]string{"gen.PID": "processes", "gen.ProcessID": "names", "gen.Alias": "aliases", "gen.Event": "events"}

func runC04(p *load.Program, r *core.Report) {
	a, problems := getAnchors(p)
	for _, pr := range problems {
		r.Unk("C04.anchors", "C04.anchors|"+pr, "", "", "anchors resolve", pr)
	}
	if len(problems) > 0 {
		return
	}
	c04Existence(a, r)
	releaseRules(a, r, "C04.L2 drain-on-disappearance", 10)
	c04MetaAndSpawnDrain(a, r)
	// the drain at termination walks the process's alias list: its maintenance is part of L2
	swapDeleteRules(a, r, "C04.L2c identity-list-maintenance")
	resliceRemoval(a, r, "C04.L2c identity-list-maintenance")
	c04Fanout(a, r)
	c04Remove(a, r)
	c04Index(a, r)
	c04SpawnLinks(a, r)
	c04SpawnLinkChild(a, r, "C04.L6 link-child-on-spawn")
	remoteSpawnParentLink(a, r, "C04.L6p remote-child-linked-to-parent-on-both-nodes")
	c04ExitSignal(a, r)
	c04SingleCriticalSection(a, r)
	remoteRelationFirst(a.P, r, "C04.L12 remote-relation-recorded-before-the-request", "C04.L12", 8, nil)
	c04SignalsDuringInit(a, r)
	c04NoEarlyWake(a, r)
	lockPairing(a.P, r, "C04.L10 relation-lock-paired", "C04.L10", 11, func(o string) bool { return strings.Contains(o, "defaultTargetManager") })
	lockReentrancy(a.P, r, "C04.L9 relation-lock-not-reentered", "C04.L9", 11, func(o string) bool { return strings.Contains(o, "defaultTargetManager") })
}

// c04ExitSignal: L8 — what a linked process receives is an exit signal: the helper every link
// fan-out uses builds a mailbox message of type Exit (anything else is dispatched to the ordinary
// message handler and the linked process does not terminate).
func c04ExitSignal(a *Anchors, r *core.Report) {
	rule := "C04.L8 exit-signal-type"
	r.Floor(rule, 1)
	f := a.P.Func("node", a.NodeT.Obj().Name(), "sendExitMessage")
	key := "C04.L8|sendExitMessage"
	inst := "the message delivered to a link consumer has mailbox type Exit"
	if f == nil {
		r.Unk(rule, key, "", "", inst, "sendExitMessage not found")
		return
	}
	tnames := enumConsts(a.P.Named("gen", "MailboxMessageType"))
	var got []string
	eachInstr(f, func(in ssa.Instruction) {
		st, ok := in.(*ssa.Store)
		if !ok {
			return
		}
		own, fl := fieldOwner(st.Addr)
		if own == nil || own.Obj().Name() != "MailboxMessage" || fl != "Type" {
			return
		}
		if c, okc := constInt(st.Val); okc {
			got = append(got, tnames[c])
		} else {
			got = append(got, "non-constant")
		}
	})
	if len(got) == 1 && got[0] == "MailboxMessageTypeExit" {
		r.OK(rule, key, fname(f), a.P.Pos(f.Pos()), inst, "Type = MailboxMessageTypeExit")
	} else {
		r.Bad(rule, key, fname(f), a.P.Pos(f.Pos()), inst, fmt.Sprintf("Type stores: %v — a linked process gets an ordinary message instead of an exit signal", got))
	}
}

// c04SpawnLinks: L6 — the LinkChild option of a spawn creates the parent->child link after the
// child was started, for every spawn form of a process.
func c04SpawnLinks(a *Anchors, r *core.Report) {
	rule := "C04.L6 link-child-on-spawn"
	r.Floor(rule, 4)
	for _, f := range funcsOfPkgs(a.P, "node") {
		if f.Parent() != nil || !recvIs(f, a.ProcessT) {
			continue
		}
		// spawn forms: functions of the process type that call (*node).spawn or RouteSpawn with options having LinkChild
		var sp *ssa.Call
		eachInstr(f, func(in ssa.Instruction) {
			if c, ok := in.(*ssa.Call); ok && (callsNamed(in, "spawn") || callsNamed(in, "RouteSpawn")) {
				sp = c
			}
		})
		if sp == nil {
			continue
		}
		hasOpt := false
		for _, pa := range f.Params {
			if namedOf(pa.Type()) == "gen.ProcessOptions" {
				hasOpt = true
			}
		}
		if !hasOpt {
			continue
		}
		fn := fname(f)
		key := "C04.L6|" + f.Name()
		inst := f.Name() + ": with LinkChild the parent is linked to the started child (parent pid -> child pid), only after a successful start"
		if callsNamed(sp, "spawn") {
			// local start: the link must exist before the child can terminate, so spawn makes it (judged
			// below); the form only has to hand its options (with LinkChild) through
			inst = f.Name() + ": the caller's options (with LinkChild) reach spawn, which links parent and child before the child is published"
			passes := false
			var optPar *ssa.Parameter
			for _, pa := range f.Params {
				if namedOf(pa.Type()) == "gen.ProcessOptions" {
					optPar = pa
				}
			}
			eachInstr(f, func(in ssa.Instruction) {
				if st, ok := in.(*ssa.Store); ok {
					if _, fl := fieldOwner(st.Addr); fl == "ProcessOptions" && (st.Val == ssa.Value(optPar) || isParamValue(st.Val, optPar)) {
						passes = true
					}
				}
			})
			if passes {
				r.OK(rule, key, fn, a.P.Pos(sp.Pos()), inst, "ProcessOptionsExtra.ProcessOptions = options")
			} else {
				r.Bad(rule, key, fn, a.P.Pos(sp.Pos()), inst, "the options given to spawn are not the caller's: LinkChild is lost and the parent never learns that the child terminated")
			}
			continue
		}
		var add ssa.Instruction
		eachInstr(f, func(in ssa.Instruction) {
			if callsNamed(in, "AddLink") {
				// the parent->child link (the remote forms also record the mirror of the child->parent link: L6p)
				c2 := callCommon(in)
				as := c2.Args
				if !c2.IsInvoke() {
					as = as[1:]
				}
				_, q0, _ := fieldPath(as[0])
				if add == nil || (len(q0) > 0 && q0[len(q0)-1] == "pid") {
					add = in
				}
			}
		})
		var probs []string
		if add == nil {
			probs = append(probs, "no AddLink: the LinkChild option is ignored and the parent never learns that the child terminated")
		} else {
			guarded := false
			eachInstr(f, func(in ssa.Instruction) {
				v, ok := in.(ssa.Value)
				if !ok {
					return
				}
				if _, path, okp := fieldPath(v); okp && len(path) > 0 && path[len(path)-1] == "LinkChild" {
					t, _, _ := boolEdges(v)
					if len(t) > 0 && edgesDominate(t, add) {
						guarded = true
					}
				}
			})
			if !guarded {
				probs = append(probs, "the link is not conditioned on LinkChild")
			}
			errv := tupleExtract(sp, 1)
			if errv != nil {
				isNil, _, _ := nilEdges(errv)
				if len(isNil) == 0 || !edgesDominate(isNil, add) {
					probs = append(probs, "the link is added although the spawn failed")
				}
			}
			cc := callCommon(add)
			args := cc.Args
			if !cc.IsInvoke() {
				args = args[1:]
			}
			_, p0, _ := fieldPath(args[0])
			pidv := tupleExtract(sp, 0)
			if len(p0) == 0 || p0[len(p0)-1] != "pid" {
				probs = append(probs, "the consumer of the link is not the parent's pid")
			}
			if stripIface(args[1]) != pidv {
				probs = append(probs, "the target of the link is not the pid returned by the spawn")
			}
		}
		if len(probs) > 0 {
			r.Bad(rule, key, fn, a.P.Pos(sp.Pos()), inst, strings.Join(probs, "; "))
		} else {
			r.OK(rule, key, fn, a.P.Pos(add.Pos()), inst, "AddLink(p.pid, childpid) under LinkChild after err == nil")
		}
	}
}

// c04SpawnLinkChild: L6s — spawn itself links the parent to the child when LinkChild is set, BEFORE
// the child is entered into the process table: once it is there it can terminate, and a link added
// afterwards is never answered (the drain of the child's relations has already happened).
func c04SpawnLinkChild(a *Anchors, r *core.Report, rule string) {
	rid := strings.SplitN(rule, " ", 2)[0]
	f := a.P.Func("node", a.NodeT.Obj().Name(), "spawn")
	if f == nil {
		r.Unk(rule, rid+"|spawn", "", "", "spawn found", "not found")
		return
	}
	fn := fname(f)
	key := rid + "|spawn|link-before-publication"
	inst := "with LinkChild the parent->child link is added before the child is published in the process table"
	var pub, add ssa.Instruction
	eachInstr(f, func(in ssa.Instruction) {
		cc := callCommon(in)
		if cc == nil {
			return
		}
		if m, ok := syncMapCall(cc); ok && m == "Store" && tableOf(a, cc) == "processes" {
			pub = in
		}
		if callsNamed(in, "AddLink") {
			args := cc.Args
			if !cc.IsInvoke() {
				args = args[1:]
			}
			// consumer = parent, target = the new pid
			_, p0, _ := fieldPath(args[0])
			_, p1, _ := fieldPath(stripIface(args[1]))
			if len(p0) > 0 && p0[len(p0)-1] == "parent" && len(p1) > 0 && p1[len(p1)-1] == "pid" {
				add = in
			}
		}
	})
	switch {
	case pub == nil:
		r.Unk(rule, key, fn, a.P.Pos(f.Pos()), inst, "the insert into the process table was not found")
	case add == nil:
		r.Bad(rule, key, fn, a.P.Pos(pub.Pos()), inst, "spawn does not link the parent to the child: a link added by the caller after spawn returned races with the child's termination — a child that dies at once is never noticed (a supervisor keeps a dead pid in its list)")
	default:
		guarded := false
		eachInstr(f, func(in ssa.Instruction) {
			v, ok := in.(ssa.Value)
			if !ok {
				return
			}
			if _, path, okp := fieldPath(v); okp && len(path) > 0 && path[len(path)-1] == "LinkChild" {
				if t, _, _ := boolEdges(v); len(t) > 0 && edgesDominate(t, add) {
					guarded = true
				}
			}
		})
		switch {
		case !guarded:
			r.Bad(rule, key, fn, a.P.Pos(add.Pos()), inst, "the link is not conditioned on LinkChild")
		case !instrReachable(add, pub) || instrReachable(pub, add):
			r.Bad(rule, key, fn, a.P.Pos(add.Pos()), inst, "the link is added after the child was entered into the process table: the child can terminate in between")
		default:
			r.OK(rule, key, fn, a.P.Pos(add.Pos()), inst, "AddLink(parent, pid) under LinkChild, before processes.Store")
		}
	}
}

func routeFuncs(a *Anchors, prefixes ...string) []*ssa.Function {
	var out []*ssa.Function
	for _, f := range funcsOfPkgs(a.P, "node") {
		if f.Parent() != nil || !recvIs(f, a.NodeT) {
			continue
		}
		for _, pre := range prefixes {
			if strings.HasPrefix(f.Name(), pre) {
				out = append(out, f)
			}
		}
	}
	sort.Slice(out, func(i, j int) bool { return out[i].Name() < out[j].Name() })
	return out
}

// targetParam: the target of a Route* function, identified by type and position (not by name):
// RouteTerminate*(target, reason) -> first parameter; Route{Link,Unlink,Monitor,Demonitor}*(pid, target) -> last
// parameter of an identity kind.
func targetParam(f *ssa.Function) *ssa.Parameter {
	kinds := []string{"gen.PID", "gen.ProcessID", "gen.Alias", "gen.Event"}
	if strings.HasPrefix(f.Name(), "RouteTerminate") {
		ps := f.Params
		if f.Signature.Recv() != nil && len(ps) > 1 {
			return ps[1]
		}
	}
	return lastParamOfKinds(f, kinds...)
}

// isArgOf: v is (a MakeInterface of / load of the spilled) parameter par
func isParamValue(v ssa.Value, par *ssa.Parameter) bool {
	if mi, ok := v.(*ssa.MakeInterface); ok {
		v = mi.X
	}
	if v == ssa.Value(par) {
		return true
	}
	if ld, ok := v.(*ssa.UnOp); ok && ld.Op == token.MUL {
		if al, ok := ld.X.(*ssa.Alloc); ok {
			for _, rf := range *al.Referrers() {
				if st, ok := rf.(*ssa.Store); ok && st.Addr == ssa.Value(al) && st.Val == ssa.Value(par) {
					return true
				}
			}
		}
	}
	return false
}

// c04Existence: L1 + L3
func c04Existence(a *Anchors, r *core.Report) {
	rule1 := "C04.L1 existence-check-matches-kind"
	rule3 := "C04.L3 check-insert-race"
	r.Floor(rule1, 8)
	r.Floor(rule3, 8)
	for _, f := range routeFuncs(a, "RouteLink", "RouteMonitor") {
		par := targetParam(f)
		if par == nil {
			continue
		}
		kind := namedOf(par.Type())
		wantTbl, ok := kindTable[kind]
		if !ok {
			continue
		}
		isLink := strings.HasPrefix(f.Name(), "RouteLink")
		wantAdd := "AddMonitor"
		if isLink {
			wantAdd = "AddLink"
		}
		fn := fname(f)
		key := "C04.L1|" + f.Name()
		inst := fmt.Sprintf("%s: local branch checks table %s, fails before adding, and adds a %s on the function's own target", f.Name(), wantTbl, strings.ToLower(strings.TrimPrefix(wantAdd, "Add")))
		// the local existence check: a sync.Map Load on a node table
		var load ssa.Instruction
		var tbl string
		eachInstr(f, func(in ssa.Instruction) {
			cc := callCommon(in)
			if cc == nil {
				return
			}
			if m, ok := syncMapCall(cc); ok && m == "Load" {
				if t := tableOf(a, cc); t != "" && t != "applications" {
					// the existence check is the lookup made before any relation is added (a lookup made
					// after the add is the re-validation L3 asks for)
					afterAdd := false
					eachInstr(f, func(i2 ssa.Instruction) {
						if callsNamed(i2, "AddLink", "AddMonitor") && instrReachable(i2, in) {
							afterAdd = true
						}
					})
					if !afterAdd {
						load, tbl = in, t
					}
				}
			}
		})
		var probs []string
		if load == nil {
			r.Bad(rule1, key, fn, a.P.Pos(f.Pos()), inst, "no existence check of the target in an identity table: a link/monitor on a non-existent target succeeds and is never notified")
			continue
		}
		if tbl != wantTbl {
			probs = append(probs, fmt.Sprintf("the target is a %s but table %s is consulted", kind, tbl))
		}
		found := tupleExtract(load.(ssa.Value), 1)
		_, fl, _ := boolEdges(found)
		var nf []Point
		for _, e := range fl {
			nf = append(nf, Point{e.To(), 0})
		}
		errIdx := errResultIndex(f)
		isAdd := func(in ssa.Instruction) bool { return callsNamed(in, "AddLink", "AddMonitor") }
		if len(nf) == 0 {
			probs = append(probs, "the result of the existence check is not tested")
		} else {
			for _, h := range walkAvoid(nf, nil, func(in ssa.Instruction) bool {
				if isAdd(in) {
					return true
				}
				if ret, ok := in.(*ssa.Return); ok {
					return errKind(ret.Results[errIdx]) == "nil"
				}
				return false
			}) {
				if isAdd(h) {
					probs = append(probs, "the not-found edge still adds the relation")
				} else {
					probs = append(probs, "the not-found edge returns nil")
				}
			}
		}
		// adds: all Add* calls in f are wantAdd with target == par
		nAdd := 0
		var localAdd ssa.Instruction
		eachInstr(f, func(in ssa.Instruction) {
			if !isAdd(in) {
				return
			}
			nAdd++
			cc := callCommon(in)
			if !callsNamed(in, wantAdd) {
				probs = append(probs, fmt.Sprintf("calls %s instead of %s: the requester would get an exit instead of a down message (or vice versa)", cc.Method.Name(), wantAdd))
			}
			args := cc.Args
			if !cc.IsInvoke() {
				args = args[1:]
			}
			if len(args) < 2 || !isParamValue(args[1], par) {
				probs = append(probs, "the relation is added on another value than the function's target")
			}
			if instrDominates(load, in) && localAdd == nil {
				// the add on the local branch: dominated by the found edge
				t, _, _ := boolEdges(found)
				if edgesDominate(t, in) {
					localAdd = in
				}
			}
		})
		if nAdd == 0 {
			probs = append(probs, "no relation is added")
		}
		if len(probs) > 0 {
			r.Bad(rule1, key, fn, a.P.Pos(load.Pos()), inst, strings.Join(uniq(probs), "; "))
		} else {
			r.OK(rule1, key, fn, a.P.Pos(load.Pos()), inst, fmt.Sprintf("table %s; %d add site(s)", tbl, nAdd))
		}
		// L3
		key3 := "C04.L3|" + f.Name()
		inst3 := f.Name() + ": the existence check and the relation insert cannot interleave with the target's delete-then-drain"
		if localAdd == nil {
			r.Unk(rule3, key3, fn, a.P.Pos(load.Pos()), inst3, "no add on the found edge")
			continue
		}
		// accepted: re-validation — every path from the add to a successful return looks the target up
		// again in the same table, and on the "gone" edge of that lookup the relation is taken back
		// (Remove*) before anything is returned
		isReload := func(in ssa.Instruction) bool {
			cc := callCommon(in)
			if cc == nil {
				return false
			}
			m, ok := syncMapCall(cc)
			return ok && m == "Load" && tableOf(a, cc) == tbl
		}
		isOKReturn := func(in ssa.Instruction) bool {
			ret, ok := in.(*ssa.Return)
			return ok && maybeNilResult(ret, errIdx)
		}
		wantRemove := "RemoveMonitor"
		if isLink {
			wantRemove = "RemoveLink"
		}
		missed := reaches([]Point{after(localAdd)}, isReload, isOKReturn)
		var why string
		if missed != nil {
			why = "check-then-insert without re-validation: if the target terminates between the table lookup and the insert, its drain has already run, the request returns nil and the requester is never notified"
		} else {
			// the gone edge of each reload takes the relation back
			for _, rl := range walkAvoid([]Point{after(localAdd)}, nil, isReload) {
				okv := tupleExtract(rl.(ssa.Value), 1)
				if okv == nil {
					why = "the result of the re-validation lookup is not used"
					break
				}
				_, gone, _ := boolEdges(okv)
				var st []Point
				for _, e := range gone {
					st = append(st, Point{e.To(), 0})
				}
				if len(st) == 0 {
					why = "the re-validation lookup is not branched on"
					break
				}
				if reaches(st, func(in ssa.Instruction) bool { return callsNamed(in, wantRemove) }, isReturn) != nil {
					why = "the target is found gone after the insert but the relation is left in place"
					break
				}
			}
		}
		if why == "" {
			r.OK(rule3, key3, fn, a.P.Pos(localAdd.Pos()), inst3, "the target is looked up again after the insert on every path; on the gone edge the relation is removed")
		} else {
			r.Bad(rule3, key3, fn, a.P.Pos(localAdd.Pos()), inst3, why)
		}
	}
}

// c04MetaAndSpawnDrain: L2 for the sites outside unregisterProcess: every Delete on an identity table
// is followed by the matching drain (or is the meta hand-over: exit pushed to the meta process).
func c04MetaAndSpawnDrain(a *Anchors, r *core.Report) {
	rule := "C04.L2b every-identity-removal-is-drained"
	r.Floor(rule, 6)
	drainOf := map[string]string{"names": "RouteTerminateProcessID", "aliases": "RouteTerminateAlias", "events": "RouteTerminateEvent", "processes": "RouteTerminatePID"}
	seq := map[string]int{}
	for _, f := range funcsOfPkgs(a.P, "node") {
		if root(f).Name() == "unregisterProcess" {
			// the process release function is decided as a whole by L2 (delete and drain of every
			// identity on every path) and by C06.G3o (all deletes before the first notification)
			continue
		}
		eachInstr(f, func(in ssa.Instruction) {
			cc := callCommon(in)
			if cc == nil {
				return
			}
			m, ok := syncMapCall(cc)
			if !ok || (m != "Delete" && m != "LoadAndDelete") {
				return
			}
			tbl := tableOf(a, cc)
			want, ok := drainOf[tbl]
			if !ok {
				return
			}
			fn := fname(f)
			seq[fn+tbl]++
			key := fmt.Sprintf("C04.L2b|%s|%s#%d", fn, tbl, seq[fn+tbl])
			inst := "removal from table " + tbl + " is followed by " + want + " (or hands the exit to the meta process)"
			isDrain := func(i ssa.Instruction) bool {
				if callsNamed(i, want) {
					return true
				}
				// helper that unregisters an alias is drained by its caller (DeleteAlias): accept callers' drain
				return false
			}
			// meta hand-over: an exit message pushed to the meta's system queue + wake in the same function
			metaHandover := false
			if tbl == "aliases" {
				eachInstr(f, func(i2 ssa.Instruction) {
					c2 := callCommon(i2)
					if c2 != nil && (staticCallee(c2) == a.MetaWake) {
						metaHandover = true
					}
					if g, ok := i2.(*ssa.Go); ok && staticCallee(g.Common()) == a.MetaWake {
						metaHandover = true
					}
				})
			}
			// drain anywhere after the delete on every path to return; or before it in the same block (drain-then-delete is equivalent for a single owner)
			starts := []Point{after(in)}
			if m == "LoadAndDelete" {
				// only the edge on which something was actually removed
				if v, ok := in.(ssa.Value); ok {
					if okv := tupleExtract(v, 1); okv != nil {
						if t, _, c := boolEdges(okv); c && len(t) > 0 {
							starts = nil
							for _, e := range t {
								starts = append(starts, Point{e.To(), 0})
							}
						}
					}
				}
			}
			bad := reaches(starts, isDrain, isReturn)
			if bad != nil {
				before := false
				for _, i2 := range in.Block().Instrs {
					if i2 == in {
						break
					}
					if isDrain(i2) {
						before = true
					}
				}
				if before {
					bad = nil
				}
			}
			switch {
			case bad == nil:
				r.OK(rule, key, fn, a.P.Pos(in.Pos()), inst, "drain on every path")
			case metaHandover:
				r.OK(rule, key, fn, a.P.Pos(in.Pos()), inst, "the meta process is sent its exit and woken; its handler drains the alias")
			case f.Name() == "unregisterAlias":
				// helper: its single caller drains (checked by L2 DeleteAlias)
				r.OK(rule, key, fn, a.P.Pos(in.Pos()), inst, "helper of DeleteAlias, which drains (L2)")
			default:
				r.Bad(rule, key, fn, a.P.Pos(in.Pos()), inst, "a path to the return at "+a.P.Pos(bad.Pos())+" removes the identity without draining its relations: a link or monitor made on it is never notified and stays in the relation set")
			}
		})
	}
}

// c04Fanout: L4
func c04Fanout(a *Anchors, r *core.Report) {
	rule := "C04.L4 one-notification-per-relation"
	r.Floor(rule, 4)
	high := int64(-1)
	for v, n := range enumConsts(a.P.Named("gen", "MessagePriority")) {
		if n == "MessagePriorityHigh" {
			high = v
		}
	}
	for _, f := range routeFuncs(a, "RouteTerminate") {
		par := targetParam(f)
		if par == nil {
			continue
		}
		reason := paramOfType(f, "error", 0)
		fn := fname(f)
		key := "C04.L4|" + f.Name()
		inst := f.Name() + ": one CleanupTarget; one exit per link consumer and one High-priority down per monitor consumer, carrying this target and this reason; one Terminate frame per remote node"
		var probs []string
		nClean, nExit, nDown, nFrame := 0, 0, 0, 0
		eachInstr(f, func(in ssa.Instruction) {
			cc := callCommon(in)
			if cc == nil {
				return
			}
			switch {
			case callsNamed(in, "CleanupTarget"):
				nClean++
				args := cc.Args
				if !cc.IsInvoke() {
					args = args[1:]
				}
				if len(args) < 1 || !isParamValue(args[0], par) {
					probs = append(probs, "CleanupTarget is called for another value than this target")
				}
			case callsNamed(in, "sendExitMessage"):
				nExit++
				if idx, ok := elemOfResult(cc.Args[2], "CleanupTarget"); !ok || idx != 0 {
					probs = append(probs, "the exit is not addressed to each element of the link-consumer list CleanupTarget returned (whole list, first result)")
				}
			case callsNamed(in, "RouteSendPID"):
				nDown++
				if idx, ok := elemOfResult(cc.Args[2], "CleanupTarget"); !ok || idx != 1 {
					probs = append(probs, "the down message is not addressed to each element of the monitor-consumer list CleanupTarget returned (whole list, second result)")
				}
				// options: Priority High
				if ld, ok := cc.Args[3].(*ssa.UnOp); ok {
					if cell, ok := ld.X.(*ssa.Alloc); ok {
						okp := false
						for _, rf := range *cell.Referrers() {
							if fa, ok := rf.(*ssa.FieldAddr); ok {
								if _, fl := fieldOwner(fa); fl == "Priority" {
									for _, rr := range *fa.Referrers() {
										if st, ok := rr.(*ssa.Store); ok {
											if c, ok := constInt(st.Val); ok && c == high {
												okp = true
											}
										}
									}
								}
							}
						}
						if !okp {
							probs = append(probs, "down message is not sent with priority High")
						}
					}
				}
			case cc.IsInvoke() && strings.HasPrefix(cc.Method.Name(), "SendTerminate"):
				nFrame++
				if len(cc.Args) < 2 || !isParamValue(cc.Args[0], par) || cc.Args[1] != ssa.Value(reason) {
					probs = append(probs, "the Terminate frame for remote consumers does not carry this target and reason")
				}
			}
		})
		if nClean != 1 {
			probs = append(probs, fmt.Sprintf("%d CleanupTarget calls (expected exactly 1: a second drain would find nothing, none leaves the relations in place)", nClean))
		}
		if nExit != 1 {
			probs = append(probs, fmt.Sprintf("%d exit send sites (expected 1 inside the link consumer loop)", nExit))
		}
		if nDown != 1 {
			probs = append(probs, fmt.Sprintf("%d down send sites (expected 1 inside the monitor consumer loop)", nDown))
		}
		if nFrame != 1 {
			probs = append(probs, fmt.Sprintf("%d Terminate frame sites for remote consumers (expected 1)", nFrame))
		}
		// message literals: MessageExitX{X: target, Reason: reason}, MessageDownX{...}
		lits := 0
		eachInstr(f, func(in ssa.Instruction) {
			al, ok := in.(*ssa.Alloc)
			if !ok {
				return
			}
			pt, ok := al.Type().(*types.Pointer)
			if !ok {
				return
			}
			n, ok := pt.Elem().(*types.Named)
			if !ok || !(strings.HasPrefix(n.Obj().Name(), "MessageExit") || strings.HasPrefix(n.Obj().Name(), "MessageDown")) {
				return
			}
			lits++
			tOK, rOK := false, false
			for _, rf := range *al.Referrers() {
				fa, ok := rf.(*ssa.FieldAddr)
				if !ok {
					continue
				}
				_, fl := fieldOwner(fa)
				for _, rr := range *fa.Referrers() {
					st, ok := rr.(*ssa.Store)
					if !ok {
						continue
					}
					if fl == "Reason" && st.Val == ssa.Value(reason) {
						rOK = true
					}
					if fl != "Reason" && isParamValue(st.Val, par) {
						tOK = true
					}
				}
			}
			if !tOK {
				probs = append(probs, n.Obj().Name()+" does not name this target")
			}
			if !rOK {
				probs = append(probs, n.Obj().Name()+" does not carry this reason")
			}
		})
		if lits != 2 {
			probs = append(probs, fmt.Sprintf("%d exit/down literals (expected 2)", lits))
		}
		// each send site is inside a loop over the matching consumer list: the loop body block executes once per element
		if len(probs) > 0 {
			r.Bad(rule, key, fn, a.P.Pos(f.Pos()), inst, strings.Join(uniq(probs), "; "))
		} else {
			r.OK(rule, key, fn, a.P.Pos(f.Pos()), inst, "1 drain, 1 exit site, 1 down site (High), 1 frame site, 2 literals with target and reason")
		}
	}
}

// elemOfResult: v is the loop variable of a range over the idx-th result of a call to callName
// (v = *(&result[i])), the list being used whole — no re-slicing, no other list.
func elemOfResult(v ssa.Value, callName string) (int, bool) {
	ld, ok := v.(*ssa.UnOp)
	if !ok || ld.Op != token.MUL {
		return 0, false
	}
	if cell, isCell := ld.X.(*ssa.Alloc); isCell {
		// the loop variable lives in a local cell: every store to it must be such an element
		idx, n := -1, 0
		for _, rf := range *cell.Referrers() {
			st, isSt := rf.(*ssa.Store)
			if !isSt || st.Addr != ssa.Value(cell) {
				continue
			}
			i, ok2 := elemOfResult(st.Val, callName)
			if !ok2 || (idx >= 0 && i != idx) {
				return 0, false
			}
			idx = i
			n++
		}
		return idx, n > 0
	}
	ia, ok := ld.X.(*ssa.IndexAddr)
	if !ok {
		return 0, false
	}
	ex, ok := ia.X.(*ssa.Extract)
	if !ok {
		return 0, false
	}
	c, ok := ex.Tuple.(*ssa.Call)
	if !ok || !callsNamed(c, callName) {
		return 0, false
	}
	return ex.Index, true
}

// c04Remove: L5
func c04Remove(a *Anchors, r *core.Report) {
	rule := "C04.L5 unlink-removes"
	r.Floor(rule, 8)
	for _, f := range routeFuncs(a, "RouteUnlink", "RouteDemonitor") {
		par := targetParam(f)
		if par == nil {
			continue
		}
		want := "RemoveMonitor"
		if strings.HasPrefix(f.Name(), "RouteUnlink") {
			want = "RemoveLink"
		}
		key := "C04.L5|" + f.Name()
		inst := f.Name() + " removes exactly the relation kind it names, on its own target"
		var probs []string
		n := 0
		eachInstr(f, func(in ssa.Instruction) {
			if !callsNamed(in, "RemoveLink", "RemoveMonitor") {
				return
			}
			n++
			cc := callCommon(in)
			if !callsNamed(in, want) {
				probs = append(probs, "calls "+cc.Method.Name()+" instead of "+want)
			}
			args := cc.Args
			if !cc.IsInvoke() {
				args = args[1:]
			}
			if len(args) < 2 || !isParamValue(args[1], par) {
				probs = append(probs, "removes a relation on another value than the function's target")
			}
		})
		if n == 0 {
			probs = append(probs, "removes nothing: the requester is still notified after it unlinked")
		}
		if len(probs) > 0 {
			r.Bad(rule, key, fname(f), a.P.Pos(f.Pos()), inst, strings.Join(uniq(probs), "; "))
		} else {
			r.OK(rule, key, fname(f), a.P.Pos(f.Pos()), inst, fmt.Sprintf("%d %s site(s)", n, want))
		}
	}
}

// c04Index: L7
func c04Index(a *Anchors, r *core.Report) {
	rule := "C04.L7 two-index-consistency"
	r.Floor(rule, 7)
	tm := a.P.Named("gen", "defaultTargetManager")
	if tm == nil {
		r.Unk(rule, "C04.L7|type", "", "", "default target manager found", "gen.defaultTargetManager not found")
		return
	}
	for _, f := range funcsOfPkgs(a.P, "gen") {
		if f.Parent() != nil || !recvIs(f, tm) {
			continue
		}
		// mutations
		type mut struct {
			in    ssa.Instruction
			which string // "relations" | "index-outer" | "index-inner"
			op    string // "insert" | "delete"
		}
		var muts []mut
		mapOrigin := func(m ssa.Value) string {
			_, path, ok := fieldPath(m)
			if ok && len(path) > 0 {
				switch path[len(path)-1] {
				case "relations":
					return "relations"
				case "targetIndex":
					return "index-outer"
				}
			}
			// inner map: result of a lookup in targetIndex, or a fresh make stored into it
			switch x := m.(type) {
			case *ssa.Lookup:
				if _, path, ok := fieldPath(x.X); ok && len(path) > 0 && path[len(path)-1] == "targetIndex" {
					return "index-inner"
				}
			case *ssa.Extract:
				if lk, ok := x.Tuple.(*ssa.Lookup); ok {
					if _, path, ok := fieldPath(lk.X); ok && len(path) > 0 && path[len(path)-1] == "targetIndex" {
						return "index-inner"
					}
				}
			case *ssa.Phi:
				for _, e := range x.Edges {
					if lk, ok := e.(*ssa.Lookup); ok {
						if _, path, ok := fieldPath(lk.X); ok && len(path) > 0 && path[len(path)-1] == "targetIndex" {
							return "index-inner"
						}
					}
				}
			}
			return ""
		}
		eachInstr(f, func(in ssa.Instruction) {
			switch x := in.(type) {
			case *ssa.MapUpdate:
				if w := mapOrigin(x.Map); w != "" {
					muts = append(muts, mut{in, w, "insert"})
				}
			default:
				cc := callCommon(in)
				if cc == nil {
					return
				}
				if b, ok := cc.Value.(*ssa.Builtin); ok && b.Name() == "delete" {
					if w := mapOrigin(cc.Args[0]); w != "" {
						muts = append(muts, mut{in, w, "delete"})
					}
				}
			}
		})
		hasRel := false
		for _, m := range muts {
			if m.which == "relations" {
				hasRel = true
			}
		}
		if !hasRel {
			continue
		}
		fn := fname(f)
		key := "C04.L7|" + f.Name()
		inst := f.Name() + ": every change of the relation set is mirrored in the per-target index on every path, under the write lock"
		var probs []string
		// write lock: a call to Lock (not RLock) on the embedded mutex dominates every mutation
		var lock ssa.Instruction
		eachInstr(f, func(in ssa.Instruction) {
			cc := callCommon(in)
			if cc != nil {
				if sf := staticCallee(cc); sf != nil && sf.Name() == "Lock" && sf.Pkg != nil && sf.Pkg.Pkg.Path() == "sync" {
					lock = in
				}
			}
		})
		for _, m := range muts {
			if lock == nil || !instrDominates(lock, m.in) {
				probs = append(probs, "a mutation at "+a.P.Pos(m.in.Pos())+" is not under the write lock")
			}
		}
		// nil edges of lookups in the index (nothing to mirror when the target has no index entry)
		cut := map[Edge]bool{}
		eachInstr(f, func(in ssa.Instruction) {
			lk, ok := in.(*ssa.Lookup)
			if !ok {
				return
			}
			if _, path, ok := fieldPath(lk.X); !ok || len(path) == 0 || path[len(path)-1] != "targetIndex" {
				return
			}
			e, _, _ := nilEdges(lk)
			for _, x := range e {
				cut[x] = true
			}
		})
		for _, m := range muts {
			if m.which != "relations" {
				continue
			}
			isMirror := func(in ssa.Instruction) bool {
				for _, m2 := range muts {
					if m2.in == in && m2.which != "relations" && m2.op == m.op {
						return true
					}
				}
				return false
			}
			r.Paths++
			if bad := reachAvoidEdges([]Point{after(m.in)}, cut, isMirror, isReturn); bad != nil {
				probs = append(probs, fmt.Sprintf("after the %s on the relation set at %s a return is reachable without the matching %s on the target index: the two indexes diverge (a drained target still lists the relation, or a live relation is invisible to the drain)", m.op, a.P.Pos(m.in.Pos()), m.op))
			}
		}
		// the per-target index entry as a whole is dropped only when its inner set is empty
		// (or when the function removes every relation of that target, as the target drain does)
		for _, m := range muts {
			if m.which != "index-outer" || m.op != "delete" {
				continue
			}
			guarded := false
			eachInstr(f, func(in ssa.Instruction) {
				b, ok := in.(*ssa.BinOp)
				if !ok {
					return
				}
				es := leqEdges(b, func(v ssa.Value) bool {
					return isLenCallOf(v, func(x ssa.Value) bool { return mapOrigin(x) == "index-inner" })
				}, 0)
				if len(es) > 0 && edgesDominate(es, m.in) {
					guarded = true
				}
			})
			drainsAll := false
			eachInstr(f, func(in ssa.Instruction) {
				// range over the inner map with a delete on relations inside: every relation of the target goes
				if rg, ok := in.(*ssa.Range); ok && mapOrigin(rg.X) == "index-inner" {
					for _, m2 := range muts {
						if m2.which == "relations" && m2.op == "delete" && instrReachable(in, m2.in) && instrReachable(m2.in, m.in) {
							drainsAll = true
						}
					}
				}
			})
			if !guarded && !drainsAll {
				probs = append(probs, "the whole index entry of a target is deleted at "+a.P.Pos(m.in.Pos())+" without the test that no relation on that target is left (len(keys) == 0): the remaining links/monitors on the target stay in the relation set but are invisible to the drain, so they are never notified")
			}
		}
		if len(probs) > 0 {
			r.Bad(rule, key, fn, a.P.Pos(f.Pos()), inst, strings.Join(uniq(probs), "; "))
		} else {
			r.OK(rule, key, fn, a.P.Pos(f.Pos()), inst, fmt.Sprintf("%d mutation(s), all under Lock, relation changes mirrored, index entries dropped only when empty", len(muts)))
		}
	}
}

var _ = load.Module

// c04SingleCriticalSection: L11 — the add / re-check / remove logic of RouteLink*/RouteMonitor* and
// "exactly one notification" rest on the target manager's mutating operations being atomic: what a
// Cleanup* returns is exactly what it removed, and nothing can be added in between. Every method of
// the default target manager that changes the relation set or the index takes the WRITE lock exactly
// once, never the read lock, and touches the two maps only inside that one critical section.
func c04SingleCriticalSection(a *Anchors, r *core.Report) {
	rule := "C04.L11 mutating-operations-are-one-critical-section"
	r.Floor(rule, 7)
	tmT := a.P.Named("gen", "defaultTargetManager")
	if tmT == nil {
		r.Unk(rule, "C04.L11|type", "", "", "default target manager found", "not found")
		return
	}
	isMapField := func(v ssa.Value) bool {
		_, path, ok := fieldPath(v)
		return ok && len(path) > 0 && (path[len(path)-1] == "relations" || path[len(path)-1] == "targetIndex")
	}
	for _, f := range funcsOfPkgs(a.P, "gen") {
		if f.Parent() != nil || !recvIs(f, tmT) {
			continue
		}
		mutates := false
		var accesses []ssa.Instruction
		for _, g := range family(f) {
			eachInstr(g, func(in ssa.Instruction) {
				switch x := in.(type) {
				case *ssa.MapUpdate:
					if isMapField(x.Map) {
						mutates = true
						accesses = append(accesses, in)
					}
				case *ssa.Lookup:
					if isMapField(x.X) {
						accesses = append(accesses, in)
					}
				case *ssa.Range:
					if isMapField(x.X) {
						accesses = append(accesses, in)
					}
				default:
					if cc := callCommon(in); cc != nil {
						if b, ok := cc.Value.(*ssa.Builtin); ok && b.Name() == "delete" && len(cc.Args) > 0 && isMapField(cc.Args[0]) {
							mutates = true
							accesses = append(accesses, in)
						}
					}
				}
			})
		}
		if !mutates {
			continue
		}
		fn := fname(f)
		key := "C04.L11|" + fn
		inst := "the operation reads and changes the relation set inside one write-locked critical section"
		var locks, rlocks, unlocks []ssa.Instruction
		deferredUnlock := false
		eachInstr(f, func(in ssa.Instruction) {
			m := mutexOpOf(in)
			if m == nil {
				return
			}
			switch m.kind {
			case "Lock":
				locks = append(locks, in)
			case "RLock":
				rlocks = append(rlocks, in)
			case "Unlock", "RUnlock":
				if m.deferred {
					deferredUnlock = true
				} else {
					unlocks = append(unlocks, in)
				}
			}
		})
		var probs []string
		if len(rlocks) > 0 {
			probs = append(probs, "takes the read lock at "+a.P.Pos(rlocks[0].Pos()))
		}
		if len(locks) != 1 {
			probs = append(probs, fmt.Sprintf("takes the write lock %d times", len(locks)))
		} else {
			for _, ac := range accesses {
				if ac.Parent() != f {
					continue
				}
				if !instrDominates(locks[0], ac) {
					probs = append(probs, "touches the maps at "+a.P.Pos(ac.Pos())+" before the lock")
				}
				if !deferredUnlock {
					for _, u := range unlocks {
						if instrReachable(u, ac) && !instrReachable(ac, u) {
							probs = append(probs, "touches the maps at "+a.P.Pos(ac.Pos())+" after the unlock")
						}
					}
				}
			}
		}
		if len(probs) > 0 {
			r.Bad(rule, key, fn, a.P.Pos(f.Pos()), inst, strings.Join(uniq(probs), "; ")+": collecting and deleting are no longer one atomic step — a relation added in between is dropped without notification, or a requester that took its relation back is notified all the same")
		} else {
			r.OK(rule, key, fn, a.P.Pos(f.Pos()), inst, fmt.Sprintf("one Lock, %d map accesses, all inside it", len(accesses)))
		}
	}
}

// remoteSpawnParentLink: with LinkParent the child's node links the child to the (remote) parent, but
// the termination of the parent is reported by the PARENT's node, which walks its own relation
// table: the remote spawn forms record the mirror relation (consumer = the remote child, target =
// this process) after a successful RouteSpawn, under LinkParent. Without it the remote child
// survives its parent.
func remoteSpawnParentLink(a *Anchors, r *core.Report, rule string) {
	rid := strings.SplitN(rule, " ", 2)[0]
	r.Floor(rule, 2)
	for _, f := range funcsOfPkgs(a.P, "node") {
		if f.Parent() != nil || !recvIs(f, a.ProcessT) {
			continue
		}
		var sp *ssa.Call
		eachInstr(f, func(in ssa.Instruction) {
			if c, ok := in.(*ssa.Call); ok && callsNamed(in, "RouteSpawn") {
				sp = c
			}
		})
		if sp == nil {
			continue
		}
		fn := fname(f)
		key := rid + "|" + f.Name() + "|parent-link"
		inst := f.Name() + ": with LinkParent this node records that the remote child is linked to this process"
		pidv := tupleExtract(sp, 0)
		ok := false
		eachInstr(f, func(in ssa.Instruction) {
			if !callsNamed(in, "AddLink") {
				return
			}
			cc := callCommon(in)
			args := cc.Args
			if !cc.IsInvoke() {
				args = args[1:]
			}
			_, p1, _ := fieldPath(stripIface(args[1]))
			if args[0] != pidv || len(p1) == 0 || p1[len(p1)-1] != "pid" {
				return
			}
			guarded := false
			eachInstr(f, func(x ssa.Instruction) {
				v, isV := x.(ssa.Value)
				if !isV {
					return
				}
				if _, path, okp := fieldPath(v); okp && len(path) > 0 && path[len(path)-1] == "LinkParent" {
					if t, _, _ := boolEdges(v); len(t) > 0 && edgesDominate(t, in) {
						guarded = true
					}
				}
			})
			if errv := tupleExtract(sp, 1); errv != nil && guarded {
				if isNil, _, _ := nilEdges(errv); len(isNil) > 0 && edgesDominate(isNil, in) {
					ok = true
				}
			}
		})
		if ok {
			r.OK(rule, key, fn, a.P.Pos(sp.Pos()), inst, "AddLink(childpid, p.pid) under LinkParent after err == nil")
		} else {
			r.Bad(rule, key, fn, a.P.Pos(sp.Pos()), inst, "the relation exists only on the child's node: when this process terminates its own node finds no consumer to notify, no Terminate frame is sent and the remote child runs on without its parent")
		}
	}
}
