package rules

import (
	"fmt"
	"go/types"

	"golang.org/x/tools/go/ssa"

	"verif/internal/core"
	"verif/internal/load"
)

// mappedNameText: in every frame writer of net/proto that applies the connection's atom mapping
// to a name, the TEXT of the name that goes into the frame ([]byte(name)) is the name after the
// mapping (the value that merges the original and the mapped atom), never the value the mapping
// was looked up with: the peer knows the process, the event or the node under the mapped name
// only, and drops a request or a termination notice that carries the other one.
func mappedNameText(p *load.Program, r *core.Report, rule, rid string, floor int) {
	r.Floor(rule, floor)
	for _, f := range funcsOfPkgs(p, "net/proto") {
		if f.Parent() != nil {
			continue
		}
		mapLoads := map[ssa.Value]bool{}
		eachInstr(f, func(in ssa.Instruction) {
			c, ok := in.(*ssa.Call)
			if !ok {
				return
			}
			if m, okm := syncMapCall(c.Common()); !okm || m != "Load" {
				return
			}
			if _, path, okp := fieldPath(c.Common().Args[0]); okp && len(path) > 0 && path[len(path)-1] == "AtomMapping" {
				mapLoads[c] = true
			}
		})
		if len(mapLoads) == 0 {
			continue
		}
		fromMapping := func(v ssa.Value) bool {
			if ta, ok := v.(*ssa.TypeAssert); ok {
				v = ta.X
			}
			if ex, ok := v.(*ssa.Extract); ok {
				return mapLoads[ex.Tuple]
			}
			return false
		}
		var mapped []*ssa.Phi
		eachInstr(f, func(in ssa.Instruction) {
			if ph, ok := in.(*ssa.Phi); ok {
				for _, e := range ph.Edges {
					if fromMapping(e) {
						mapped = append(mapped, ph)
						return
					}
				}
			}
		})
		derives := func(v ssa.Value) bool {
			seen := map[ssa.Value]bool{}
			var w func(x ssa.Value) bool
			w = func(x ssa.Value) bool {
				if seen[x] {
					return false
				}
				seen[x] = true
				for _, m := range mapped {
					if x == ssa.Value(m) {
						return true
					}
				}
				if ph, ok := x.(*ssa.Phi); ok {
					for _, e := range ph.Edges {
						if w(e) {
							return true
						}
					}
				}
				if cv, ok := x.(*ssa.ChangeType); ok {
					return w(cv.X)
				}
				if cv, ok := x.(*ssa.Convert); ok {
					return w(cv.X)
				}
				return false
			}
			return w(v)
		}
		isRaw := func(v ssa.Value) bool {
			for _, m := range mapped {
				for _, e := range m.Edges {
					if !fromMapping(e) && sameTypeValue(e, v) {
						return true
					}
				}
			}
			return false
		}
		n := 0
		eachInstr(f, func(in ssa.Instruction) {
			cv, ok := in.(*ssa.Convert)
			if !ok {
				return
			}
			sl, ok := cv.Type().Underlying().(*types.Slice)
			if !ok {
				return
			}
			if b, ok := sl.Elem().Underlying().(*types.Basic); !ok || b.Kind() != types.Byte && b.Kind() != types.Uint8 {
				return
			}
			src := cv.X
			for {
				if ct, ok := src.(*ssa.ChangeType); ok {
					src = ct.X
					continue
				}
				if c2, ok := src.(*ssa.Convert); ok {
					src = c2.X
					continue
				}
				break
			}
			d := derives(src)
			if !d && !isRaw(src) {
				return // the text of some other atom
			}
			n++
			fn := fname(f)
			key := fmt.Sprintf("%s|%s|name-text#%d", rid, fn, n)
			inst := "the text of the name written into the frame is the name after atom mapping"
			if d {
				r.OK(rule, key, fn, p.Pos(in.Pos()), inst, "the bytes are taken from the mapped name")
			} else {
				r.Bad(rule, key, fn, p.Pos(in.Pos()), inst, "the bytes are taken from the name as it was before the mapping: the frame names a process/event the peer does not know under that name (a termination notice finds no relation there, a request goes to another process)")
			}
		})
	}
}

// c14DownAfterUnregister: X10 — the consumers of a lost node are told with the connection already
// out of the node's table: a consumer that answers its down message by monitoring or linking the
// node again must find no connection (and get 'no route', or a fresh dial), never the dead one —
// a relation accepted over the dead connection is recorded after the cleanup has run and nothing
// ever reports it. Every call of the node-down routine is dominated by the removal of that name
// from the connection table.
func c14DownAfterUnregister(p *load.Program, r *core.Report) {
	rule := "C14.X10 node-down-told-after-the-connection-is-unregistered"
	r.Floor(rule, 1)
	n := 0
	for _, f := range funcsOfPkgs(p, "node") {
		eachInstr(f, func(in ssa.Instruction) {
			cc := callCommon(in)
			if cc == nil {
				return
			}
			name := ""
			if cc.IsInvoke() {
				name = cc.Method.Name()
			} else if sf := staticCallee(cc); sf != nil {
				name = sf.Name()
			}
			if name != "RouteNodeDown" {
				return
			}
			args := cc.Args
			if !cc.IsInvoke() {
				args = args[1:]
			}
			n++
			fn := fname(f)
			key := fmt.Sprintf("C14.X10|%s|down#%d", fn, n)
			inst := "the name is removed from the connection table before the consumers of the node are notified"
			ok := false
			eachInstr(f, func(x ssa.Instruction) {
				c2, isCall := x.(*ssa.Call)
				if !isCall {
					return
				}
				m, okm := syncMapCall(c2.Common())
				if !okm || (m != "Delete" && m != "LoadAndDelete" && m != "CompareAndDelete") {
					return
				}
				_, path, okp := fieldPath(c2.Common().Args[0])
				if !okp || len(path) == 0 || path[len(path)-1] != "connections" {
					return
				}
				if sameTypeValue(stripIface(c2.Common().Args[1]), args[0]) && instrDominates(x, in) {
					ok = true
				}
			})
			if ok {
				r.OK(rule, key, fn, p.Pos(in.Pos()), inst, "connections.Delete of the same name dominates the call")
			} else {
				r.Bad(rule, key, fn, p.Pos(in.Pos()), inst, "the notifications go out while the dead connection is still registered: a consumer that monitors/links the node again in its down handler is accepted over the dead connection and is never notified")
			}
		})
	}
}
