package rules

import (
	"fmt"
	"go/token"
	"go/types"
	"sort"
	"strings"

	"golang.org/x/tools/go/ssa"

	"verif/internal/core"
	"verif/internal/load"
)

// mappedNameText: in every frame writer of net/proto that applies the connection's atom mapping
// to a name, the TEXT of the name that goes into the frame ([]byte(name)) is the name after the
// mapping (the value that merges the original and the mapped atom), never the value the mapping
// was looked up with: the peer knows the process, the event or the node under the mapped name
// only, and drops a request or a termination notice that carries the other one.
func mappedNameText(p *load.Program, r *core.Report, rule, rid string, floor int) {
	r.Floor(rule, floor)
	for _, f := range funcsOfPkgs(p, "net/proto") {
		if f.Parent() != nil {
			continue
		}
		mapLoads := map[ssa.Value]bool{}
		eachInstr(f, func(in ssa.Instruction) {
			c, ok := in.(*ssa.Call)
			if !ok {
				return
			}
			if m, okm := syncMapCall(c.Common()); !okm || m != "Load" {
				return
			}
			if _, path, okp := fieldPath(c.Common().Args[0]); okp && len(path) > 0 && path[len(path)-1] == "AtomMapping" {
				mapLoads[c] = true
			}
		})
		if len(mapLoads) == 0 {
			continue
		}
		fromMapping := func(v ssa.Value) bool {
			if ta, ok := v.(*ssa.TypeAssert); ok {
				v = ta.X
			}
			if ex, ok := v.(*ssa.Extract); ok {
				return mapLoads[ex.Tuple]
			}
			return false
		}
		var mapped []*ssa.Phi
		eachInstr(f, func(in ssa.Instruction) {
			if ph, ok := in.(*ssa.Phi); ok {
				for _, e := range ph.Edges {
					if fromMapping(e) {
						mapped = append(mapped, ph)
						return
					}
				}
			}
		})
		derives := func(v ssa.Value) bool {
			seen := map[ssa.Value]bool{}
			var w func(x ssa.Value) bool
			w = func(x ssa.Value) bool {
				if seen[x] {
					return false
				}
				seen[x] = true
				for _, m := range mapped {
					if x == ssa.Value(m) {
						return true
					}
				}
				if ph, ok := x.(*ssa.Phi); ok {
					for _, e := range ph.Edges {
						if w(e) {
							return true
						}
					}
				}
				if cv, ok := x.(*ssa.ChangeType); ok {
					return w(cv.X)
				}
				if cv, ok := x.(*ssa.Convert); ok {
					return w(cv.X)
				}
				return false
			}
			return w(v)
		}
		isRaw := func(v ssa.Value) bool {
			for _, m := range mapped {
				for _, e := range m.Edges {
					if !fromMapping(e) && sameTypeValue(e, v) {
						return true
					}
				}
			}
			return false
		}
		n := 0
		eachInstr(f, func(in ssa.Instruction) {
			cv, ok := in.(*ssa.Convert)
			if !ok {
				return
			}
			sl, ok := cv.Type().Underlying().(*types.Slice)
			if !ok {
				return
			}
			if b, ok := sl.Elem().Underlying().(*types.Basic); !ok || b.Kind() != types.Byte && b.Kind() != types.Uint8 {
				return
			}
			src := cv.X
			for {
				if ct, ok := src.(*ssa.ChangeType); ok {
					src = ct.X
					continue
				}
				if c2, ok := src.(*ssa.Convert); ok {
					src = c2.X
					continue
				}
				break
			}
			d := derives(src)
			if !d && !isRaw(src) {
				return // the text of some other atom
			}
			n++
			fn := fname(f)
			key := fmt.Sprintf("%s|%s|name-text#%d", rid, fn, n)
			inst := "the text of the name written into the frame is the name after atom mapping"
			if d {
				r.OK(rule, key, fn, p.Pos(in.Pos()), inst, "the bytes are taken from the mapped name")
			} else {
				r.Bad(rule, key, fn, p.Pos(in.Pos()), inst, "the bytes are taken from the name as it was before the mapping: the frame names a process/event the peer does not know under that name (a termination notice finds no relation there, a request goes to another process)")
			}
		})
	}
}

// c14DownAfterUnregister: X10 — the consumers of a lost node are told with the connection already
// out of the node's table: a consumer that answers its down message by monitoring or linking the
// node again must find no connection (and get 'no route', or a fresh dial), never the dead one —
// a relation accepted over the dead connection is recorded after the cleanup has run and nothing
// ever reports it. Every call of the node-down routine is dominated by the removal of that name
// from the connection table.
func c14DownAfterUnregister(p *load.Program, r *core.Report) {
	rule := "C14.X10 node-down-told-after-the-connection-is-unregistered"
	r.Floor(rule, 1)
	n := 0
	for _, f := range funcsOfPkgs(p, "node") {
		eachInstr(f, func(in ssa.Instruction) {
			cc := callCommon(in)
			if cc == nil {
				return
			}
			name := ""
			if cc.IsInvoke() {
				name = cc.Method.Name()
			} else if sf := staticCallee(cc); sf != nil {
				name = sf.Name()
			}
			if name != "RouteNodeDown" {
				return
			}
			args := cc.Args
			if !cc.IsInvoke() {
				args = args[1:]
			}
			n++
			fn := fname(f)
			key := fmt.Sprintf("C14.X10|%s|down#%d", fn, n)
			inst := "the name is removed from the connection table before the consumers of the node are notified"
			ok := false
			eachInstr(f, func(x ssa.Instruction) {
				c2, isCall := x.(*ssa.Call)
				if !isCall {
					return
				}
				m, okm := syncMapCall(c2.Common())
				if !okm || (m != "Delete" && m != "LoadAndDelete" && m != "CompareAndDelete") {
					return
				}
				_, path, okp := fieldPath(c2.Common().Args[0])
				if !okp || len(path) == 0 || path[len(path)-1] != "connections" {
					return
				}
				if sameTypeValue(stripIface(c2.Common().Args[1]), args[0]) && instrDominates(x, in) {
					ok = true
				}
			})
			if ok {
				r.OK(rule, key, fn, p.Pos(in.Pos()), inst, "connections.Delete of the same name dominates the call")
			} else {
				r.Bad(rule, key, fn, p.Pos(in.Pos()), inst, "the notifications go out while the dead connection is still registered: a consumer that monitors/links the node again in its down handler is accepted over the dead connection and is never notified")
			}
		})
	}
}

// c12ErrorCodesAgree: R14 — the outcome of an important delivery travels back as a one-byte code
// (a few frequent errors) or as 255 followed by the encoded error. Every code the writer can put into
// that byte has an arm in the reader's switch over the same byte; a code without an arm falls into
// the reader's default branch, the response is dropped and the sender waits for its timeout.
func c12ErrorCodesAgree(p *load.Program, r *core.Report) {
	rule := "C12.R14 response-error-codes-agree"
	r.Floor(rule, 1)
	w := p.Func("net/proto", "connection", "SendResponseError")
	rd := p.Func("net/proto", "connection", "handleRecvQueue")
	if w == nil || rd == nil {
		r.Unk(rule, "C12.R14|anchors", "", "", "SendResponseError and handleRecvQueue are found", "missing")
		return
	}
	// writer: constant stores into buf.B[k], k constant, in a switch over the error
	written := map[int64]map[int64]ssa.Instruction{} // index -> code -> store
	eachInstr(w, func(in ssa.Instruction) {
		st, ok := in.(*ssa.Store)
		if !ok {
			return
		}
		ia, ok := st.Addr.(*ssa.IndexAddr)
		if !ok {
			return
		}
		k, okk := constInt(ia.Index)
		c, okc := constInt(st.Val)
		if !okk || !okc {
			return
		}
		if written[k] == nil {
			written[k] = map[int64]ssa.Instruction{}
		}
		written[k][c] = in
	})
	// the index that takes several different codes is the error byte
	var idx int64 = -1
	for k, m := range written {
		if len(m) >= 3 && (idx < 0 || len(m) > len(written[idx])) {
			idx = k
		}
	}
	key := "C12.R14|" + fname(w)
	inst := "every error code the response writer stores has an arm in the reader's switch over that byte"
	if idx < 0 {
		r.Unk(rule, key, fname(w), p.Pos(w.Pos()), inst, "no byte of the frame takes several constant codes")
		return
	}
	handled := map[int64]bool{}
	eachInstr(rd, func(in ssa.Instruction) {
		b, ok := in.(*ssa.BinOp)
		if !ok || b.Op != token.EQL {
			return
		}
		c, okc := constInt(b.Y)
		if !okc {
			return
		}
		ld, ok := b.X.(*ssa.UnOp)
		if !ok {
			return
		}
		ia, ok := ld.X.(*ssa.IndexAddr)
		if !ok {
			return
		}
		if k, okk := constInt(ia.Index); okk && k == idx {
			handled[c] = true
		}
	})
	var missing []string
	for c, st := range written[idx] {
		if !handled[c] {
			missing = append(missing, fmt.Sprintf("%d (stored at %s)", c, p.Pos(st.Pos())))
		}
	}
	sort.Strings(missing)
	if len(missing) == 0 {
		r.OK(rule, key, fname(w), p.Pos(w.Pos()), inst, fmt.Sprintf("byte %d: %d codes written, all handled (%d arms in the reader)", idx, len(written[idx]), len(handled)))
	} else {
		r.Bad(rule, key, fname(w), p.Pos(w.Pos()), inst, fmt.Sprintf("byte %d: code(s) %s have no arm in handleRecvQueue: the response is dropped there and the sender of the important message gets a timeout instead of the remote reason", idx, strings.Join(missing, ", ")))
	}
}

// c14GiveUpCounter: X11 — the dialing side re-dials a pooled link that was closed; it gives up (and
// the connection terminates, which tells the consumers of the node) after a few links in a row
// that the peer closed without sending anything: a peer that has dropped the connection but keeps
// running still answers the join handshake and closes the socket. The counter of such links is
// reset only by a link that carried a frame: every assignment of 0 to it after its initialisation
// is dominated by the "received > 0" edge of the result of the link's serve call. (Reset on a
// successful re-dial it never reaches the limit: the dead connection is kept for ever.)
func c14GiveUpCounter(p *load.Program, r *core.Report) {
	rule := "C14.X11 redial-give-up-counter-reset-only-by-traffic"
	r.Floor(rule, 1)
	n := 0
	for _, f := range funcsOfPkgs(p, "net/proto") {
		// a serve call whose result is compared with 0
		var serves []*ssa.Call
		eachInstr(f, func(in ssa.Instruction) {
			if c, ok := in.(*ssa.Call); ok && callsNamed(in, "serve") && c.Common().Signature().Results().Len() == 1 {
				serves = append(serves, c)
			}
		})
		if len(serves) == 0 {
			continue
		}
		for _, sv := range serves {
			var got, none []Edge
			if refs := sv.Referrers(); refs != nil {
				for _, x := range *refs {
					b, ok := x.(*ssa.BinOp)
					if !ok {
						continue
					}
					c, okc := constInt(b.Y)
					if !okc || c != 0 || b.X != ssa.Value(sv) {
						continue
					}
					t, fl, complete := boolEdges(b)
					if !complete {
						continue
					}
					switch b.Op {
					case token.GTR, token.NEQ:
						got, none = append(got, t...), append(none, fl...)
					case token.EQL, token.LEQ:
						got, none = append(got, fl...), append(none, t...)
					}
				}
			}
			if len(none) == 0 {
				continue
			}
			// the counter: a phi that merges `itself + 1` on the nothing-received edge
			eachInstr(f, func(in ssa.Instruction) {
				ph, ok := in.(*ssa.Phi)
				if !ok {
					return
				}
				isCounter := false
				for _, e := range ph.Edges {
					if add, ok := e.(*ssa.BinOp); ok && add.Op == token.ADD {
						if c, okc := constInt(add.Y); okc && c == 1 && edgesDominate(none, add) {
							isCounter = true
						}
					}
				}
				if !isCounter {
					return
				}
				n++
				fn := fname(f)
				key := fmt.Sprintf("C14.X11|%s|counter#%d", fn, n)
				inst := "the count of links closed without traffic is reset only by a link that carried a frame"
				bad := ""
				// every zero that can flow into the counter after the first serve
				seen := map[ssa.Value]bool{}
				var walk func(v ssa.Value, viaBlock *ssa.BasicBlock)
				walk = func(v ssa.Value, viaBlock *ssa.BasicBlock) {
					if seen[v] {
						return
					}
					seen[v] = true
					if x, ok := v.(*ssa.Phi); ok {
						for i, e := range x.Edges {
							if c, okc := constInt(e); okc && c == 0 {
								pred := x.Block().Preds[i]
								if len(pred.Instrs) == 0 {
									continue
								}
								last := pred.Instrs[len(pred.Instrs)-1]
								if !instrReachable(sv, last) {
									continue // the initialisation
								}
								if !edgesDominate(got, last) {
									bad = "a reset to 0 comes from " + p.Pos(last.Pos()) + ", which is not behind the 'received > 0' edge"
								}
								continue
							}
							walk(e, x.Block())
						}
					}
					if b, ok := v.(*ssa.BinOp); ok {
						walk(b.X, nil)
					}
				}
				walk(ph, nil)
				if bad == "" {
					r.OK(rule, key, fn, p.Pos(ph.Pos()), inst, "every 0 that reaches the counter after the first serve is behind the received>0 edge")
				} else {
					r.Bad(rule, key, fn, p.Pos(ph.Pos()), inst, bad+": a peer that dropped the connection but keeps running answers the join handshake and closes the link — the counter never reaches its limit, the dead connection is kept and no consumer of the node is ever told")
				}
			})
		}
	}
}
