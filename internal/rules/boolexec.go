package rules

import (
	"fmt"
	"go/constant"
	"go/token"
	"sort"
	"strings"

	"golang.org/x/tools/go/ssa"
)

// boolExec is an exhaustive abstract execution of a small, loop-free, boolean-valued function
// over a finite abstraction of its inputs. leafOf names the abstract input a value stands for
// ("" if it is not a leaf): a leaf of kind bool takes both truth values, a leaf of kind len is
// the length of a list abstracted to {0, >=1}. Every path is followed with the leaves it reads
// assigned lazily; the result is the list of (partial assignment -> returned constant).
// Anything the evaluator does not understand makes the whole execution undecided (err != "").
type boolRow struct {
	Env map[string]bool
	Ret bool
}

type boolExec struct {
	leafBool func(v ssa.Value) string // leaf with a truth value
	leafLen  func(v ssa.Value) string // list whose emptiness is the leaf (true = empty)
	rows     []boolRow
	err      string
	steps    int
}

func (x *boolExec) run(f *ssa.Function) {
	if len(f.Blocks) == 0 {
		x.err = "no body"
		return
	}
	x.block(f.Blocks[0], nil, map[string]bool{})
}

func cloneEnv(e map[string]bool) map[string]bool {
	n := make(map[string]bool, len(e)+1)
	for k, v := range e {
		n[k] = v
	}
	return n
}

// block executes b (entered from pred) under env; forks when an unassigned leaf is read.
func (x *boolExec) block(b, pred *ssa.BasicBlock, env map[string]bool) {
	x.steps++
	if x.steps > 20000 {
		x.err = "path budget exhausted (loop?)"
		return
	}
	if x.err != "" {
		return
	}
	last := b.Instrs[len(b.Instrs)-1]
	switch t := last.(type) {
	case *ssa.Return:
		if len(t.Results) != 1 {
			x.err = "not a single-result function"
			return
		}
		x.eval(unspill(t.Results[0]), b, pred, env, func(v bool, e map[string]bool) {
			x.rows = append(x.rows, boolRow{Env: e, Ret: v})
		})
	case *ssa.If:
		x.eval(t.Cond, b, pred, env, func(v bool, e map[string]bool) {
			if v {
				x.block(b.Succs[0], b, e)
			} else {
				x.block(b.Succs[1], b, e)
			}
		})
	case *ssa.Jump:
		x.block(b.Succs[0], b, env)
	default:
		x.err = fmt.Sprintf("unsupported terminator %T", last)
	}
}

// eval computes the truth value of v in block b (entered from pred) and continues with k.
func (x *boolExec) eval(v ssa.Value, b, pred *ssa.BasicBlock, env map[string]bool, k func(bool, map[string]bool)) {
	if x.err != "" {
		return
	}
	if c, ok := v.(*ssa.Const); ok && c.Value != nil && c.Value.Kind() == constant.Bool {
		k(constant.BoolVal(c.Value), env)
		return
	}
	if name := x.leafBool(v); name != "" {
		x.leaf(name, env, k)
		return
	}
	switch t := v.(type) {
	case *ssa.UnOp:
		if t.Op == token.NOT {
			x.eval(t.X, b, pred, env, func(r bool, e map[string]bool) { k(!r, e) })
			return
		}
	case *ssa.Phi:
		// the edge taken is decided by the path: find the predecessor chain
		if t.Block() == b && pred != nil {
			for i, p := range b.Preds {
				if p == pred {
					x.eval(t.Edges[i], b, pred, env, k)
					return
				}
			}
		}
		x.err = "phi outside the executed block"
		return
	case *ssa.BinOp:
		// length comparison
		if name, cst, lenLeft := x.lenCmp(t); name != "" {
			x.leaf("empty:"+name, env, func(empty bool, e map[string]bool) {
				// evaluate for len = 0 and for every len >= 1 (the answer must not depend on which)
				ev := func(l int64) bool {
					a, c := l, cst
					if !lenLeft {
						a, c = cst, l
					}
					switch t.Op {
					case token.EQL:
						return a == c
					case token.NEQ:
						return a != c
					case token.LSS:
						return a < c
					case token.LEQ:
						return a <= c
					case token.GTR:
						return a > c
					case token.GEQ:
						return a >= c
					}
					return false
				}
				if empty {
					k(ev(0), e)
					return
				}
				r1 := ev(1)
				for _, l := range []int64{2, 3, 1 << 20} {
					if ev(l) != r1 {
						x.err = "a length is compared with a constant other than 0/1: the abstraction {empty, non-empty} is too coarse"
						return
					}
				}
				k(r1, e)
			})
			return
		}
		switch t.Op {
		case token.EQL, token.NEQ:
			x.eval(t.X, b, pred, env, func(l bool, e map[string]bool) {
				x.eval(t.Y, b, pred, e, func(r bool, e2 map[string]bool) {
					k((l == r) == (t.Op == token.EQL), e2)
				})
			})
			return
		case token.AND, token.OR:
			x.eval(t.X, b, pred, env, func(l bool, e map[string]bool) {
				x.eval(t.Y, b, pred, e, func(r bool, e2 map[string]bool) {
					if t.Op == token.AND {
						k(l && r, e2)
					} else {
						k(l || r, e2)
					}
				})
			})
			return
		}
	}
	x.err = fmt.Sprintf("value %s (%T) is outside the boolean abstraction", v.Name(), v)
}

func (x *boolExec) leaf(name string, env map[string]bool, k func(bool, map[string]bool)) {
	if val, ok := env[name]; ok {
		k(val, env)
		return
	}
	for _, val := range []bool{false, true} {
		e := cloneEnv(env)
		e[name] = val
		k(val, e)
	}
}

// lenCmp: t compares len(list) with an integer constant; returns the list's leaf name.
func (x *boolExec) lenCmp(t *ssa.BinOp) (name string, cst int64, lenLeft bool) {
	try := func(l, c ssa.Value) (string, int64, bool) {
		call, ok := l.(*ssa.Call)
		if !ok {
			return "", 0, false
		}
		bi, ok := call.Call.Value.(*ssa.Builtin)
		if !ok || bi.Name() != "len" {
			return "", 0, false
		}
		cv, ok := c.(*ssa.Const)
		if !ok || cv.Value == nil || cv.Value.Kind() != constant.Int {
			return "", 0, false
		}
		n := x.leafLen(call.Call.Args[0])
		if n == "" {
			return "", 0, false
		}
		i, _ := constant.Int64Val(cv.Value)
		return n, i, true
	}
	if n, c, ok := try(t.X, t.Y); ok {
		return n, c, true
	}
	if n, c, ok := try(t.Y, t.X); ok {
		return n, c, false
	}
	return "", 0, false
}

// check compares every row with the specification: for each completion of the row's partial
// assignment over vars that satisfies the side condition, want(assignment) must equal the row's result.
// Returns the list of counterexamples (as readable assignments) and the number of total assignments covered.
func (x *boolExec) check(vars []string, valid func(map[string]bool) bool, want func(map[string]bool) bool) (cex []string, covered int) {
	seen := map[string]bool{}
	for _, row := range x.rows {
		var free []string
		for _, v := range vars {
			if _, ok := row.Env[v]; !ok {
				free = append(free, v)
			}
		}
		for m := 0; m < 1<<len(free); m++ {
			e := cloneEnv(row.Env)
			for i, v := range free {
				e[v] = m&(1<<i) != 0
			}
			if !valid(e) {
				continue
			}
			var ks []string
			for _, v := range vars {
				ks = append(ks, fmt.Sprintf("%s=%v", v, e[v]))
			}
			id := strings.Join(ks, " ")
			if seen[id] {
				continue
			}
			seen[id] = true
			covered++
			if want(e) != row.Ret {
				cex = append(cex, fmt.Sprintf("{%s} -> %v (expected %v)", id, row.Ret, want(e)))
			}
		}
	}
	sort.Strings(cex)
	return cex, covered
}
