package rules

import (
	"fmt"
	"go/token"
	"go/types"
	"strings"

	"golang.org/x/tools/go/ssa"

	"verif/internal/core"
	"verif/internal/load"
)

func init() {
	Registry["C19"] = Set{
		Explanation: "Decides structural clauses of pool dispatch: W1 ring pairing — in the dispatcher every worker popped from the ring is followed, on every path to the next pop or to the return, by exactly one push of that worker or of its replacement — also when the replacement cannot be spawned (the dead worker keeps the slot and the next dispatch tries again; F-BY) —, and no path pushes twice; W2 ownership transfer — the forwarded mailbox message cannot reach ReleaseMailboxMessage in the pool's loop within the same iteration, and Process.Forward pushes the very object it was given and wakes the worker (so sender and reference survive); W3 respawn is taken exactly on ErrProcessUnknown/ErrProcessTerminated, the message is forwarded to the replacement, and the 'dropped' exit is reached only through the loop's exhaustion edge, the loop bound being the ring's length; W4 only messages popped from the Main queue whose type is below Exit are dispatched; W5 every worker is spawned with LinkParent and the configured worker mailbox size. Added while probing: W3 the loop counter runs from 0 in steps of one; W6 once the message was handed to a worker no further Forward is reachable in the same dispatch. W7 Process.Forward refuses a dead worker through the alive predicate (so the dispatcher sees the error and replaces it). W8 pooled objects across calls — when a function may release a pooled mailbox message it received as a parameter (directly, through a callee resolved statically or by the VTA call graph, or deferred), no caller releases or re-dispatches the same object on a path compatible with the callee's releasing path; paths are correlated through the nil-ness of the callee's error result (a double release hands one object to two later users: frames of unrelated connections overwrite each other, a request is presented twice or answered with another request's reference).",
		NotDecided: []string{
			"liveness of workers and distribution fairness",
			"loss of messages already queued at a worker that dies afterwards (permitted by the property)",
		},
		Assumptions: []string{"the pool's ring is only touched by the pool's own goroutine (C01) and by AddWorkers/RemoveWorkers which require the Running state"},
		Run:         runC19,
	}
}

func runC19(p *load.Program, r *core.Report) {
	pooledRelease(p, r, "C19.W8 mailbox-message-not-released-twice", "C19.W8", 0, "mailbox message", func(*ssa.Function) bool { return true })
	pool := p.Named("act", "Pool")
	if pool == nil {
		r.Unk("C19.anchors", "C19.anchors|Pool", "", "", "act.Pool found", "not found")
		return
	}
	fwd := p.Func("act", "Pool", "forward")
	run := p.Func("act", "Pool", "ProcessRun")
	if fwd == nil || run == nil {
		r.Unk("C19.anchors", "C19.anchors|funcs", "", "", "Pool.forward and Pool.ProcessRun found", fmt.Sprintf("forward=%v ProcessRun=%v", fwd != nil, run != nil))
		return
	}
	qi := p.Named("lib", "QueueMPSC")
	isRing := func(in ssa.Instruction, method string) bool {
		cc := callCommon(in)
		if cc == nil || !cc.IsInvoke() || cc.Method.Name() != method || cc.Value.Type() != types.Type(qi) {
			return false
		}
		_, path, ok := fieldPath(cc.Value)
		return ok && len(path) > 0 && path[len(path)-1] == "pool"
	}
	fn := fname(fwd)

	// ---- W1
	rule := "C19.W1 ring-pairing"
	r.Floor(rule, 2)
	var pops []ssa.Instruction
	eachInstr(fwd, func(in ssa.Instruction) {
		if isRing(in, "Pop") {
			pops = append(pops, in)
		}
	})
	if len(pops) == 0 {
		r.Unk(rule, "C19.W1|pop", fn, "", "dispatcher pops a worker", "no Pop on the ring in forward")
	}
	// spawn failure edge
	cut := map[Edge]bool{}
	var spawn *ssa.Call
	eachInstr(fwd, func(in ssa.Instruction) {
		if c, ok := in.(*ssa.Call); ok && callsNamed(in, "Spawn") {
			spawn = c
			// the spawn-failure edge is NOT excepted (it was, as "documented", until finding F-BY): a
			// slot that is dropped when the replacement cannot be started is lost for ever
		}
	})
	for i, pop := range pops {
		key := fmt.Sprintf("C19.W1|%s|pop#%d", fn, i+1)
		inst := "a worker taken from the ring is put back (or replaced) exactly once before the next pop or the return"
		stopOrPush := func(in ssa.Instruction) bool { return isRing(in, "Push") }
		target := func(in ssa.Instruction) bool { return isReturn(in) || (isRing(in, "Pop")) }
		r.Paths++
		bad := reachAvoidEdges([]Point{after(pop)}, cut, stopOrPush, target)
		var probs []string
		if bad != nil {
			probs = append(probs, "a path reaches "+p.Pos(bad.Pos())+" without pushing a worker back: the ring shrinks with every such dispatch until the pool drops all messages")
		}
		// double push
		eachInstr(fwd, func(in ssa.Instruction) {
			if !isRing(in, "Push") {
				return
			}
			if h := reaches([]Point{after(in)}, func(i2 ssa.Instruction) bool { return isRing(i2, "Pop") || isReturn(i2) }, func(i2 ssa.Instruction) bool { return isRing(i2, "Push") }); h != nil {
				probs = append(probs, "two pushes on one path ("+p.Pos(in.Pos())+" then "+p.Pos(h.Pos())+"): a worker appears twice in the ring")
			}
		})
		if len(probs) > 0 {
			r.Bad(rule, key, fn, p.Pos(pop.Pos()), inst, strings.Join(uniq(probs), "; "))
		} else {
			r.OK(rule, key, fn, p.Pos(pop.Pos()), inst, "every path, the spawn-failure edge included, pushes exactly once")
		}
	}
	// what is pushed: the popped value or the freshly spawned pid
	{
		key := "C19.W1|" + fn + "|pushed-values"
		var probs []string
		eachInstr(fwd, func(in ssa.Instruction) {
			if !isRing(in, "Push") {
				return
			}
			arg := stripIface(callCommon(in).Args[0])
			ok := false
			for _, pop := range pops {
				if ex := tupleExtract(pop.(ssa.Value), 0); ex != nil && (arg == ex || stripIface(arg) == ex) {
					ok = true
				}
			}
			if spawn != nil {
				if ex := tupleExtract(spawn, 0); ex != nil && arg == ex {
					ok = true
				}
			}
			if !ok {
				probs = append(probs, "push at "+p.Pos(in.Pos())+" stores something else than the popped worker or its replacement")
			}
		})
		if len(probs) > 0 {
			r.Bad(rule, key, fn, p.Pos(fwd.Pos()), "the ring only ever receives the worker just popped or the replacement just spawned", strings.Join(probs, "; "))
		} else {
			r.OK(rule, key, fn, p.Pos(fwd.Pos()), "the ring only ever receives the worker just popped or the replacement just spawned", "all push arguments verified")
		}
	}

	// ---- W3
	rule3 := "C19.W3 respawn-and-drop"
	r.Floor(rule3, 3)
	if spawn == nil {
		r.Bad(rule3, "C19.W3|"+fn+"|respawn", fn, p.Pos(fwd.Pos()), "a dead worker is replaced at dispatch time", "no Spawn in the dispatcher: a dead worker stays in the ring and every message routed to it is lost")
	} else {
		// dominated by comparisons of the Forward error with the two globals
		var conds []string
		var edges []Edge
		eachInstr(fwd, func(in ssa.Instruction) {
			b, ok := in.(*ssa.BinOp)
			if !ok || b.Op != token.EQL {
				return
			}
			for _, pr := range [][2]ssa.Value{{b.X, b.Y}, {b.Y, b.X}} {
				o := reasonOrigin(pr[1], 0)
				if o == "global:ErrProcessUnknown" || o == "global:ErrProcessTerminated" {
					if reasonOrigin(pr[0], 0) == "call:Forward" {
						conds = append(conds, strings.TrimPrefix(o, "global:"))
						t, _, _ := boolEdges(b)
						edges = append(edges, t...)
					}
				}
			}
		})
		key := "C19.W3|" + fn + "|respawn"
		inst := "a replacement is spawned exactly when forwarding failed with ErrProcessUnknown or ErrProcessTerminated"
		switch {
		case len(uniq(conds)) != 2:
			r.Bad(rule3, key, fn, p.Pos(spawn.Pos()), inst, "conditions found: "+strings.Join(uniq(conds), ", "))
		case !edgesDominate(edges, spawn):
			r.Bad(rule3, key, fn, p.Pos(spawn.Pos()), inst, "the respawn is reachable without one of the two conditions (e.g. for a full mailbox): live workers are duplicated")
		default:
			r.OK(rule3, key, fn, p.Pos(spawn.Pos()), inst, "Spawn dominated by the true edges of err == ErrProcessUnknown / ErrProcessTerminated")
		}
		// forward to the replacement with the same message
		key2 := "C19.W3|" + fn + "|forward-to-replacement"
		okf := false
		msgPar := paramOfType(fwd, "gen.MailboxMessage", 0)
		eachInstr(fwd, func(in ssa.Instruction) {
			cc := callCommon(in)
			if cc == nil || !callsNamed(in, "Forward") {
				return
			}
			args := cc.Args
			if !cc.IsInvoke() {
				args = args[1:]
			}
			if ex := tupleExtract(spawn, 0); ex != nil && len(args) >= 2 && args[0] == ex && args[1] == ssa.Value(msgPar) && instrDominates(spawn, in) {
				okf = true
			}
		})
		if okf {
			r.OK(rule3, key2, fn, p.Pos(spawn.Pos()), "the message goes to the replacement worker", "Forward(replacement, message) after the spawn")
		} else {
			r.Bad(rule3, key2, fn, p.Pos(spawn.Pos()), "the message goes to the replacement worker", "no Forward of the dispatched message to the freshly spawned worker: the message is lost although a worker was replaced")
		}
	}
	// drop exit only via loop exhaustion: the increment of the unhandled counter is reachable only via the false edge of i < l
	{
		key := "C19.W3|" + fn + "|drop"
		inst := "a message is dropped only after as many workers were tried as the ring held"
		var loopIf *ssa.If
		var bound ssa.Value
		eachInstr(fwd, func(in ssa.Instruction) {
			iff, ok := in.(*ssa.If)
			if !ok {
				return
			}
			if b, ok := iff.Cond.(*ssa.BinOp); ok && b.Op == token.LSS {
				if _, isPhi := b.X.(*ssa.Phi); isPhi {
					loopIf, bound = iff, b.Y
				}
			}
		})
		var drop ssa.Instruction
		eachInstr(fwd, func(in ssa.Instruction) {
			if st, ok := in.(*ssa.Store); ok {
				if _, fl := fieldOwner(st.Addr); fl == "unhandled" {
					drop = in
				}
			}
		})
		boundIsLen := false
		if c, ok := bound.(*ssa.Call); ok && isRing(c, "Len") {
			boundIsLen = true
		}
		// the counter starts at 0 and advances by one per worker tried
		startsAtZero := false
		if loopIf != nil {
			if ph, ok := loopIf.Cond.(*ssa.BinOp).X.(*ssa.Phi); ok {
				for _, e := range ph.Edges {
					if c, okc := constInt(e); okc && c == 0 {
						startsAtZero = true
					}
					if c, okc := constInt(e); okc && c != 0 {
						startsAtZero = false
						break
					}
				}
				for _, e := range ph.Edges {
					if b, okb := e.(*ssa.BinOp); okb {
						if c, okc := constInt(b.Y); !(b.Op == token.ADD && b.X == ssa.Value(ph) && okc && c == 1) {
							startsAtZero = false
						}
					}
				}
			}
		}
		switch {
		case loopIf != nil && drop != nil && boundIsLen && !startsAtZero:
			r.Bad(rule3, key, fn, p.Pos(loopIf.Pos()), inst, "the loop counter does not run 0, 1, 2, … up to the ring's length: fewer workers are tried than the ring holds and a message is dropped although a worker had room")
		case loopIf == nil || drop == nil:
			r.Unk(rule3, key, fn, p.Pos(fwd.Pos()), inst, "loop condition or drop accounting not found")
		case !boundIsLen:
			r.Bad(rule3, key, fn, p.Pos(loopIf.Pos()), inst, "the loop bound is not the ring's length: full workers are not all tried before a message is dropped (or the loop spins)")
		case !edgeDominates(Edge{loopIf.Block(), 1}, drop):
			r.Bad(rule3, key, fn, p.Pos(drop.Pos()), inst, "the drop is reachable without exhausting the loop")
		default:
			r.OK(rule3, key, fn, p.Pos(drop.Pos()), inst, "drop dominated by the loop's exhaustion edge; bound = pool.Len()")
		}
	}

	// ---- W2
	rule2 := "C19.W2 ownership-transfer"
	r.Floor(rule2, 3)
	{
		frun := fname(run)
		var fcall ssa.Instruction
		eachInstr(run, func(in ssa.Instruction) {
			if cc := callCommon(in); cc != nil && staticCallee(cc) == fwd {
				fcall = in
			}
		})
		key := "C19.W2|" + frun + "|no-release-after-forward"
		inst := "a dispatched mailbox message is not released by the pool (the worker owns it now)"
		if fcall == nil {
			r.Unk(rule2, key, frun, p.Pos(run.Pos()), inst, "no call of the dispatcher in the pool loop")
		} else {
			v := callCommon(fcall).Args[1]
			var bad []string
			// on the dispatch path the loop variable must not keep the dispatched object: no phi may
			// receive v over an edge whose source block lies on the dispatch path (dominated by the call's block)
			eachInstr(run, func(in ssa.Instruction) {
				phi, ok := in.(*ssa.Phi)
				if !ok {
					return
				}
				for i, e := range phi.Edges {
					if e != v {
						continue
					}
					pred := phi.Block().Preds[i]
					if pred == fcall.Block() || fcall.Block().Dominates(pred) {
						bad = append(bad, p.Pos(phi.Pos()))
					}
				}
			})
			// and no direct release of v after the call
			eachInstr(run, func(in ssa.Instruction) {
				cc := callCommon(in)
				if cc != nil && callsNamed(in, "ReleaseMailboxMessage") && cc.Args[0] == v && (in.Block() == fcall.Block() || fcall.Block().Dominates(in.Block())) {
					bad = append(bad, p.Pos(in.Pos()))
				}
			})
			if len(bad) > 0 {
				r.Bad(rule2, key, frun, p.Pos(fcall.Pos()), inst, "after the dispatch the loop variable still holds the dispatched message (at "+strings.Join(bad, ", ")+"): the pool releases it on the next iteration while the worker owns it — the worker handles a recycled message (wrong sender/reference or empty payload)")
			} else {
				r.OK(rule2, key, frun, p.Pos(fcall.Pos()), inst, "the loop variable is cleared on the dispatch path")
			}
		}
	}
	// the dispatcher itself never releases the message it hands over
	{
		key := "C19.W2|" + fn + "|dispatcher-does-not-release"
		msgPar := paramOfType(fwd, "gen.MailboxMessage", 0)
		var bad []string
		eachInstr(fwd, func(in ssa.Instruction) {
			cc := callCommon(in)
			if cc != nil && callsNamed(in, "ReleaseMailboxMessage") && len(cc.Args) > 0 && cc.Args[0] == ssa.Value(msgPar) {
				// allowed only where no Forward of this message can have succeeded before: i.e. not reachable from a Forward call
				eachInstr(fwd, func(i2 ssa.Instruction) {
					if callsNamed(i2, "Forward") && instrReachable(i2, in) {
						bad = append(bad, p.Pos(in.Pos()))
					}
				})
			}
		})
		inst := "the dispatcher does not release a message it may have handed to a worker"
		if len(bad) > 0 {
			r.Bad(rule2, key, fn, p.Pos(fwd.Pos()), inst, "ReleaseMailboxMessage(message) at "+strings.Join(uniq(bad), ", ")+" is reachable after a Forward of the same message")
		} else {
			r.OK(rule2, key, fn, p.Pos(fwd.Pos()), inst, "no release of the dispatched message after a Forward")
		}
	}
	// Process.Forward pushes what it was given and wakes
	if a, problems := getAnchors(p); len(problems) == 0 {
		pf := p.Func("node", a.ProcessT.Obj().Name(), "Forward")
		key := "C19.W2|Forward|same-object"
		inst := "Process.Forward enqueues the very mailbox message object it received (sender and reference are preserved) and wakes the worker"
		if pf == nil {
			r.Unk(rule2, key, "", "", inst, "(*process).Forward not found")
		} else {
			msgPar := paramOfType(pf, "gen.MailboxMessage", 0)
			ok := false
			eachInstr(pf, func(in ssa.Instruction) {
				cc := callCommon(in)
				if cc != nil && cc.IsInvoke() && cc.Method.Name() == "Push" && len(cc.Args) == 1 && stripIface(cc.Args[0]) == ssa.Value(msgPar) {
					ok = true
				}
			})
			if ok {
				r.OK(rule2, key, fname(pf), p.Pos(pf.Pos()), inst, "Push(message) with the parameter itself (wake-up: C02.D1)")
			} else {
				r.Bad(rule2, key, fname(pf), p.Pos(pf.Pos()), inst, "the pushed value is not the received message object")
			}
		}
	}

	// ---- W4
	rule4 := "C19.W4 only-main-below-exit"
	r.Floor(rule4, 1)
	{
		frun := fname(run)
		var fcall ssa.Instruction
		eachInstr(run, func(in ssa.Instruction) {
			if cc := callCommon(in); cc != nil && staticCallee(cc) == fwd {
				fcall = in
			}
		})
		key := "C19.W4|" + frun
		inst := "only messages popped from Main whose type is below Exit are dispatched to workers"
		if fcall != nil {
			var probs []string
			// Main pop success edge dominates
			mainOK := false
			eachInstr(run, func(in ssa.Instruction) {
				cc := callCommon(in)
				if cc == nil || !cc.IsInvoke() || cc.Method.Name() != "Pop" {
					return
				}
				ls := queueLeaves(cc.Value)
				if len(ls) == 1 && len(ls[0].Path) > 0 && ls[0].Path[len(ls[0].Path)-1] == "Main" {
					if okv := tupleExtract(in.(ssa.Value), 1); okv != nil {
						t, _, _ := boolEdges(okv)
						if edgesDominate(t, fcall) {
							mainOK = true
						}
					}
				}
			})
			if !mainOK {
				probs = append(probs, "the dispatch is not confined to messages popped from Main (System/Urgent messages such as exits would be handed to workers)")
			}
			// type < Exit
			typeOK := false
			exitV := int64(-1)
			for v, n := range enumConsts(p.Named("gen", "MailboxMessageType")) {
				if n == "MailboxMessageTypeExit" {
					exitV = v
				}
			}
			eachInstr(run, func(in ssa.Instruction) {
				b, ok := in.(*ssa.BinOp)
				if !ok || b.Op != token.LSS {
					return
				}
				_, path, okp := fieldPath(b.X)
				c, okc := constInt(b.Y)
				if okp && len(path) > 0 && path[len(path)-1] == "Type" && okc && c == exitV {
					t, _, _ := boolEdges(b)
					if edgesDominate(t, fcall) {
						typeOK = true
					}
				}
			})
			if !typeOK {
				probs = append(probs, "the dispatch is not guarded by message.Type < MailboxMessageTypeExit")
			}
			if len(probs) > 0 {
				r.Bad(rule4, key, frun, p.Pos(fcall.Pos()), inst, strings.Join(probs, "; "))
			} else {
				r.OK(rule4, key, frun, p.Pos(fcall.Pos()), inst, "dominated by Main.Pop success and Type < Exit")
			}
		}
	}

	// ---- W7 (= C02.D10 for Forward) a dead worker is recognised by the alive predicate, so that the
	// dispatcher sees ErrProcessTerminated and replaces it
	if a, problems := getAnchors(p); len(problems) == 0 {
		sub := core.NewReport("C19")
		pushes, _, _ := findMailboxPushes(a, sub)
		aliveGuard(a, r, "C19.W7 dead-worker-recognised", "C19.W7", 1, pushes, func(f *ssa.Function) bool { return f.Name() == "Forward" })
	} else {
		r.Unk("C19.W7 dead-worker-recognised", "C19.W7|anchors", "", "", "anchors resolve", strings.Join(problems, "; "))
	}

	// ---- W6 (= C07.Q6) a dispatched message is handed to one worker only
	poolSingleHandover(p, r, "C19.W6 handed-over-once", fwd)

	// ---- W5 worker options
	rule5 := "C19.W5 worker-options"
	r.Floor(rule5, 3)
	for _, f := range funcsOfPkgs(p, "act") {
		if !recvIs(root(f), pool) {
			continue
		}
		seq := 0
		eachInstr(f, func(in ssa.Instruction) {
			c, ok := in.(*ssa.Call)
			if !ok || !callsNamed(in, "Spawn") {
				return
			}
			seq++
			key := fmt.Sprintf("C19.W5|%s|spawn#%d", fname(f), seq)
			inst := "a pool worker is spawned linked to the pool and with the configured worker mailbox size"
			// options argument: a local struct with LinkParent = true and MailboxSize = ...WorkerMailboxSize
			var opt ssa.Value
			for _, a := range c.Common().Args {
				if namedOf(a.Type()) == "gen.ProcessOptions" {
					opt = a
				}
			}
			link, mbox := false, false
			if ld, ok := opt.(*ssa.UnOp); ok {
				if cell, ok := ld.X.(*ssa.Alloc); ok {
					for _, rf := range *cell.Referrers() {
						if fa, ok := rf.(*ssa.FieldAddr); ok {
							_, fl := fieldOwner(fa)
							for _, rr := range *fa.Referrers() {
								if st, ok := rr.(*ssa.Store); ok {
									if fl == "LinkParent" {
										if b, ok := constBool(st.Val); ok && b {
											link = true
										}
									}
									if fl == "MailboxSize" {
										if _, path, ok := fieldPath(st.Val); ok && len(path) > 0 && path[len(path)-1] == "WorkerMailboxSize" {
											mbox = true
										}
									}
								}
							}
						}
					}
				}
			}
			if link && mbox {
				r.OK(rule5, key, fname(f), p.Pos(in.Pos()), inst, "LinkParent = true, MailboxSize = WorkerMailboxSize")
			} else {
				r.Bad(rule5, key, fname(f), p.Pos(in.Pos()), inst, fmt.Sprintf("LinkParent true: %v, MailboxSize from WorkerMailboxSize: %v", link, mbox))
			}
		})
	}
}

// poolSingleHandover: in Pool.forward, once the message has been handed to a worker (the success
// edge of a Forward whose error is tested, or right after a Forward whose result is not looked at —
// the replacement worker) no further Forward is reachable: a request handed to two workers is
// processed twice and answered twice with the same reference.
func poolSingleHandover(p *load.Program, r *core.Report, rule string, fwd *ssa.Function) {
	rid := strings.SplitN(rule, " ", 2)[0]
	r.Floor(rule, 1)
	fn := fname(fwd)
	key := rid + "|" + fn
	inst := "after the message has been handed to a worker no second hand-over is reachable in the same dispatch"
	isFwd := func(in ssa.Instruction) bool {
		cc := callCommon(in)
		return cc != nil && callsNamed(in, "Forward") && len(cc.Args) >= 2
	}
	var calls []*ssa.Call
	eachInstr(fwd, func(in ssa.Instruction) {
		if c, ok := in.(*ssa.Call); ok && isFwd(in) {
			calls = append(calls, c)
		}
	})
	if len(calls) == 0 {
		r.Unk(rule, key, fn, p.Pos(fwd.Pos()), inst, "no Forward call in the dispatcher")
		return
	}
	var probs []string
	for _, c := range calls {
		var starts []Point
		isNil, _, _ := nilEdges(c)
		if len(isNil) > 0 {
			for _, e := range isNil {
				starts = append(starts, Point{e.To(), 0})
			}
		} else {
			starts = []Point{{c.Block(), indexIn(c) + 1}}
		}
		if hit := reaches(starts, nil, isFwd); hit != nil {
			probs = append(probs, fmt.Sprintf("after the hand-over at %s the Forward at %s is still reachable", p.Pos(c.Pos()), p.Pos(hit.Pos())))
		}
	}
	if len(probs) > 0 {
		r.Bad(rule, key, fn, p.Pos(fwd.Pos()), inst, strings.Join(probs, "; ")+": the same request is processed by two workers and answered twice")
	} else {
		r.OK(rule, key, fn, p.Pos(fwd.Pos()), inst, fmt.Sprintf("%d hand-over site(s), each followed by the return", len(calls)))
	}
}

var _ = load.Module
