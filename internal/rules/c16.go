package rules

import (
	"go/ast"
	"fmt"
	"go/token"
	"go/types"
	"sort"
	"strings"

	"golang.org/x/tools/go/ssa"

	"verif/internal/core"
	"verif/internal/load"
)

func init() {
	Registry["C16"] = Set{
		Explanation: "Decides structural clauses of hostile-input safety: B1 recover barriers — edf.Decode and the receive worker install a deferred recover (the worker's closes only its connection), and every goroutine started in net/proto, net/handshake and node's network code either has such a barrier or reaches peer-byte handling only through the functions proved by B2; B2 code that runs without a barrier proves its bounds: in the frame cutter the success return is dominated by 'declared length >= 8' and 'buffered >= declared length' and cuts the buffer to the declared length, the header read is dominated by a length guard whose bound is >= 6, every constant index the serve loop applies to a received frame is < 8, the handshake reader indexes only below its guard; the one relational site (tail = buf.B[l:total]) is accepted only in its recognised shape; B3 no length read from the wire reaches an allocator (reflect.MakeSlice/MakeMapWithSize/ArrayOf, make, Buffer.Allocate/Extend) without a dominating comparison against the remaining input or a constant cap whose failing edge leaves; B4 the handshake reader caps the declared message size and arms a read deadline before every read when a timeout is configured; the frame cutter compares the declared length with the node's max message size before it continues buffering. Added while probing: B1 follows dynamic calls through the VTA call graph. B5 pooled objects across calls — when a function may release a pooled buffer it received as a parameter (directly, through a callee resolved statically or by the VTA call graph, or deferred), no caller releases or re-dispatches the same object on a path compatible with the callee's releasing path; paths are correlated through the nil-ness of the callee's error result (a double release hands one object to two later users: frames of unrelated connections overwrite each other, a request is presented twice or answered with another request's reference). B3p the length of an array travels inside the folded TYPE: every reflect.New / MakeSlice of a type unfolded from the packet is dominated by the proportion predicate (n*T.Size() against the bytes left), directly or because getDecoder applies it to every type it unfolds; decoders unfolded from a local encoder's prefix are trusted. B6 the decoder that picks the next decoder from the packet's bytes compares a nesting counter with a constant before the dispatch (a stack overflow is fatal, no recover catches it). B1h every exported handshake entry point that reads a peer message turns a panic into its error result (the acceptor's goroutine has no recover and works on decoded VALUES). B3p also: a decoder taken from the connection cache of unfolded types is returned only behind the predicate (the check depends on the message, not only on the type). B5i = C12.R3i: no buffer is released twice inside one function, through phi nodes and flag-guarded releases (the pool is shared by all connections: malformed traffic on one corrupts frames of the others). B3q integers of a handshake message that size local resources (ConnectionOptions) are checked against a lower and an upper constant bound before they are taken over. B7 = C11.E12 for hostile input: no counted element loop over elements that consume no input.",
		NotDecided: []string{
			"re-encode equality of successfully decoded values",
			"CPU time of decoding, effects on other connections' throughput",
			"panics inside reflection for type-confused but well-bounded input (they are recovered by B1's barriers)",
		},
		Assumptions: []string{"reflect allocation size is proportional to the element count given", "a recovered panic in the receive worker terminates only that connection (checked: handler calls the connection's Terminate)"},
		Run:         runC16,
	}
}

func runC16(p *load.Program, r *core.Report) {
	c16Barriers(p, r)
	pooledRelease(p, r, "C16.B5 no-double-release-across-calls", "C16.B5", 15, "buffer", func(*ssa.Function) bool { return true })
	pooledIntra(p, r, "C16.B5i buffer-released-once", "C16.B5i", 12, "buffer", func(*ssa.Function) bool { return true })
	c16Bounds(p, r)
	c16Alloc(p, r)
	c16PeerTypedAlloc(p, r)
	c16DepthGuard(p, r)
	c16HandshakeBarriers(p, r)
	c16PeerSizes(p, r)
	c11NoProgressElements(p, r, "C16.B7 no-element-loop-without-progress", "C16.B7")
	c16Caps(p, r)
}

func hasRecoverDefer(f *ssa.Function) (*ssa.Function, bool) {
	var cl *ssa.Function
	eachInstr(f, func(in ssa.Instruction) {
		d, ok := in.(*ssa.Defer)
		if !ok {
			return
		}
		mc, ok := d.Call.Value.(*ssa.MakeClosure)
		if !ok {
			return
		}
		g := mc.Fn.(*ssa.Function)
		eachInstr(g, func(in2 ssa.Instruction) {
			if cc := callCommon(in2); cc != nil {
				if b, ok := cc.Value.(*ssa.Builtin); ok && b.Name() == "recover" {
					cl = g
				}
			}
		})
	})
	return cl, cl != nil
}

// c16Barriers: B1
func c16Barriers(p *load.Program, r *core.Report) {
	rule := "C16.B1 recover-barriers"
	r.Floor(rule, 6)
	// named barriers
	dec := p.Func("net/edf", "", "Decode")
	if dec == nil {
		r.Unk(rule, "C16.B1|edf.Decode", "", "", "edf.Decode found", "not found")
	} else if cl, ok := hasRecoverDefer(dec); ok {
		// converts to an error: stores into the named result
		stores := false
		eachInstr(cl, func(in ssa.Instruction) {
			if st, ok := in.(*ssa.Store); ok {
				if _, isFV := st.Addr.(*ssa.FreeVar); isFV {
					stores = true
				}
			}
		})
		if stores {
			r.OK(rule, "C16.B1|edf.Decode", fname(dec), p.Pos(dec.Pos()), "edf.Decode converts a panic on malformed input into an error", "deferred recover stores the error result")
		} else {
			r.Bad(rule, "C16.B1|edf.Decode", fname(dec), p.Pos(dec.Pos()), "edf.Decode converts a panic on malformed input into an error", "the recover handler does not set the error result: a malformed value decodes to (nil, nil)")
		}
	} else {
		r.Bad(rule, "C16.B1|edf.Decode", fname(dec), p.Pos(dec.Pos()), "edf.Decode converts a panic on malformed input into an error", "no deferred recover: a malformed value panics in the caller's goroutine")
	}
	// goroutine entries
	barrier := map[*ssa.Function]bool{}
	var entries []*ssa.Function
	entryPos := map[*ssa.Function]token.Pos{}
	for _, f := range p.SrcFuncs {
		ps := pkgSuffix(f)
		if ps != "net/proto" && ps != "net/handshake" && ps != "node" {
			continue
		}
		if ps == "node" {
			// only the network part of package node
			pos := p.Fset.Position(f.Pos())
			if !strings.HasSuffix(pos.Filename, "network.go") && !strings.HasSuffix(pos.Filename, "acceptor.go") {
				continue
			}
		}
		eachInstr(f, func(in ssa.Instruction) {
			g, ok := in.(*ssa.Go)
			if !ok {
				return
			}
			var callee *ssa.Function
			if mc, ok := g.Call.Value.(*ssa.MakeClosure); ok {
				callee = mc.Fn.(*ssa.Function)
			} else {
				callee = staticCallee(g.Common())
			}
			if callee == nil {
				return
			}
			if _, seen := entryPos[callee]; !seen {
				entries = append(entries, callee)
				entryPos[callee] = in.Pos()
			}
		})
	}
	for _, f := range p.SrcFuncs {
		if _, ok := hasRecoverDefer(f); ok {
			barrier[f] = true
		}
	}
	// functions that touch received bytes: index or slice a []byte
	touches := func(f *ssa.Function) bool {
		t := false
		eachInstr(f, func(in ssa.Instruction) {
			// only real slices count: a slice of a local fixed-size array (a hash sum, a read buffer) is
			// bounded by construction
			isSlice := func(t types.Type) bool {
				_, ok := t.Underlying().(*types.Slice)
				return ok && isByteSlice(t)
			}
			switch x := in.(type) {
			case *ssa.IndexAddr:
				if isSlice(x.X.Type()) {
					t = true
				}
			case *ssa.Slice:
				if isSlice(x.X.Type()) {
					t = true
				}
			}
		})
		if !t {
			return false
		}
		// received bytes enter a function through a []byte / *lib.Buffer parameter or a Read call;
		// a function that only indexes a buffer it builds itself (frame/handshake writers) is not concerned
		for _, pa := range f.Params {
			if isByteSlice(pa.Type()) || namedOf(pa.Type()) == "lib.Buffer" {
				return true
			}
		}
		reads := false
		eachInstr(f, func(in ssa.Instruction) {
			if callsNamed(in, "Read", "ReadDataFrom", "ReadFull", "ReadAtLeast") {
				reads = true
			}
		})
		return reads
	}
	proved := map[string]bool{}
	for _, n := range c16ProvedFuncs {
		proved[n] = true
	}
	sort.Slice(entries, func(i, j int) bool { return entries[i].String() < entries[j].String() })
	cg := p.CallGraph()
	for _, e := range entries {
		fn := fname(e)
		key := "C16.B1|go|" + fn
		inst := "goroutine entry: a panic caused by received bytes cannot escape (recover barrier, or only bounds-proved code touches the bytes)"
		if barrier[e] {
			r.OK(rule, key, fn, p.Pos(entryPos[e]), inst, "deferred recover at the entry")
			continue
		}
		// reachable without crossing a barrier
		seen := map[*ssa.Function]bool{e: true}
		queue := []*ssa.Function{e}
		var unproved []string
		for len(queue) > 0 {
			f := queue[0]
			queue = queue[1:]
			if f != e && barrier[f] {
				continue
			}
			ps := pkgSuffix(f)
			if (ps == "net/proto" || ps == "net/handshake" || ps == "net/edf") && touches(f) && !proved[f.Name()] && f.Parent() == nil {
				unproved = append(unproved, fname(f))
			}
			for _, g := range family(f) {
				if g != f && barrier[g] {
					continue
				}
				eachInstr(g, func(in ssa.Instruction) {
					if _, isGo := in.(*ssa.Go); isGo {
						return // another goroutine: its own entry
					}
					cc := callCommon(in)
					if cc == nil {
						return
					}
					var callees []*ssa.Function
					if sf := staticCallee(cc); sf != nil {
						callees = append(callees, sf)
					} else if node := cg.Nodes[g]; node != nil {
						// dynamic call: the callees the VTA call graph allows at this site
						for _, e := range node.Out {
							if e.Site == in.(ssa.CallInstruction) {
								callees = append(callees, e.Callee.Func)
							}
						}
					}
					for _, sf := range callees {
						if sf == nil || !inModule(sf) || seen[sf] {
							continue
						}
						seen[sf] = true
						queue = append(queue, sf)
					}
				})
			}
		}
		if len(unproved) > 0 {
			sort.Strings(unproved)
			r.Bad(rule, key, fn, p.Pos(entryPos[e]), inst, "no recover barrier, and it reaches byte-indexing code that B2 does not prove: "+strings.Join(uniq(unproved), ", ")+" — one malformed frame can crash the node")
		} else {
			r.OK(rule, key, fn, p.Pos(entryPos[e]), inst, fmt.Sprintf("no barrier; %d functions reachable, byte indexing only in B2-proved functions", len(seen)))
		}
	}
	// the receive worker's barrier closes this connection only
	if w := p.Func("net/proto", "connection", "handleRecvQueue"); w != nil {
		cl, ok := hasRecoverDefer(w)
		term := false
		if ok {
			eachInstr(cl, func(in ssa.Instruction) {
				if callsNamed(in, "Terminate") {
					term = true
				}
			})
		}
		if ok && term {
			r.OK(rule, "C16.B1|recv-worker", fname(w), p.Pos(w.Pos()), "a panic while handling a received frame terminates that connection only", "recover handler calls the connection's Terminate")
		} else {
			r.Bad(rule, "C16.B1|recv-worker", fname(w), p.Pos(w.Pos()), "a panic while handling a received frame terminates that connection only", "no recover handler that terminates the connection")
		}
	}
}

// functions whose byte indexing is proved by B2 (each has its own obligations below) plus
// the lib.Buffer primitives (bounds derived from len/cap of the buffer itself)
var c16ProvedFuncs = []string{"serve", "read", "readMessage"}

func isByteSlice(t types.Type) bool {
	s, ok := t.Underlying().(*types.Slice)
	if !ok {
		if p, ok := t.Underlying().(*types.Pointer); ok {
			if a, ok := p.Elem().Underlying().(*types.Array); ok {
				b, ok := a.Elem().Underlying().(*types.Basic)
				return ok && b.Kind() == types.Uint8
			}
		}
		return false
	}
	b, ok := s.Elem().Underlying().(*types.Basic)
	return ok && b.Kind() == types.Uint8
}

// lenOf: v is len(x) or x.Len() ; returns x's description
func isLenOf(v ssa.Value) (ssa.Value, bool) {
	c, ok := v.(*ssa.Call)
	if !ok {
		return nil, false
	}
	cc := c.Common()
	if b, ok := cc.Value.(*ssa.Builtin); ok && b.Name() == "len" {
		return cc.Args[0], true
	}
	if sf := staticCallee(cc); sf != nil && sf.Name() == "Len" && len(cc.Args) == 1 {
		return cc.Args[0], true
	}
	return nil, false
}

// guardLower: greatest constant c such that a dominating branch establishes v >= c at instruction `at`.
func guardLower(v ssa.Value, at ssa.Instruction) int64 {
	best := int64(-1 << 62)
	f := at.Parent()
	eachInstr(f, func(in ssa.Instruction) {
		iff, ok := in.(*ssa.If)
		if !ok {
			return
		}
		b, ok := iff.Cond.(*ssa.BinOp)
		if !ok {
			return
		}
		var c int64
		var okc bool
		var edge int
		switch {
		case b.X == v:
			c, okc = constInt(b.Y)
			switch b.Op {
			case token.LSS: // v < c false => v >= c
				edge = 1
			case token.GEQ:
				edge = 0
			case token.GTR: // v > c true => v >= c+1
				edge, c = 0, c+1
			case token.LEQ: // v <= c false => v >= c+1
				edge, c = 1, c+1
			default:
				okc = false
			}
		default:
			return
		}
		if !okc {
			return
		}
		if edgeDominates(Edge{iff.Block(), edge}, at) && c > best {
			best = c
		}
	})
	return best
}

// c16Bounds: B2
func c16Bounds(p *load.Program, r *core.Report) {
	rule := "C16.B2 unrecovered-code-proves-bounds"
	r.Floor(rule, 7)
	serve := p.Func("net/proto", "connection", "serve")
	read := p.Func("net/proto", "connection", "read")
	hread := p.Func("net/handshake", "handshake", "readMessage")
	if serve == nil || read == nil || hread == nil {
		r.Unk(rule, "C16.B2|anchors", "", "", "serve/read/readMessage resolve", fmt.Sprintf("serve=%v read=%v readMessage=%v", serve != nil, read != nil, hread != nil))
		return
	}
	// ---- read: declared length value
	var lenCall *ssa.Call
	eachInstr(read, func(in ssa.Instruction) {
		if c, ok := in.(*ssa.Call); ok {
			if sf := staticCallee(c.Common()); sf != nil && sf.Name() == "Uint32" {
				lenCall = c
			}
		}
	})
	fn := fname(read)
	if lenCall == nil {
		r.Unk(rule, "C16.B2|read|len", fn, "", "declared length is read", "no Uint32 read")
		return
	}
	var l ssa.Value = lenCall
	if refs := lenCall.Referrers(); refs != nil {
		for _, rf := range *refs {
			if cv, ok := rf.(*ssa.Convert); ok {
				l = cv
			}
		}
	}
	// success returns: first result not the nil constant
	var succ []*ssa.Return
	eachInstr(read, func(in ssa.Instruction) {
		if ret, ok := in.(*ssa.Return); ok && len(ret.Results) == 2 && !isNilConst(ret.Results[0]) {
			succ = append(succ, ret)
		}
	})
	if len(succ) == 0 {
		r.Unk(rule, "C16.B2|read|success", fn, "", "success return found", "none")
		return
	}
	for i, ret := range succ {
		lb := guardLower(l, ret)
		key := fmt.Sprintf("C16.B2|read|min-length#%d", i+1)
		inst := "a frame is handed to the serve loop only if its declared length is at least the 8-byte header"
		if lb >= 8 {
			r.OK(rule, key, fn, p.Pos(ret.Pos()), inst, fmt.Sprintf("success return dominated by declared length >= %d", lb))
		} else {
			r.Bad(rule, key, fn, p.Pos(ret.Pos()), inst, "the success return is not dominated by a test 'declared length >= 8': a frame that declares a shorter length is cut to that length and the serve loop, which runs without a recover barrier, indexes header bytes 0..7 of it — the node crashes")
		}
		// buffered >= declared: false edge of buf.Len() < l dominates
		okLen := false
		eachInstr(read, func(in ssa.Instruction) {
			iff, ok := in.(*ssa.If)
			if !ok {
				return
			}
			b, ok := iff.Cond.(*ssa.BinOp)
			if !ok || b.Op != token.LSS || b.Y != l {
				return
			}
			if _, isLen := isLenOf(b.X); isLen && edgeDominates(Edge{iff.Block(), 1}, ret) {
				okLen = true
			}
		})
		key2 := fmt.Sprintf("C16.B2|read|buffered#%d", i+1)
		inst2 := "a frame is cut only when at least the declared number of bytes is buffered"
		if okLen {
			r.OK(rule, key2, fn, p.Pos(ret.Pos()), inst2, "dominated by the false edge of buf.Len() < declared length")
		} else {
			r.Bad(rule, key2, fn, p.Pos(ret.Pos()), inst2, "no dominating test that the buffer holds the declared length: buf.B[:l] / buf.B[l:total] are out of range")
		}
		// cut to l
		cut := false
		eachInstr(read, func(in ssa.Instruction) {
			if sl, ok := in.(*ssa.Slice); ok && sl.High == l && sl.Low == nil && instrDominates(in, ret) {
				cut = true
			}
		})
		key3 := fmt.Sprintf("C16.B2|read|cut#%d", i+1)
		if cut {
			r.OK(rule, key3, fn, p.Pos(ret.Pos()), "the returned frame is exactly the declared length", "buf.B = buf.B[:declared] dominates the success return")
		} else {
			r.Bad(rule, key3, fn, p.Pos(ret.Pos()), "the returned frame is exactly the declared length", "the buffer is not cut to the declared length before it is returned")
		}
	}
	// header read [2:6] guarded: every slice/index of buf.B in read
	eachInstr(read, func(in ssa.Instruction) {
		sl, ok := in.(*ssa.Slice)
		if !ok || !isByteSlice(sl.X.Type()) {
			return
		}
		_, path, okp := fieldPath(sl.X)
		if !okp || len(path) == 0 || path[len(path)-1] != "B" {
			return
		}
		lo, loC := int64(0), sl.Low == nil
		hi, hiC := int64(0), false
		if sl.Low != nil {
			lo, loC = constInt(sl.Low)
		}
		if sl.High != nil {
			hi, hiC = constInt(sl.High)
		}
		desc := fmt.Sprintf("buf.B[%s:%s]", valName(sl.Low), valName(sl.High))
		key := "C16.B2|read|slice|" + desc
		switch {
		case loC && hiC:
			// need len >= hi: dominating false edge of Len() < expect with lower bound of expect >= hi
			need := hi
			ok := false
			detail := ""
			eachInstr(read, func(in2 ssa.Instruction) {
				iff, isIf := in2.(*ssa.If)
				if !isIf {
					return
				}
				b, isB := iff.Cond.(*ssa.BinOp)
				if !isB || b.Op != token.LSS {
					return
				}
				if _, isLen := isLenOf(b.X); !isLen || !edgeDominates(Edge{iff.Block(), 1}, in) {
					return
				}
				// lower bound of the bound expression
				env := &ivalEnv{}
				iv := evalIvalGuarded(b.Y, env)
				detail = fmt.Sprintf("guard bound range %s", iv)
				if int64(iv.lo) >= need {
					ok = true
				}
			})
			_ = lo
			if ok {
				r.OK(rule, key, fn, p.Pos(in.Pos()), "constant slice of the receive buffer is within the guarded length", detail)
			} else {
				r.Bad(rule, key, fn, p.Pos(in.Pos()), "constant slice of the receive buffer is within the guarded length", fmt.Sprintf("needs %d buffered bytes but the dominating length guard only guarantees %s", need, detail))
			}
		case sl.High != nil && sl.Low != nil && !loC && !hiC:
			// the relational site: tail = buf.B[l:total]
			okShape := sl.Low == l && mirrorsLen(sl.High)
			lb := guardLowerLenVs(read, l, in)
			if okShape && lb {
				r.OK(rule, key, fn, p.Pos(in.Pos()), "tail slice [declared:total]: total mirrors the buffer length and declared <= buffered (frozen exception: relational fact outside the interval domain)", "low bound is the declared length, high bound accumulates Len()+bytes read, dominated by buffered >= declared")
			} else {
				r.Unk(rule, key, fn, p.Pos(in.Pos()), "tail slice of the receive buffer is in range", "a slice with two variable bounds that is not the recognised [declared:total] shape")
			}
		}
	})
	// ---- serve: constant indexes < 8 on the frame; no variable index
	fs := fname(serve)
	var consts []int64
	var bad []string
	eachInstr(serve, func(in ssa.Instruction) {
		ia, ok := in.(*ssa.IndexAddr)
		if !ok || !isByteSlice(ia.X.Type()) {
			return
		}
		if c, ok := constInt(ia.Index); ok {
			consts = append(consts, c)
			if c >= 8 {
				bad = append(bad, fmt.Sprintf("index %d at %s", c, p.Pos(ia.Pos())))
			}
		} else {
			bad = append(bad, "variable index at "+p.Pos(ia.Pos()))
		}
	})
	eachInstr(serve, func(in ssa.Instruction) {
		if sl, ok := in.(*ssa.Slice); ok && isByteSlice(sl.X.Type()) {
			_, path, _ := fieldPath(sl.X)
			if len(path) > 0 && path[len(path)-1] == "B" {
				bad = append(bad, "slice of the frame at "+p.Pos(sl.Pos()))
			}
		}
	})
	key := "C16.B2|serve|header-indexes"
	inst := "the serve loop (no recover barrier) indexes a received frame only inside the 8-byte header that read guarantees"
	if len(bad) > 0 || len(consts) == 0 {
		r.Bad(rule, key, fs, p.Pos(serve.Pos()), inst, strings.Join(bad, "; "))
	} else {
		r.OK(rule, key, fs, p.Pos(serve.Pos()), inst, fmt.Sprintf("constant indexes %v, all < 8", consts))
	}
	// the frame is used only after read succeeded
	// ---- handshake readMessage: indexes of chunk below the guard
	fh := fname(hread)
	var probs []string
	n := 0
	eachInstr(hread, func(in ssa.Instruction) {
		var need int64 = -1
		var base ssa.Value
		switch x := in.(type) {
		case *ssa.IndexAddr:
			if !isByteSlice(x.X.Type()) {
				return
			}
			if _, isArr := x.X.Type().Underlying().(*types.Pointer); isArr {
				return // local array b[...]
			}
			c, ok := constInt(x.Index)
			if !ok {
				probs = append(probs, "variable index at "+p.Pos(x.Pos()))
				return
			}
			need, base = c+1, x.X
		case *ssa.Slice:
			if !isByteSlice(x.X.Type()) {
				return
			}
			if _, isArr := x.X.Type().Underlying().(*types.Pointer); isArr {
				return
			}
			var hi, lo int64
			okh, okl := true, true
			if x.High != nil {
				hi, okh = constInt(x.High)
			}
			if x.Low != nil {
				lo, okl = constInt(x.Low)
			}
			if !okh || !okl {
				// b[:n] of the local array / append source: skip arrays; chunk[6:] has const low
				if x.High != nil && !okh {
					if _, isAl := x.X.(*ssa.Alloc); isAl {
						return
					}
					probs = append(probs, "variable slice bound at "+p.Pos(x.Pos()))
				}
				return
			}
			need = hi
			if lo > need {
				need = lo
			}
			base = x.X
		default:
			return
		}
		if need <= 0 {
			return
		}
		n++
		// dominating guard len(base) < E with lower bound of E >= need
		ok := false
		eachInstr(hread, func(in2 ssa.Instruction) {
			iff, isIf := in2.(*ssa.If)
			if !isIf {
				return
			}
			b, isB := iff.Cond.(*ssa.BinOp)
			if !isB || b.Op != token.LSS {
				return
			}
			lx, isLen := isLenOf(b.X)
			if !isLen || lx != base || !edgeDominates(Edge{iff.Block(), 1}, in) {
				return
			}
			iv := evalIvalGuarded(b.Y, &ivalEnv{})
			if int64(iv.lo) >= need {
				ok = true
			}
		})
		if !ok {
			probs = append(probs, fmt.Sprintf("access needing %d bytes at %s is not covered by a dominating length guard", need, p.Pos(in.Pos())))
		}
	})
	key = "C16.B2|readMessage|indexes"
	inst = "the handshake reader indexes the received chunk only below its dominating length guard"
	if len(probs) > 0 || n == 0 {
		r.Bad(rule, key, fh, p.Pos(hread.Pos()), inst, strings.Join(probs, "; "))
	} else {
		r.OK(rule, key, fh, p.Pos(hread.Pos()), inst, fmt.Sprintf("%d constant accesses covered", n))
	}
}

func valName(v ssa.Value) string {
	if v == nil {
		return ""
	}
	if c, ok := constInt(v); ok {
		return fmt.Sprint(c)
	}
	// parameter / named local
	switch x := v.(type) {
	case *ssa.Phi:
		if x.Comment != "" {
			return x.Comment
		}
	case *ssa.Convert:
		return "declared"
	}
	return "var"
}

// mirrorsLen: value is built only from Len() of a buffer and byte counts returned by reads (+).
func mirrorsLen(v ssa.Value) bool {
	seen := map[ssa.Value]bool{}
	var rec func(v ssa.Value, d int) bool
	rec = func(v ssa.Value, d int) bool {
		if seen[v] || d > 8 {
			return true
		}
		seen[v] = true
		switch x := v.(type) {
		case *ssa.Phi:
			for _, e := range x.Edges {
				if !rec(e, d+1) {
					return false
				}
			}
			return true
		case *ssa.BinOp:
			return x.Op == token.ADD && rec(x.X, d+1) && rec(x.Y, d+1)
		case *ssa.Call:
			if _, ok := isLenOf(x); ok {
				return true
			}
		case *ssa.Extract:
			if c, ok := x.Tuple.(*ssa.Call); ok {
				if sf := staticCallee(c.Common()); sf != nil && strings.HasPrefix(sf.Name(), "Read") {
					return true
				}
			}
		}
		return false
	}
	return rec(v, 0)
}

func guardLowerLenVs(f *ssa.Function, l ssa.Value, at ssa.Instruction) bool {
	ok := false
	eachInstr(f, func(in ssa.Instruction) {
		iff, isIf := in.(*ssa.If)
		if !isIf {
			return
		}
		b, isB := iff.Cond.(*ssa.BinOp)
		if !isB || b.Op != token.LSS || b.Y != l {
			return
		}
		if _, isLen := isLenOf(b.X); isLen && edgeDominates(Edge{iff.Block(), 1}, at) {
			ok = true
		}
	})
	return ok
}

// evalIvalGuarded: interval of v where each phi edge value is additionally bounded below by the
// guards dominating the end of the predecessor block.
func evalIvalGuarded(v ssa.Value, env *ivalEnv) ival {
	if env.seen == nil {
		env.seen = map[ssa.Value]bool{}
	}
	if phi, ok := v.(*ssa.Phi); ok {
		if env.seen[phi] {
			// loop-carried value: neutral element of the union (the other edges decide)
			return ival{lo: ^uint64(0), hi: 0}
		}
		env.seen[phi] = true
		var r *ival
		for i, e := range phi.Edges {
			iv := evalIvalGuarded(e, env)
			pred := phi.Block().Preds[i]
			if len(pred.Instrs) > 0 {
				if lb := guardLower(e, pred.Instrs[len(pred.Instrs)-1]); lb > int64(iv.lo) {
					iv.lo = uint64(lb)
				}
			}
			if r == nil {
				c := iv
				r = &c
			} else {
				u := union(*r, iv)
				r = &u
			}
		}
		if r != nil {
			return *r
		}
	}
	if b, ok := v.(*ssa.BinOp); ok && b.Op == token.ADD {
		a, c := evalIvalGuarded(b.X, env), evalIvalGuarded(b.Y, env)
		if a.hi+c.hi >= a.hi {
			return ival{lo: a.lo + c.lo, hi: a.hi + c.hi}
		}
	}
	return evalIval(v, env)
}

// c16Alloc: B3
func c16Alloc(p *load.Program, r *core.Report) {
	rule := "C16.B3 no-unsanitised-length-to-allocator"
	r.Floor(rule, 7)
	seq := map[string]int{}
	sinkIn := map[*ssa.Function]bool{}
	defer func() {
		// the decompressors read the unpacked size the peer declares: an obligation of their own, so
		// that "no allocator takes it" stays a recorded fact (and a re-introduced pre-allocation is a
		// new instance of the rule above)
		for _, f := range funcsOfPkgs(p, "lib") {
			if f.Parent() != nil || !strings.HasPrefix(f.Name(), "Decompress") {
				continue
			}
			reads := false
			eachInstr(f, func(in ssa.Instruction) {
				if c, ok := in.(*ssa.Call); ok {
					if sf := staticCallee(c.Common()); sf != nil && sf.Name() == "Uint32" && sf.Pkg != nil && sf.Pkg.Pkg.Path() == "encoding/binary" {
						reads = true
					}
				}
			})
			if !reads || sinkIn[f] {
				continue
			}
			key := "C16.B3|" + fname(f) + "|declared-size"
			r.OK(rule, key, fname(f), p.Pos(f.Pos()), "the unpacked size declared by the peer is used for validation only", "it reaches no allocator in this function (the buffer grows with the data really unpacked)")
		}
	}()
	for _, f := range funcsOfPkgs(p, "net/edf", "net/proto", "net/handshake", "lib") {
		eachInstr(f, func(in ssa.Instruction) {
			var lenArgs []ssa.Value
			what := ""
			switch x := in.(type) {
			case *ssa.MakeSlice:
				lenArgs, what = []ssa.Value{x.Len, x.Cap}, "make([]T, n)"
			default:
				cc := callCommon(in)
				if cc == nil {
					return
				}
				sf := staticCallee(cc)
				if sf == nil {
					return
				}
				switch {
				case sf.Pkg != nil && sf.Pkg.Pkg.Path() == "reflect" && (sf.Name() == "MakeSlice" || sf.Name() == "MakeMapWithSize"):
					lenArgs, what = cc.Args[1:], "reflect."+sf.Name()
				case sf.Pkg != nil && sf.Pkg.Pkg.Path() == "reflect" && sf.Name() == "ArrayOf":
					// makes a type, allocates nothing in proportion to n: the length travels inside the
					// type and is judged where values of that type are allocated (B3p)
					return
				case (sf.Name() == "Allocate" || sf.Name() == "Extend") && sf.Signature.Recv() != nil && namedOf(sf.Signature.Recv().Type()) == "lib.Buffer":
					lenArgs, what = cc.Args[1:], "Buffer."+sf.Name()
				default:
					return
				}
			}
			var tainted ssa.Value
			for _, a := range lenArgs {
				if a != nil && derivesFromWire(a, 0) {
					tainted = a
				}
			}
			if tainted == nil {
				return
			}
			fn := fname(f)
			sinkIn[f] = true
			seq[fn+what]++
			key := fmt.Sprintf("C16.B3|%s|%s#%d", fn, what, seq[fn+what])
			inst := what + " with a size read from the wire is preceded by a comparison against the remaining input or a constant cap"
			if sanitised(tainted, in) {
				r.OK(rule, key, fn, p.Pos(in.Pos()), inst, "dominated by the in-range edge of a comparison of the size with len(input) / a constant")
			} else {
				r.Bad(rule, key, fn, p.Pos(in.Pos()), inst, "the declared size reaches the allocator unchecked: a few input bytes make the node allocate memory out of all proportion to the input")
			}
		})
	}
}

// sanitised: `at` is dominated by the edge of a comparison v <= bound (bound = len(...) or constant), v the tainted value or its conversion source.
func sanitised(v ssa.Value, at ssa.Instruction) bool {
	f := at.Parent()
	cands := map[ssa.Value]bool{v: true}
	if c, ok := v.(*ssa.Convert); ok {
		cands[c.X] = true
	}
	if refs := v.Referrers(); refs != nil {
		for _, rf := range *refs {
			if c, ok := rf.(*ssa.Convert); ok {
				cands[c] = true
			}
		}
	}
	ok := false
	isBound := func(x ssa.Value) bool {
		if _, isC := constInt(x); isC {
			return true
		}
		if _, isL := isLenOf(x); isL {
			return true
		}
		// field holding a configured limit
		if _, path, okp := fieldPath(x); okp && len(path) > 0 && strings.Contains(strings.ToLower(path[len(path)-1]), "max") {
			return true
		}
		return false
	}
	for _, g := range family(root(f)) {
		if g != f {
			continue
		}
		eachInstr(g, func(in ssa.Instruction) {
			iff, isIf := in.(*ssa.If)
			if !isIf {
				return
			}
			b, isB := iff.Cond.(*ssa.BinOp)
			if !isB {
				return
			}
			var edge = -1
			switch {
			case cands[b.X] && isBound(b.Y):
				switch b.Op {
				case token.GTR, token.GEQ:
					edge = 1
				case token.LEQ, token.LSS:
					edge = 0
				}
			case cands[b.Y] && isBound(b.X):
				switch b.Op {
				case token.LSS, token.LEQ:
					edge = 1
				case token.GTR, token.GEQ:
					edge = 0
				}
			}
			if edge >= 0 && edgeDominates(Edge{iff.Block(), edge}, at) {
				ok = true
			}
		})
	}
	return ok
}

// c16Caps: B4
func c16Caps(p *load.Program, r *core.Report) {
	rule := "C16.B4 caps-and-deadlines"
	r.Floor(rule, 3)
	hread := p.Func("net/handshake", "handshake", "readMessage")
	read := p.Func("net/proto", "connection", "read")
	if hread != nil {
		fn := fname(hread)
		// cap: the declared length is compared with a constant and the too-long edge returns an error before the decode
		var l ssa.Value
		eachInstr(hread, func(in ssa.Instruction) {
			if c, ok := in.(*ssa.Call); ok {
				if sf := staticCallee(c.Common()); sf != nil && sf.Name() == "Uint32" {
					l = c
					if refs := c.Referrers(); refs != nil {
						for _, rf := range *refs {
							if cv, ok := rf.(*ssa.Convert); ok {
								l = cv
							}
						}
					}
				}
			}
		})
		var decode ssa.Instruction
		eachInstr(hread, func(in ssa.Instruction) {
			if callsNamed(in, "Decode") {
				decode = in
			}
		})
		capOK := false
		capVal := int64(0)
		if l != nil && decode != nil {
			eachInstr(hread, func(in ssa.Instruction) {
				iff, ok := in.(*ssa.If)
				if !ok {
					return
				}
				b, ok := iff.Cond.(*ssa.BinOp)
				if !ok || b.X != l {
					return
				}
				c, okc := constInt(b.Y)
				if okc && b.Op == token.GTR && edgeDominates(Edge{iff.Block(), 1}, decode) {
					capOK, capVal = true, c
				}
			})
		}
		if capOK && capVal <= 1<<20 {
			r.OK(rule, "C16.B4|handshake-cap", fn, p.Pos(hread.Pos()), "a handshake message larger than the cap is refused before it is buffered or decoded", fmt.Sprintf("declared length > %d returns an error", capVal))
		} else {
			r.Bad(rule, "C16.B4|handshake-cap", fn, p.Pos(hread.Pos()), "a handshake message larger than the cap is refused before it is buffered or decoded", "no constant cap on the declared handshake message length dominates the decode: an unauthenticated peer makes the node buffer up to 4 GiB")
		}
		// deadline: every conn.Read is preceded (same block or dominating, on the timeout>0 edge) by SetReadDeadline
		var reads []ssa.Instruction
		eachInstr(hread, func(in ssa.Instruction) {
			cc := callCommon(in)
			if cc != nil && cc.IsInvoke() && cc.Method.Name() == "Read" {
				reads = append(reads, in)
			}
		})
		okDl := len(reads) > 0
		for _, rd := range reads {
			// a SetReadDeadline with a non-zero time reaches rd on the timeout > 0 path: there is an If (timeout > 0) whose true branch sets the deadline and flows into rd
			found := false
			eachInstr(hread, func(in ssa.Instruction) {
				cc := callCommon(in)
				if cc == nil || !cc.IsInvoke() || cc.Method.Name() != "SetReadDeadline" {
					return
				}
				// argument is time.Now().Add(timeout) (a call), not the zero Time
				if _, isCall := cc.Args[0].(*ssa.Call); !isCall {
					return
				}
				if reaches([]Point{after(in)}, nil, func(i ssa.Instruction) bool { return i == rd }) != nil {
					// and the block of the deadline is the only way into rd when timeout > 0: the read's block has the deadline block as predecessor
					for _, pr := range rd.Block().Preds {
						if pr == in.Block() {
							found = true
						}
					}
					if in.Block() == rd.Block() {
						found = true
					}
				}
			})
			if !found {
				okDl = false
			}
		}
		if okDl {
			r.OK(rule, "C16.B4|handshake-deadline", fn, p.Pos(hread.Pos()), "every read of the handshake is preceded by arming the read deadline when a timeout is configured", fmt.Sprintf("%d read site(s)", len(reads)))
		} else {
			r.Bad(rule, "C16.B4|handshake-deadline", fn, p.Pos(hread.Pos()), "every read of the handshake is preceded by arming the read deadline when a timeout is configured", "a read is not preceded by SetReadDeadline(now+timeout): a silent peer holds the acceptor forever")
		}
	}
	if read != nil {
		fn := fname(read)
		// max message size: If (l > c.node_maxmessagesize) error edge; dominates the `expect = l` continuation: i.e. dominates every block that reaches the loop back edge with expect=l
		found := false
		eachInstr(read, func(in ssa.Instruction) {
			iff, ok := in.(*ssa.If)
			if !ok {
				return
			}
			b, ok := iff.Cond.(*ssa.BinOp)
			if !ok || b.Op != token.GTR {
				return
			}
			_, path, okp := fieldPath(b.Y)
			if okp && len(path) > 0 && strings.Contains(path[len(path)-1], "maxmessagesize") {
				if _, isConv := b.X.(*ssa.Convert); isConv {
					// true edge returns an error
					for _, ret := range walkAvoid([]Point{{iff.Block().Succs[0], 0}}, nil, isReturn) {
						if rr := ret.(*ssa.Return); isNilConst(rr.Results[0]) && !isNilConst(rr.Results[1]) {
							found = true
						}
					}
				}
			}
		})
		if found {
			r.OK(rule, "C16.B4|frame-max-size", fn, p.Pos(read.Pos()), "a frame declaring more than the node's max message size is refused before buffering continues", "declared length > node_maxmessagesize returns an error")
		} else {
			r.Bad(rule, "C16.B4|frame-max-size", fn, p.Pos(read.Pos()), "a frame declaring more than the node's max message size is refused before buffering continues", "no comparison of the declared length with the node's max message size: a peer makes the node buffer 4 GiB per link")
		}
	}
}

var _ = load.Module

// c16PeerTypedAlloc: B3p — the length of an array is part of the folded TYPE the peer sends, so it
// reaches no allocator as a number: it sits in the reflect.Type every holder of that type
// allocates. Every allocation in net/edf of a value whose type was unfolded from the packet
// (reflect.New(T) / reflect.MakeSlice(T, n, n) with T a decoder's Type obtained from
// decodeType/getDecoder, or a local reflect.ArrayOf/SliceOf/MapOf result) is dominated by the true
// edge of the proportion predicate — the function that compares n*T.Size() with the length of the
// remaining packet — on that type; a type that came out of getDecoder is covered when getDecoder
// itself applies the predicate to every type it unfolds. Decoders built from a LOCAL type's encoder
// prefix (registration) are trusted: their sizes are fixed by the program.
func c16PeerTypedAlloc(p *load.Program, r *core.Report) {
	rule := "C16.B3p peer-typed-values-allocated-in-proportion"
	r.Floor(rule, 12)
	fns := funcsOfPkgs(p, "net/edf")
	// the proportion predicate, recognised by shape
	var pred *ssa.Function
	for _, f := range fns {
		if f.Parent() != nil || len(f.Params) != 3 || f.Signature.Results().Len() != 1 {
			continue
		}
		if f.Params[0].Type().String() != "reflect.Type" || f.Signature.Results().At(0).Type().String() != "bool" {
			continue
		}
		if _, ok := f.Params[2].Type().Underlying().(*types.Slice); !ok {
			continue
		}
		size, ln := false, false
		eachInstr(f, func(in ssa.Instruction) {
			if cc := callCommon(in); cc != nil {
				if cc.IsInvoke() && cc.Method.Name() == "Size" && cc.Value == ssa.Value(f.Params[0]) {
					size = true
				}
				// or the extent the peer has declared in the type itself: the type goes to a helper
				// that multiplies the lengths (reflect.Type.Len) of the arrays it is made of
				if g := staticCallee(cc); g != nil && len(cc.Args) == 1 && cc.Args[0] == ssa.Value(f.Params[0]) && len(g.Params) == 1 {
					eachInstr(g, func(x ssa.Instruction) {
						if c2 := callCommon(x); c2 != nil && c2.IsInvoke() && c2.Method.Name() == "Len" && c2.Value == ssa.Value(g.Params[0]) {
							size = true
						}
					})
				}
				if b, ok := cc.Value.(*ssa.Builtin); ok && b.Name() == "len" && len(cc.Args) == 1 && cc.Args[0] == ssa.Value(f.Params[2]) {
					ln = true
				}
			}
		})
		if size && ln {
			pred = f
		}
	}
	if pred == nil {
		r.Bad(rule, "C16.B3p|predicate", "", "", "a proportion predicate (the extent of n values of T — T.Size() or the array lengths declared in T — against len(packet)) exists in net/edf", "none found: values of peer-declared types (arrays whose length is part of the type) are allocated without any relation to the size of the input")
		return
	}
	isPred := func(in ssa.Instruction, t ssa.Value) bool {
		c, ok := in.(*ssa.Call)
		if !ok || staticCallee(c.Common()) != pred {
			return false
		}
		return sameTypeValue(c.Common().Args[0], t)
	}
	predGuards := func(t ssa.Value, at ssa.Instruction) bool {
		ok := false
		eachInstr(at.Parent(), func(in ssa.Instruction) {
			if !isPred(in, t) {
				return
			}
			tr, _, complete := boolEdges(in.(*ssa.Call))
			if complete && len(tr) > 0 && edgesDominate(tr, at) {
				ok = true
			}
		})
		return ok
	}
	// getDecoder-like functions: return a decoder they obtained from decodeType only behind the predicate
	unfold := p.Func("net/edf", "", "decodeType")
	checkedSource := map[*ssa.Function]bool{}
	if unfold != nil {
		for _, f := range fns {
			if f.Parent() != nil || f == unfold {
				continue
			}
			calls := 0
			okAll := true
			eachInstr(f, func(in ssa.Instruction) {
				c, ok := in.(*ssa.Call)
				if !ok || staticCallee(c.Common()) != unfold {
					return
				}
				// returns a *decoder? only then it is a source
				if f.Signature.Results().Len() == 0 || !strings.HasSuffix(f.Signature.Results().At(0).Type().String(), "decoder") {
					return
				}
				calls++
				dec := tupleExtract(c, 0)
				// every successful return reachable from here passes the predicate on dec.Type
				hit := reaches([]Point{after(in)}, func(x ssa.Instruction) bool {
					cc, ok := x.(*ssa.Call)
					if !ok || staticCallee(cc.Common()) != pred {
						return false
					}
					b, path, okp := fieldPath(cc.Common().Args[0])
					return okp && len(path) == 1 && path[0] == "Type" && canon(b) == canon(dec)
				}, func(x ssa.Instruction) bool {
					rt, ok := x.(*ssa.Return)
					return ok && len(rt.Results) > 0 && rt.Results[0] == dec
				})
				if hit != nil {
					okAll = false
				}
			})
			// a decoder taken from the per-connection cache of unfolded types (decodeType stores what it
			// unfolds there, keyed by the fold) is as peer-typed as a fresh one: the check depends on
			// the bytes left in THIS message, so "checked when it was unfolded" does not hold
			if calls > 0 {
				eachInstr(f, func(in ssa.Instruction) {
					rt, ok := in.(*ssa.Return)
					if !ok || len(rt.Results) == 0 {
						return
					}
					ta, ok := rt.Results[0].(*ssa.TypeAssert)
					if !ok {
						return
					}
					ex, ok := ta.X.(*ssa.Extract)
					if !ok {
						return
					}
					ld, ok := ex.Tuple.(*ssa.Call)
					if !ok {
						return
					}
					if m, okm := syncMapCall(ld.Common()); !okm || m != "Load" {
						return
					}
					if _, path, okp := fieldPath(ld.Common().Args[0]); !okp || len(path) == 0 || path[len(path)-1] != "Cache" {
						return
					}
					guarded := false
					eachInstr(f, func(x ssa.Instruction) {
						cc, ok := x.(*ssa.Call)
						if !ok || staticCallee(cc.Common()) != pred {
							return
						}
						b, path, okp := fieldPath(cc.Common().Args[0])
						if okp && len(path) == 1 && path[0] == "Type" && canon(b) == canon(ta) {
							if t, _, complete := boolEdges(cc); complete && edgesDominate(t, in) {
								guarded = true
							}
						}
					})
					if !guarded {
						okAll = false
						r.Bad(rule, "C16.B3p|"+fname(f)+"|cached-decoder", fname(f), p.Pos(in.Pos()), "a decoder of a peer-declared type taken from the connection's cache is returned only behind the proportion predicate", "returned unchecked: the first (refused) message primes the cache, the second one gets the decoder of [2^27]uint8 without any relation to its 13 bytes")
					}
				})
			}
			if calls > 0 && okAll {
				checkedSource[f] = true
			}
		}
	}
	seq := map[string]int{}
	for _, f := range fns {
		eachInstr(f, func(in ssa.Instruction) {
			cc := callCommon(in)
			if cc == nil {
				return
			}
			sf := staticCallee(cc)
			if sf == nil || sf.Pkg == nil || sf.Pkg.Pkg.Path() != "reflect" || (sf.Name() != "New" && sf.Name() != "MakeSlice") {
				return
			}
			t := cc.Args[0]
			if sf.Name() == "MakeSlice" {
				if l, ok := constInt(cc.Args[1]); ok && l == 0 {
					if c, ok := constInt(cc.Args[2]); ok && c == 0 {
						return // an empty slice: nothing is allocated for elements
					}
				}
			}
			origin, trusted := typeOrigin(t, unfold, checkedSource)
			if origin == "" {
				return // a local program type
			}
			fn := fname(f)
			seq[fn]++
			key := fmt.Sprintf("C16.B3p|%s|reflect.%s#%d", fn, sf.Name(), seq[fn])
			inst := "a value of a type unfolded from the packet is allocated only in proportion to the remaining input"
			pos := p.Pos(in.Pos())
			switch {
			case trusted != "":
				r.OK(rule, key, fn, pos, inst, origin+": "+trusted)
			case predGuards(t, in):
				r.OK(rule, key, fn, pos, inst, origin+"; dominated by the true edge of "+pred.Name()+" on that type")
			case sf.Name() == "MakeSlice" && sliceElemGuard(t, in, pred):
				r.OK(rule, key, fn, pos, inst, origin+"; n elements: dominated by the true edge of "+pred.Name()+" on the element type with n")
			default:
				r.Bad(rule, key, fn, pos, inst, origin+": allocated without the proportion check — the peer declares an array type of 2^28 elements in a dozen bytes and the node allocates gigabytes before reading any element")
			}
		})
	}
}

// sameTypeValue: two reflect.Type operands denote the same type value (same SSA value, or loads of
// the same field of the same object).
func sameTypeValue(a, b ssa.Value) bool {
	if a == b || canon(a) == canon(b) {
		return true
	}
	ba, pa, oka := fieldPath(a)
	bb, pb, okb := fieldPath(b)
	return oka && okb && canon(ba) == canon(bb) && strings.Join(pa, ".") == strings.Join(pb, ".")
}

// typeOrigin classifies a reflect.Type operand: "" = a type of the local program; otherwise where it
// comes from, and a non-empty trusted reason when no check is needed.
func typeOrigin(t ssa.Value, unfold *ssa.Function, checked map[*ssa.Function]bool) (origin, trusted string) {
	// local reflect.XOf result (possibly captured by a decoder closure)
	if c, ok := canon(t).(*ssa.Call); ok {
		if sf := staticCallee(c.Common()); sf != nil && sf.Pkg != nil && sf.Pkg.Pkg.Path() == "reflect" {
			switch sf.Name() {
			case "ArrayOf", "SliceOf", "MapOf":
				return "type made by reflect." + sf.Name() + " while unfolding", ""
			}
		}
	}
	b, path, ok := fieldPath(t)
	if !ok || len(path) == 0 || path[len(path)-1] != "Type" {
		if fv, isFv := t.(*ssa.FreeVar); isFv {
			if rb := resolveFreeVar(fv); rb != nil {
				return typeOrigin(rb, unfold, checked)
			}
		}
		return "", ""
	}
	dec := canon(b)
	if len(path) >= 2 && path[len(path)-2] == "decoder" {
		return "state.decoder.Type", "the decoder installed by the caller for this very value (its allocation was judged where the decoder was obtained)"
	}
	if ex, isEx := dec.(*ssa.Extract); isEx {
		if c, isCall := ex.Tuple.(*ssa.Call); isCall {
			g := staticCallee(c.Common())
			switch {
			case g == unfold:
				// unfolded from what? a local encoder's prefix is trusted
				if _, p2, okp := fieldPath(c.Common().Args[0]); okp && len(p2) > 0 && p2[len(p2)-1] == "Prefix" {
					return "decoder unfolded from a local encoder's prefix", "local type, size fixed by the program"
				}
				return "decoder unfolded from the packet (decodeType)", ""
			case g != nil && checked[g]:
				return "decoder from " + g.Name(), g.Name() + " applies the proportion predicate to every type it unfolds"
			case g != nil && strings.HasSuffix(g.Signature.Results().At(0).Type().String(), "decoder"):
				return "decoder from " + g.Name(), ""
			}
		}
	}
	return "", ""
}

// sliceElemGuard: MakeSlice(sliceType, n, n) is dominated by pred(elemType, n, packet) where sliceType
// was made by SliceOf(elemType).
func sliceElemGuard(t ssa.Value, at ssa.Instruction, pred *ssa.Function) bool {
	var elem ssa.Value
	tv := canon(t)
	if c, ok := tv.(*ssa.Call); ok {
		if sf := staticCallee(c.Common()); sf != nil && sf.Name() == "SliceOf" {
			elem = c.Common().Args[0]
		}
	}
	ok := false
	eachInstr(at.Parent(), func(in ssa.Instruction) {
		c, isCall := in.(*ssa.Call)
		if !isCall || staticCallee(c.Common()) != pred {
			return
		}
		if elem != nil && !sameTypeValue(c.Common().Args[0], elem) {
			// compare through free variables
			a0 := c.Common().Args[0]
			ba, pa, oka := fieldPath(a0)
			be, pe, oke := fieldPath(elem)
			if !(oka && oke && canon(ba) == canon(be) && strings.Join(pa, ".") == strings.Join(pe, ".")) {
				return
			}
		}
		tr, _, complete := boolEdges(c)
		if complete && len(tr) > 0 && edgesDominate(tr, at) {
			ok = true
		}
	})
	return ok
}

// c16DepthGuard: B6 — a decoder that picks the next decoder from the bytes of the packet
// (getDecoder) and calls it recurses as deep as the peer says, one byte per level: a stack overflow
// is a fatal error that no recover barrier catches. Every function with the decoder signature that
// dispatches this way compares a nesting counter with a constant bound before the dispatch and
// returns an error beyond it.
func c16DepthGuard(p *load.Program, r *core.Report) {
	rule := "C16.B6 data-driven-recursion-bounded"
	r.Floor(rule, 1)
	get := p.Func("net/edf", "", "getDecoder")
	if get == nil {
		r.Unk(rule, "C16.B6|getDecoder", "", "", "the packet-driven decoder lookup is found", "net/edf.getDecoder not found")
		return
	}
	for _, f := range funcsOfPkgs(p, "net/edf") {
		if f.Parent() != nil || len(f.Params) != 3 || f.Signature.Results().Len() != 3 {
			continue
		}
		if !strings.HasSuffix(f.Params[2].Type().String(), "stateDecode") {
			continue
		}
		var dispatch []ssa.Instruction
		eachInstr(f, func(in ssa.Instruction) {
			c, ok := in.(*ssa.Call)
			if !ok || staticCallee(c.Common()) != get {
				return
			}
			dec := tupleExtract(c, 0)
			// calls of dec.Decode
			eachInstr(f, func(x ssa.Instruction) {
				c2, ok := x.(*ssa.Call)
				if !ok || c2.Common().IsInvoke() || c2.Common().StaticCallee() != nil {
					return
				}
				if b, path, okp := fieldPath(c2.Common().Value); okp && len(path) == 1 && path[0] == "Decode" && canon(b) == canon(dec) {
					dispatch = append(dispatch, x)
				}
			})
		})
		if len(dispatch) == 0 {
			continue
		}
		fn := fname(f)
		key := "C16.B6|" + fn
		inst := "the recursion chosen by the packet's bytes is cut at a constant nesting depth"
		// a guard: If on (counter >= const) / (counter > const) where counter is loaded through a pointer
		// reachable from the state parameter, whose taken edge returns an error, dominating every dispatch
		okAll := true
		for _, d := range dispatch {
			guarded := false
			eachInstr(f, func(in ssa.Instruction) {
				b, ok := in.(*ssa.BinOp)
				if !ok || (b.Op != token.GEQ && b.Op != token.GTR && b.Op != token.LSS && b.Op != token.LEQ) {
					return
				}
				var cnt ssa.Value
				if _, isC := constInt(b.Y); isC {
					cnt = b.X
				} else if _, isC := constInt(b.X); isC {
					cnt = b.Y
				}
				ld, isLd := cnt.(*ssa.UnOp)
				if cnt == nil || !isLd || ld.Op != token.MUL {
					return
				}
				// the counter lives behind the decode state (state.options.depth or a field of state)
				base, _, okp := fieldPath(ld.X)
				if !okp {
					if l2, ok := ld.X.(*ssa.UnOp); ok {
						base, _, okp = fieldPath(l2.X)
					}
				}
				if !okp || canon(base) != ssa.Value(f.Params[2]) {
					return
				}
				t, fl, complete := boolEdges(b)
				if !complete {
					return
				}
				within := fl
				if b.Op == token.LSS || b.Op == token.LEQ {
					within = t
				}
				if edgesDominate(within, d) {
					// and the counter really counts: every path from the guard to the dispatch adds one to it
					isInc := func(x ssa.Instruction) bool {
						st, ok := x.(*ssa.Store)
						if !ok || (st.Addr != ld.X && canon(st.Addr) != canon(ld.X)) {
							return false
						}
						add, ok := st.Val.(*ssa.BinOp)
						if !ok || add.Op != token.ADD {
							return false
						}
						c, okc := constInt(add.Y)
						return okc && c == 1
					}
					if reaches(edgePoints(within), isInc, func(x ssa.Instruction) bool { return x == d }) == nil {
						guarded = true
					}
				}
			})
			if !guarded {
				okAll = false
			}
		}
		if okAll {
			r.OK(rule, key, fn, p.Pos(f.Pos()), inst, fmt.Sprintf("%d packet-driven dispatch call(s), each behind the within-bound edge of a comparison of the nesting counter with a constant", len(dispatch)))
		} else {
			r.Bad(rule, key, fn, p.Pos(dispatch[0].Pos()), inst, "the function looks the next decoder up in the packet and calls it without any bound on the nesting: a few megabytes of one repeated byte overflow the stack — a fatal error, the node dies")
		}
	}
}

// c16HandshakeBarriers: B1h — the handshake runs in the acceptor's (or the dialer's) goroutine, which
// has no recover of its own, and it works on VALUES decoded from the peer's messages (maps of
// errors, type assertions, sizes): not only byte indexing can panic there. Every exported entry
// point of the handshake that reads a message from the peer has a deferred recover (under
// lib.Recover) that turns the panic into its error result.
func c16HandshakeBarriers(p *load.Program, r *core.Report) {
	rule := "C16.B1h handshake-entry-points-recover"
	r.Floor(rule, 3)
	dec := p.Func("net/edf", "", "Decode")
	hsT := p.Named("net/handshake", "handshake")
	if dec == nil || hsT == nil {
		r.Unk(rule, "C16.B1h|anchors", "", "", "edf.Decode and the handshake type are found", "missing")
		return
	}
	reachesDecode := func(f *ssa.Function) bool {
		seen := map[*ssa.Function]bool{f: true}
		work := []*ssa.Function{f}
		for len(work) > 0 {
			g := work[len(work)-1]
			work = work[:len(work)-1]
			hit := false
			for _, h := range family(g) {
				eachInstr(h, func(in ssa.Instruction) {
					if cc := callCommon(in); cc != nil {
						if sf := staticCallee(cc); sf != nil {
							if sf == dec {
								hit = true
							} else if pkgSuffix(sf) == "net/handshake" && !seen[sf] {
								seen[sf] = true
								work = append(work, sf)
							}
						}
					}
				})
			}
			if hit {
				return true
			}
		}
		return false
	}
	for _, f := range funcsOfPkgs(p, "net/handshake") {
		if f.Parent() != nil || !recvIs(f, hsT) || !ast.IsExported(f.Name()) || !reachesDecode(f) {
			continue
		}
		fn := fname(f)
		key := "C16.B1h|" + fn
		inst := "a panic while handling the peer's handshake messages becomes the error result of " + f.Name()
		cl, ok := hasRecoverDefer(f)
		if !ok {
			r.Bad(rule, key, fn, p.Pos(f.Pos()), inst, "no deferred recover: a malformed (but decodable) message — a nil error in the error table, an unexpected type — panics in the acceptor's goroutine and takes the node down")
			continue
		}
		stores := false
		eachInstr(cl, func(in ssa.Instruction) {
			if st, ok := in.(*ssa.Store); ok {
				if _, isFV := st.Addr.(*ssa.FreeVar); isFV && st.Val.Type().String() == "error" {
					stores = true
				}
			}
		})
		if stores {
			r.OK(rule, key, fn, p.Pos(f.Pos()), inst, "deferred recover stores the error result")
		} else {
			r.Bad(rule, key, fn, p.Pos(f.Pos()), inst, "the recover handler does not set the error result: the handshake would be reported successful with a half-filled result")
		}
	}
}

// c16PeerSizes: B3q — integer fields of a decoded handshake message that become sizes on this side
// (the number of links to dial, of queues to make, a divisor) are range-checked on both sides before
// they are copied into the handshake result.
func c16PeerSizes(p *load.Program, r *core.Report) {
	rule := "C16.B3q peer-declared-sizes-range-checked"
	r.Floor(rule, 1)
	for _, f := range funcsOfPkgs(p, "net/handshake") {
		seq := 0
		eachInstr(f, func(in ssa.Instruction) {
			st, ok := in.(*ssa.Store)
			if !ok {
				return
			}
			own, fl := fieldOwner(st.Addr)
			// the options the handshake hands to the protocol layer: numbers that size local resources
			// (PeerMaxMessageSize in the result only limits what this side SENDS: nothing to check)
			if own == nil || own.Obj().Name() != "ConnectionOptions" || !isIntegerType(st.Val.Type()) {
				return
			}
			// the value is a field of a message that came out of a type assertion on a decoded value
			ld, isLd := st.Val.(*ssa.UnOp)
			if !isLd || ld.Op != token.MUL {
				return
			}
			base, path, okp := fieldPath(ld.X)
			if !okp || len(path) != 1 {
				return
			}
			fromPeer := false
			switch b := base.(type) {
			case *ssa.Alloc:
				for _, rf := range *b.Referrers() {
					if s2, ok := rf.(*ssa.Store); ok && s2.Addr == ssa.Value(b) {
						v := s2.Val
						if ex, ok := v.(*ssa.Extract); ok {
							v = ex.Tuple
						}
						if _, isTA := v.(*ssa.TypeAssert); isTA {
							fromPeer = true
						}
					}
				}
			case *ssa.TypeAssert:
				fromPeer = true
			case *ssa.Extract:
				if _, isTA := b.Tuple.(*ssa.TypeAssert); isTA {
					fromPeer = true
				}
			}
			if !fromPeer {
				return
			}
			seq++
			fn := fname(f)
			key := fmt.Sprintf("C16.B3q|%s|%s.%s#%d", fn, own.Obj().Name(), fl, seq)
			inst := "the " + path[0] + " the peer announced is checked against a lower and an upper bound before it is taken over"
			lower, upper := false, false
			eachInstr(f, func(x ssa.Instruction) {
				b, ok := x.(*ssa.BinOp)
				if !ok {
					return
				}
				var other ssa.Value
				side := 0
				if sameTypeValue(b.X, ld) {
					other, side = b.Y, 1
				} else if sameTypeValue(b.Y, ld) {
					other, side = b.X, 2
				}
				if side == 0 {
					return
				}
				if _, isC := constInt(other); !isC {
					return
				}
				t, fls, complete := boolEdges(b)
				if !complete {
					return
				}
				op := b.Op
				if side == 2 { // c OP v  ==  v OP' c
					switch op {
					case token.LSS:
						op = token.GTR
					case token.LEQ:
						op = token.GEQ
					case token.GTR:
						op = token.LSS
					case token.GEQ:
						op = token.LEQ
					}
				}
				switch op {
				case token.LSS, token.LEQ: // v < c taken => too small: the store must be behind the false edge
					if edgesDominate(fls, in) {
						lower = true
					}
					if edgesDominate(t, in) {
						upper = true
					}
				case token.GTR, token.GEQ:
					if edgesDominate(fls, in) {
						upper = true
					}
					if edgesDominate(t, in) {
						lower = true
					}
				}
			})
			if lower && upper {
				r.OK(rule, key, fn, p.Pos(in.Pos()), inst, "dominated by the in-range edges of a lower-bound and an upper-bound comparison with constants")
			} else {
				r.Bad(rule, key, fn, p.Pos(in.Pos()), inst, fmt.Sprintf("lower bound checked: %v, upper bound checked: %v — 0 becomes a divisor in the goroutine that serves the link (no recover there: the node dies), a huge value the number of queues and links to create", lower, upper))
			}
		})
	}
}
