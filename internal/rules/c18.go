package rules

import (
	"fmt"
	"go/token"
	"go/types"
	"strings"

	"golang.org/x/tools/go/ssa"

	"verif/internal/core"
	"verif/internal/load"
)

func init() {
	Registry["C18"] = Set{
		Explanation: "Decides structural clauses of event delivery: V1 in RouteSendEvent the fan-out of a local producer's publication is reachable only through the edge on which the presented token equals the registered token (unknown event and wrong token return errors), the publication is appended to the replay buffer before the consumer list is read, each listed local consumer gets exactly one send of this very message with the publisher as sender, and each remote node gets one frame; V2 in the four subscribe functions the relation is inserted before the replay buffer is snapshotted (no publication can fall between), the consumer counter is changed by exactly +1 after a successful insert / -1 after a successful removal, and the producer is notified with MessageEventStart exactly on the counter value 1 after +1 and with MessageEventStop exactly on 0 after -1, only when notifications are enabled; V3 unregistering an event and the owner's termination both reach RouteTerminateEvent for it, and only the owner may unregister. Added while probing: V1 every element of the subscriber list is either sent to locally or its node recorded in the set the frame loop ranges over. V4 the subscriber counter follows the relation set: the process release function counts a terminating subscriber out of the events it was subscribed to (both lists of CleanupConsumer), with MessageEventStop at zero. V5 = C06.G7 for events: a failed RegisterEvent leaves no entry behind, so the termination of the loser does not unregister the owner's event. V6 the local fan-out sends to a pid only behind the miss edge of a lookup in a set of served pids which it then enters (the consumer list holds a process once per relation). V7 every operation on an event's replay buffer — the push and the whole walk of a new subscriber (Item, Value, Next) — is made while that event's buffer lock is held. V8 the termination notice of an event uses the same kind of link/queue selector as its publications (open finding F-BI: today it travels round-robin and overtakes them). V9 where the subscribers of a lost node are counted out from the consumer lists, no set-membership test stands between the list element and the count (the counter counts relations, not processes). V10 = C04.L12 for events: a remote subscription is recorded before the request is sent (publications follow the answer at once). V11 on a buffered event the subscriber's insert + snapshot and the publisher's store + read of the subscriber list are each inside ONE critical section of the event's buffer lock (Lock dominates the first step, no Unlock between the two): a publication is either in the snapshot or sent to the new subscriber, never both and never neither. V4r the process release function hands both lists of CleanupConsumer to code that sends UnlinkEvent / DemonitorEvent to the nodes of the REMOTE events among them (the owner's node counts subscribers as well and nothing else tells it while the connection stays). V12 the event entry is complete when it is entered into the node's event table: no field of it (the token above all) is assigned after the LoadOrStore that publishes it — a publication with the zero token that finds the entry in between would pass the token check.",
		NotDecided: []string{
			"per-publisher order and exactly-once under the subscribe-while-publishing window (consumer list is read without a lock against subscription)",
			"delivery of each message (C02), remote framing (C12)",
		},
		Assumptions: []string{"GetConsumersForTarget returns every current subscriber once (C04.L7 keeps the index consistent)"},
		Run:         runC18,
	}
}

func runC18(p *load.Program, r *core.Report) {
	a, problems := getAnchors(p)
	for _, pr := range problems {
		r.Unk("C18.anchors", "C18.anchors|"+pr, "", "", "anchors resolve", pr)
	}
	if len(problems) > 0 {
		return
	}
	ownListInsertAfterClaim(a, r, "C18.V5 event-recorded-as-own-only-after-the-claim", "C18.V5", 1, map[string]bool{"events": true})
	var send *ssa.Function
	for _, f := range funcsOfPkgs(p, "node") {
		if f.Parent() == nil && f.Name() == "RouteSendEvent" && recvIs(f, a.NodeT) {
			send = f
		}
	}
	c18BufferLocked(a, r)
	c18TerminationBehindPublications(a.P, r)
	c18CountOutPerRelation(a.P, r)
	c18RemoteOwnersTold(a, r)
	initBeforePublish(a.P, r, "C18.V12 event-complete-when-registered", "C18.V12", 1, []string{"node"}, func(t string) bool { return t == "events" })
	remoteRelationFirst(a.P, r, "C18.V10 remote-subscription-recorded-before-the-request", "C18.V10", 2, func(m string) bool { return strings.HasSuffix(m, "Event") })
	if send != nil {
		c18ServedOnce(a, r, send)
	}
	rule := "C18.V1 publish"
	r.Floor(rule, 4)
	if send == nil {
		r.Unk(rule, "C18.V1|fn", "", "", "RouteSendEvent found", "not found")
	} else {
		fn := fname(send)
		tokenPar := paramOfType(send, "gen.Ref", 0)
		msgPar := paramOfType(send, "gen.MessageEvent", 0)
		fromPar := paramOfType(send, "gen.PID", 0)
		// the reads of the subscriber list (one on the path that stores the message into the
		// replay buffer — made under the buffer lock — and one on the path without a buffer)
		var fan ssa.Instruction
		fans := map[ssa.Instruction]bool{}
		eachInstr(send, func(in ssa.Instruction) {
			if callsNamed(in, "GetConsumersForTarget") {
				fan = in
				fans[in] = true
			}
		})
		var isFanValue func(v ssa.Value, d int) bool
		isFanValue = func(v ssa.Value, d int) bool {
			if in, ok := v.(ssa.Instruction); ok && fans[in] {
				return true
			}
			if ph, ok := v.(*ssa.Phi); ok && d < 4 {
				n := 0
				for _, e := range ph.Edges {
					if c, isC := e.(*ssa.Const); isC && c.IsNil() {
						continue
					}
					if !isFanValue(e, d+1) {
						return false
					}
					n++
				}
				return n > 0
			}
			return false
		}
		// token comparison
		var cmp *ssa.BinOp
		eachInstr(send, func(in ssa.Instruction) {
			b, ok := in.(*ssa.BinOp)
			if !ok || (b.Op != token.NEQ && b.Op != token.EQL) {
				return
			}
			for _, pr := range [][2]ssa.Value{{b.X, b.Y}, {b.Y, b.X}} {
				_, path, okp := fieldPath(pr[0])
				if okp && len(path) > 0 && path[len(path)-1] == "token" && isParamValue(pr[1], tokenPar) {
					cmp = b
				}
			}
		})
		key := "C18.V1|" + fn + "|token"
		inst := "a local producer's publication is fanned out only if the presented token equals the token of the registration"
		if cmp == nil || fan == nil {
			r.Bad(rule, key, fn, p.Pos(send.Pos()), inst, fmt.Sprintf("token comparison found: %v, fan-out found: %v — anyone can publish on the event", cmp != nil, fan != nil))
		} else {
			t, fl, _ := boolEdges(cmp)
			eq, ne := t, fl
			if cmp.Op == token.NEQ {
				eq, ne = fl, t
			}
			var probs []string
			// the local-producer edge: from.Node == n.name
			var localEdges []Edge
			eachInstr(send, func(in ssa.Instruction) {
				b, ok := in.(*ssa.BinOp)
				if !ok || b.Op != token.EQL {
					return
				}
				bx, px, _ := fieldPath(b.X)
				_, py, _ := fieldPath(b.Y)
				if len(px) > 0 && px[len(px)-1] == "Node" && (canon(bx) == ssa.Value(fromPar) || isParamValue(bx, fromPar) || spilledParam(bx) == fromPar) && len(py) > 0 && py[len(py)-1] == "name" {
					te, _, _ := boolEdges(b)
					localEdges = append(localEdges, te...)
				}
			})
			if len(localEdges) == 0 {
				probs = append(probs, "no branch on 'the publisher is local'")
			} else {
				var st []Point
				for _, e := range localEdges {
					st = append(st, Point{e.To(), 0})
				}
				cut := map[Edge]bool{}
				for _, e := range eq {
					cut[e] = true
				}
				if reachAvoidEdges(st, cut, nil, func(in ssa.Instruction) bool { return fans[in] }) != nil {
					probs = append(probs, "from the local-producer branch the fan-out is reachable without passing the token-equal edge")
				}
			}
			// the replay buffer accepts the publication only behind the token-equal edge as well
			eachInstr(send, func(in ssa.Instruction) {
				cc := callCommon(in)
				if cc != nil && cc.IsInvoke() && cc.Method.Name() == "Push" {
					if _, path, ok := fieldPath(cc.Value); ok && len(path) > 0 && path[len(path)-1] == "last" {
						if !edgesDominate(eq, in) {
							probs = append(probs, "the publication is stored in the replay buffer before the token was found equal: a rejected publication is replayed to later subscribers")
						}
					}
				}
			})
			for _, e := range ne {
				for _, ret := range walkAvoid([]Point{{e.To(), 0}}, func(in ssa.Instruction) bool { return fans[in] }, isReturn) {
					if errKind(ret.(*ssa.Return).Results[0]) == "nil" {
						probs = append(probs, "a wrong token returns nil")
					}
				}
				if reaches([]Point{{e.To(), 0}}, nil, func(in ssa.Instruction) bool { return fans[in] }) != nil {
					probs = append(probs, "the wrong-token edge still reaches the fan-out")
				}
			}
			if len(probs) > 0 {
				r.Bad(rule, key, fn, p.Pos(cmp.Pos()), inst, strings.Join(uniq(probs), "; "))
			} else {
				r.OK(rule, key, fn, p.Pos(cmp.Pos()), inst, "fan-out behind the token-equal edge; mismatch returns an error")
			}
		}
		// buffer push precedes consumer list read
		key2 := "C18.V1|" + fn + "|buffer-before-fanout"
		inst2 := "the publication enters the replay buffer before the list of current subscribers is read"
		var push ssa.Instruction
		eachInstr(send, func(in ssa.Instruction) {
			cc := callCommon(in)
			if cc != nil && cc.IsInvoke() && cc.Method.Name() == "Push" {
				if _, path, ok := fieldPath(cc.Value); ok && len(path) > 0 && path[len(path)-1] == "last" {
					push = in
				}
			}
		})
		switch {
		case push == nil || fan == nil:
			r.Bad(rule, key2, fn, p.Pos(send.Pos()), inst2, "no push into the event's replay buffer: late subscribers get no history")
		case func() bool {
			for f := range fans {
				if instrReachable(f, push) {
					return true
				}
			}
			// and on the path that buffers, the list is read after the push
			after := false
			for f := range fans {
				if instrReachable(push, f) {
					after = true
				}
			}
			return !after
		}():
			r.Bad(rule, key2, fn, p.Pos(push.Pos()), inst2, "the buffer is filled after the subscriber list was read: a process subscribing in between sees the message neither in the replay nor live")
		case !isParamValue(callCommon(push).Args[0], msgPar):
			r.Bad(rule, key2, fn, p.Pos(push.Pos()), inst2, "something else than the published message is buffered")
		default:
			r.OK(rule, key2, fn, p.Pos(push.Pos()), inst2, "Push(message) precedes GetConsumersForTarget")
		}
		if push != nil {
			// V11: the list is read inside the critical section the message is stored in
			key11 := "C18.V11|" + fn + "|store-and-list"
			inst11 := "the message is stored into the replay buffer and the subscriber list is read inside one critical section of the event's buffer lock"
			var after ssa.Instruction
			for x := range fans {
				if instrReachable(push, x) {
					after = x
				}
			}
			locked, split := false, false
			eachInstr(send, func(in ssa.Instruction) {
				if l := mutexOpOf(in); l != nil && l.field == "lastLock" && after != nil {
					if l.kind == "Lock" && instrDominates(in, push) {
						locked = true
					}
					if l.kind == "Unlock" && !l.deferred && instrReachable(push, in) && instrReachable(in, after) {
						split = true
					}
				}
			})
			if after != nil && locked && !split {
				r.OK("C18.V11 subscribe-and-publish-atomic", key11, fn, p.Pos(push.Pos()), inst11, "Lock dominates the push; no Unlock between the push and the read of the list")
			} else {
				r.Bad("C18.V11 subscribe-and-publish-atomic", key11, fn, p.Pos(push.Pos()), inst11, "the list is read after the lock was given up: a process that subscribes in between takes the message with its snapshot and is in the list as well — the message is delivered twice")
			}
		}
		// one send per local consumer with this message and publisher; one frame per remote node
		key3 := "C18.V1|" + fn + "|one-send-per-consumer"
		inst3 := "each local subscriber gets exactly one send of this message from this publisher; each remote node one frame"
		var sends, frames []ssa.Instruction
		eachInstr(send, func(in ssa.Instruction) {
			if callsNamed(in, "sendEventMessage") {
				sends = append(sends, in)
			}
			cc := callCommon(in)
			if cc != nil && cc.IsInvoke() && cc.Method.Name() == "SendEvent" {
				frames = append(frames, in)
			}
		})
		var probs []string
		if len(sends) != 1 {
			probs = append(probs, fmt.Sprintf("%d local send sites (expected 1 in the consumer loop)", len(sends)))
		} else {
			cc := callCommon(sends[0])
			if !isParamValue(cc.Args[1], fromPar) {
				probs = append(probs, "the event is delivered with another sender than the publisher")
			}
			if !isParamValue(cc.Args[len(cc.Args)-1], msgPar) {
				probs = append(probs, "another value than the published message is delivered")
			}
			// not reachable from itself without re-entering the range Next (i.e. one per iteration)
			loopStep := func(in ssa.Instruction) bool {
				if _, ok := in.(*ssa.Next); ok {
					return true
				}
				if iff, ok := in.(*ssa.If); ok {
					if b, ok := iff.Cond.(*ssa.BinOp); ok && b.Op == token.LSS {
						if _, isPhi := b.X.(*ssa.Phi); isPhi {
							return true
						}
						if add, isAdd := b.X.(*ssa.BinOp); isAdd && add.Op == token.ADD {
							if _, isPhi := add.X.(*ssa.Phi); isPhi {
								return true
							}
						}
					}
				}
				return false
			}
			if h := reaches([]Point{after(sends[0])}, loopStep, func(in ssa.Instruction) bool { return in == sends[0] }); h != nil {
				probs = append(probs, "a subscriber can get the message twice in one iteration")
			}
		}
		if len(frames) != 1 {
			probs = append(probs, fmt.Sprintf("%d remote frame sites (expected 1 in the loop over the set of remote nodes)", len(frames)))
		}
		// every subscriber is served: each element of the list read from the target manager is either
		// sent to locally or its node is put into the set the frame loop ranges over
		if fan != nil && len(sends) == 1 && len(frames) == 1 {
			var elem ssa.Instruction
			eachInstr(send, func(in ssa.Instruction) {
				if ia, ok := in.(*ssa.IndexAddr); ok && isFanValue(ia.X, 0) {
					elem = in
				}
			})
			var sets []ssa.Value
			// "already served": the hit edge of a lookup of this element in a set of served pids (V6)
			servedBlocks := map[*ssa.BasicBlock]bool{}
			servedTests := map[ssa.Instruction]bool{} // the branch on served[pid] whose miss edge leads to the one send
			eachInstr(send, func(in ssa.Instruction) {
				iff, isIf := in.(*ssa.If)
				if !isIf {
					return
				}
				lk := lookupOfCond(iff.Cond)
				if lk == nil {
					return
				}
				if mt, okm := lk.X.Type().Underlying().(*types.Map); !okm || namedOf(mt.Key()) != "gen.PID" {
					return
				}
				if _, miss, complete := setTest(lk); complete && len(miss) > 0 && edgesDominate(miss, sends[0]) {
					servedTests[in] = true
				}
			})
			eachInstr(send, func(in ssa.Instruction) {
				lk, ok := in.(*ssa.Lookup)
				if !ok {
					return
				}
				mt, okm := lk.X.Type().Underlying().(*types.Map)
				if !okm || namedOf(mt.Key()) != "gen.PID" {
					return
				}
				hit, _, complete := setTest(lk)
				if !complete {
					return
				}
				for _, e := range hit {
					if b := e.To(); len(b.Preds) == 1 {
						servedBlocks[b] = true
					}
				}
			})
			isServe := func(in ssa.Instruction) bool {
				if in == sends[0] {
					return true
				}
				if b := in.Block(); servedBlocks[b] && len(b.Instrs) > 0 && b.Instrs[0] == in {
					return true
				}
				if servedTests[in] {
					return true
				}
				if mu, ok := in.(*ssa.MapUpdate); ok {
					if mt, okm := mu.Map.Type().Underlying().(*types.Map); okm && namedOf(mt.Key()) == "gen.Atom" {
						sets = append(sets, mu.Map)
						return true
					}
				}
				_, isPanic := in.(*ssa.Panic)
				return isPanic
			}
			switch {
			case elem == nil:
				probs = append(probs, "the subscriber list returned by the target manager is not walked element by element")
			default:
				if to := resolveLocalCopy(callCommon(sends[0]).Args[2]); true {
					if ld, ok := to.(*ssa.UnOp); !ok || ld.X != elem.(ssa.Value) {
						probs = append(probs, "the local send is not addressed to the element of the subscriber list")
					}
				}
				hdr := loopHeaderOf(elem)
				if hdr == nil {
					probs = append(probs, "the subscriber walk is not a loop")
				} else if hit := reaches([]Point{after(elem)}, isServe, func(in ssa.Instruction) bool { return in.Block() == hdr && in == hdr.Instrs[0] }); hit != nil {
					probs = append(probs, "an iteration of the subscriber loop can end without a local send and without recording the subscriber's node: that subscriber never gets the event")
				}
				// the frame loop ranges over the recorded set
				okRange := false
				eachInstr(send, func(in ssa.Instruction) {
					if rg, ok := in.(*ssa.Range); ok {
						for _, m := range sets {
							if rg.X == m {
								okRange = true
							}
						}
					}
				})
				if len(sets) == 0 || !okRange {
					probs = append(probs, "the set of remote subscriber nodes is not the one the frame loop ranges over")
				}
			}
		}
		if len(probs) > 0 {
			r.Bad(rule, key3, fn, p.Pos(send.Pos()), inst3, strings.Join(probs, "; "))
		} else {
			r.OK(rule, key3, fn, p.Pos(sends[0].Pos()), inst3, "1 local send site (from, message), 1 remote frame site over the node set")
		}
		// unknown event
		key4 := "C18.V1|" + fn + "|unknown-event"
		okUnknown := false
		eachInstr(send, func(in ssa.Instruction) {
			if ret, ok := in.(*ssa.Return); ok && reasonOrigin(ret.Results[0], 0) == "global:ErrEventUnknown" {
				okUnknown = true
			}
		})
		if okUnknown {
			r.OK(rule, key4, fn, p.Pos(send.Pos()), "publishing on an unregistered event fails", "ErrEventUnknown returned")
		} else {
			r.Bad(rule, key4, fn, p.Pos(send.Pos()), "publishing on an unregistered event fails", "ErrEventUnknown is never returned")
		}
	}

	c18CounterFollowsRelations(a, r)

	// ---- V2
	rule2 := "C18.V2 subscribe-bookkeeping"
	r.Floor(rule2, 4)
	r.Floor("C18.V11 subscribe-and-publish-atomic", 3)
	for _, f := range routeFuncs(a, "RouteLinkEvent", "RouteMonitorEvent", "RouteUnlinkEvent", "RouteDemonitorEvent") {
		fn := fname(f)
		sub := strings.HasPrefix(f.Name(), "RouteLink") || strings.HasPrefix(f.Name(), "RouteMonitor")
		key := "C18.V2|" + f.Name()
		var probs []string
		// the relation change of the LOCAL branch (the one the counter update follows): for a
		// subscription there can be two insert sites (with and without a replay buffer); the
		// remote branch has its own (C18.V10) and roll-backs are removals
		var rel ssa.Instruction
		var rels []ssa.Instruction
		eachInstr(f, func(in ssa.Instruction) {
			if sub && callsNamed(in, "AddLink", "AddMonitor") || !sub && callsNamed(in, "RemoveLink", "RemoveMonitor") {
				rels = append(rels, in)
				if rel == nil {
					rel = in
				}
			}
		})
		var add *ssa.Call
		eachInstr(f, func(in ssa.Instruction) {
			if c, ok := in.(*ssa.Call); ok && isAtomic(c.Common(), "AddInt32") {
				if _, path, okp := fieldPath(c.Common().Args[0]); okp && len(path) > 0 && path[len(path)-1] == "consumers" {
					add = c
				}
			}
		})
		wantDelta, wantThr := int64(1), int64(1)
		wantMsg := "MessageEventStart"
		if !sub {
			wantDelta, wantThr, wantMsg = -1, 0, "MessageEventStop"
		}
		if rel == nil || add == nil {
			probs = append(probs, fmt.Sprintf("relation change found: %v, consumer counter update found: %v", rel != nil, add != nil))
		} else {
			if d, ok := constInt(add.Common().Args[1]); !ok || d != wantDelta {
				probs = append(probs, fmt.Sprintf("the consumer counter is changed by %d (expected %+d)", d, wantDelta))
			}
			// counter update only after the relation change succeeded (nil error edge)
			if _, ok := rel.(*ssa.Call); ok {
				var isNil []Edge
				for _, x := range rels {
					if rc, ok := x.(*ssa.Call); ok && instrReachable(x, add) {
						e, _, _ := nilEdges(rc)
						isNil = append(isNil, e...)
					}
				}
				if len(isNil) == 0 || !edgesDominate(isNil, add) {
					probs = append(probs, "the counter is updated even when the relation change failed (duplicate subscribe / unknown unsubscribe): the producer's start/stop notifications get out of step")
				}
			}
			// counter updated once
			if reaches([]Point{after(add)}, nil, func(in ssa.Instruction) bool { return in == ssa.Instruction(add) }) != nil {
				probs = append(probs, "the counter can be updated twice")
			}
			// threshold: c > wantThr -> return without notifying
			thrOK := false
			var notif ssa.Instruction
			eachInstr(f, func(in ssa.Instruction) {
				if al, ok := in.(*ssa.Alloc); ok && strings.HasSuffix(al.Type().String(), "gen."+wantMsg) {
					notif = in
				}
			})
			eachInstr(f, func(in ssa.Instruction) {
				b, ok := in.(*ssa.BinOp)
				if !ok || b.X != ssa.Value(add) {
					return
				}
				c, okc := constInt(b.Y)
				if !okc {
					return
				}
				t, fl, _ := boolEdges(b)
				switch {
				case b.Op == token.GTR && c == wantThr:
					if notif != nil && edgesDominate(fl, notif) {
						thrOK = true
					}
				case b.Op == token.EQL && c == wantThr+0 && sub, b.Op == token.EQL && c == 0 && !sub:
					if notif != nil && edgesDominate(t, notif) {
						thrOK = true
					}
				case b.Op == token.LEQ && c == wantThr:
					if notif != nil && edgesDominate(t, notif) {
						thrOK = true
					}
				}
			})
			if notif == nil {
				probs = append(probs, "no "+wantMsg+" notification is built")
			} else if !thrOK {
				probs = append(probs, fmt.Sprintf("the %s notification is not confined to the counter value %d: the producer is told too often or never", wantMsg, wantThr))
			}
			// notify flag
			if notif != nil {
				okFlag := false
				eachInstr(f, func(in ssa.Instruction) {
					v, ok := in.(ssa.Value)
					if !ok {
						return
					}
					if _, path, okp := fieldPath(v); okp && len(path) > 0 && path[len(path)-1] == "notify" {
						if refs := v.Referrers(); refs != nil {
							for _, rf := range *refs {
								if b, okb := rf.(*ssa.BinOp); okb {
									t, fl, _ := boolEdges(b)
									bv, _ := constBool(b.Y)
									on := t
									if (b.Op == token.EQL) != bv {
										on = fl
									}
									if edgesDominate(on, notif) {
										okFlag = true
									}
								}
							}
						}
						t, _, c := boolEdges(v)
						if c && edgesDominate(t, notif) {
							okFlag = true
						}
					}
				})
				if !okFlag {
					probs = append(probs, "the notification is sent although the event was registered without Notify")
				}
			}
			if sub {
				// relation insert precedes the buffer snapshot
				var snap ssa.Instruction
				eachInstr(f, func(in ssa.Instruction) {
					cc := callCommon(in)
					if cc != nil && cc.IsInvoke() && cc.Method.Name() == "Item" {
						if _, path, ok := fieldPath(cc.Value); ok && len(path) > 0 && path[len(path)-1] == "last" {
							snap = in
						}
					}
				})
				if snap == nil {
					probs = append(probs, "the replay buffer is not handed to the new subscriber")
				} else {
					var ins ssa.Instruction
					for _, x := range rels {
						if instrDominates(x, snap) {
							ins = x
						}
					}
					if ins == nil {
						probs = append(probs, "the replay buffer is snapshotted before the relation is inserted: a message published in between is neither in the snapshot nor delivered live")
					} else {
						// V11: insert and snapshot are one critical section of the buffer lock
						key11 := "C18.V11|" + f.Name() + "|insert-and-snapshot"
						inst11 := "the relation is inserted and the replay buffer is snapshotted inside one critical section of the event's buffer lock"
						locked := false
						split := false
						eachInstr(f, func(in ssa.Instruction) {
							if l := mutexOpOf(in); l != nil && l.field == "lastLock" {
								if l.kind == "Lock" && instrDominates(in, ins) {
									locked = true
								}
								if l.kind == "Unlock" && !l.deferred && instrReachable(ins, in) && instrReachable(in, snap) {
									split = true
								}
							}
						})
						if locked && !split {
							r.OK("C18.V11 subscribe-and-publish-atomic", key11, fn, p.Pos(ins.Pos()), inst11, "Lock dominates the insert; no Unlock between the insert and the snapshot")
						} else {
							r.Bad("C18.V11 subscribe-and-publish-atomic", key11, fn, p.Pos(ins.Pos()), inst11, "the insert is outside the critical section of the snapshot: a message published between the two is in the snapshot AND sent to the new subscriber — delivered twice")
						}
					}
				}
			}
		}
		inst := f.Name() + ": relation first, counter " + fmt.Sprintf("%+d", wantDelta) + " once after success, producer notified with " + wantMsg + " exactly at " + fmt.Sprint(wantThr)
		if len(probs) > 0 {
			r.Bad(rule2, key, fn, p.Pos(f.Pos()), inst, strings.Join(uniq(probs), "; "))
		} else {
			r.OK(rule2, key, fn, p.Pos(f.Pos()), inst, "verified")
		}
	}

	// ---- V3
	rule3 := "C18.V3 unregister"
	r.Floor(rule3, 2)
	if f := p.Func("node", a.NodeT.Obj().Name(), "unregisterEvent"); f != nil {
		fn := fname(f)
		key := "C18.V3|" + fn + "|owner-only"
		// producer comparison: mismatch returns ErrEventOwner before the delete
		okOwner := false
		eachInstr(f, func(in ssa.Instruction) {
			b, ok := in.(*ssa.BinOp)
			if !ok || (b.Op != token.NEQ && b.Op != token.EQL) {
				return
			}
			_, px, _ := fieldPath(b.X)
			_, py, _ := fieldPath(b.Y)
			if (len(px) > 0 && px[len(px)-1] == "producer") || (len(py) > 0 && py[len(py)-1] == "producer") {
				t, fl, _ := boolEdges(b)
				mis := t
				if b.Op == token.EQL {
					mis = fl
				}
				good := len(mis) > 0
				for _, e := range mis {
					if reaches([]Point{{e.To(), 0}}, nil, func(i ssa.Instruction) bool { return callsNamed(i, "RouteTerminateEvent") }) != nil {
						good = false
					}
				}
				if good {
					okOwner = true
				}
			}
		})
		if okOwner {
			r.OK(rule3, key, fn, p.Pos(f.Pos()), "only the producer that registered an event can unregister it", "producer mismatch returns before the removal")
		} else {
			r.Bad(rule3, key, fn, p.Pos(f.Pos()), "only the producer that registered an event can unregister it", "no producer check guards the removal: any process can take an event away from its subscribers")
		}
		key2 := "C18.V3|" + fn + "|notify-subscribers"
		errIdx := errResultIndex(f)
		bad := reaches([]Point{{f.Blocks[0], 0}}, func(i ssa.Instruction) bool { return callsNamed(i, "RouteTerminateEvent") }, func(i ssa.Instruction) bool {
			ret, ok := i.(*ssa.Return)
			return ok && maybeNilResult(ret, errIdx)
		})
		if bad == nil {
			r.OK(rule3, key2, fn, p.Pos(f.Pos()), "a successful unregister notifies every subscriber (RouteTerminateEvent)", "all successful paths")
		} else {
			r.Bad(rule3, key2, fn, p.Pos(f.Pos()), "a successful unregister notifies every subscriber (RouteTerminateEvent)", "a successful return skips RouteTerminateEvent")
		}
	}
}

// spilledParam: v is the Alloc a struct parameter was spilled to.
func spilledParam(v ssa.Value) *ssa.Parameter {
	al, ok := v.(*ssa.Alloc)
	if !ok {
		return nil
	}
	for _, rf := range *al.Referrers() {
		if st, ok := rf.(*ssa.Store); ok && st.Addr == ssa.Value(al) {
			if pa, ok := st.Val.(*ssa.Parameter); ok {
				return pa
			}
		}
	}
	return nil
}

// c18CounterFollowsRelations: V4 — the subscriber counter that drives the start/stop notifications
// follows the relation set: it is decremented not only by UnlinkEvent/DemonitorEvent but also when
// a subscriber terminates — the process release function hands both lists returned by
// CleanupConsumer to a function that, for targets of type gen.Event, decrements the counter and
// sends MessageEventStop when it reaches zero.
func c18CounterFollowsRelations(a *Anchors, r *core.Report) {
	rule := "C18.V4 counter-follows-relations"
	r.Floor(rule, 2)
	p := a.P
	f := p.Func("node", a.NodeT.Obj().Name(), "unregisterProcess")
	key := "C18.V4|unregisterProcess"
	inst := "a terminating subscriber is counted out of the events it was subscribed to (both the link and the monitor list of CleanupConsumer)"
	if f == nil {
		r.Unk(rule, key, "", "", inst, "unregisterProcess not found")
		return
	}
	var cleanup *ssa.Call
	eachInstr(f, func(in ssa.Instruction) {
		if c, ok := in.(*ssa.Call); ok && callsNamed(in, "CleanupConsumer") {
			cleanup = c
		}
	})
	if cleanup == nil {
		r.Bad(rule, key, fname(f), p.Pos(f.Pos()), inst, "CleanupConsumer is not called")
		return
	}
	countsOut := func(g0 *ssa.Function) bool {
		if g0 == nil || len(g0.Blocks) == 0 {
			return false
		}
		dec, asEvent, stop := false, false, false
		// the function and the helpers of the same package it calls (two levels)
		fns := []*ssa.Function{g0}
		for lvl := 0; lvl < 2; lvl++ {
			for _, g := range append([]*ssa.Function(nil), fns...) {
				eachInstr(g, func(in ssa.Instruction) {
					if cc := callCommon(in); cc != nil {
						if sf := staticCallee(cc); sf != nil && sf.Pkg == g0.Pkg && len(sf.Blocks) > 0 {
							dup := false
							for _, x := range fns {
								if x == sf {
									dup = true
								}
							}
							if !dup {
								fns = append(fns, sf)
							}
						}
					}
				})
			}
		}
		for _, g := range fns {
			eachInstr(g, func(in ssa.Instruction) {
				if ta, ok := in.(*ssa.TypeAssert); ok && namedOf(ta.AssertedType) == "gen.Event" {
					asEvent = true
				}
				if cc := callCommon(in); cc != nil && isAtomic(cc) && strings.HasPrefix(staticCallee(cc).Name(), "Add") && len(cc.Args) == 2 {
					if _, path, okp := fieldPath(cc.Args[0]); okp && len(path) > 0 && path[len(path)-1] == "consumers" {
						// a negative amount: the constant -1, or the negation of a count
						if c, okc := constInt(cc.Args[1]); okc && c < 0 {
							dec = true
						}
						if u, oku := cc.Args[1].(*ssa.UnOp); oku && u.Op == token.SUB {
							dec = true
						}
					}
				}
				if al, ok := in.(*ssa.Alloc); ok && strings.HasSuffix(al.Type().String(), "gen.MessageEventStop") {
					stop = true
				}
			})
		}
		return dec && asEvent && stop
	}
	handled := map[int]bool{}
	for _, idx := range []int{0, 1} {
		ex := tupleExtract(cleanup, idx)
		if ex == nil || ex.Referrers() == nil {
			continue
		}
		for _, rf := range *ex.Referrers() {
			cc := callCommon(rf)
			if cc == nil {
				continue
			}
			if countsOut(staticCallee(cc)) {
				handled[idx] = true
			}
		}
	}
	// the same for subscribers that disappear with their node
	{
		key2 := "C18.V4|RouteNodeDown"
		inst2 := "subscribers that lived on a lost node are counted out of the local events they were subscribed to"
		var down *ssa.Function
		for _, g := range funcsOfPkgs(p, "node") {
			if g.Parent() == nil && g.Name() == "RouteNodeDown" && recvIs(g, a.NodeT) {
				down = g
			}
		}
		if down == nil {
			r.Unk(rule, key2, "", "", inst2, "RouteNodeDown not found")
		} else {
			adjusts := false
			seen := map[*ssa.Function]bool{}
			var walk func(g *ssa.Function, d int)
			walk = func(g *ssa.Function, d int) {
				if g == nil || seen[g] || d > 3 || len(g.Blocks) == 0 {
					return
				}
				seen[g] = true
				eachInstr(g, func(in ssa.Instruction) {
					cc := callCommon(in)
					if cc == nil {
						return
					}
					if isAtomic(cc) && len(cc.Args) == 2 {
						if _, path, okp := fieldPath(cc.Args[0]); okp && len(path) > 0 && path[len(path)-1] == "consumers" {
							adjusts = true
						}
					}
					if sf := staticCallee(cc); sf != nil && sf.Pkg != nil && strings.HasSuffix(sf.Pkg.Pkg.Path(), "/node") {
						walk(sf, d+1)
					}
					for _, arg := range cc.Args {
						if mc, ok := arg.(*ssa.MakeClosure); ok {
							walk(mc.Fn.(*ssa.Function), d+1)
						}
					}
				})
			}
			walk(down, 0)
			if adjusts {
				r.OK(rule, key2, fname(down), p.Pos(down.Pos()), inst2, "the node-down path adjusts the subscriber counter")
			} else {
				r.Bad(rule, key2, fname(down), p.Pos(down.Pos()), inst2, "CleanupNode drops the relations of consumers on the lost node without a trace and nothing on the node-down path touches the subscriber counter: when the last subscriber of a notifying event disappears with its node the producer is never told, and the next subscriber is not announced as the first")
			}
		}
	}
	if handled[0] && handled[1] {
		r.OK(rule, key, fname(f), p.Pos(cleanup.Pos()), inst, "both lists are handed to a function that decrements consumers for gen.Event targets and sends MessageEventStop")
	} else {
		r.Bad(rule, key, fname(f), p.Pos(cleanup.Pos()), inst, fmt.Sprintf("link list handled: %v, monitor list handled: %v — a subscriber that terminates stays counted: the producer is never told that the last subscriber left, and the next subscriber is not announced as the first", handled[0], handled[1]))
	}
}

var _ = load.Module

// c18ServedOnce: V6 — the consumer list of an event holds a process once per RELATION: a process that
// has a link and a monitor on the event is there twice. The local fan-out sends to a pid only behind
// the miss edge of a lookup in a set of served pids, which it then enters.
// setTest: the edges on which a key is found / not found in a set kept as a map — `m[k]` of a
// map[K]bool used as a condition, or the comma-ok form `_, ok := m[k]`.
func setTest(lk *ssa.Lookup) (hit, miss []Edge, complete bool) {
	if !lk.CommaOk {
		return boolEdges(lk)
	}
	okv := tupleExtract(lk, 1)
	if okv == nil {
		return nil, nil, false
	}
	return boolEdges(okv)
}

// lookupOfCond: the map lookup a branch condition tests (directly or through the comma-ok result).
func lookupOfCond(c ssa.Value) *ssa.Lookup {
	if lk, ok := c.(*ssa.Lookup); ok {
		return lk
	}
	if ex, ok := c.(*ssa.Extract); ok && ex.Index == 1 {
		if lk, ok := ex.Tuple.(*ssa.Lookup); ok && lk.CommaOk {
			return lk
		}
	}
	return nil
}

func c18ServedOnce(a *Anchors, r *core.Report, send *ssa.Function) {
	rule := "C18.V6 publication-sent-once-per-process"
	r.Floor(rule, 1)
	fn := fname(send)
	key := "C18.V6|" + fn
	inst := "a subscriber that holds two relations on the event (link and monitor) is sent the publication once"
	var sends []ssa.Instruction
	eachInstr(send, func(in ssa.Instruction) {
		if callsNamed(in, "sendEventMessage") {
			sends = append(sends, in)
		}
	})
	if len(sends) == 0 {
		r.Unk(rule, key, fn, a.P.Pos(send.Pos()), inst, "no local event send found")
		return
	}
	for _, s := range sends {
		pid := callCommon(s).Args[2]
		ok := false
		eachInstr(send, func(in ssa.Instruction) {
			lk, isLk := in.(*ssa.Lookup)
			if !isLk {
				return
			}
			if _, isMap := lk.X.Type().Underlying().(*types.Map); !isMap {
				return
			}
			if lk.Index != pid && resolveLocalCopy(lk.Index) != resolveLocalCopy(pid) {
				return
			}
			_, miss, complete := setTest(lk)
			if !complete || len(miss) == 0 || !edgesDominate(miss, s) {
				return
			}
			// entered into the set on the way
			entered := false
			eachInstr(send, func(x ssa.Instruction) {
				if mu, isMu := x.(*ssa.MapUpdate); isMu && mu.Map == lk.X && (mu.Key == pid || resolveLocalCopy(mu.Key) == resolveLocalCopy(pid)) && edgesDominate(miss, x) {
					entered = true
				}
			})
			if entered {
				ok = true
			}
		})
		if ok {
			r.OK(rule, key, fn, a.P.Pos(s.Pos()), inst, "send behind the miss edge of served[pid], which is then set")
		} else {
			r.Bad(rule, key, fn, a.P.Pos(s.Pos()), inst, "the fan-out sends once per list entry: a process with a link and a monitor on the event handles every publication twice")
		}
	}
}

// c18BufferLocked: V7 — the replay buffer is a queue whose push drops (and clears) the oldest item when
// it is full; a subscriber walks the same items to collect the last N messages. Every operation on an
// event's buffer — the push and the whole walk (Item, Value, Next) — happens while that event's buffer
// lock is held.
func c18BufferLocked(a *Anchors, r *core.Report) {
	rule := "C18.V7 replay-buffer-accessed-under-its-lock"
	r.Floor(rule, 3)
	evT := a.P.Named("node", "eventOwner")
	if evT == nil {
		r.Unk(rule, "C18.V7|type", "", "", "event owner type found", "not found")
		return
	}
	for _, f := range funcsOfPkgs(a.P, "node") {
		var ops []ssa.Instruction
		eachInstr(f, func(in ssa.Instruction) {
			cc := callCommon(in)
			if cc == nil || !cc.IsInvoke() {
				return
			}
			// invoke on ev.last, or on an item of the queue
			if b, path, okp := fieldPath(cc.Value); okp && len(path) > 0 && path[len(path)-1] == "last" {
				if t := b.Type(); strings.HasSuffix(t.String(), "eventOwner") {
					ops = append(ops, in)
					return
				}
			}
			if strings.HasSuffix(cc.Value.Type().String(), "ItemMPSC") && (cc.Method.Name() == "Value" || cc.Method.Name() == "Next") {
				ops = append(ops, in)
			}
		})
		if len(ops) == 0 {
			continue
		}
		usesBuffer := false
		for _, o := range ops {
			if _, path, okp := fieldPath(callCommon(o).Value); okp && len(path) > 0 && path[len(path)-1] == "last" {
				usesBuffer = true
			}
		}
		if !usesBuffer {
			continue
		}
		isLockOp := func(in ssa.Instruction, kind string) bool {
			m := mutexOpOf(in)
			return m != nil && !m.deferred && m.kind == kind && strings.HasSuffix(m.owner, "eventOwner")
		}
		fn := fname(f)
		key := "C18.V7|" + fn
		inst := "every operation on the event's replay buffer is made with the buffer lock held"
		var bad []string
		for _, o := range ops {
			if hit := reaches([]Point{{f.Blocks[0], 0}}, func(x ssa.Instruction) bool { return isLockOp(x, "Lock") }, func(x ssa.Instruction) bool { return x == o }); hit != nil {
				bad = append(bad, a.P.Pos(o.Pos())+" is reachable without the lock")
				continue
			}
			eachInstr(f, func(u ssa.Instruction) {
				if !isLockOp(u, "Unlock") {
					return
				}
				if hit := reaches([]Point{after(u)}, func(x ssa.Instruction) bool { return isLockOp(x, "Lock") }, func(x ssa.Instruction) bool { return x == o }); hit != nil {
					bad = append(bad, a.P.Pos(o.Pos())+" is reachable after the unlock at "+a.P.Pos(u.Pos()))
				}
			})
		}
		if len(bad) > 0 {
			r.Bad(rule, key, fn, a.P.Pos(ops[0].Pos()), inst, strings.Join(uniq(bad), "; ")+": the push that drops the oldest message clears the item a new subscriber is reading — the subscriber panics on the nil value (a remote subscriber's connection is closed)")
		} else {
			r.OK(rule, key, fn, a.P.Pos(ops[0].Pos()), inst, fmt.Sprintf("%d buffer operations, all between Lock and Unlock", len(ops)))
		}
	}
}

// c18TerminationBehindPublications: V8 — a remote subscriber is told that the event is gone by a frame
// of its own; if that frame can overtake the publications sent before it, the subscriber's node drops
// the subscription first and discards them. The frame has to travel the way the publications do: the
// same link selector and receive-queue selector as SendEvent (both derived from an identifier, not
// the round-robin constant 0).
func c18TerminationBehindPublications(p *load.Program, r *core.Report) {
	rule := "C18.V8 event-termination-travels-behind-the-publications"
	r.Floor(rule, 1)
	sendFn := p.Func("net/proto", "connection", "send")
	pub := p.Func("net/proto", "connection", "SendEvent")
	term := p.Func("net/proto", "connection", "SendTerminateEvent")
	key := "C18.V8|SendTerminateEvent"
	inst := "the termination notice of an event uses the link and the receive queue its publications use"
	if sendFn == nil || pub == nil || term == nil {
		r.Unk(rule, key, "", "", inst, "frame writers not found")
		return
	}
	selectorIsConstZero := func(f *ssa.Function) (bool, ssa.Instruction) {
		var at ssa.Instruction
		zero := false
		eachInstr(f, func(in ssa.Instruction) {
			cc := callCommon(in)
			if cc == nil || staticCallee(cc) != sendFn {
				return
			}
			at = in
			if c, ok := constInt(cc.Args[2]); ok && c == 0 {
				zero = true
			}
		})
		return zero, at
	}
	pz, _ := selectorIsConstZero(pub)
	tz, at := selectorIsConstZero(term)
	switch {
	case at == nil:
		r.Unk(rule, key, fname(term), p.Pos(term.Pos()), inst, "no call of send in SendTerminateEvent")
	case tz && !pz:
		r.Bad(rule, key, fname(term), p.Pos(at.Pos()), inst, "publications travel on the link/queue selected by the publisher's id, the termination notice round-robin (selector 0): it overtakes the last publications, the subscriber's node drops the subscription and discards them")
	default:
		r.OK(rule, key, fname(term), p.Pos(at.Pos()), inst, "same kind of selector as SendEvent")
	}
}
