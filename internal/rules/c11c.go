package rules

import (
	"fmt"
	"go/token"
	"strings"

	"golang.org/x/tools/go/ssa"

	"verif/internal/core"
	"verif/internal/load"
)

// nestingGuard finds, in a coder function whose third parameter is the coder state, the comparison
// of a counter that lives behind the state (loaded through a pointer field) with a constant, and
// returns the greatest counter value that passes it, the comparison and its within-bound edges.
func nestingGuard(f *ssa.Function) (limit int64, cmp *ssa.BinOp, within []Edge, ok bool) {
	if len(f.Params) < 3 {
		return
	}
	eachInstr(f, func(in ssa.Instruction) {
		b, isB := in.(*ssa.BinOp)
		if !isB || ok || (b.Op != token.GEQ && b.Op != token.GTR && b.Op != token.LSS && b.Op != token.LEQ) {
			return
		}
		c, isC := constInt(b.Y)
		if !isC {
			return
		}
		ld, isLd := b.X.(*ssa.UnOp)
		if !isLd || ld.Op != token.MUL {
			return
		}
		base, _, okp := fieldPath(ld.X)
		if !okp {
			if l2, isU := ld.X.(*ssa.UnOp); isU {
				base, _, okp = fieldPath(l2.X)
			}
		}
		if !okp || canon(base) != ssa.Value(f.Params[2]) {
			return
		}
		t, fl, complete := boolEdges(b)
		if !complete {
			return
		}
		switch b.Op {
		case token.GEQ: // counter >= c refuses: c-1 is the last that passes
			limit, within = c-1, fl
		case token.GTR:
			limit, within = c, fl
		case token.LSS:
			limit, within = c-1, t
		case token.LEQ:
			limit, within = c, t
		}
		cmp, ok = b, true
	})
	return
}

// c11NestingAgreement: E14 — the decoder refuses interface-typed values nested deeper than a
// constant (C16.B6 needs that: the recursion is chosen by the data). The round trip then needs the
// encoder to refuse the same values: the function that encodes an interface-typed value by the
// encoder of its dynamic type compares the same kind of counter with a constant before it looks
// that encoder up, and its bound is not above the decoder's.
func c11NestingAgreement(p *load.Program, r *core.Report) {
	rule := "C11.E14 nesting-limit-agrees"
	r.Floor(rule, 1)
	getDec := p.Func("net/edf", "", "getDecoder")
	getEnc := p.Func("net/edf", "", "getEncoder")
	if getDec == nil || getEnc == nil {
		r.Unk(rule, "C11.E14|anchors", "", "", "getDecoder and getEncoder are found", "missing")
		return
	}
	// the decoder side: the function C16.B6 is about
	var decLimit int64
	decFound := false
	decName := ""
	for _, f := range funcsOfPkgs(p, "net/edf") {
		if f.Parent() != nil || len(f.Params) != 3 || !strings.HasSuffix(f.Params[2].Type().String(), "stateDecode") {
			continue
		}
		calls := false
		eachInstr(f, func(in ssa.Instruction) {
			if c, ok := in.(*ssa.Call); ok && staticCallee(c.Common()) == getDec {
				calls = true
			}
		})
		if !calls {
			continue
		}
		if l, _, _, ok := nestingGuard(f); ok {
			decLimit, decFound, decName = l, true, fname(f)
		}
	}
	// the encoder side: encodes the dynamic value of an interface (reflect.Value.Elem of its own
	// argument) with an encoder it looks up for that value's type
	for _, f := range funcsOfPkgs(p, "net/edf") {
		if f.Parent() != nil || len(f.Params) != 3 || !strings.HasSuffix(f.Params[2].Type().String(), "stateEncode") {
			continue
		}
		var lookups []ssa.Instruction
		eachInstr(f, func(in ssa.Instruction) {
			c, ok := in.(*ssa.Call)
			if !ok || staticCallee(c.Common()) != getEnc {
				return
			}
			// the type argument comes from Elem() of the value parameter
			fromElem := false
			var walk func(v ssa.Value, d int)
			walk = func(v ssa.Value, d int) {
				if d > 6 || v == nil {
					return
				}
				if c2, ok := v.(*ssa.Call); ok {
					if sf := staticCallee(c2.Common()); sf != nil && sf.Pkg != nil && sf.Pkg.Pkg.Path() == "reflect" {
						if sf.Name() == "Elem" {
							fromElem = true
							return
						}
						for _, a := range c2.Common().Args {
							walk(a, d+1)
						}
					}
				}
				if u, ok := v.(*ssa.UnOp); ok {
					walk(u.X, d+1)
				}
			}
			walk(c.Common().Args[0], 0)
			if fromElem {
				lookups = append(lookups, in)
			}
		})
		if len(lookups) == 0 {
			continue
		}
		fn := fname(f)
		key := "C11.E14|" + fn
		inst := "an interface-typed value is encoded only while the nesting is within the bound the decoder accepts"
		if !decFound {
			r.OK(rule, key, fn, p.Pos(f.Pos()), inst, "the decoder has no nesting bound: nothing to agree with (C16.B6 reports that)")
			continue
		}
		limit, cmp, within, ok := nestingGuard(f)
		switch {
		case !ok:
			r.Bad(rule, key, fn, p.Pos(lookups[0].Pos()), inst, fmt.Sprintf("no comparison of a nesting counter with a constant: %s refuses more than %d nested interface values, so a deeper value encodes to bytes that do not decode", decName, decLimit+1))
		case limit > decLimit:
			r.Bad(rule, key, fn, p.Pos(cmp.Pos()), inst, fmt.Sprintf("the encoder lets the counter reach %d, the decoder (%s) only %d: values in between encode but do not decode", limit, decName, decLimit))
		default:
			all := true
			for _, l := range lookups {
				if !edgesDominate(within, l) {
					all = false
				}
				ld := cmp.X.(*ssa.UnOp)
				isInc := func(x ssa.Instruction) bool {
					st, ok := x.(*ssa.Store)
					if !ok || canon(st.Addr) != canon(ld.X) {
						return false
					}
					add, ok := st.Val.(*ssa.BinOp)
					if !ok || add.Op != token.ADD {
						return false
					}
					c, okc := constInt(add.Y)
					return okc && c == 1
				}
				if reaches(edgePoints(within), isInc, func(x ssa.Instruction) bool { return x == l }) != nil {
					all = false
				}
			}
			if all {
				r.OK(rule, key, fn, p.Pos(cmp.Pos()), inst, fmt.Sprintf("counter bound %d (decoder %s: %d); the within-bound edge dominates the %d encoder lookup(s) and every path to them adds one to the counter", limit, decName, decLimit, len(lookups)))
			} else {
				r.Bad(rule, key, fn, p.Pos(cmp.Pos()), inst, "the comparison does not dominate the lookup of the dynamic value's encoder, or a path to it does not count the level")
			}
		}
	}
}

// c11MappedAtomLength: E15 — an atom is written as a 16-bit length (a value above 255 is read as a
// cache id by the decoder) followed by its bytes. The callers check the length of the atom they
// pass; the writer may replace it by the value of the connection's atom mapping. Every replacement
// value (a type assertion to gen.Atom of what a sync.Map Load returned) that can reach the length
// write passes a comparison of its own length with a constant <= 255 whose failing edge does not
// reach the write.
func c11MappedAtomLength(p *load.Program, r *core.Report) {
	rule := "C11.E15 mapped-atom-length-checked"
	r.Floor(rule, 1)
	for _, f := range funcsOfPkgs(p, "net/edf") {
		if len(f.Blocks) == 0 {
			continue
		}
		// length writes: PutUint16(.., convert uint16 <- len(x)) with x of type gen.Atom
		type write struct {
			in   ssa.Instruction
			atom ssa.Value
		}
		var writes []write
		eachInstr(f, func(in ssa.Instruction) {
			cc := callCommon(in)
			if cc == nil {
				return
			}
			sf := staticCallee(cc)
			if sf == nil || sf.Name() != "PutUint16" || len(cc.Args) < 3 {
				return
			}
			cv, ok := cc.Args[len(cc.Args)-1].(*ssa.Convert)
			if !ok {
				return
			}
			lc, ok := cv.X.(*ssa.Call)
			if !ok {
				return
			}
			if b, ok := lc.Common().Value.(*ssa.Builtin); !ok || b.Name() != "len" {
				return
			}
			a := lc.Common().Args[0]
			if !strings.HasSuffix(a.Type().String(), "gen.Atom") {
				return
			}
			writes = append(writes, write{in, a})
		})
		for _, w := range writes {
			// leaves of the atom value
			var leaves []ssa.Value
			seen := map[ssa.Value]bool{}
			var walk func(v ssa.Value)
			walk = func(v ssa.Value) {
				if seen[v] {
					return
				}
				seen[v] = true
				if ph, ok := v.(*ssa.Phi); ok {
					for _, e := range ph.Edges {
						walk(e)
					}
					return
				}
				leaves = append(leaves, v)
			}
			walk(w.atom)
			for _, lf := range leaves {
				ta, ok := lf.(*ssa.TypeAssert)
				if !ok {
					continue
				}
				// what a sync.Map Load returned
				fromLoad := false
				if ex, ok := ta.X.(*ssa.Extract); ok {
					if c, ok := ex.Tuple.(*ssa.Call); ok {
						if m, ok := syncMapCall(c.Common()); ok && m == "Load" {
							fromLoad = true
						}
					}
				}
				if !fromLoad {
					continue
				}
				fn := fname(f)
				key := "C11.E15|" + fn + "|replacement"
				inst := "the value the atom mapping puts in place of an atom is not longer than 255 bytes when its length is written"
				guarded := false
				var g ssa.Instruction
				if refs := ta.Referrers(); refs != nil {
					for _, ref := range *refs {
						lc, ok := ref.(*ssa.Call)
						if !ok {
							continue
						}
						if b, ok := lc.Common().Value.(*ssa.Builtin); !ok || b.Name() != "len" {
							continue
						}
						if lrefs := lc.Referrers(); lrefs != nil {
							for _, x := range *lrefs {
								b, ok := x.(*ssa.BinOp)
								if !ok {
									continue
								}
								c, isC := constInt(b.Y)
								if !isC || b.X != ssa.Value(lc) {
									continue
								}
								t, fl, complete := boolEdges(b)
								if !complete {
									continue
								}
								var over []Edge
								switch {
								case b.Op == token.GTR && c <= 255:
									over = t
								case b.Op == token.GEQ && c <= 256:
									over = t
								case b.Op == token.LEQ && c <= 255:
									over = fl
								case b.Op == token.LSS && c <= 256:
									over = fl
								default:
									continue
								}
								isW := func(y ssa.Instruction) bool { return y == w.in }
								if reaches(edgePoints(over), nil, isW) != nil {
									continue
								}
								// and no path from the replacement to the write goes round the comparison
								var ifIn ssa.Instruction
								if brefs := b.Referrers(); brefs != nil {
									for _, y := range *brefs {
										if _, ok := y.(*ssa.If); ok {
											ifIn = y
										}
									}
								}
								if ifIn != nil && reaches([]Point{{ta.Block(), indexIn(ta) + 1}}, func(y ssa.Instruction) bool { return y == ifIn }, isW) == nil {
									guarded = true
									g = b
								}
							}
						}
					}
				}
				if guarded {
					r.OK(rule, key, fn, p.Pos(g.Pos()), inst, "its length is compared with the limit right after the lookup; the over-limit edge does not reach the length write and no path goes round the comparison")
				} else {
					r.Bad(rule, key, fn, p.Pos(ta.Pos()), inst, "the replacement reaches the 16-bit length write unchecked: a mapped value of 256..65535 bytes is written with a length the decoder reads as a cache id (the callers check the atom before the mapping only)")
				}
			}
		}
	}
}

// c11NoMemorySizeBound: E16 — what a value takes in memory says nothing about what it takes on the
// wire (a registered type with its own marshaling, a struct with a fixed array): a coder that
// accepts or refuses by the Go size of a type refuses values its counterpart has produced. The
// only use of reflect.Type.Size() in net/edf is the test for zero.
func c11NoMemorySizeBound(p *load.Program, r *core.Report) {
	rule := "C11.E16 no-bound-by-memory-size"
	r.Floor(rule, 1)
	seq := map[string]int{}
	for _, f := range funcsOfPkgs(p, "net/edf") {
		eachInstr(f, func(in ssa.Instruction) {
			c, ok := in.(*ssa.Call)
			if !ok || !c.Common().IsInvoke() || c.Common().Method.Name() != "Size" || c.Common().Value.Type().String() != "reflect.Type" {
				return
			}
			fn := fname(f)
			seq[fn]++
			key := fmt.Sprintf("C11.E16|%s|Size#%d", fn, seq[fn])
			inst := "the memory size of a type is only tested for zero"
			bad := ""
			var check func(v ssa.Value, d int)
			check = func(v ssa.Value, d int) {
				refs := v.Referrers()
				if refs == nil || d > 4 {
					return
				}
				for _, x := range *refs {
					switch y := x.(type) {
					case *ssa.DebugRef:
					case *ssa.Convert:
						check(y, d+1)
					case *ssa.BinOp:
						other := y.Y
						if other == v {
							other = y.X
						}
						cv, isC := constInt(other)
						if (y.Op == token.EQL || y.Op == token.NEQ) && isC && cv == 0 {
							continue
						}
						bad = fmt.Sprintf("used in `%s` at %s", y.String(), p.Pos(y.Pos()))
					default:
						bad = fmt.Sprintf("flows into %s at %s", x.String(), p.Pos(x.Pos()))
					}
				}
			}
			check(c, 0)
			if bad == "" {
				r.OK(rule, key, fn, p.Pos(in.Pos()), inst, "compared with zero only")
			} else {
				r.Bad(rule, key, fn, p.Pos(in.Pos()), inst, bad+": a decision that depends on the memory layout of the type — a slice of a registered type that is large in memory and small on the wire encodes but is refused by the decoder")
			}
		})
	}
}

// sccOf: the blocks of the strongly connected component of b (empty when b is not in a loop).
func sccOf(b *ssa.BasicBlock) map[*ssa.BasicBlock]bool {
	fwd := map[*ssa.BasicBlock]bool{}
	bwd := map[*ssa.BasicBlock]bool{}
	var walk func(x *ssa.BasicBlock, m map[*ssa.BasicBlock]bool, succ bool)
	walk = func(x *ssa.BasicBlock, m map[*ssa.BasicBlock]bool, succ bool) {
		next := x.Succs
		if !succ {
			next = x.Preds
		}
		for _, n := range next {
			if !m[n] {
				m[n] = true
				walk(n, m, succ)
			}
		}
	}
	walk(b, fwd, true)
	out := map[*ssa.BasicBlock]bool{}
	if !fwd[b] {
		return out
	}
	walk(b, bwd, false)
	for x := range fwd {
		if bwd[x] {
			out[x] = true
		}
	}
	return out
}

// isElementDecode: a call of a decoder picked at run time (the Decode field of a decoder), whose
// first argument is the *reflect.Value to decode into.
func isElementDecode(c *ssa.Call) bool {
	cc := c.Common()
	if cc.IsInvoke() || cc.StaticCallee() != nil || len(cc.Args) != 3 {
		return false
	}
	if _, path, ok := fieldPath(cc.Value); !ok || len(path) == 0 || path[len(path)-1] != "Decode" {
		return false
	}
	return strings.HasSuffix(cc.Args[0].Type().String(), "*reflect.Value")
}

// c11FreshElementTargets: E18 — a decoder that meets a nil on the wire (nil slice, map, interface
// value, error) returns without touching its target and relies on the target being zero. Inside a
// counted loop every element decoder therefore gets a target made in that very iteration
// (reflect.New / Indirect, value.Index(i), value.Field(i)): a holder made before the loop carries
// the previous element's value over to an element that is nil on the wire.
func c11FreshElementTargets(p *load.Program, r *core.Report) {
	rule := "C11.E18 element-target-fresh-per-iteration"
	r.Floor(rule, 9)
	seq := map[string]int{}
	for _, f := range funcsOfPkgs(p, "net/edf") {
		eachInstr(f, func(in ssa.Instruction) {
			c, ok := in.(*ssa.Call)
			if !ok || !isElementDecode(c) {
				return
			}
			scc := sccOf(in.Block())
			if len(scc) == 0 {
				return
			}
			fn := fname(f)
			seq[fn]++
			key := fmt.Sprintf("C11.E18|%s|element#%d", fn, seq[fn])
			inst := "the target handed to the element decoder is made in the iteration that decodes the element"
			cell, isAlloc := c.Common().Args[0].(*ssa.Alloc)
			if !isAlloc {
				r.Unk(rule, key, fn, p.Pos(in.Pos()), inst, "the target is not a local cell: "+c.Common().Args[0].String())
				return
			}
			bad := ""
			stores := 0
			if refs := cell.Referrers(); refs != nil {
				for _, x := range *refs {
					st, ok := x.(*ssa.Store)
					if !ok || st.Addr != ssa.Value(cell) {
						continue
					}
					stores++
					if !scc[st.Block()] {
						// a store before the loop is fine only when one inside the loop overwrites it before the call
						continue
					}
					if vi, ok := st.Val.(ssa.Instruction); ok && !scc[vi.Block()] {
						bad = fmt.Sprintf("the value stored at %s is made outside the loop (%s)", p.Pos(st.Pos()), st.Val.String())
					}
				}
			}
			inLoop := 0
			if refs := cell.Referrers(); refs != nil {
				for _, x := range *refs {
					if st, ok := x.(*ssa.Store); ok && st.Addr == ssa.Value(cell) && scc[st.Block()] {
						inLoop++
					}
				}
			}
			// the cell itself allocated inside the loop counts as fresh only with a store of a fresh value
			if inLoop == 0 {
				bad = "no store to the target inside the loop: one holder, made before the loop, serves all the elements"
			}
			if bad == "" {
				r.OK(rule, key, fn, p.Pos(in.Pos()), inst, fmt.Sprintf("%d store(s) to the target, those in the loop store a value made in the loop", stores))
			} else {
				r.Bad(rule, key, fn, p.Pos(in.Pos()), inst, bad+": an element that is nil on the wire keeps the value of the element decoded before it")
			}
		})
	}
}

// c11DepthBalanced: E17 — the nesting counter is shared by the whole encoding/decoding: after the
// level is counted, every successful return of the function gives it back (a deferred decrement,
// or one on each path); a leaked level makes a long flat value hit the nesting bound.
func c11DepthBalanced(p *load.Program, r *core.Report) {
	rule := "C11.E17 nesting-counter-balanced"
	r.Floor(rule, 2)
	for _, f := range funcsOfPkgs(p, "net/edf") {
		if f.Parent() != nil || len(f.Params) != 3 {
			continue
		}
		_, cmp, _, ok := nestingGuard(f)
		if !ok {
			continue
		}
		ld := cmp.X.(*ssa.UnOp)
		step := func(x ssa.Instruction, op token.Token, fn *ssa.Function) bool {
			st, ok := x.(*ssa.Store)
			if !ok {
				return false
			}
			if fn == f {
				if canon(st.Addr) != canon(ld.X) {
					return false
				}
			}
			b, ok := st.Val.(*ssa.BinOp)
			if !ok || b.Op != op {
				return false
			}
			c, okc := constInt(b.Y)
			return okc && c == 1
		}
		var incs []ssa.Instruction
		eachInstr(f, func(in ssa.Instruction) {
			if step(in, token.ADD, f) {
				incs = append(incs, in)
			}
		})
		fn := fname(f)
		key := "C11.E17|" + fn
		inst := "every successful return after the level was counted gives the level back"
		if len(incs) == 0 {
			continue
		}
		idx := errResultIndex(f)
		var leak ssa.Instruction
		for _, inc := range incs {
			stop := func(x ssa.Instruction) bool {
				if step(x, token.SUB, f) {
					return true
				}
				if d, ok := x.(*ssa.Defer); ok {
					if mc, ok := d.Call.Value.(*ssa.MakeClosure); ok {
						hit := false
						g := mc.Fn.(*ssa.Function)
						eachInstr(g, func(y ssa.Instruction) {
							if step(y, token.SUB, g) {
								hit = true
							}
						})
						return hit
					}
				}
				return false
			}
			isOKRet := func(x ssa.Instruction) bool {
				rt, ok := x.(*ssa.Return)
				return ok && (idx < 0 || errKind(rt.Results[idx]) != "nonnil")
			}
			if h := reaches([]Point{{inc.Block(), indexIn(inc) + 1}}, stop, isOKRet); h != nil {
				leak = h
			}
		}
		if leak == nil {
			r.OK(rule, key, fn, p.Pos(incs[0].Pos()), inst, "a decrement (deferred or explicit) lies on every path from the increment to a return that may report success")
		} else {
			r.Bad(rule, key, fn, p.Pos(leak.Pos()), inst, "this return is reachable from the increment without a decrement: every value taking this path leaks one level for the rest of the call, and after the bound is reached a flat value is refused as 'too deep'")
		}
	}
}
