package rules

import (
	"fmt"
	"go/token"
	"go/types"
	"sort"
	"strings"

	"golang.org/x/tools/go/ssa"

	"verif/internal/core"
	"verif/internal/load"
)

func init() {
	Registry["C17"] = Set{
		Explanation: "Decides structural clauses of the application lifecycle: A1 in start, the CAS Loaded->Running success edge dominates the first member spawn, a failed spawn kills every member started so far and stores Loaded before the error is returned, and the Start callback has exactly one call site, after all spawns; A2 mode table — in terminate the 'stop everything' action (swap to Stopping + shutdown of all members) is reachable only with mode Permanent, or with mode Transient on paths that passed reason != Normal and reason != Shutdown, never with Temporary (enum value sets refined along the switch edges plus must-pass of the reason tests); A3 the Terminate callback is dominated by 'member group empty' and by the swap to Loaded whose old value was tested, so it runs once per stop; A4 every path to application.start starts the spec's dependencies first (all call sites are preceded by the shared dependency step); A5 stop returns nil only from the stopped channel or when the state is already Loaded, and the stopped channel is closed only on the path that found the group empty. Added while probing: A1 a successful start stores the requested mode; A2 at each stop-all site the edge that won the swap to Stopping sends an exit to every member and records the causing reason before the common tail; A5 identifies the state word by its atomic load (a select index is not a state). A5 also: stop records its reason before it takes the members down; A6 nothing a Range callback over the member group calls synchronously locks that group again (lock re-entrancy through the static call graph); A1/A2 recognise a complete member fan-out in both shapes (Range callback that never stops, or a loop over the collected members left only by exhaustion). A8 the state of one run that terminate() reads (mode, the stopped channel, the reason) is written by start() before the first member is spawned, and a channel terminate() closes is created by start(). A9 a member's termination is ordered against the start: terminate() consults a guard (phase flag under a lock, or a mutex) that start() engages before the first spawn, before it touches the member group; while the start is in progress it only records the termination; every path of start() after a spawn ends the phase; the recorded terminations are replayed to terminate() after the flag is reset, in a loop left only by exhaustion. A10 every call of application.start is given the specification's mode, a mode constant, or a caller's mode that is replaced by the specification's when zero — never the run-scoped field that stop() overwrites. A11 on every path from a member spawn to a successful return start() looks at the state again, and on the Stopping edge sends an exit to every member (a stop request made during the start reaches the members started after it). A11 on every path from a member spawn to a successful return start() looks at the state again, and on the Stopping edge sends an exit to every member (a stop request made during the start reaches the members started after it). A12 = C10.N11: the exit signals of an application to its members are sent on behalf of the member's parent (a remotely started application could not be stopped when a member trapped exits).",
		NotDecided: []string{
			"interleavings of start/stop/member death (e.g. a member dying before it is stored in the group)",
			"order of member starts relative to dependency graphs with cycles",
		},
		Assumptions: []string{"sync/atomic is sequentially consistent", "lib.Map is a concurrent map"},
		Run:         runC17,
	}
	Registry["C10"] = Set{
		Explanation: "Decides structural clauses of 'no orphans': N1 every spawn issued by the supervisor and the pool passes options with LinkParent (and the supervisor LinkChild) constant-true; N2 spawn adds the child->parent link when LinkParent is set, before the child is published, and the exit sent when a process terminates names the terminated process as sender, so that a trapping child cannot trap its parent's exit (C05.T4 checks the trap exemption); N3 the node's wait group is incremented at spawn and decremented at process release under the same condition, graceful node stop waits on it before the network is torn down, and it sends the shutdown exit from each process's parent pid; N4 application.stop reports success only from the stopped channel or an already loaded state, and the channel is closed only when the member group is empty. Added while probing: N2 on a failed ProcessInit the children already spawned get their exit through sendExitMessage with the failed process as sender. N2 also: on a failed ProcessInit the relations that target the failed process are drained (RouteTerminatePID), so children linked to it by LinkParent get its exit; N3 the Wait is on every path to NetworkStop that is consistent with force == false; N5 = C17.A6. N6 lock pairing — in every function that touches the member group's (lib.Map) lock a forward data flow over (held read/write, unlock deferred) shows: no return while the lock is held without a deferred unlock, no unlock (explicit or deferred) of a lock that is not held or of the other kind, no second lock (a leaked lock blocks every later start, stop or member termination of the application for ever, an unlock of an unlocked mutex is a fatal error that takes the node down). N7 = C08.S12: a supervisor that terminates itself waits for every running child. N8 the refused-push edge of the exit delivery helper does not just return an error its callers ignore (open finding F-BK: a full bounded Urgent queue drops the parent's exit signal). N9 = C04.L6p. N10 node.Stop raises a flag before it walks the process table and spawn reads it after processes.Store, sending the exit signal itself on the set edge (a process registered after the walk passed would otherwise never be asked to terminate and Stop would never return). N11 every exit signal an application sends to a group member carries the member's parent as the sender (never node.SendExit, whose sender is the local core): the members of an application started by a remote node have that node's core as parent and trap anything else. N12 the pool's termination path looks at the ring of its workers before the pool is reported as terminated (open finding F-BW: today the workers are taken down by their link afterwards, so ApplicationStop can return while a worker still runs).",
		NotDecided: []string{
			"transitive termination through a supervision tree under arbitrary fault points",
			"that children terminate within the stop timeout",
		},
		Assumptions: []string{"links are delivered (C04) and untrapped exits terminate (C05)"},
		Run:         runC10,
	}
}

func appStateConsts(p *load.Program) map[string]int64 {
	m := map[string]int64{}
	for v, n := range enumConsts(p.Named("gen", "ApplicationState")) {
		m[n] = v
	}
	return m
}

func runC17(p *load.Program, r *core.Report) {
	a, problems := getAnchors(p)
	for _, pr := range problems {
		r.Unk("C17.anchors", "C17.anchors|"+pr, "", "", "anchors resolve", pr)
	}
	if len(problems) > 0 {
		return
	}
	appT := p.Named("node", "application")
	start := p.Func("node", "application", "start")
	term := p.Func("node", "application", "terminate")
	stop := p.Func("node", "application", "stop")
	if appT == nil || start == nil || term == nil || stop == nil {
		r.Unk("C17.anchors", "C17.anchors|app", "", "", "application type and start/stop/terminate found", "missing")
		return
	}
	st := appStateConsts(p)
	ops := stateOps(p, appT, "state")
	c17RunState(p, r, appT, start, term)
	c17StartingPhase(p, r, appT, start, term)
	c17StartMode(p, r, appT, start)
	c17StopDuringStart(p, r, appT, start, st["ApplicationStateStopping"])
	appStopSignalFromParent(p, r, "C17.A12 stop-signal-from-the-parent", "C17.A12")

	// ---- A1
	rule := "C17.A1 start"
	r.Floor(rule, 3)
	{
		fn := fname(start)
		var cas *stateOp
		for i := range ops {
			if ops[i].Fn == start && ops[i].Kind == "cas" && ops[i].Old == st["ApplicationStateLoaded"] && ops[i].New == st["ApplicationStateRunning"] {
				cas = &ops[i]
			}
		}
		var spawn *ssa.Call
		eachInstr(start, func(in ssa.Instruction) {
			if c, ok := in.(*ssa.Call); ok && callsNamed(in, "spawn") {
				spawn = c
			}
		})
		key := "C17.A1|" + fn + "|gate"
		inst := "members are spawned only by the caller that moved the state Loaded->Running"
		if cas == nil || spawn == nil {
			r.Bad(rule, key, fn, p.Pos(start.Pos()), inst, fmt.Sprintf("CAS Loaded->Running found: %v, member spawn found: %v", cas != nil, spawn != nil))
		} else {
			t, _, _ := boolEdges(cas.Result)
			if edgesDominate(t, spawn) {
				r.OK(rule, key, fn, p.Pos(spawn.Pos()), inst, "spawn dominated by the CAS success edge")
			} else {
				r.Bad(rule, key, fn, p.Pos(spawn.Pos()), inst, "the spawn loop is reachable without winning the CAS: two concurrent starts both spawn the members")
			}
		}
		// failed spawn: kill started members, restore Loaded, return the error
		if spawn != nil {
			key := "C17.A1|" + fn + "|rollback"
			inst := "a failed member start kills the members started so far and puts the state back to Loaded before returning the error"
			errv := tupleExtract(spawn, 1)
			_, nn, _ := nilEdges(errv)
			var stp []Point
			for _, e := range nn {
				stp = append(stp, Point{e.To(), 0})
			}
			var probs []string
			// every member started so far is killed: a complete fan-out of Kill over the group on every path
			killOK := false
			nearMiss := ""
			isKillAll := func(in ssa.Instruction) bool {
				done, why := memberFanout(in, "group", "Kill")
				if why != "" {
					nearMiss = why
				}
				return done != nil
			}
			sawFanout := len(walkAvoid(stp, isReturn, isKillAll)) > 0
			if sawFanout && reaches(stp, isKillAll, isReturn) == nil {
				killOK = true
			}
			if !killOK {
				msg := "members already started are not all killed"
				if nearMiss != "" {
					msg += " (" + nearMiss + ")"
				}
				probs = append(probs, msg)
			}
			isRestore := func(in ssa.Instruction) bool {
				for _, op := range ops {
					if op.In == in && (op.Kind == "store" || op.Kind == "swap") && op.HasNew && op.New == st["ApplicationStateLoaded"] {
						return true
					}
				}
				return false
			}
			if reaches(stp, isRestore, isReturn) != nil {
				probs = append(probs, "the state stays Running: the application can never be started again")
			}
			for _, ret := range walkAvoid(stp, nil, isReturn) {
				if errKind(ret.(*ssa.Return).Results[0]) == "nil" {
					probs = append(probs, "the failure path returns nil")
				}
			}
			if len(probs) > 0 {
				r.Bad(rule, key, fn, p.Pos(spawn.Pos()), inst, strings.Join(probs, "; "))
			} else {
				r.OK(rule, key, fn, p.Pos(spawn.Pos()), inst, "Kill over the group, state restored, error returned")
			}
		}
		// Start callback once, after the loop
		{
			key := "C17.A1|" + fn + "|start-callback"
			inst := "the application's Start callback has one call site, after all members were spawned"
			var calls []ssa.Instruction
			for _, f := range p.SrcFuncs {
				eachInstr(f, func(in ssa.Instruction) {
					cc := callCommon(in)
					if cc != nil && cc.IsInvoke() && cc.Method.Name() == "Start" {
						if n, _ := cc.Value.Type().(*types.Named); n != nil && n.Obj().Name() == "ApplicationBehavior" {
							calls = append(calls, in)
						}
					}
				})
			}
			switch {
			case len(calls) != 1:
				r.Bad(rule, key, fn, p.Pos(start.Pos()), inst, fmt.Sprintf("%d call sites", len(calls)))
			case spawn != nil && instrReachable(calls[0], spawn):
				r.Bad(rule, key, fn, p.Pos(calls[0].Pos()), inst, "a member spawn is reachable after the Start callback (callback inside the loop)")
			default:
				r.OK(rule, key, fn, p.Pos(calls[0].Pos()), inst, "single call site, no spawn reachable after it")
			}
			// the reason of an earlier run is forgotten: a nil store into a.reason on every successful path
			{
				key := "C17.A1|" + fn + "|reason-reset"
				inst := "a successful start clears the termination reason left by the previous run (the Terminate callback is told the reason of this run)"
				isReset := func(in ssa.Instruction) bool {
					s2, ok := in.(*ssa.Store)
					if !ok {
						return false
					}
					own, fl := fieldOwner(s2.Addr)
					return own != nil && own.Obj().Name() == "application" && fl == "reason" && isNilConst(s2.Val)
				}
				bad := reaches([]Point{{start.Blocks[0], 0}}, isReset, func(in ssa.Instruction) bool {
					ret, ok := in.(*ssa.Return)
					return ok && maybeNilResult(ret, 0)
				})
				// alternative: terminate clears it after the callback
				altOK := false
				if bad != nil {
					if term := p.Func("node", "application", "terminate"); term != nil {
						eachInstr(term, func(in ssa.Instruction) {
							cc := callCommon(in)
							if cc != nil && cc.IsInvoke() && cc.Method.Name() == "Terminate" {
								if reaches([]Point{after(in)}, isReset, isReturn) == nil {
									altOK = true
								}
							}
						})
					}
				}
				if bad != nil && !altOK {
					r.Bad(rule, key, fn, p.Pos(bad.Pos()), inst, "a.reason is never cleared: an application that is started again and then ends because its last member finished normally tells its Terminate callback the reason of the previous run")
				} else {
					r.OK(rule, key, fn, p.Pos(start.Pos()), inst, "a.reason = nil on every successful path of start (or after the callback)")
				}
			}
			// the requested mode is the mode the application runs in: stored before the successful return
			{
				key := "C17.A1|" + fn + "|mode-stored"
				inst := "a successful start records the requested mode (the mode rule of terminate reads it)"
				modePar := paramOfType(start, "gen.ApplicationMode", 0)
				if modePar == nil {
					r.Unk(rule, key, fn, p.Pos(start.Pos()), inst, "start has no ApplicationMode parameter")
				} else {
					isStore := func(in ssa.Instruction) bool {
						s2, ok := in.(*ssa.Store)
						if !ok {
							return false
						}
						own, fl := fieldOwner(s2.Addr)
						return own != nil && own.Obj().Name() == "application" && fl == "mode" && (s2.Val == ssa.Value(modePar) || isParamValue(s2.Val, modePar))
					}
					bad := reaches([]Point{{start.Blocks[0], 0}}, isStore, func(in ssa.Instruction) bool {
						ret, ok := in.(*ssa.Return)
						return ok && maybeNilResult(ret, 0)
					})
					if bad != nil {
						r.Bad(rule, key, fn, p.Pos(bad.Pos()), inst, "a successful return is reachable without a.mode = mode: the application keeps the mode of its previous run (or the zero mode) and reacts to member terminations by the wrong rule")
					} else {
						r.OK(rule, key, fn, p.Pos(start.Pos()), inst, "every successful return passes the store")
					}
				}
			}
		}
	}

	// ---- A2
	rule2 := "C17.A2 mode-table"
	r.Floor(rule2, 3)
	{
		fn := fname(term)
		modeT := p.Named("gen", "ApplicationMode")
		names := enumConsts(modeT)
		uni := intSet{}
		byName := map[string]int64{}
		for v, n := range names {
			uni[v] = true
			byName[n] = v
		}
		// switched value: load of a.mode compared with constants
		var sw ssa.Value
		eachInstr(term, func(in ssa.Instruction) {
			b, ok := in.(*ssa.BinOp)
			if !ok || b.Op != token.EQL {
				return
			}
			if _, okc := constInt(b.Y); okc && b.X.Type() == types.Type(modeT) {
				sw = b.X
			}
		})
		reasonPar := paramOfType(term, "error", 0)
		if sw == nil {
			r.Unk(rule2, "C17.A2|switch", fn, p.Pos(term.Pos()), "mode switch found", "no comparison of the mode with its constants")
		} else {
			sets := refineSets(sw, uni)
			seq := 0
			seenModes := map[string]bool{}
			for i := range ops {
				op := ops[i]
				if op.Fn != term || op.Kind != "swap" || !op.HasNew || op.New != st["ApplicationStateStopping"] {
					continue
				}
				seq++
				key := fmt.Sprintf("C17.A2|%s|stop-all#%d", fn, seq)
				set := sets[op.In.Block()]
				inst := "the whole application is stopped on a member's termination only in mode Permanent, or in mode Transient for an abnormal reason"
				var probs []string
				for v := range set {
					n := names[v]
					seenModes[n] = true
					switch n {
					case "ApplicationModePermanent":
					case "ApplicationModeTransient":
						// must have passed reason != Normal and reason != Shutdown
						for _, g := range []string{"TerminateReasonNormal", "TerminateReasonShutdown"} {
							okG := false
							eachInstr(term, func(in ssa.Instruction) {
								b, ok := in.(*ssa.BinOp)
								if !ok || (b.Op != token.EQL && b.Op != token.NEQ) {
									return
								}
								for _, pr := range [][2]ssa.Value{{b.X, b.Y}, {b.Y, b.X}} {
									if pr[0] == ssa.Value(reasonPar) && reasonOrigin(pr[1], 0) == "global:"+g {
										t, fl, _ := boolEdges(b)
										ne := fl
										if b.Op == token.NEQ {
											ne = t
										}
										if edgesDominate(ne, op.In) {
											okG = true
										}
									}
								}
							})
							if !okG {
								probs = append(probs, "in mode Transient the stop is reachable when the reason is "+g+": a member finishing normally takes the whole application down")
							}
						}
					default:
						probs = append(probs, "reachable in mode "+n+": in this mode the other members must keep running")
					}
				}
				if len(set) == 0 {
					probs = append(probs, "mode value set unknown at this site")
				}
				// what "stop everything" consists of: on the edge that won the swap (old state was not
				// Stopping) every member is sent an exit and the causing reason is recorded for the callback
				if op.Result != nil {
					var won []Edge
					for _, rf := range *op.Result.Referrers() {
						if b, ok := rf.(*ssa.BinOp); ok && (b.Op == token.EQL || b.Op == token.NEQ) {
							if c, okc := constInt(b.Y); okc && c == st["ApplicationStateStopping"] {
								t, fl, _ := boolEdges(b)
								if b.Op == token.EQL {
									won = append(won, fl...)
								} else {
									won = append(won, t...)
								}
							}
						}
					}
					var starts []Point
					for _, e := range won {
						starts = append(starts, Point{e.To(), 0})
					}
					if len(starts) == 0 {
						probs = append(probs, "the old state returned by the swap is not tested against Stopping")
					} else {
						isFanout := func(in ssa.Instruction) bool {
							done, _ := memberFanout(in, "group", "SendExit", "RouteSendExit", "Kill")
							return done != nil
						}
						isRecord := func(in ssa.Instruction) bool {
							s2, ok := in.(*ssa.Store)
							if !ok {
								return false
							}
							_, fl := fieldOwner(s2.Addr)
							return fl == "reason" && (s2.Val == ssa.Value(reasonPar) || isParamValue(s2.Val, reasonPar))
						}
						isEnd := func(in ssa.Instruction) bool {
							if isReturn(in) {
								return true
							}
							// the common tail after the mode switch: the group-emptiness test
							return callsNamed(in, "Len")
						}
						if reaches(starts, isFanout, isEnd) != nil {
							probs = append(probs, "after winning the swap to Stopping a path does not send an exit to every member: the application stays half alive")
						}
						if reaches(starts, isRecord, isEnd) != nil {
							probs = append(probs, "after winning the swap to Stopping a path does not record the causing reason: the Terminate callback is told 'normal'")
						}
					}
				}
				if len(probs) > 0 {
					r.Bad(rule2, key, fn, p.Pos(op.In.Pos()), inst, strings.Join(uniq(probs), "; "))
				} else {
					r.OK(rule2, key, fn, p.Pos(op.In.Pos()), inst, "modes at this site: "+set.names(names))
				}
			}
			key := "C17.A2|" + fn + "|coverage"
			if seenModes["ApplicationModePermanent"] && seenModes["ApplicationModeTransient"] {
				r.OK(rule2, key, fn, p.Pos(term.Pos()), "both Permanent and Transient have a stop-all arm", "2 arms")
			} else {
				var have []string
				for k := range seenModes {
					have = append(have, k)
				}
				sort.Strings(have)
				r.Bad(rule2, key, fn, p.Pos(term.Pos()), "both Permanent and Transient have a stop-all arm", "arms found for: "+strings.Join(have, ", ")+" — in the missing mode a member's death does not stop the application")
			}
		}
	}

	// ---- A3
	rule3 := "C17.A3 terminate-callback-once"
	r.Floor(rule3, 1)
	{
		fn := fname(term)
		var cb ssa.Instruction
		n := 0
		for _, f := range p.SrcFuncs {
			eachInstr(f, func(in ssa.Instruction) {
				cc := callCommon(in)
				if cc != nil && cc.IsInvoke() && cc.Method.Name() == "Terminate" {
					if nn, _ := cc.Value.Type().(*types.Named); nn != nil && nn.Obj().Name() == "ApplicationBehavior" {
						cb = in
						n++
					}
				}
			})
		}
		key := "C17.A3|" + fn
		inst := "the application's Terminate callback runs only when the member group is empty and only for the caller that swapped the state to Loaded from another state"
		var probs []string
		if n != 1 || cb == nil || cb.Parent() != term {
			probs = append(probs, fmt.Sprintf("%d call sites of the Terminate callback (expected exactly one, in terminate)", n))
		} else {
			// swap -> Loaded, old != Loaded edge dominates
			okSwap := false
			for i := range ops {
				op := ops[i]
				if op.Fn == term && op.Kind == "swap" && op.HasNew && op.New == st["ApplicationStateLoaded"] && op.Result != nil {
					sets := refineSets(op.Result, intSet{st["ApplicationStateLoaded"]: true, st["ApplicationStateRunning"]: true, st["ApplicationStateStopping"]: true, 0: true})
					if s, ok := sets[cb.Block()]; ok && !s[st["ApplicationStateLoaded"]] && instrDominates(op.In, cb) {
						okSwap = true
					}
				}
			}
			if !okSwap {
				probs = append(probs, "not dominated by a swap to Loaded whose old value was tested: two members terminating together both run the callback")
			}
			// group empty: If on group.Len() > 0 → return ; false edge dominates
			okEmpty := false
			eachInstr(term, func(in ssa.Instruction) {
				b, ok := in.(*ssa.BinOp)
				if !ok {
					return
				}
				es := leqEdges(b, func(v ssa.Value) bool { c, ok := v.(*ssa.Call); return ok && callsNamed(c, "Len") }, 0)
				if len(es) > 0 && edgesDominate(es, cb) {
					okEmpty = true
				}
			})
			if !okEmpty {
				probs = append(probs, "not dominated by 'member group is empty': the callback runs while members are still alive")
			}
			// reason argument is a.reason
			cc := callCommon(cb)
			if _, path, ok := fieldPath(cc.Args[0]); !ok || len(path) == 0 || path[len(path)-1] != "reason" {
				probs = append(probs, "the callback does not receive the recorded reason")
			}
		}
		if len(probs) > 0 {
			r.Bad(rule3, key, fn, p.Pos(term.Pos()), inst, strings.Join(probs, "; "))
		} else {
			r.OK(rule3, key, fn, p.Pos(cb.Pos()), inst, "single call site dominated by group-empty and by the elected swap; receives a.reason")
		}
	}

	// ---- A4
	rule4 := "C17.A4 dependencies-first"
	r.Floor(rule4, 5)
	{
		seq := map[string]int{}
		for _, f := range funcsOfPkgs(p, "node") {
			eachInstr(f, func(in ssa.Instruction) {
				cc := callCommon(in)
				if cc == nil || staticCallee(cc) != start {
					return
				}
				fn := fname(f)
				seq[fn]++
				key := fmt.Sprintf("C17.A4|%s|start#%d", fn, seq[fn])
				inst := "the application is started only after its dependencies were started"
				// a dominating call that starts dependencies: a call to a function which ranges over spec.Depends.Applications and calls ApplicationStart, or such a loop inline
				dep := false
				eachInstr(f, func(i2 ssa.Instruction) {
					c2 := callCommon(i2)
					if c2 == nil || !instrDominates(i2, in) {
						return
					}
					if sf := staticCallee(c2); sf != nil && startsDependencies(sf, 0) {
						// its failure must prevent the start: error result tested
						dep = true
					}
				})
				if startsDependenciesInline(f, in) {
					dep = true
				}
				if dep {
					r.OK(rule4, key, fn, p.Pos(in.Pos()), inst, "dominated by the dependency step")
				} else {
					r.Bad(rule4, key, fn, p.Pos(in.Pos()), inst, "this entry point starts the application without starting the applications it depends on: the start succeeds while a dependency stays loaded")
				}
			})
		}
	}

	// ---- A5 (= C10 N4)
	c10Stop(p, r, "C17.A5 stop-reports-truthfully", stop, term)
	// ---- A6 (= C10 N5) no self-deadlock on the member group
	mapReentrancy(p, r, "C17.A6 member-group-lock-not-reentered", "C17.A6", "application")
	_ = a
}

// startsDependencies: f reads spec.Depends.Applications and calls ApplicationStart.
func startsDependencies(f *ssa.Function, depth int) bool {
	if f == nil || len(f.Blocks) == 0 || depth > 1 {
		return false
	}
	reads, calls := false, false
	eachInstr(f, func(in ssa.Instruction) {
		if v, ok := in.(ssa.Value); ok {
			if _, path, okp := fieldPath(v); okp && len(path) >= 2 && path[len(path)-1] == "Applications" && path[len(path)-2] == "Depends" {
				reads = true
			}
		}
		if callsNamed(in, "ApplicationStart") {
			calls = true
		}
	})
	return reads && calls
}

func startsDependenciesInline(f *ssa.Function, before ssa.Instruction) bool {
	reads, calls := false, false
	eachInstr(f, func(in ssa.Instruction) {
		if !instrReachable(in, before) {
			return
		}
		if v, ok := in.(ssa.Value); ok {
			if _, path, okp := fieldPath(v); okp && len(path) >= 2 && path[len(path)-1] == "Applications" && path[len(path)-2] == "Depends" {
				reads = true
			}
		}
		if callsNamed(in, "ApplicationStart") {
			calls = true
		}
	})
	return reads && calls
}

// c10Stop: stop returns nil only from the stopped channel or when already Loaded; the channel is closed only when the group is empty.
// isStateWordLoad: v is (a conversion of) an atomic load of a field named state.
func isStateWordLoad(v ssa.Value) bool {
	c, ok := strip(v).(*ssa.Call)
	if !ok || !isAtomic(c.Common()) || !strings.HasPrefix(staticCallee(c.Common()).Name(), "Load") {
		return false
	}
	_, path, okp := fieldPath(c.Common().Args[0])
	return okp && len(path) > 0 && path[len(path)-1] == "state"
}

func c10Stop(p *load.Program, r *core.Report, rule string, stop, term *ssa.Function) {
	rid := strings.SplitN(rule, " ", 2)[0]
	r.Floor(rule, 3)
	st := appStateConsts(p)
	fn := fname(stop)
	key := rid + "|" + fn + "|nil-returns"
	inst := "stop reports success only when the application has actually stopped (stopped channel) or was already loaded"
	var probs []string
	n := 0
	eachInstr(stop, func(in ssa.Instruction) {
		ret, ok := in.(*ssa.Return)
		if !ok || errKind(ret.Results[0]) != "nil" {
			return
		}
		n++
		// either dominated by state == Loaded true edge, or by the select's stopped-channel case
		okLoaded := false
		eachInstr(stop, func(i2 ssa.Instruction) {
			b, okb := i2.(*ssa.BinOp)
			if !okb || b.Op != token.EQL {
				return
			}
			if c, okc := constInt(b.Y); okc && c == st["ApplicationStateLoaded"] && isStateWordLoad(b.X) {
				t, _, _ := boolEdges(b)
				if edgesDominate(t, ret) {
					okLoaded = true
				}
			}
		})
		okChan := false
		eachInstr(stop, func(i2 ssa.Instruction) {
			sel, oks := i2.(*ssa.Select)
			if !oks {
				return
			}
			for idx, s := range sel.States {
				if _, path, okp := fieldPath(s.Chan); okp && len(path) > 0 && path[len(path)-1] == "stopped" {
					// the edge taken when the select index == idx
					if refs := sel.Referrers(); refs != nil {
						for _, rf := range *refs {
							if ex, oke := rf.(*ssa.Extract); oke && ex.Index == 0 {
								if r2 := ex.Referrers(); r2 != nil {
									for _, rr := range *r2 {
										if b, okb := rr.(*ssa.BinOp); okb && b.Op == token.EQL {
											if c, okc := constInt(b.Y); okc && int(c) == idx {
												t, _, _ := boolEdges(b)
												if edgesDominate(t, ret) {
													okChan = true
												}
											}
										}
									}
								}
							}
						}
					}
				}
			}
		})
		if !okLoaded && !okChan {
			probs = append(probs, "nil returned at "+p.Pos(ret.Pos())+" without waiting for the stopped channel and without the state being Loaded")
		}
	})
	if n == 0 {
		probs = append(probs, "no successful return")
	}
	if len(probs) > 0 {
		r.Bad(rule, key, fn, p.Pos(stop.Pos()), inst, strings.Join(probs, "; ")+": the caller believes everything under the application is gone while members are still running")
	} else {
		r.OK(rule, key, fn, p.Pos(stop.Pos()), inst, fmt.Sprintf("%d nil return(s), each after the stopped channel or state Loaded", n))
	}
	// the reason the callback will be given (kill / shutdown) is recorded before the members are taken
	// down: a member killed synchronously completes the termination inside the fan-out
	{
		key3 := rid + "|" + fn + "|reason-before-fanout"
		inst3 := "stop records its reason (kill or shutdown) before it takes the members down"
		var fan ssa.Instruction
		eachInstr(stop, func(in ssa.Instruction) {
			if fan != nil {
				return
			}
			if _, why := memberFanout(in, "group", "Kill", "SendExit", "RouteSendExit"); why == "" {
				if d, _ := memberFanout(in, "group", "Kill", "SendExit", "RouteSendExit"); d != nil {
					fan = in
				}
			}
		})
		if fan == nil {
			r.Bad(rule, key3, fn, p.Pos(stop.Pos()), inst3, "stop does not take every member down (no complete Kill/SendExit fan-out over the group)")
		} else {
			isRecord := func(in ssa.Instruction) bool {
				s2, ok := in.(*ssa.Store)
				if !ok {
					return false
				}
				own, fl := fieldOwner(s2.Addr)
				return own != nil && own.Obj().Name() == "application" && fl == "reason"
			}
			if hit := reaches([]Point{{stop.Blocks[0], 0}}, isRecord, func(in ssa.Instruction) bool { return in == fan }); hit != nil {
				r.Bad(rule, key3, fn, p.Pos(fan.Pos()), inst3, "the members are taken down before a.reason is set: a member that is killed synchronously finishes the application inside the loop and the Terminate callback is told 'normal' instead of kill/shutdown")
			} else {
				r.OK(rule, key3, fn, p.Pos(fan.Pos()), inst3, "every path to the fan-out passes the store of the reason")
			}
		}
	}
	// close(stopped) only when group empty
	key2 := rid + "|" + fname(term) + "|close-when-empty"
	inst2 := "the stopped channel is closed only on the path that found the member group empty"
	var cl ssa.Instruction
	eachInstr(term, func(in ssa.Instruction) {
		cc := callCommon(in)
		if cc != nil {
			if b, ok := cc.Value.(*ssa.Builtin); ok && b.Name() == "close" {
				cl = in
			}
		}
	})
	okEmpty := false
	if cl != nil {
		eachInstr(term, func(in ssa.Instruction) {
			b, ok := in.(*ssa.BinOp)
			if !ok {
				return
			}
			es := leqEdges(b, func(v ssa.Value) bool { c, ok := v.(*ssa.Call); return ok && callsNamed(c, "Len") }, 0)
			if len(es) > 0 && edgesDominate(es, cl) {
				okEmpty = true
			}
		})
	}
	if cl != nil && okEmpty {
		r.OK(rule, key2, fname(term), p.Pos(cl.Pos()), inst2, "close dominated by the group-empty edge")
	} else {
		r.Bad(rule, key2, fname(term), p.Pos(term.Pos()), inst2, "the channel is closed (or never closed) regardless of remaining members")
	}
}

func runC10(p *load.Program, r *core.Report) {
	a, problems := getAnchors(p)
	for _, pr := range problems {
		r.Unk("C10.anchors", "C10.anchors|"+pr, "", "", "anchors resolve", pr)
	}
	if len(problems) > 0 {
		return
	}
	c08WaitSetComplete(p, r, supMachines(p), "C10.N7 supervisor-waits-for-every-running-child", "C10.N7", 3)
	c10ExitNeverDropped(p, r, a)
	c10StopSeesLateSpawns(p, r, a)
	appStopSignalFromParent(p, r, "C10.N11 application-stop-signal-from-the-parent", "C10.N11")
	c10PoolOutlivedByWorkers(p, r)
	remoteSpawnParentLink(a, r, "C10.N9 remote-child-linked-to-parent-on-both-nodes")
	lockPairing(p, r, "C10.N6 member-group-lock-paired", "C10.N6", 8, func(o string) bool { return strings.HasPrefix(o, "lib.Map[") })
	// ---- N1
	rule := "C10.N1 children-linked-to-parent"
	r.Floor(rule, 5)
	for _, f := range funcsOfPkgs(p, "act") {
		rt := root(f)
		if rt.Signature.Recv() == nil {
			continue
		}
		recv := namedOf(rt.Signature.Recv().Type())
		if recv != "act.Supervisor" && recv != "act.Pool" {
			continue
		}
		seq := 0
		eachInstr(f, func(in ssa.Instruction) {
			c, ok := in.(*ssa.Call)
			if !ok || !(callsNamed(in, "Spawn") || callsNamed(in, "SpawnRegister")) {
				return
			}
			seq++
			fn := fname(f)
			key := fmt.Sprintf("C10.N1|%s|spawn#%d", fn, seq)
			inst := "a child started by " + recv + " is linked to its parent (LinkParent forced true)"
			var opt ssa.Value
			for _, arg := range c.Common().Args {
				if namedOf(arg.Type()) == "gen.ProcessOptions" {
					opt = arg
				}
			}
			if linkParentTrue(opt, in) {
				r.OK(rule, key, fn, p.Pos(in.Pos()), inst, "options.LinkParent = true on every path to the spawn")
			} else {
				r.Bad(rule, key, fn, p.Pos(in.Pos()), inst, "the spawn options do not have LinkParent forced to true: when the owner terminates the child keeps running")
			}
		})
	}
	// ---- N2
	rule2 := "C10.N2 parent-link-and-exit-sender"
	r.Floor(rule2, 4)
	{
		sp := p.Func("node", a.NodeT.Obj().Name(), "spawn")
		key := "C10.N2|spawn|link"
		inst := "spawn registers the child->parent link when LinkParent is set, before the child is published"
		if sp == nil {
			r.Unk(rule2, key, "", "", inst, "spawn not found")
		} else {
			var add, pub ssa.Instruction
			eachInstr(sp, func(in ssa.Instruction) {
				if callsNamed(in, "AddLink") {
					// the child->parent link (spawn also makes the parent->child link for LinkChild)
					c2 := callCommon(in)
					as := c2.Args
					if !c2.IsInvoke() {
						as = as[1:]
					}
					_, q0, _ := fieldPath(as[0])
					if add == nil || (len(q0) > 0 && q0[len(q0)-1] == "pid") {
						add = in
					}
				}
				cc := callCommon(in)
				if cc != nil {
					if m, ok := syncMapCall(cc); ok && m == "Store" && tableOf(a, cc) == "processes" {
						pub = in
					}
				}
			})
			var probs []string
			if add == nil {
				probs = append(probs, "no AddLink in spawn")
			} else {
				// guarded by options.LinkParent true edge
				guarded := false
				eachInstr(sp, func(in ssa.Instruction) {
					v, ok := in.(ssa.Value)
					if !ok {
						return
					}
					if _, path, okp := fieldPath(v); okp && len(path) > 0 && path[len(path)-1] == "LinkParent" {
						t, _, _ := boolEdges(v)
						if len(t) > 0 && edgesDominate(t, add) {
							guarded = true
						}
					}
				})
				if !guarded {
					probs = append(probs, "the link is not conditioned on LinkParent")
				}
				// consumer = child pid, target = parent
				cc := callCommon(add)
				args := cc.Args
				if !cc.IsInvoke() {
					args = args[1:]
				}
				_, p0, _ := fieldPath(args[0])
				_, p1, _ := fieldPath(stripIface(args[1]))
				if len(p0) == 0 || p0[len(p0)-1] != "pid" || len(p1) == 0 || p1[len(p1)-1] != "parent" {
					probs = append(probs, "the link is not (child pid -> parent)")
				}
				if pub != nil && !instrReachable(add, pub) {
					probs = append(probs, "the link is added after the child was published")
				}
			}
			if len(probs) > 0 {
				r.Bad(rule2, key, fname(sp), p.Pos(sp.Pos()), inst, strings.Join(probs, "; "))
			} else {
				r.OK(rule2, key, fname(sp), p.Pos(add.Pos()), inst, "AddLink(child.pid, child.parent) under LinkParent, before publication")
			}
		}
		// exit sender on a failed initialisation: children spawned (linked) during ProcessInit get the
		// exit in the name of the process that failed, through sendExitMessage(from = p.pid, ...)
		if sp != nil {
			key3 := "C10.N2|spawn|init-failure-exit-sender"
			inst3 := "when ProcessInit fails, the children it already spawned get an exit that names the failed process as sender"
			var initCall *ssa.Call
			eachInstr(sp, func(in ssa.Instruction) {
				if c, ok := in.(*ssa.Call); ok && c.Common().IsInvoke() && c.Common().Method.Name() == "ProcessInit" {
					initCall = c
				}
			})
			if initCall == nil {
				r.Unk(rule2, key3, fname(sp), p.Pos(sp.Pos()), inst3, "no ProcessInit call in spawn")
			} else {
				_, failed := nilEdgesCell(initCall)
				var starts []Point
				for _, e := range failed {
					starts = append(starts, Point{e.To(), 0})
				}
				good, bad := 0, []string{}
				for _, in := range walkAvoid(starts, nil, func(in ssa.Instruction) bool {
					return callsNamed(in, "sendExitMessage") || callsNamed(in, "SendExit") || callsNamed(in, "RouteSendExit")
				}) {
					cc := callCommon(in)
					if !callsNamed(in, "sendExitMessage") {
						bad = append(bad, "exit sent through "+calleeName(cc)+" at "+p.Pos(in.Pos())+" (sender is not the failed process)")
						continue
					}
					args := cc.Args
					if !cc.IsInvoke() && cc.Signature().Recv() != nil {
						args = args[1:]
					}
					_, p0, _ := fieldPath(args[0])
					if len(p0) > 0 && p0[len(p0)-1] == "pid" {
						good++
					} else {
						bad = append(bad, "sendExitMessage at "+p.Pos(in.Pos())+" with a sender other than the failed process's pid")
					}
				}
				// ... and the processes linked TO the failed process (children started with LinkParent
				// only: pool workers) are drained: RouteTerminatePID(p.pid, err) on every failure path
				{
					key4 := "C10.N2|spawn|init-failure-drain"
					inst4 := "when ProcessInit fails, the relations that target the failed process are drained (children linked to it by LinkParent get its exit)"
					isDrain := func(in ssa.Instruction) bool {
						cc := callCommon(in)
						if cc == nil || !callsNamed(in, "RouteTerminatePID") {
							return false
						}
						args := cc.Args
						if !cc.IsInvoke() && cc.Signature().Recv() != nil {
							args = args[1:]
						}
						_, p0, _ := fieldPath(args[0])
						return len(p0) > 0 && p0[len(p0)-1] == "pid"
					}
					if hit := reaches(starts, isDrain, isReturn); hit != nil {
						r.Bad(rule2, key4, fname(sp), p.Pos(hit.Pos()), inst4, "the failure path returns at "+p.Pos(hit.Pos())+" without RouteTerminatePID(p.pid, …): workers a pool spawned before its initialisation failed keep running without an owner")
					} else {
						r.OK(rule2, key4, fname(sp), p.Pos(initCall.Pos()), inst4, "every failure path passes RouteTerminatePID(p.pid, err)")
					}
				}
				switch {
				case len(bad) > 0:
					r.Bad(rule2, key3, fname(sp), p.Pos(initCall.Pos()), inst3, strings.Join(bad, "; ")+": a child that traps exits survives its parent's failed start as an orphan")
				case good == 0:
					r.Bad(rule2, key3, fname(sp), p.Pos(initCall.Pos()), inst3, "no exit is sent to the link targets on the failure path")
				default:
					r.OK(rule2, key3, fname(sp), p.Pos(initCall.Pos()), inst3, fmt.Sprintf("%d sendExitMessage(from = p.pid) on the failure path", good))
				}
			}
		}
		// exit sender: in RouteTerminatePID the exit message is sent with from = target
		var rt *ssa.Function
		for _, f := range funcsOfPkgs(p, "node") {
			if f.Parent() == nil && f.Name() == "RouteTerminatePID" && recvIs(f, a.NodeT) {
				rt = f
			}
		}
		key2 := "C10.N2|RouteTerminatePID|sender"
		inst2 := "the exit a terminating process sends to its linked children names that process as sender (so the children's parent exemption applies)"
		if rt == nil {
			r.Unk(rule2, key2, "", "", inst2, "not found")
		} else {
			par := targetParam(rt)
			ok := false
			eachInstr(rt, func(in ssa.Instruction) {
				cc := callCommon(in)
				if cc != nil && callsNamed(in, "sendExitMessage") && isParamValue(cc.Args[1], par) {
					ok = true
				}
			})
			if ok {
				r.OK(rule2, key2, fname(rt), p.Pos(rt.Pos()), inst2, "sendExitMessage(from = target, ...)")
			} else {
				r.Bad(rule2, key2, fname(rt), p.Pos(rt.Pos()), inst2, "the exit is sent with another sender: a child that traps exits treats its parent's exit as an ordinary message and survives")
			}
		}
	}
	// ---- N3
	rule3 := "C10.N3 node-stop-waits"
	r.Floor(rule3, 3)
	{
		// Add / Done under the same condition (application != system)
		var add, done ssa.Instruction
		for _, f := range funcsOfPkgs(p, "node") {
			eachInstr(f, func(in ssa.Instruction) {
				cc := callCommon(in)
				if cc == nil {
					return
				}
				sf := staticCallee(cc)
				if sf == nil || sf.Pkg == nil || sf.Pkg.Pkg.Path() != "sync" {
					return
				}
				_, path, ok := fieldPath(cc.Args[0])
				if !ok || len(path) == 0 || path[len(path)-1] != "waitprocesses" {
					return
				}
				switch sf.Name() {
				case "Add":
					add = in
				case "Done":
					done = in
				}
			})
		}
		key := "C10.N3|waitgroup|balanced"
		inst := "the node's process wait group is incremented at spawn and decremented at release under the same condition"
		condOf := func(in ssa.Instruction) string {
			if in == nil {
				return "?"
			}
			// the dominating If comparing p.application with system.Name
			res := "unconditional"
			eachInstr(in.Parent(), func(i2 ssa.Instruction) {
				iff, ok := i2.(*ssa.If)
				if !ok {
					return
				}
				b, ok := iff.Cond.(*ssa.BinOp)
				if !ok || (b.Op != token.NEQ && b.Op != token.EQL) {
					return
				}
				_, px, _ := fieldPath(b.X)
				_, py, _ := fieldPath(b.Y)
				isApp := (len(px) > 0 && px[len(px)-1] == "application") || (len(py) > 0 && py[len(py)-1] == "application")
				if !isApp {
					return
				}
				idx := 0
				if b.Op == token.EQL {
					idx = 1
				}
				if edgeDominates(Edge{iff.Block(), idx}, in) {
					res = "application != system"
				}
			})
			return res
		}
		ca, cd := condOf(add), condOf(done)
		switch {
		case add == nil || done == nil:
			r.Bad(rule3, key, "", "", inst, fmt.Sprintf("Add found: %v, Done found: %v", add != nil, done != nil))
		case ca != cd:
			r.Bad(rule3, key, fname(done.Parent()), p.Pos(done.Pos()), inst, "Add is "+ca+" but Done is "+cd+": node stop either hangs or returns while processes are alive")
		default:
			r.OK(rule3, key, fname(add.Parent()), p.Pos(add.Pos()), inst, "both "+ca+"; Add in "+fname(add.Parent())+", Done in "+fname(done.Parent()))
		}
		// stop waits before network teardown, and sends exit from the parent pid
		stopF := p.Func("node", a.NodeT.Obj().Name(), "stop")
		key2 := "C10.N3|stop|wait-before-network"
		inst2 := "a graceful node stop waits for all processes before it tears the network down"
		if stopF == nil {
			r.Unk(rule3, key2, "", "", inst2, "(*node).stop not found")
		} else {
			var wait, netstop ssa.Instruction
			eachInstr(stopF, func(in ssa.Instruction) {
				cc := callCommon(in)
				if cc == nil {
					return
				}
				if sf := staticCallee(cc); sf != nil && sf.Name() == "Wait" && sf.Pkg != nil && sf.Pkg.Pkg.Path() == "sync" {
					wait = in
				}
				if callsNamed(in, "NetworkStop") {
					netstop = in
				}
			})
			switch {
			case wait == nil || netstop == nil:
				r.Bad(rule3, key2, fname(stopF), p.Pos(stopF.Pos()), inst2, fmt.Sprintf("Wait found: %v, NetworkStop found: %v", wait != nil, netstop != nil))
			case !instrReachable(wait, netstop) || instrReachable(netstop, wait):
				r.Bad(rule3, key2, fname(stopF), p.Pos(netstop.Pos()), inst2, "the network is stopped before the wait")
			default:
				// with force == false every path from the entry to NetworkStop passes the Wait
				// (paths are restricted to those consistent with the value of the force parameter)
				forcePar := paramOfType(stopF, "bool", 0)
				missed := false
				if forcePar == nil {
					missed = reaches([]Point{{stopF.Blocks[0], 0}}, func(in ssa.Instruction) bool { return in == wait }, func(in ssa.Instruction) bool { return in == netstop }) != nil
				} else {
					leaf := func(v ssa.Value) string {
						if v == ssa.Value(forcePar) || isParamValue(v, forcePar) {
							return "force"
						}
						return ""
					}
					missed = reachesUnder([]Point{{stopF.Blocks[0], 0}}, leaf, map[string]bool{"force": false}, func(in ssa.Instruction) bool { return in == wait }, func(in ssa.Instruction) bool { return in == netstop }) != nil
				}
				if missed {
					r.Bad(rule3, key2, fname(stopF), p.Pos(wait.Pos()), inst2, "with force == false a path reaches NetworkStop without waiting for the processes: the graceful stop returns while processes are still running")
				} else {
					r.OK(rule3, key2, fname(stopF), p.Pos(wait.Pos()), inst2, "Wait precedes NetworkStop on the graceful (force == false) edge")
				}
			}
			key3 := "C10.N3|stop|exit-from-parent"
			inst3 := "graceful stop sends each process a shutdown exit from its parent pid (so exit trapping cannot keep it alive)"
			ok := false
			for _, g := range family(stopF) {
				eachInstr(g, func(in ssa.Instruction) {
					cc := callCommon(in)
					if cc == nil || !callsNamed(in, "RouteSendExit") {
						return
					}
					_, p0, _ := fieldPath(cc.Args[1])
					_, p1, _ := fieldPath(cc.Args[2])
					if len(p0) > 0 && p0[len(p0)-1] == "parent" && len(p1) > 0 && p1[len(p1)-1] == "pid" && reasonOrigin(cc.Args[3], 0) == "global:TerminateReasonShutdown" {
						ok = true
					}
				})
			}
			if ok {
				r.OK(rule3, key3, fname(stopF), p.Pos(stopF.Pos()), inst3, "RouteSendExit(p.parent, p.pid, Shutdown)")
			} else {
				r.Bad(rule3, key3, fname(stopF), p.Pos(stopF.Pos()), inst3, "the shutdown exit is not sent from the parent pid")
			}
		}
	}
	// ---- N4
	stop := p.Func("node", "application", "stop")
	term := p.Func("node", "application", "terminate")
	if stop != nil && term != nil {
		c10Stop(p, r, "C10.N4 application-stop-truthful", stop, term)
		mapReentrancy(p, r, "C10.N5 member-group-lock-not-reentered", "C10.N5", "application")
	}
}

// linkParentTrue: the options value handed to a spawn has LinkParent stored true on every path.
func linkParentTrue(opt ssa.Value, at ssa.Instruction) bool {
	if opt == nil {
		return false
	}
	ld, ok := opt.(*ssa.UnOp)
	if !ok {
		return false
	}
	// local struct cell, or a field of a struct (action.spec.Options)
	f := at.Parent()
	found := false
	okAll := true
	eachInstr(f, func(in ssa.Instruction) {
		st, ok := in.(*ssa.Store)
		if !ok {
			return
		}
		fa, ok := st.Addr.(*ssa.FieldAddr)
		if !ok {
			return
		}
		if _, fl := fieldOwner(fa); fl != "LinkParent" {
			return
		}
		// same container as the loaded options
		b1, p1, _ := fieldPath(fa.X)
		b2, p2, _ := fieldPath(ld.X)
		c1, c2 := canonCell(fa.X), canonCell(ld.X)
		same := c1 == c2 || (b1 == b2 && strings.Join(p1, ".") == strings.Join(p2, "."))
		if !same {
			return
		}
		if b, ok := constBool(st.Val); ok && b {
			if instrDominates(in, at) {
				found = true
			}
		} else {
			okAll = false
		}
	})
	return found && okAll
}

var _ = load.Module
