package rules

import (
	"fmt"
	"go/types"
	"sort"
	"strings"

	"golang.org/x/tools/go/ssa"

	"verif/internal/core"
	"verif/internal/load"
)

func init() {
	Registry["C01"] = Set{
		Explanation: "Decides the state-word protocol that serialises callbacks, for the process word and the meta-process word, on every transition site and every callback invocation site of the current source: P1 the word becomes Running only by compare-and-swap from Sleep (or back from WaitResponse inside the function that entered it); P2 it becomes Sleep only by the runner's own CAS or by the initial store that precedes publication; P3 every ProcessRun / HandleMessage / HandleCall / HandleInspect invocation is reached only while the executing goroutine holds the token (typestate over the SSA control-flow graph with edge effects of CAS/Swap results), and the runner goroutine is started only on the success edge of the acquisition; P5 every teardown call (unregister, ProcessTerminate / Terminate) is reached only as the single elected finaliser — swap to Terminated with the old value tested — and an outsider (Kill, meta start) may finalise only when the old state excludes a live runner (enum value sets refined along switch/if edges); P6 the wait transitions of a process are not reachable from methods of its meta processes (foreign goroutines). Together these are the mutual-exclusion argument for callbacks; each is necessary. Hand-over form of P5 (meta word, after fix 8acc9b1): a teardown that sits in a wrapper behind a once gate (CAS 0->1 on a field with no other writer: at most once per object, also when the Terminate callback panics into the recover handler) may be started by the token holder once the word is Terminated (store/swap dominates, or the failure edge of the release CAS), or by an outsider whose swap found Sleep; swapped-out values are refined through value-preserving conversions and switch forms. Added while probing: P7 every ProcessBehavior callback of the act behaviours runs only below ProcessRun/ProcessInit/ProcessTerminate (call-graph rule), so P3 extends to user handlers.",
		NotDecided: []string{
			"that user behaviours do not invoke their own callbacks from goroutines they start",
			"goroutine fairness / progress",
			"the Start callback of a meta process runs concurrently with its handlers by design",
		},
		Assumptions: []string{"sync/atomic operations are sequentially consistent", "a panic caught by the runner's deferred handler was raised inside a callback (token held)", "every writer of the state word is one of the enumerated sites (all writes in the module are enumerated by field, any non-constant write is reported undecided)"},
		Run:         runC01,
	}
}

func procWordSpec(a *Anchors) wordSpec {
	names := enumConsts(a.P.Named("gen", "ProcessState"))
	uni := intSet{}
	for v := range names {
		uni[v] = true
	}
	g := func(n string) int64 {
		if v, ok := a.ProcState[n]; ok {
			return v
		}
		return -1
	}
	return wordSpec{what: "process state word", owner: a.ProcessT, field: a.ProcStateFld,
		sleep: g("ProcessStateSleep"), running: g("ProcessStateRunning"), wait: g("ProcessStateWaitResponse"),
		terminated: g("ProcessStateTerminated"), zombie: g("ProcessStateZombee"), initv: g("ProcessStateInit"),
		names: names, universe: uni}
}

func metaWordSpec(a *Anchors) wordSpec {
	names := enumConsts(a.P.Named("gen", "MetaState"))
	uni := intSet{}
	for v := range names {
		uni[v] = true
	}
	g := func(n string) int64 {
		if v, ok := a.MetaState[n]; ok {
			return v
		}
		return -1
	}
	return wordSpec{what: "meta state word", owner: a.MetaT, field: a.MetaStateFld,
		sleep: g("MetaStateSleep"), running: g("MetaStateRunning"), wait: -1,
		terminated: g("MetaStateTerminated"), zombie: -1, initv: -1, names: names, universe: uni}
}

// procClassify: callbacks and teardown calls of a process.
func procClassify(a *Anchors) func(in ssa.Instruction) *tsCallback {
	procB := a.P.Named("gen", "ProcessBehavior")
	return func(in ssa.Instruction) *tsCallback {
		cc := callCommon(in)
		if cc == nil {
			return nil
		}
		if cc.IsInvoke() {
			if n, _ := cc.Value.Type().(*types.Named); n == procB {
				switch cc.Method.Name() {
				case "ProcessRun":
					return &tsCallback{in, "ProcessRun", "run"}
				case "ProcessTerminate":
					return &tsCallback{in, "ProcessTerminate", "term"}
				case "ProcessInit":
					return &tsCallback{in, "ProcessInit", "init"}
				}
			}
			return nil
		}
		if sf := staticCallee(cc); sf != nil && recvIs(sf, a.NodeT) && sf.Name() == "unregisterProcess" {
			return &tsCallback{in, "unregisterProcess", "term"}
		}
		return nil
	}
}

func metaClassify(a *Anchors) func(in ssa.Instruction) *tsCallback {
	metaB := a.P.Named("gen", "MetaBehavior")
	return func(in ssa.Instruction) *tsCallback {
		cc := callCommon(in)
		if cc == nil || !cc.IsInvoke() {
			return nil
		}
		if n, _ := cc.Value.Type().(*types.Named); n != metaB {
			return nil
		}
		if pkgSuffix(in.Parent()) != "node" {
			return nil
		}
		switch cc.Method.Name() {
		case "HandleMessage", "HandleCall", "HandleInspect":
			return &tsCallback{in, cc.Method.Name(), "run"}
		case "Terminate":
			return &tsCallback{in, "Terminate", "term"}
		case "Init":
			return &tsCallback{in, "Init", "init"}
		}
		return nil
	}
}

func copyRules(from, to *core.Report, rename map[string]string) {
	for _, o := range from.Obligations {
		id := strings.SplitN(o.Rule, " ", 2)[0]
		suffix := id[strings.LastIndex(id, ".")+1:]
		nw, ok := rename[suffix]
		if !ok {
			continue
		}
		prefix := id[:strings.LastIndex(id, ".")]
		rest := ""
		if i := strings.Index(o.Rule, " "); i > 0 {
			rest = o.Rule[i:]
		}
		o.Rule = prefix + "." + nw + rest
		o.Key = strings.Replace(o.Key, id+"|", prefix+"."+nw+"|", 1)
		to.Add(o)
	}
	to.Paths += from.Paths
	to.CallSites += from.CallSites
}

func runC01(p *load.Program, r *core.Report) {
	a, problems := getAnchors(p)
	for _, pr := range problems {
		r.Unk("C01.anchors", "C01.anchors|"+pr, "", "", "anchors resolve", pr)
	}
	if len(problems) > 0 {
		return
	}
	tmp := core.NewReport("C01")
	checkWord(a, tmp, "C01p", procWordSpec(a), a.ProcLoop, a.ProcWake, procClassify(a))
	checkWord(a, tmp, "C01m", metaWordSpec(a), a.MetaLoop, a.MetaWake, metaClassify(a))
	copyRules(tmp, r, map[string]string{"P1": "P1", "P2": "P2", "P3": "P3", "P5": "P5"})
	r.Floor("C01p.P1", 4)
	r.Floor("C01p.P2", 2)
	r.Floor("C01p.P3", 2)
	r.Floor("C01p.P5", 8)
	r.Floor("C01m.P1", 2)
	r.Floor("C01m.P2", 2)
	r.Floor("C01m.P3", 4)
	r.Floor("C01m.P5", 5)
	c01Init(a, r)
	c01P6(a, r)
	c01P7(a, r)
}

// c01P7: user callbacks of the behaviour layers (ActorBehavior, SupervisorBehavior, PoolBehavior,
// WebWorkerBehavior) are invoked only from code that runs inside ProcessInit / ProcessRun /
// ProcessTerminate of that layer, i.e. under the token that node.process holds for them.
func c01P7(a *Anchors, r *core.Report) {
	rule := "C01.P7 behaviour-callbacks-under-the-runner"
	r.Floor(rule, 4)
	procB := ifaceOf(a.P, "gen", "ProcessBehavior")
	// layer types: structs in act implementing gen.ProcessBehavior
	type layer struct {
		name    string
		entries []*ssa.Function
	}
	layers := map[string]*layer{}
	for _, f := range funcsOfPkgs(a.P, "act") {
		if f.Parent() != nil || f.Signature.Recv() == nil || !types.Implements(f.Signature.Recv().Type(), procB) {
			continue
		}
		n := namedOf(f.Signature.Recv().Type())
		if layers[n] == nil {
			layers[n] = &layer{name: n}
		}
		switch f.Name() {
		case "ProcessInit", "ProcessRun", "ProcessTerminate":
			layers[n].entries = append(layers[n].entries, f)
		}
	}
	var names []string
	for n := range layers {
		names = append(names, n)
	}
	sort.Strings(names)
	for _, n := range names {
		l := layers[n]
		// functions reachable by static calls from the entries (within act)
		reach := map[*ssa.Function]bool{}
		var work []*ssa.Function
		for _, e := range l.entries {
			reach[e] = true
			work = append(work, e)
		}
		for len(work) > 0 {
			f := work[len(work)-1]
			work = work[:len(work)-1]
			for _, g := range family(f) {
				reach[g] = true
				eachInstr(g, func(in ssa.Instruction) {
					if _, isGo := in.(*ssa.Go); isGo {
						return
					}
					if cc := callCommon(in); cc != nil {
						if sf := staticCallee(cc); sf != nil && pkgSuffix(sf) == "act" && !reach[sf] {
							reach[sf] = true
							work = append(work, sf)
						}
					}
				})
			}
		}
		// every invoke on this layer's user-behaviour interface (the type of its `behavior` field)
		var bad []string
		count := 0
		for _, f := range funcsOfPkgs(a.P, "act") {
			rt := root(f)
			if rt.Signature.Recv() == nil || namedOf(rt.Signature.Recv().Type()) != n {
				continue
			}
			eachInstr(f, func(in ssa.Instruction) {
				cc := callCommon(in)
				if cc == nil || !cc.IsInvoke() {
					return
				}
				_, path, ok := fieldPath(cc.Value)
				if !ok || len(path) == 0 || path[len(path)-1] != "behavior" {
					return
				}
				count++
				if _, isGo := in.(*ssa.Go); isGo {
					bad = append(bad, cc.Method.Name()+" started as a goroutine at "+a.P.Pos(in.Pos()))
					return
				}
				if !reach[f] && !reach[rt] {
					bad = append(bad, cc.Method.Name()+" invoked from "+fname(f)+" at "+a.P.Pos(in.Pos())+", which does not run under ProcessInit/ProcessRun/ProcessTerminate")
				}
			})
		}
		key := "C01.P7|" + n
		inst := n + ": user callbacks are invoked only from code running under ProcessInit / ProcessRun / ProcessTerminate"
		if count == 0 {
			continue
		}
		if len(bad) > 0 {
			r.Bad(rule, key, n, "", inst, strings.Join(bad, "; ")+" — that callback can run concurrently with the process's own handler")
		} else {
			r.OK(rule, key, n, "", inst, fmt.Sprintf("%d callback invocation sites, all reachable only from the three entry points (%d functions)", count, len(reach)))
		}
	}
}

// c01Init: ProcessInit / meta Init are invoked only before the object is published and only once.
func c01Init(a *Anchors, r *core.Report) {
	rule := "C01.P3i init-before-publication"
	r.Floor(rule, 2)
	pc := procClassify(a)
	mc := metaClassify(a)
	for _, f := range a.P.SrcFuncs {
		eachInstr(f, func(in ssa.Instruction) {
			cb := pc(in)
			isMeta := false
			if cb == nil {
				cb = mc(in)
				isMeta = true
			}
			if cb == nil || cb.kind != "init" {
				return
			}
			fn := fname(f)
			key := "C01.P3i|" + fn + "|" + cb.name
			pos := a.P.Pos(in.Pos())
			inst := "the init callback " + cb.name + " completes before any wake-up of the object is possible"
			// no wake-up call of the same family may be reachable *before* init in this function,
			// and for the process: init dominates the publication (checked by P2). Here: no call of the
			// wake function dominates the init call.
			bad := ""
			eachInstr(root(f), func(in2 ssa.Instruction) {
				cc := callCommon(in2)
				if cc == nil {
					return
				}
				sf := staticCallee(cc)
				if sf == nil {
					return
				}
				if (!isMeta && sf == a.ProcWake) || (isMeta && sf == a.MetaWake) {
					if in2.Parent() == in.Parent() && instrDominates(in2, in) {
						bad = "a wake-up at " + a.P.Pos(in2.Pos()) + " precedes the init callback"
					}
				}
			})
			if isMeta {
				// meta.init is called by SpawnMeta before `go m.start()`: the caller of the function
				// containing Init must call it before starting
				callers := 0
				for _, g := range a.P.SrcFuncs {
					eachInstr(g, func(in3 ssa.Instruction) {
						cc := callCommon(in3)
						if cc == nil || staticCallee(cc) != f {
							return
						}
						callers++
						// every `go start` in g is dominated by this call
						eachInstr(g, func(in4 ssa.Instruction) {
							gg, ok := in4.(*ssa.Go)
							if !ok {
								return
							}
							sf := staticCallee(gg.Common())
							if sf == nil || !recvIs(sf, a.MetaT) {
								return
							}
							if !instrDominates(in3, in4) {
								bad = "the meta process goroutine is started at " + a.P.Pos(in4.Pos()) + " before Init returned"
							}
						})
					})
				}
				if callers != 1 {
					bad = fmt.Sprintf("the function invoking Init has %d call sites (expected one)", callers)
				}
			}
			if bad != "" {
				r.Bad(rule, key, fn, pos, inst, bad)
			} else {
				r.OK(rule, key, fn, pos, inst, "no wake-up precedes it; start of the object's goroutine is dominated by its return")
			}
		})
	}
}

// c01P6: the function performing Running<->WaitResponse on a process word must not be reachable
// (through static calls) from methods of the meta type: those run on foreign goroutines.
func c01P6(a *Anchors, r *core.Report) {
	rule := "C01.P6 wait-belongs-to-holder"
	ws := procWordSpec(a)
	var waitFns []*ssa.Function
	for _, op := range stateOps(a.P, ws.owner, ws.field) {
		if op.Kind == "cas" && op.New == ws.wait {
			waitFns = append(waitFns, op.Fn)
		}
	}
	if len(waitFns) == 0 {
		r.Unk(rule, "C01.P6|nowait", "", "", "a function enters WaitResponse", "no CAS Running->WaitResponse found")
		return
	}
	isWait := map[*ssa.Function]bool{}
	for _, f := range waitFns {
		isWait[f] = true
	}
	// static call edges
	callees := func(f *ssa.Function) []*ssa.Function {
		var out []*ssa.Function
		for _, g := range family(f) {
			eachInstr(g, func(in ssa.Instruction) {
				if cc := callCommon(in); cc != nil {
					if sf := staticCallee(cc); sf != nil && inModule(sf) {
						out = append(out, sf)
					}
				}
			})
		}
		return out
	}
	var entries []*ssa.Function
	for _, f := range a.P.SrcFuncs {
		if f.Parent() == nil && recvIs(f, a.MetaT) {
			entries = append(entries, f)
		}
	}
	sort.Slice(entries, func(i, j int) bool { return entries[i].String() < entries[j].String() })
	r.Floor(rule, 10)
	for _, e := range entries {
		// BFS with parent pointers
		prev := map[*ssa.Function]*ssa.Function{e: nil}
		queue := []*ssa.Function{e}
		var hit *ssa.Function
		for len(queue) > 0 && hit == nil {
			f := queue[0]
			queue = queue[1:]
			for _, c := range callees(f) {
				if _, seen := prev[c]; seen {
					continue
				}
				prev[c] = f
				if isWait[c] {
					hit = c
					break
				}
				queue = append(queue, c)
			}
		}
		fn := fname(e)
		key := "C01.P6|" + fn
		inst := "method of the meta process never reaches the parent's Running<->WaitResponse transition"
		if hit != nil {
			var path []string
			for x := hit; x != nil; x = prev[x] {
				path = append([]string{fname(x)}, path...)
			}
			r.Bad(rule, key, fn, a.P.Pos(e.Pos()), inst, "call path "+strings.Join(path, " -> ")+": a meta-process goroutine compare-and-swaps the parent's state word (parent idle: the send is delivered but reports 'not allowed'; parent busy: its state flips to wait-response under its own handler)")
		} else {
			r.OK(rule, key, fn, a.P.Pos(e.Pos()), inst, fmt.Sprintf("%d functions reachable by static calls, none performs the wait transition", len(prev)))
		}
	}
}
