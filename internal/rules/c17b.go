package rules

import (
	"fmt"
	"go/token"
	"go/types"
	"sort"
	"strings"

	"golang.org/x/tools/go/ssa"

	"verif/internal/core"
	"verif/internal/load"
)

// appAccess: the accesses an instruction makes to fields of the application object
// (top-level field name, full path, kind load/store/call).
type appAcc struct {
	field string
	path  string
	kind  string
	val   ssa.Value // store: stored value; load: the load
}

func appAccesses(in ssa.Instruction, appT *types.Named) []appAcc {
	isApp := func(base ssa.Value) bool {
		if base == nil {
			return false
		}
		t := base.Type()
		if p, ok := t.Underlying().(*types.Pointer); ok {
			t = p.Elem()
		}
		return t == types.Type(appT)
	}
	var out []appAcc
	add := func(addr ssa.Value, kind string, val ssa.Value) {
		if _, ok := addr.(*ssa.FieldAddr); !ok {
			return
		}
		base, path, ok := fieldPath(addr)
		if !ok || len(path) == 0 || !isApp(base) {
			return
		}
		out = append(out, appAcc{path[0], strings.Join(path, "."), kind, val})
	}
	switch x := in.(type) {
	case *ssa.Store:
		add(x.Addr, "store", x.Val)
	case *ssa.UnOp:
		if x.Op == token.MUL {
			add(x.X, "load", x)
		}
	default:
		if cc := callCommon(in); cc != nil {
			for _, a := range cc.Args {
				add(a, "call", nil)
			}
		}
	}
	return out
}

// c17RunState: A8 — the state of one run that terminate() consults (mode, stopped channel, reason)
// is set up by start() before the first member is spawned: a member can terminate (or the rollback
// can kill one) while start() is still running.
func c17RunState(p *load.Program, r *core.Report, appT *types.Named, start, term *ssa.Function) {
	rule := "C17.A8 run-state-before-first-member"
	r.Floor(rule, 3)
	fn := fname(start)
	var spawns []ssa.Instruction
	eachInstr(start, func(in ssa.Instruction) {
		if _, ok := in.(*ssa.Call); ok && callsNamed(in, "spawn") {
			spawns = append(spawns, in)
		}
	})
	if len(spawns) == 0 {
		r.Unk(rule, "C17.A8|spawn", fn, p.Pos(start.Pos()), "member spawn found in start", "no call of spawn")
		return
	}
	read := map[string]bool{}
	for _, g := range family(term) {
		eachInstr(g, func(in ssa.Instruction) {
			for _, a := range appAccesses(in, appT) {
				if a.kind == "load" {
					read[a.field] = true
				}
			}
		})
	}
	stores := map[string][]ssa.Instruction{}
	eachInstr(start, func(in ssa.Instruction) {
		for _, a := range appAccesses(in, appT) {
			if a.kind == "store" && a.path == a.field {
				stores[a.field] = append(stores[a.field], in)
			}
		}
	})
	var fields []string
	for f := range stores {
		if read[f] && f != "state" && f != "group" {
			fields = append(fields, f)
		}
	}
	// a channel that terminate() closes is one per run: start() has to create it
	if stt, ok := appT.Underlying().(*types.Struct); ok {
		for i := 0; i < stt.NumFields(); i++ {
			fl := stt.Field(i)
			if _, isChan := fl.Type().Underlying().(*types.Chan); isChan && read[fl.Name()] && len(stores[fl.Name()]) == 0 {
				r.Bad(rule, "C17.A8|"+fn+"|"+fl.Name(), fn, p.Pos(start.Pos()), "field "+fl.Name()+" (read by terminate) is set for this run before the first member is spawned", "start() never creates the channel "+fl.Name()+" that terminate() reads: the second run works with the closed channel of the first (stop returns at once / close panics), the first with a nil channel (stop never sees the end)")
			}
		}
	}
	sort.Strings(fields)
	for _, f := range fields {
		key := "C17.A8|" + fn + "|" + f
		inst := "field " + f + " (read by terminate) is set for this run before the first member is spawned"
		ok := false
		for _, st := range stores[f] {
			all := true
			for _, sp := range spawns {
				if !instrDominates(st, sp) {
					all = false
				}
			}
			if all {
				ok = true
			}
		}
		if ok {
			r.OK(rule, key, fn, p.Pos(stores[f][0].Pos()), inst, "a store dominates every spawn call")
		} else {
			r.Bad(rule, key, fn, p.Pos(stores[f][0].Pos()), inst, "start() writes "+f+" only after members were spawned: a member that terminates during the start (or the rollback of a failed start) makes terminate() work with the value left by the previous run (stale mode; closing the previous run's 'stopped' channel again panics)")
		}
	}
}

// c17StartingPhase: A9 — terminate() decides by the emptiness of the member group, and start()
// fills that group one member at a time. Something must order a member's termination against the
// start: a guard object G of the application (a phase flag under a lock, or a mutex) that start()
// engages before the first spawn and releases on every path afterwards, and that terminate()
// consults before it touches the group.
func c17StartingPhase(p *load.Program, r *core.Report, appT *types.Named, start, term *ssa.Function) {
	rule := "C17.A9 member-termination-ordered-against-start"
	r.Floor(rule, 4)
	fn := fname(term)
	var spawns, groupOps []ssa.Instruction
	eachInstr(start, func(in ssa.Instruction) {
		if _, ok := in.(*ssa.Call); ok && callsNamed(in, "spawn") {
			spawns = append(spawns, in)
		}
	})
	eachInstr(term, func(in ssa.Instruction) {
		for _, a := range appAccesses(in, appT) {
			if a.field == "group" {
				groupOps = append(groupOps, in)
			}
		}
	})
	key := "C17.A9|" + fn + "|guard"
	inst := "terminate() consults a guard that start() holds while it fills the member group, before it touches the group"
	if len(spawns) == 0 || len(groupOps) == 0 {
		r.Unk(rule, key, fn, p.Pos(term.Pos()), inst, fmt.Sprintf("spawn calls in start: %d, group accesses in terminate: %d", len(spawns), len(groupOps)))
		return
	}
	domAll := func(x ssa.Instruction, ys []ssa.Instruction) bool {
		for _, y := range ys {
			if x == y || !instrDominates(x, y) {
				return false
			}
		}
		return true
	}
	// candidate guards
	inTerm := map[string][]ssa.Instruction{}
	eachInstr(term, func(in ssa.Instruction) {
		for _, a := range appAccesses(in, appT) {
			if a.field != "group" && a.field != "state" && domAll(in, groupOps) {
				inTerm[a.field] = append(inTerm[a.field], in)
			}
		}
	})
	inStart := map[string][]ssa.Instruction{}
	eachInstr(start, func(in ssa.Instruction) {
		for _, a := range appAccesses(in, appT) {
			if domAll(in, spawns) {
				inStart[a.field] = append(inStart[a.field], in)
			}
		}
	})
	var guards []string
	for g := range inTerm {
		if len(inStart[g]) > 0 {
			guards = append(guards, g)
		}
	}
	sort.Strings(guards)
	// keep guards that have a lock or a flag shape
	type flagShape struct {
		g, path string
		c       bool
		load    *ssa.UnOp
	}
	var flag *flagShape
	mutexGuard := ""
	for _, g := range guards {
		// flag: start stores a constant bool to a sub-path of g before the spawns; terminate loads the same path
		eachInstr(start, func(in ssa.Instruction) {
			for _, a := range appAccesses(in, appT) {
				if a.field != g || a.kind != "store" || !domAll(in, spawns) {
					continue
				}
				c, ok := constBool(a.val)
				if !ok {
					continue
				}
				eachInstr(term, func(in2 ssa.Instruction) {
					for _, b := range appAccesses(in2, appT) {
						if b.kind == "load" && b.path == a.path && domAll(in2, groupOps) && flag == nil {
							flag = &flagShape{g, a.path, c, in2.(*ssa.UnOp)}
						}
					}
				})
			}
		})
		// mutex: Lock on g (or an embedded mutex of g) in both
		lockIn := func(list []ssa.Instruction) bool {
			for _, in := range list {
				if m := mutexOpOf(in); m != nil && (m.kind == "Lock" || m.kind == "RLock") && !m.deferred {
					return true
				}
			}
			return false
		}
		if lockIn(inTerm[g]) && lockIn(inStart[g]) {
			mutexGuard = g
		}
	}
	if len(guards) == 0 {
		r.Bad(rule, key, fn, p.Pos(groupOps[0].Pos()), inst, "nothing orders terminate() against start(): a member that terminates while a later member is still being started finds the group (momentarily) empty — the application is declared stopped (state loaded, Terminate callback) while start() goes on, the later members keep running and the Start callback comes after Terminate")
		return
	}
	if flag == nil && mutexGuard == "" {
		r.Unk(rule, key, fn, p.Pos(term.Pos()), inst, "guard candidates "+strings.Join(guards, ", ")+" have neither the shape of a phase flag nor of a mutex held by start")
		return
	}
	if flag == nil {
		// mutex held by start over the loop: pairing is decided by the lock-pairing data flow
		r.OK(rule, key, fn, p.Pos(inTerm[mutexGuard][0].Pos()), inst, "mutex "+mutexGuard+": locked by start before the first spawn and by terminate before the group is touched")
		lockPairing(p, r, rule, "C17.A9", 0, func(o string) bool {
			return strings.HasSuffix(o, "node.application") || strings.Contains(o, "application")
		})
		return
	}
	r.OK(rule, key, fn, p.Pos(flag.load.Pos()), inst, fmt.Sprintf("phase flag %s: start stores %v before the first spawn, terminate loads it before any group access", flag.path, flag.c))

	// (b1) on the 'starting' edge terminate() leaves without touching the group or the callback, and records the exit
	{
		key := "C17.A9|" + fn + "|deferred"
		inst := "while the start is in progress terminate() only records the termination (no group access, no state change, no callback)"
		t, f, complete := boolEdges(flag.load)
		act := t
		if !flag.c {
			act = f
		}
		if !complete || len(act) == 0 {
			r.Unk(rule, key, fn, p.Pos(flag.load.Pos()), inst, "the flag is not a plain branch condition")
		} else {
			var pts []Point
			for _, e := range act {
				pts = append(pts, Point{e.To(), 0})
			}
			isGroupOrEffect := func(in ssa.Instruction) bool {
				for _, a := range appAccesses(in, appT) {
					if a.field == "group" || (a.field == "state" && a.kind != "load") {
						return true
					}
				}
				if cc := callCommon(in); cc != nil && cc.IsInvoke() {
					return true
				}
				return false
			}
			recorded := func(in ssa.Instruction) bool {
				for _, a := range appAccesses(in, appT) {
					if a.field == flag.g && a.kind == "store" && a.path != flag.path {
						return true
					}
				}
				return false
			}
			if hit := reaches(pts, nil, isGroupOrEffect); hit != nil {
				r.Bad(rule, key, fn, p.Pos(hit.Pos()), inst, "on the edge where the start is still in progress terminate() goes on to the member group / the state / a callback")
			} else if hit := reaches(pts, recorded, isReturn); hit != nil {
				r.Bad(rule, key, fn, p.Pos(hit.Pos()), inst, "on the edge where the start is still in progress terminate() returns without recording the termination: the member stays in the group for ever, the application can never stop")
			} else {
				r.OK(rule, key, fn, p.Pos(flag.load.Pos()), inst, "the edge leads to a return through a store into "+flag.g+" only")
			}
		}
	}
	// (b2) start ends the phase on every path after the first spawn: the flag is reset, directly or in a callee
	resets := func(f *ssa.Function) ssa.Instruction { // an unconditional store of !c to the flag path
		var st ssa.Instruction
		eachInstr(f, func(in ssa.Instruction) {
			for _, a := range appAccesses(in, appT) {
				if a.kind == "store" && a.path == flag.path {
					if c, ok := constBool(a.val); ok && c != flag.c {
						st = in
					}
				}
			}
		})
		if st == nil {
			return nil
		}
		if reaches([]Point{{f.Blocks[0], 0}}, func(in ssa.Instruction) bool { return in == st }, isReturn) != nil {
			return nil
		}
		return st
	}
	var ender *ssa.Function
	isEnd := func(in ssa.Instruction) bool {
		for _, a := range appAccesses(in, appT) {
			if a.kind == "store" && a.path == flag.path {
				if c, ok := constBool(a.val); ok && c != flag.c {
					return true
				}
			}
		}
		if cc := callCommon(in); cc != nil {
			if sf := staticCallee(cc); sf != nil && recvIs(sf, appT) && len(sf.Blocks) > 0 && resets(sf) != nil {
				ender = sf
				return true
			}
		}
		return false
	}
	{
		key := "C17.A9|" + fname(start) + "|phase-ends"
		inst := "every path of start() from a member spawn to its return ends the starting phase"
		var pts []Point
		for _, sp := range spawns {
			pts = append(pts, after(sp))
		}
		if hit := reaches(pts, isEnd, isReturn); hit != nil {
			r.Bad(rule, key, fname(start), p.Pos(hit.Pos()), inst, "start() can return with the phase flag still set: every later member termination is only recorded, the application never reacts to it and never stops")
		} else {
			r.OK(rule, key, fname(start), p.Pos(spawns[0].Pos()), inst, "every path passes the reset of "+flag.path)
		}
	}
	// (b3) the recorded terminations are replayed: where the flag is reset, every recorded element is given to terminate
	{
		host := ender
		if host == nil {
			host = start
		}
		key := "C17.A9|" + fname(host) + "|replay"
		inst := "the terminations recorded during the start are handed to terminate() when the phase ends"
		var call ssa.Instruction
		eachInstr(host, func(in ssa.Instruction) {
			if cc := callCommon(in); cc != nil && staticCallee(cc) == term {
				call = in
			}
		})
		switch {
		case call == nil:
			r.Bad(rule, key, fname(host), p.Pos(host.Pos()), inst, "nothing replays the recorded terminations: a member that died during the start stays in the group, the application never becomes empty")
		default:
			// the call sits in a loop over a slice loaded from the guard, left only by exhaustion, and comes after the reset
			okLoop, why := loopExitsOnlyAtHeader(call)
			fromGuard := false
			cc := callCommon(call)
			for _, a := range cc.Args {
				v := a
				for i := 0; i < 6; i++ {
					switch x := v.(type) {
					case *ssa.Field:
						v = x.X
						continue
					case *ssa.UnOp:
						if x.Op == token.MUL {
							if ia, ok := x.X.(*ssa.IndexAddr); ok {
								if ld, ok := ia.X.(*ssa.UnOp); ok && ld.Op == token.MUL {
									for _, ac := range appAccesses(ld, appT) {
										if ac.field == flag.g {
											fromGuard = true
										}
									}
								}
							}
							if fa, ok := x.X.(*ssa.FieldAddr); ok {
								v = fa.X
								continue
							}
						}
					case *ssa.FieldAddr:
						v = x.X
						continue
					case *ssa.Alloc:
						if sv := singleStore(x); sv != nil {
							v = sv
							continue
						}
					case *ssa.IndexAddr:
						if ld, ok := x.X.(*ssa.UnOp); ok && ld.Op == token.MUL {
							for _, ac := range appAccesses(ld, appT) {
								if ac.field == flag.g {
									fromGuard = true
								}
							}
						}
					}
					break
				}
			}
			rs := resets(host)
			switch {
			case !okLoop:
				r.Bad(rule, key, fname(host), p.Pos(call.Pos()), inst, "the replay loop "+why)
			case !fromGuard:
				r.Bad(rule, key, fname(host), p.Pos(call.Pos()), inst, "the replayed pid/reason do not come from the recorded list in "+flag.g)
			case rs != nil && !instrDominates(rs, call):
				r.Bad(rule, key, fname(host), p.Pos(call.Pos()), inst, "terminate() is replayed before the phase flag is reset: it only records the termination again")
			default:
				r.OK(rule, key, fname(host), p.Pos(call.Pos()), inst, "loop over the recorded list, left only by exhaustion, after the reset")
			}
		}
	}
}

// c17StartMode: A10 — which mode a run gets. Every call of application.start is given the mode of the
// application's SPECIFICATION (plain start), a mode constant (the StartPermanent/Transient/Temporary
// variants), or a caller's mode parameter that is replaced by the specification's mode when it is
// zero (the remote start without explicit mode). Never the run-scoped field a.mode: stop() leaves
// Temporary there, so a permanent application that is stopped and started again would run as a
// temporary one.
func c17StartMode(p *load.Program, r *core.Report, appT *types.Named, start *ssa.Function) {
	rule := "C17.A10 start-mode-comes-from-the-specification"
	r.Floor(rule, 5)
	seq := map[string]int{}
	classify := func(v ssa.Value) string {
		v = resolveLocalCopy(v)
		if _, ok := constInt(v); ok {
			return "const"
		}
		if _, ok := v.(*ssa.Parameter); ok {
			return "param"
		}
		if _, path, ok := fieldPath(v); ok && len(path) >= 2 && path[len(path)-2] == "spec" && path[len(path)-1] == "Mode" {
			return "spec"
		}
		if _, path, ok := fieldPath(v); ok && len(path) >= 1 && path[len(path)-1] == "mode" {
			return "run-field"
		}
		return "?"
	}
	for _, f := range funcsOfPkgs(p, "node") {
		eachInstr(f, func(in ssa.Instruction) {
			c, ok := in.(*ssa.Call)
			if !ok || staticCallee(c.Common()) != start {
				return
			}
			fn := fname(f)
			seq[fn]++
			key := fmt.Sprintf("C17.A10|%s|start#%d", fn, seq[fn])
			inst := "the run is started with the specification's mode, a mode constant, or the caller's mode defaulted to the specification's"
			arg := c.Common().Args[1]
			kinds := map[string]bool{}
			if ph, isPhi := arg.(*ssa.Phi); isPhi {
				for _, e := range ph.Edges {
					kinds[classify(e)] = true
				}
			} else {
				kinds[classify(arg)] = true
			}
			switch {
			case kinds["run-field"]:
				r.Bad(rule, key, fn, p.Pos(in.Pos()), inst, "the mode is read from the application's run-scoped field: stop() leaves Temporary there (and the mode-specific starts their own), so after a stop a permanent application is started again as a temporary one — a member's termination no longer stops it")
			case kinds["?"]:
				r.Unk(rule, key, fn, p.Pos(in.Pos()), inst, "cannot tell where the mode comes from")
			case kinds["param"] && !kinds["spec"]:
				r.Bad(rule, key, fn, p.Pos(in.Pos()), inst, "the caller's mode is handed on as it is: a request without an explicit mode carries 0, which is no mode at all — the application behaves as a temporary one whatever its specification says")
			default:
				var ks []string
				for k := range kinds {
					ks = append(ks, k)
				}
				sort.Strings(ks)
				r.OK(rule, key, fn, p.Pos(in.Pos()), inst, "mode from: "+strings.Join(ks, ", "))
			}
		})
	}
}

// c17StopDuringStart: A11 — stop() is allowed while start() is still starting members (the state is
// Running from the first moment); it tells the members that exist by then. The members started
// afterwards have to be told by start() itself: on every path from a member spawn to a successful
// return the state word is looked at again, and on the Stopping edge every member is sent an exit
// (complete fan-out). Otherwise the application hangs in 'stopping' with live members and every
// later stop request reports 'stopping is in progress'.
func c17StopDuringStart(p *load.Program, r *core.Report, appT *types.Named, start *ssa.Function, stopping int64) {
	rule := "C17.A11 stop-request-during-start-reaches-late-members"
	r.Floor(rule, 1)
	fn := fname(start)
	key := "C17.A11|" + fn
	inst := "after the members are started the state is checked again and, if a stop was requested meanwhile, every member is told to stop"
	var spawns []ssa.Instruction
	eachInstr(start, func(in ssa.Instruction) {
		if _, ok := in.(*ssa.Call); ok && callsNamed(in, "spawn") {
			spawns = append(spawns, in)
		}
	})
	// state == Stopping tests
	var tests []*ssa.BinOp
	for _, op := range stateOps(p, appT, "state") {
		if op.Fn != start || op.Kind != "load" || op.Result == nil {
			continue
		}
		if refs := op.Result.Referrers(); refs != nil {
			for _, rf := range *refs {
				if b, ok := rf.(*ssa.BinOp); ok && (b.Op == token.EQL || b.Op == token.NEQ) {
					if c, okc := constInt(b.Y); okc && c == stopping {
						tests = append(tests, b)
					}
				}
			}
		}
	}
	if len(spawns) == 0 {
		r.Unk(rule, key, fn, p.Pos(start.Pos()), inst, "no member spawn found")
		return
	}
	if len(tests) == 0 {
		r.Bad(rule, key, fn, p.Pos(spawns[0].Pos()), inst, "start() never looks at the state again: members started after a concurrent stop request are not told to stop — the application stays in 'stopping' for ever")
		return
	}
	isTest := func(in ssa.Instruction) bool {
		for _, t := range tests {
			if in == ssa.Instruction(t) {
				return true
			}
		}
		return false
	}
	var pts []Point
	for _, s := range spawns {
		pts = append(pts, after(s))
	}
	if hit := reaches(pts, isTest, func(in ssa.Instruction) bool {
		rt, ok := in.(*ssa.Return)
		return ok && maybeNilResult(rt, 0)
	}); hit != nil {
		r.Bad(rule, key, fn, p.Pos(hit.Pos()), inst, "a successful return is reachable from a spawn without the check")
		return
	}
	for _, t := range tests {
		tr, fl, complete := boolEdges(t)
		if !complete {
			continue
		}
		on := tr
		if t.Op == token.NEQ {
			on = fl
		}
		fan := false
		why := ""
		for range walkAvoid(edgePoints(on), isReturn, func(in ssa.Instruction) bool {
			done, w := memberFanout(in, "group", "SendExit", "RouteSendExit", "Kill")
			if w != "" {
				why = w
			}
			return done != nil
		}) {
			fan = true
		}
		if fan {
			r.OK(rule, key, fn, p.Pos(t.Pos()), inst, "state == Stopping leads to a complete fan-out of SendExit over the members")
			return
		}
		_ = why
	}
	r.Bad(rule, key, fn, p.Pos(tests[0].Pos()), inst, "the Stopping edge does not send an exit to every member")
}

// c10ExitNeverDropped: N8 — "every child terminates too" rests on the exit signal reaching the child.
// The helper that delivers exit signals pushes into the target's Urgent queue, which is bounded when
// the process has a mailbox limit; the callers (termination fan-outs) ignore its result. So the
// refused-push edge must not simply return: it has to make sure the target goes down some other way
// (Kill) or get the signal in regardless of the limit.
func c10ExitNeverDropped(p *load.Program, r *core.Report, a *Anchors) {
	rule := "C10.N8 exit-signal-not-dropped-on-a-full-mailbox"
	r.Floor(rule, 1)
	f := p.Func("node", a.NodeT.Obj().Name(), "sendExitMessage")
	if f == nil {
		r.Unk(rule, "C10.N8|sendExitMessage", "", "", "the exit delivery helper is found", "not found")
		return
	}
	fn := fname(f)
	key := "C10.N8|" + fn
	inst := "an exit signal refused by a full Urgent queue still takes the target down (or is enqueued regardless of the limit)"
	var push *ssa.Call
	eachInstr(f, func(in ssa.Instruction) {
		c, ok := in.(*ssa.Call)
		if ok && c.Common().IsInvoke() && c.Common().Method.Name() == "Push" {
			push = c
		}
	})
	if push == nil {
		r.Unk(rule, key, fn, p.Pos(f.Pos()), inst, "no push found")
		return
	}
	_, refused, complete := boolEdges(push)
	if !complete || len(refused) == 0 {
		r.OK(rule, key, fn, p.Pos(push.Pos()), inst, "the push cannot be refused (its result is not tested)")
		return
	}
	isRescue := func(in ssa.Instruction) bool {
		return callsNamed(in, "Kill") || (in != ssa.Instruction(push) && callsNamed(in, "Push"))
	}
	if hit := reaches(edgePoints(refused), isRescue, isReturn); hit != nil {
		r.Bad(rule, key, fn, p.Pos(push.Pos()), inst, "the refused-push edge returns an error at "+p.Pos(hit.Pos())+" which RouteTerminatePID / RouteNodeDown / the release of a failed start ignore: a child with a bounded mailbox whose Urgent queue is full (one queued Max-priority message while it is busy) never learns that its parent is gone and runs on as an orphan")
	} else {
		r.OK(rule, key, fn, p.Pos(push.Pos()), inst, "the refused edge kills the target / pushes regardless")
	}
}

// c10StopSeesLateSpawns: N10 — node.Stop asks the processes it finds registered to terminate and
// then waits for the process count to reach zero. A process registered after the walk passed (its
// parent had not handled its own exit signal yet) would never be asked and Stop would wait for ever.
// So (a) stop() raises a flag before the walk, and (b) spawn, AFTER it has registered the process,
// reads that flag and on the set edge sends the exit signal to the new process itself. Either the
// walk sees the process or spawn sees the flag.
func c10StopSeesLateSpawns(p *load.Program, r *core.Report, a *Anchors) {
	rule := "C10.N10 stop-reaches-processes-spawned-meanwhile"
	r.Floor(rule, 2)
	nodeT := a.NodeT.Obj().Name()
	stop := p.Func("node", nodeT, "stop")
	spawn := p.Func("node", nodeT, "spawn")
	if stop == nil || spawn == nil {
		r.Unk(rule, "C10.N10|anchors", "", "", "stop and spawn are found", "missing")
		return
	}
	// the walk of the process table in stop
	var walk ssa.Instruction
	eachInstr(stop, func(in ssa.Instruction) {
		c, ok := in.(*ssa.Call)
		if !ok {
			return
		}
		if m, okm := syncMapCall(c.Common()); okm && m == "Range" {
			if _, path, okp := fieldPath(c.Common().Args[0]); okp && len(path) > 0 && path[len(path)-1] == "processes" {
				walk = in
			}
		}
	})
	// flags: fields of the node stored with a constant in stop before the walk
	flags := map[string]ssa.Instruction{}
	if walk != nil {
		eachInstr(stop, func(in ssa.Instruction) {
			var addr ssa.Value
			if c, ok := in.(*ssa.Call); ok && isAtomic(c.Common()) && strings.HasPrefix(staticCallee(c.Common()).Name(), "Store") {
				addr = c.Common().Args[0]
			} else if st, ok := in.(*ssa.Store); ok {
				addr = st.Addr
			}
			if addr == nil {
				return
			}
			if b, path, okp := fieldPath(addr); okp && len(path) == 1 && canon(b) == ssa.Value(stop.Params[0]) && instrDominates(in, walk) {
				flags[path[0]] = in
			}
		})
	}
	key1 := "C10.N10|" + fname(stop) + "|flag-before-walk"
	inst1 := "stop raises a flag before it walks the process table"
	if walk == nil {
		r.Unk(rule, key1, fname(stop), p.Pos(stop.Pos()), inst1, "no Range over the process table")
		return
	}
	// spawn: after processes.Store a load of one of these flags whose set edge sends an exit to the new process
	var reg ssa.Instruction
	eachInstr(spawn, func(in ssa.Instruction) {
		c, ok := in.(*ssa.Call)
		if !ok {
			return
		}
		if m, okm := syncMapCall(c.Common()); okm && m == "Store" {
			if _, path, okp := fieldPath(c.Common().Args[0]); okp && len(path) > 0 && path[len(path)-1] == "processes" {
				reg = in
			}
		}
	})
	key2 := "C10.N10|" + fname(spawn) + "|flag-after-registration"
	inst2 := "spawn reads the stop flag after it has registered the process and asks the process to terminate when it is set"
	if reg == nil {
		r.Unk(rule, key2, fname(spawn), p.Pos(spawn.Pos()), inst2, "no processes.Store in spawn")
		return
	}
	used := ""
	// spawn itself and the node methods it calls after the registration (the flag test may live
	// in a helper of its own: "ask it to stop if the node is stopping")
	scan := []*ssa.Function{spawn}
	eachInstr(spawn, func(in ssa.Instruction) {
		if cc := callCommon(in); cc != nil && instrDominates(reg, in) {
			if g := staticCallee(cc); g != nil && recvIs(g, a.NodeT) && len(g.Blocks) > 0 && g != spawn && !strings.HasPrefix(g.Name(), "Route") {
				scan = append(scan, g)
			}
		}
	})
	for _, sf := range scan {
		eachInstr(sf, func(in ssa.Instruction) {
			var addr ssa.Value
			var val ssa.Value
			if c, ok := in.(*ssa.Call); ok && isAtomic(c.Common()) && strings.HasPrefix(staticCallee(c.Common()).Name(), "Load") {
				addr, val = c.Common().Args[0], c
			} else if u, ok := in.(*ssa.UnOp); ok && u.Op == token.MUL {
				addr, val = u.X, u
			}
			if addr == nil {
				return
			}
			_, path, okp := fieldPath(addr)
			if !okp || len(path) != 1 || flags[path[0]] == nil || (sf == spawn && !instrDominates(reg, in)) {
				return
			}
			// some comparison of the loaded value whose one edge reaches an exit sent to the new process
			if refs := val.Referrers(); refs != nil {
				for _, x := range *refs {
					b, ok := x.(*ssa.BinOp)
					if !ok {
						continue
					}
					t, fl, complete := boolEdges(b)
					if !complete {
						continue
					}
					for _, es := range [][]Edge{t, fl} {
						if reaches(edgePoints(es), func(y ssa.Instruction) bool { return y == in }, func(y ssa.Instruction) bool {
							return callsNamed(y, "RouteSendExit", "sendExitMessage", "Kill")
						}) != nil {
							used = path[0]
						}
					}
				}
			}
		})
	}
	if used == "" {
		if len(flags) == 0 {
			r.Bad(rule, key1, fname(stop), p.Pos(walk.Pos()), inst1, "no field of the node is set before the walk: a process registered after the walk passed is never asked to terminate and Stop waits for it for ever")
		} else {
			r.OK(rule, key1, fname(stop), p.Pos(walk.Pos()), inst1, fmt.Sprintf("%d field(s) stored before the walk", len(flags)))
		}
		r.Bad(rule, key2, fname(spawn), p.Pos(reg.Pos()), inst2, "after processes.Store spawn consults no flag raised by stop: a process registered after stop's walk passed is never asked to terminate — node.Stop never returns")
		return
	}
	r.OK(rule, key1, fname(stop), p.Pos(flags[used].Pos()), inst1, "field '"+used+"' is stored before the Range over the process table")
	r.OK(rule, key2, fname(spawn), p.Pos(reg.Pos()), inst2, "field '"+used+"' is read after processes.Store; one edge of its test sends the exit signal")
}

// appStopSignalFromParent: an actor traps every exit signal but the one of its parent. The members
// of an application have the core that STARTED the application as their parent — for an application
// started by a remote node that is the remote core. Every exit signal the application sends to a
// member is therefore sent on behalf of the member's parent (the `parent` field of its process
// entry), never through node.SendExit (sender: the local core): a trapped signal leaves the member
// running and the application in 'stopping' for ever.
func appStopSignalFromParent(p *load.Program, r *core.Report, rule, rid string) {
	r.Floor(rule, 1)
	seq := 0
	for _, f := range funcsOfPkgs(p, "node") {
		root := f
		for root.Parent() != nil {
			root = root.Parent()
		}
		if root.Signature.Recv() == nil || !strings.HasSuffix(root.Signature.Recv().Type().String(), "node.application") {
			continue
		}
		eachInstr(f, func(in ssa.Instruction) {
			cc := callCommon(in)
			if cc == nil || !callsNamed(in, "SendExit", "RouteSendExit") {
				return
			}
			seq++
			fn := fname(f)
			key := fmt.Sprintf("%s|%s|exit#%d", rid, fn, seq)
			inst := "the exit signal an application sends to a member carries the member's parent as the sender"
			name := callName(cc)
			if name == "SendExit" {
				r.Bad(rule, key, fn, p.Pos(in.Pos()), inst, "node.SendExit sends as the local core: a member of an application started by a remote node (its parent is that node's core) traps the signal — ApplicationStop never completes and the application stays in 'stopping'")
				return
			}
			args := cc.Args
			if !cc.IsInvoke() {
				args = args[1:]
			}
			fromParent := false
			seen := map[ssa.Value]bool{}
			var walk func(v ssa.Value)
			walk = func(v ssa.Value) {
				if v == nil || seen[v] {
					return
				}
				seen[v] = true
				if ph, ok := v.(*ssa.Phi); ok {
					for _, e := range ph.Edges {
						walk(e)
					}
					return
				}
				if _, path, okp := fieldPath(v); okp && len(path) > 0 && path[len(path)-1] == "parent" {
					fromParent = true
				}
			}
			walk(args[0])
			if fromParent {
				r.OK(rule, key, fn, p.Pos(in.Pos()), inst, "the sender is read from the 'parent' field of the member's process entry (the local core only when the entry is gone)")
			} else {
				r.Bad(rule, key, fn, p.Pos(in.Pos()), inst, "the sender is not the member's parent: a member whose parent is another core traps the signal and keeps running")
			}
		})
	}
}

// c10PoolOutlivedByWorkers: N12 — a supervisor reports its own termination only after its children
// have terminated (N7). A pool starts workers as well, and whoever waits for the pool (ApplicationStop
// waits for its group members, a supervisor for its children, node.Stop for the count) takes the
// pool's termination for the termination of what it started. The termination path of the pool —
// ProcessTerminate and what it calls — therefore has to look at the worker ring (to wait for the
// workers or at least to take them down synchronously). Open finding F-BW: today it does not.
func c10PoolOutlivedByWorkers(p *load.Program, r *core.Report) {
	rule := "C10.N12 pool-terminates-after-its-workers"
	r.Floor(rule, 1)
	term := p.Func("act", "Pool", "ProcessTerminate")
	if term == nil {
		r.Unk(rule, "C10.N12|(*act.Pool).ProcessTerminate", "", "", "the pool's termination callback is found", "not found")
		return
	}
	fn := fname(term)
	key := "C10.N12|" + fn
	inst := "the pool's termination path consults the ring of its workers (waits for them / takes them down) before the pool is reported as terminated"
	seen := map[*ssa.Function]bool{term: true}
	work := []*ssa.Function{term}
	touches := false
	for len(work) > 0 {
		g := work[len(work)-1]
		work = work[:len(work)-1]
		for _, h := range family(g) {
			eachInstr(h, func(in ssa.Instruction) {
				if fa, ok := in.(*ssa.FieldAddr); ok {
					if st := derefStruct(fa.X.Type()); st != nil && st.Field(fa.Field).Name() == "pool" && strings.HasSuffix(fa.X.Type().String(), "act.Pool") {
						touches = true
					}
				}
				if cc := callCommon(in); cc != nil {
					if sf := staticCallee(cc); sf != nil && pkgSuffix(sf) == "act" && !seen[sf] && len(sf.Blocks) > 0 {
						seen[sf] = true
						work = append(work, sf)
					}
				}
			})
		}
	}
	if touches {
		r.OK(rule, key, fn, p.Pos(term.Pos()), inst, "the termination path reads the worker ring")
	} else {
		r.Bad(rule, key, fn, p.Pos(term.Pos()), inst, "the termination path never looks at the workers: they are taken down by their link AFTER the pool has been reported as terminated — ApplicationStop returns nil (state 'loaded') while a busy worker of the application still runs")
	}
}
