package rules

import (
	"fmt"
	"go/token"
	"go/types"
	"sort"
	"strings"

	"golang.org/x/tools/go/ssa"

	"verif/internal/core"
	"verif/internal/load"
)

func init() {
	Registry["C14"] = Set{
		Explanation: "Decides structural clauses of remote failure detection: X1 the node-down chain — the goroutine serving a connection reaches unregisterConnection on every exit including its recover path, that function deletes the connection and reaches RouteNodeDown, which drains the relations with CleanupNode and sends one exit (links) / one down message with High priority (monitors) per consumer, every such message carrying ErrNoConnection; X2 incarnation guard vs ownership on raw frames — an identifier the reader rebuilds with its own creation must be guarded by the writer against the peer's creation, one the reader rebuilds with the peer's creation must not be (a wrongly guarded frame is never sent, an unguarded one lets identifiers of an earlier incarnation through); X3 the type switches that fan out node-down/termination cover every static target type ever passed to AddLink/AddMonitor; X4 every wait for a remote result or response is a select with a timer case (requests in flight end within their timeout). Added while probing: X1 the node-down send loops walk the whole consumer lists CleanupNode returned; X2b the request/link/monitor methods of a connection refuse identifiers of another incarnation before sending; X4 a pooled timer (lib.TakeTimer) is re-armed by Reset on every path to the select. X5 every channel type that is the target of a non-blocking send (MessageResult, response) is created buffered, so a reply that arrives before the requester blocks in its wait is kept. X6 every link of a connection is closed at termination: Terminate sets the terminated flag under the pool lock and closes the whole pool, Join tests the flag and appends inside one critical section of that lock, and the dialer closes a link Join refused. X7 no critical section of the connection's, the network's or the permission tables' locks calls anything that takes the same lock again (a self-deadlock there hangs every request on the connection). The re-dial of a pool link is bounded by progress (serve's result is used and the re-dial sits behind a constant bound), so a peer that dropped the connection but keeps running is eventually reported down. X8 lock pairing — in every function that touches the connection's pool/request locks and the remote spawn/start permission tables' locks a forward data flow over (held read/write, unlock deferred) shows: no return while the lock is held without a deferred unlock, no unlock (explicit or deferred) of a lock that is not held or of the other kind, no second lock (a leaked lock blocks every later send, request or termination of that connection for ever, an unlock of an unlocked mutex is a fatal error that takes the node down). X9 the text of a name written into a termination notice is converted from the name after atom mapping. X10 the connection is removed from the node's table before the node-down notifications go out. X11 the dialing side's count of re-dialed links that were closed without traffic is reset to 0 only behind the 'received > 0' edge of the link's serve result (reset on a successful re-dial it never reaches the give-up limit: the dead connection stays and nobody is told).",
		NotDecided: []string{
			"timing (that the timeout elapses), TCP-level detection of a dead peer",
			"restart of a peer under the same name within one second (creation is in seconds)",
			"exactly-once of the notification under races with unlink/demonitor",
		},
		Assumptions: []string{"gen.TargetManager.CleanupNode returns and removes every relation involving the node (default implementation checked by C04 L7)", "time.Timer fires"},
		Run:         runC14,
	}
}

// pathsMiss: returns a Return reachable from the entry of f without passing an instruction that satisfies pred.
func pathsMiss(f *ssa.Function, pred func(ssa.Instruction) bool) ssa.Instruction {
	if len(f.Blocks) == 0 {
		return nil
	}
	return reaches([]Point{{f.Blocks[0], 0}}, pred, isReturn)
}

func callsNamed(in ssa.Instruction, names ...string) bool {
	cc := callCommon(in)
	if cc == nil {
		return false
	}
	n := ""
	if cc.IsInvoke() {
		n = cc.Method.Name()
	} else if sf := staticCallee(cc); sf != nil {
		n = sf.Name()
	}
	// instantiations of generic methods are named Len[K,V]
	if i := strings.IndexByte(n, '['); i > 0 {
		n = n[:i]
	}
	for _, x := range names {
		if n == x {
			return true
		}
	}
	return false
}

// calleeName: the method / function name a call names (for messages).
func calleeName(cc *ssa.CallCommon) string {
	if cc == nil {
		return "?"
	}
	if cc.IsInvoke() {
		return cc.Method.Name()
	}
	if sf := staticCallee(cc); sf != nil {
		return sf.Name()
	}
	return "a dynamic call"
}

func runC14(p *load.Program, r *core.Report) {
	lockReentrancy(p, r, "C14.X7 connection-locks-not-reentered", "C14.X7", 50, func(o string) bool {
		return o == "net/proto.connection" || o == "node.network" || o == "node.enableSpawn" || o == "node.enableAppStart"
	})
	lockPairing(p, r, "C14.X8 connection-locks-paired", "C14.X8", 33, func(o string) bool {
		return o == "net/proto.connection" || o == "node.network" || o == "node.enableSpawn" || o == "node.enableAppStart"
	})
	mappedNameText(p, r, "C14.X9 notice-names-the-mapped-name", "C14.X9", 5)
	c14DownAfterUnregister(p, r)
	c14GiveUpCounter(p, r)
	c14PoolTermination(p, r)
	c14ResultChannels(p, r)
	c14Chain(p, r)
	lc, writers, readers, rfn := protoLayouts(p)
	if lc == nil || len(writers) == 0 || len(readers) == 0 {
		r.Unk("C14.X2 incarnation-guard", "C14.X2|layouts", "", "", "frame writers and handler resolve", "not found")
	} else {
		c12Layout(p, r, lc, writers, readers, rfn, "", "C14.X2 incarnation-guard")
	}
	c14Guards(p, r)
	c14Kinds(p, r)
	c14Timers(p, r)
}

// c14Guards: X2b — every request the connection sends about a peer-owned PID or Alias through the
// generic message path (link/unlink/monitor/demonitor) refuses an identifier whose creation is not
// the peer's current creation (sibling agreement over the 8 functions).
func c14Guards(p *load.Program, r *core.Report) {
	rule := "C14.X2b incarnation-guard-on-requests"
	r.Floor(rule, 8)
	connT := p.Named("net/proto", "connection")
	for _, f := range funcsOfPkgs(p, "net/proto") {
		if f.Parent() != nil || !recvIs(f, connT) {
			continue
		}
		n := f.Name()
		isReq := false
		for _, pre := range []string{"Link", "Unlink", "Monitor", "Demonitor"} {
			if strings.HasPrefix(n, pre) && (strings.HasSuffix(n, "PID") || strings.HasSuffix(n, "Alias")) {
				isReq = true
			}
		}
		if !isReq {
			continue
		}
		target := lastParamOfKinds(f, "gen.PID", "gen.Alias")
		key := "C14.X2b|" + n
		inst := n + ": a target minted by another incarnation of the peer is refused with an incarnation error before anything is sent"
		var send ssa.Instruction
		eachInstr(f, func(in ssa.Instruction) {
			if callsNamed(in, "sendAny") && send == nil {
				send = in
			}
		})
		ok := false
		eachInstr(f, func(in ssa.Instruction) {
			b, isB := in.(*ssa.BinOp)
			if !isB || (b.Op != token.NEQ && b.Op != token.EQL) {
				return
			}
			bx, px, _ := fieldPath(b.X)
			_, py, _ := fieldPath(b.Y)
			if len(px) == 0 || px[len(px)-1] != "Creation" || len(py) == 0 || py[len(py)-1] != "peer_creation" {
				return
			}
			if !(bx == ssa.Value(target) || spilledParam(bx) == target) {
				return
			}
			t, fl, _ := boolEdges(b)
			mis, eq := t, fl
			if b.Op == token.EQL {
				mis, eq = fl, t
			}
			good := len(mis) > 0
			for _, e := range mis {
				for _, ret := range walkAvoid([]Point{{e.To(), 0}}, nil, isReturn) {
					rr := ret.(*ssa.Return)
					if reasonOrigin(rr.Results[len(rr.Results)-1], 0) != "global:ErrProcessIncarnation" {
						good = false
					}
				}
			}
			if good && send != nil && edgesDominate(eq, send) {
				ok = true
			}
		})
		if ok {
			r.OK(rule, key, fname(f), p.Pos(f.Pos()), inst, "target.Creation compared with peer_creation; mismatch returns ErrProcessIncarnation; the send is behind the match edge")
		} else {
			r.Bad(rule, key, fname(f), p.Pos(f.Pos()), inst, "no such guard: an identifier of an earlier incarnation of the restarted peer is sent on and reaches a process of the new incarnation")
		}
	}
}

func c14Chain(p *load.Program, r *core.Report) {
	rule := "C14.X1 node-down-chain"
	r.Floor(rule, 8)
	netT := p.Named("node", "network")
	var serve, unreg, down *ssa.Function
	for _, f := range funcsOfPkgs(p, "node") {
		if f.Parent() != nil {
			continue
		}
		// serve: the method of network that invokes NetworkProto.Serve
		eachInstr(f, func(in ssa.Instruction) {
			cc := callCommon(in)
			if cc != nil && cc.IsInvoke() && cc.Method.Name() == "Serve" && recvIs(f, netT) {
				if n, _ := cc.Value.Type().(*types.Named); n != nil && n.Obj().Name() == "NetworkProto" {
					serve = f
				}
			}
		})
		if recvIs(f, netT) && f.Name() == "unregisterConnection" {
			unreg = f
		}
		if f.Name() == "RouteNodeDown" && f.Signature.Recv() != nil {
			down = f
		}
	}
	if serve == nil || unreg == nil || down == nil {
		r.Unk(rule, "C14.X1|anchors", "", "", "serve / unregisterConnection / RouteNodeDown resolve", fmt.Sprintf("serve=%v unregisterConnection=%v RouteNodeDown=%v", serve != nil, unreg != nil, down != nil))
		return
	}
	isUnreg := func(in ssa.Instruction) bool {
		cc := callCommon(in)
		return cc != nil && staticCallee(cc) == unreg
	}
	// serve: all exits
	if bad := pathsMiss(serve, isUnreg); bad != nil {
		r.Bad(rule, "C14.X1|serve|normal-exit", fname(serve), p.Pos(bad.Pos()), "the connection's serve goroutine unregisters the connection on every exit", "the return at "+p.Pos(bad.Pos())+" is reachable without unregisterConnection: links and monitors on the lost node are never notified")
	} else {
		r.OK(rule, "C14.X1|serve|normal-exit", fname(serve), p.Pos(serve.Pos()), "the connection's serve goroutine unregisters the connection on every exit", "every path from entry to return calls unregisterConnection")
	}
	// serve is started for both roles
	starts := 0
	for _, f := range funcsOfPkgs(p, "node") {
		eachInstr(f, func(in ssa.Instruction) {
			if g, ok := in.(*ssa.Go); ok && staticCallee(g.Common()) == serve {
				starts++
			}
		})
	}
	if starts >= 2 {
		r.OK(rule, "C14.X1|serve|started", fname(serve), p.Pos(serve.Pos()), "serve is started for dialled and for accepted connections", fmt.Sprintf("%d go statements", starts))
	} else {
		r.Bad(rule, "C14.X1|serve|started", fname(serve), p.Pos(serve.Pos()), "serve is started for dialled and for accepted connections", fmt.Sprintf("only %d go statement(s) start it", starts))
	}
	// recover path
	recOK := false
	for _, cl := range serve.AnonFuncs {
		hasRec := false
		eachInstr(cl, func(in ssa.Instruction) {
			if cc := callCommon(in); cc != nil {
				if b, ok := cc.Value.(*ssa.Builtin); ok && b.Name() == "recover" {
					hasRec = true
				}
			}
		})
		if !hasRec {
			continue
		}
		// on the recovered (non-nil) edge every path calls unregisterConnection
		var starts []Point
		eachInstr(cl, func(in ssa.Instruction) {
			if c, ok := in.(*ssa.Call); ok {
				if b, ok := c.Common().Value.(*ssa.Builtin); ok && b.Name() == "recover" {
					_, nn, _ := nilEdges(c)
					for _, e := range nn {
						starts = append(starts, Point{e.To(), 0})
					}
				}
			}
		})
		if len(starts) > 0 && reaches(starts, isUnreg, isReturn) == nil {
			recOK = true
		}
	}
	if recOK {
		r.OK(rule, "C14.X1|serve|panic-exit", fname(serve), p.Pos(serve.Pos()), "a panic in the protocol's serve loop still unregisters the connection", "recover handler calls unregisterConnection on the recovered edge")
	} else {
		r.Bad(rule, "C14.X1|serve|panic-exit", fname(serve), p.Pos(serve.Pos()), "a panic in the protocol's serve loop still unregisters the connection", "no recover handler that calls unregisterConnection")
	}
	// unregisterConnection -> Delete + RouteNodeDown
	isDown := func(in ssa.Instruction) bool {
		cc := callCommon(in)
		return cc != nil && staticCallee(cc) == down
	}
	if bad := pathsMiss(unreg, isDown); bad != nil {
		r.Bad(rule, "C14.X1|unregisterConnection|node-down", fname(unreg), p.Pos(bad.Pos()), "unregisterConnection reaches RouteNodeDown on every path", "return at "+p.Pos(bad.Pos())+" without RouteNodeDown")
	} else {
		r.OK(rule, "C14.X1|unregisterConnection|node-down", fname(unreg), p.Pos(unreg.Pos()), "unregisterConnection reaches RouteNodeDown on every path", "all paths")
	}
	isDel := func(in ssa.Instruction) bool {
		cc := callCommon(in)
		if cc == nil {
			return false
		}
		sf := staticCallee(cc)
		if sf == nil || sf.Pkg == nil || sf.Pkg.Pkg.Path() != "sync" || sf.Name() != "Delete" {
			return false
		}
		_, path, _ := fieldPath(cc.Args[0])
		return len(path) > 0 && path[len(path)-1] == "connections"
	}
	if bad := pathsMiss(unreg, isDel); bad != nil {
		r.Bad(rule, "C14.X1|unregisterConnection|delete", fname(unreg), p.Pos(bad.Pos()), "unregisterConnection removes the connection from the table", "return without connections.Delete: later sends use a dead connection instead of failing/redialling")
	} else {
		r.OK(rule, "C14.X1|unregisterConnection|delete", fname(unreg), p.Pos(unreg.Pos()), "unregisterConnection removes the connection from the table", "all paths")
	}
	// RouteNodeDown: drains with CleanupNode
	var cleanup ssa.Instruction
	eachInstr(down, func(in ssa.Instruction) {
		if callsNamed(in, "CleanupNode") {
			cleanup = in
		}
	})
	if cleanup == nil || !instrDominatesAllReturns(cleanup, down) {
		r.Bad(rule, "C14.X1|RouteNodeDown|drain", fname(down), p.Pos(down.Pos()), "RouteNodeDown drains the relations of the lost node with CleanupNode", "CleanupNode is not called on every path")
	} else {
		r.OK(rule, "C14.X1|RouteNodeDown|drain", fname(down), p.Pos(cleanup.Pos()), "RouteNodeDown drains the relations of the lost node with CleanupNode", "dominates every return")
	}
	// message literals carry ErrNoConnection
	lits := 0
	var badLits []string
	eachInstr(down, func(in ssa.Instruction) {
		al, ok := in.(*ssa.Alloc)
		if !ok {
			return
		}
		pt, ok := al.Type().(*types.Pointer)
		if !ok {
			return
		}
		n, ok := pt.Elem().(*types.Named)
		if !ok || !(strings.HasPrefix(n.Obj().Name(), "MessageExit") || strings.HasPrefix(n.Obj().Name(), "MessageDown")) {
			return
		}
		st, _ := n.Underlying().(*types.Struct)
		hasReason := false
		for i := 0; i < st.NumFields(); i++ {
			if st.Field(i).Name() == "Reason" {
				hasReason = true
			}
		}
		if !hasReason {
			return
		}
		lits++
		ok2 := false
		for _, rf := range *al.Referrers() {
			if fa, ok := rf.(*ssa.FieldAddr); ok {
				if _, fl := fieldOwner(fa); fl == "Reason" {
					for _, rr := range *fa.Referrers() {
						if s, ok := rr.(*ssa.Store); ok && reasonOrigin(s.Val, 0) == "global:ErrNoConnection" {
							ok2 = true
						}
					}
				}
			}
		}
		if !ok2 {
			badLits = append(badLits, n.Obj().Name()+" at "+p.Pos(al.Pos()))
		}
	})
	if len(badLits) > 0 || lits < 8 {
		r.Bad(rule, "C14.X1|RouteNodeDown|reason", fname(down), p.Pos(down.Pos()), "every exit/down message built on node down carries ErrNoConnection", fmt.Sprintf("%d literal(s) with a Reason field; without ErrNoConnection: %s", lits, strings.Join(badLits, ", ")))
	} else {
		r.OK(rule, "C14.X1|RouteNodeDown|reason", fname(down), p.Pos(down.Pos()), "every exit/down message built on node down carries ErrNoConnection", fmt.Sprintf("%d literals", lits))
	}
	// one send per consumer: each range loop over the consumer lists contains exactly one send call
	sends := 0
	highPrio := false
	eachInstr(down, func(in ssa.Instruction) {
		cc := callCommon(in)
		if cc == nil {
			return
		}
		sf := staticCallee(cc)
		if sf == nil {
			return
		}
		if sf.Name() == "sendExitMessage" || sf.Name() == "RouteSendPID" {
			sends++
		}
	})
	// monitor notifications use High priority: a store of MessagePriorityHigh into a MessageOptions local
	eachInstr(down, func(in ssa.Instruction) {
		if st, ok := in.(*ssa.Store); ok {
			if own, fl := fieldOwner(st.Addr); own != nil && own.Obj().Name() == "MessageOptions" && fl == "Priority" {
				if c, ok := constInt(st.Val); ok {
					for v, n := range enumConsts(p.Named("gen", "MessagePriority")) {
						if n == "MessagePriorityHigh" && v == c {
							highPrio = true
						}
					}
				}
			}
		}
	})
	// each send addresses an element of the consumer list exactly as CleanupNode returned it for
	// that target (the map value of the range over CleanupNode's result, not a sub-slice or another list)
	wholeList := 0
	eachInstr(down, func(in ssa.Instruction) {
		cc := callCommon(in)
		if cc == nil {
			return
		}
		sf := staticCallee(cc)
		if sf == nil || (sf.Name() != "sendExitMessage" && sf.Name() != "RouteSendPID") || len(cc.Args) < 3 {
			return
		}
		to := resolveLocalCopy(cc.Args[2])
		ld, ok := to.(*ssa.UnOp)
		if !ok || ld.Op != token.MUL {
			return
		}
		ia, ok := ld.X.(*ssa.IndexAddr)
		if !ok {
			return
		}
		ex, ok := ia.X.(*ssa.Extract)
		if !ok || ex.Index != 2 {
			return
		}
		nx, ok := ex.Tuple.(*ssa.Next)
		if !ok {
			return
		}
		rg, ok := nx.Iter.(*ssa.Range)
		if !ok {
			return
		}
		if src, ok := rg.X.(*ssa.Extract); ok {
			if c, okc := src.Tuple.(*ssa.Call); okc && callsNamed(c, "CleanupNode") {
				wholeList++
			}
		}
	})
	if sends == 2 && highPrio && wholeList != 2 {
		r.Bad(rule, "C14.X1|RouteNodeDown|fan-out", fname(down), p.Pos(down.Pos()), "one exit per link consumer, one High-priority down per monitor consumer", fmt.Sprintf("only %d of the 2 send loops walk the whole consumer list CleanupNode returned for the target: some consumers are never told that the node is down", wholeList))
	} else if sends == 2 && highPrio {
		r.OK(rule, "C14.X1|RouteNodeDown|fan-out", fname(down), p.Pos(down.Pos()), "one exit per link consumer, one High-priority down per monitor consumer", "2 send sites (one per loop), options.Priority = High")
	} else {
		r.Bad(rule, "C14.X1|RouteNodeDown|fan-out", fname(down), p.Pos(down.Pos()), "one exit per link consumer, one High-priority down per monitor consumer", fmt.Sprintf("send sites: %d (expected 2), High priority set: %v", sends, highPrio))
	}
}

func instrDominatesAllReturns(a ssa.Instruction, f *ssa.Function) bool {
	ok := true
	eachInstr(f, func(in ssa.Instruction) {
		if isReturn(in) && !instrDominates(a, in) {
			ok = false
		}
	})
	return ok
}

// c14Kinds: X3
func c14Kinds(p *load.Program, r *core.Report) {
	rule := "C14.X3 exhaustive-target-kinds"
	r.Floor(rule, 3)
	kinds := map[string]bool{}
	for _, f := range p.SrcFuncs {
		eachInstr(f, func(in ssa.Instruction) {
			cc := callCommon(in)
			if cc == nil || !(callsNamed(in, "AddLink") || callsNamed(in, "AddMonitor")) {
				return
			}
			args := cc.Args
			if !cc.IsInvoke() {
				args = args[1:]
			}
			if len(args) < 2 {
				return
			}
			if mi, ok := args[1].(*ssa.MakeInterface); ok {
				kinds[namedOf(mi.X.Type())] = true
			}
		})
	}
	var ks []string
	for k := range kinds {
		if k != "" {
			ks = append(ks, k)
		}
	}
	sort.Strings(ks)
	if len(ks) < 4 {
		r.Unk(rule, "C14.X3|kinds", "", "", "static target types of AddLink/AddMonitor", "found only "+strings.Join(ks, ","))
		return
	}
	check := func(f *ssa.Function, what string) {
		if f == nil {
			return
		}
		// group type asserts by asserted operand (one type switch = one operand)
		byOp := map[ssa.Value]map[string]bool{}
		eachInstr(f, func(in ssa.Instruction) {
			ta, ok := in.(*ssa.TypeAssert)
			if !ok || !ta.CommaOk {
				return
			}
			if byOp[ta.X] == nil {
				byOp[ta.X] = map[string]bool{}
			}
			byOp[ta.X][namedOf(ta.AssertedType)] = true
		})
		i := 0
		var ops []ssa.Value
		for op := range byOp {
			ops = append(ops, op)
		}
		sort.Slice(ops, func(a, b int) bool { return ops[a].Pos() < ops[b].Pos() })
		for _, op := range ops {
			set := byOp[op]
			hits := 0
			for _, k := range ks {
				if set[k] {
					hits++
				}
			}
			if hits < 3 {
				continue // not a target-kind switch
			}
			i++
			key := fmt.Sprintf("C14.X3|%s|switch#%d", fname(f), i)
			var missing []string
			for _, k := range ks {
				if !set[k] {
					missing = append(missing, k)
				}
			}
			inst := what + ": the type switch over the target covers every target type that can be linked or monitored (" + strings.Join(ks, ", ") + ")"
			if len(missing) > 0 {
				r.Bad(rule, key, fname(f), p.Pos(op.Pos()), inst, "no arm for "+strings.Join(missing, ", ")+": relations on such targets are dropped silently")
			} else {
				r.OK(rule, key, fname(f), p.Pos(op.Pos()), inst, "all kinds covered")
			}
		}
	}
	for _, f := range p.SrcFuncs {
		if f.Parent() != nil {
			continue
		}
		switch f.Name() {
		case "RouteNodeDown":
			check(f, "node-down fan-out")
		case "CleanupNode":
			check(f, "relation drain on node down")
		}
	}
}

// c14Timers: X4
func c14Timers(p *load.Program, r *core.Report) {
	rule := "C14.X4 waits-have-timeouts"
	r.Floor(rule, 2)
	for _, f := range funcsOfPkgs(p, "net/proto", "node") {
		eachInstr(f, func(in ssa.Instruction) {
			sel, ok := in.(*ssa.Select)
			if !ok || !sel.Blocking {
				return
			}
			// does it receive a result/response?
			isWait := false
			hasTimer := false
			for _, st := range sel.States {
				if st.Dir != types.RecvOnly {
					continue
				}
				ch := st.Chan
				et := ch.Type().Underlying().(*types.Chan).Elem()
				if n, ok := et.(*types.Named); ok {
					switch n.Obj().Name() {
					case "MessageResult", "response":
						isWait = true
					case "Time":
						_, path, _ := fieldPath(ch)
						if len(path) > 0 && path[len(path)-1] == "C" {
							hasTimer = true
						}
					}
				}
			}
			if !isWait {
				return
			}
			key := "C14.X4|" + fname(f)
			inst := "the wait for a remote result/response is a select with a timer case"
			// a pooled timer (lib.TakeTimer) comes back stopped: it must be re-armed on every path to the select
			armed := true
			var timerVal ssa.Value
			for _, st := range sel.States {
				if base, path, okp := fieldPath(st.Chan); okp && len(path) > 0 && path[len(path)-1] == "C" {
					timerVal = base
				}
			}
			if hasTimer && timerVal != nil {
				if c, okc := timerVal.(*ssa.Call); okc && callsNamed(c, "TakeTimer") {
					isReset := func(i2 ssa.Instruction) bool {
						cc := callCommon(i2)
						return cc != nil && callsNamed(i2, "Reset") && len(cc.Args) > 0 && cc.Args[0] == timerVal
					}
					if reaches([]Point{{c.Block(), indexIn(c) + 1}}, isReset, func(i2 ssa.Instruction) bool { return i2 == ssa.Instruction(sel) }) != nil {
						armed = false
					}
				}
			}
			if hasTimer && !armed {
				r.Bad(rule, key, fname(f), p.Pos(in.Pos()), inst, "the timer comes from the pool (stopped by its previous user) and a path reaches the select without Reset: the wait never times out")
			} else if hasTimer {
				r.OK(rule, key, fname(f), p.Pos(in.Pos()), inst, "timer case present; a pooled timer is re-armed on every path to the select")
			} else {
				r.Bad(rule, key, fname(f), p.Pos(in.Pos()), inst, "no timer case: a request in flight hangs forever when the connection is lost")
			}
		})
		// bare receives on result channels
		eachInstr(f, func(in ssa.Instruction) {
			u, ok := in.(*ssa.UnOp)
			if !ok || u.Op != token.ARROW {
				return
			}
			et := u.X.Type().Underlying().(*types.Chan).Elem()
			if n, ok := et.(*types.Named); ok && (n.Obj().Name() == "MessageResult" || n.Obj().Name() == "response") {
				r.Bad(rule, "C14.X4|"+fname(f)+"|bare-receive", fname(f), p.Pos(in.Pos()), "no unbounded receive on a result channel", "bare receive without timeout")
			}
		})
	}
}

// c14PoolTermination: X6 — every link of a connection is closed when the connection terminates.
// Terminate closes the links that are in the pool; a link may be added concurrently (Join). The
// two are ordered by the pool lock: Terminate sets the terminated flag while it holds the lock,
// and Join tests the flag and appends to the pool inside one critical section of the same lock
// (a test made before the lock lets a link slip into the pool after it was emptied: that link stays
// open, and the peer never learns that this node stopped).
func c14PoolTermination(p *load.Program, r *core.Report) {
	rule := "C14.X6 pool-closed-on-termination"
	r.Floor(rule, 4)
	isLockOp := func(in ssa.Instruction, name string) bool {
		cc := callCommon(in)
		if cc == nil {
			return false
		}
		sf := staticCallee(cc)
		if sf == nil || sf.Name() != name || sf.Pkg == nil || sf.Pkg.Pkg.Path() != "sync" || len(cc.Args) == 0 {
			return false
		}
		_, path, ok := fieldPath(cc.Args[0])
		return ok && len(path) > 0 && path[len(path)-1] == "pool_mutex"
	}
	// inLock: every path from the entry to `at` passes Lock and no Unlock afterwards
	inLock := func(f *ssa.Function, at ssa.Instruction) bool {
		isAt := func(in ssa.Instruction) bool { return in == at }
		if reaches([]Point{{f.Blocks[0], 0}}, func(in ssa.Instruction) bool { return isLockOp(in, "Lock") }, isAt) != nil {
			return false
		}
		var unlocks []Point
		eachInstr(f, func(in ssa.Instruction) {
			if isLockOp(in, "Unlock") {
				if _, isDefer := in.(*ssa.Defer); !isDefer {
					unlocks = append(unlocks, after(in))
				}
			}
		})
		return reaches(unlocks, func(in ssa.Instruction) bool { return isLockOp(in, "Lock") }, isAt) == nil
	}
	term := p.Func("net/proto", "connection", "Terminate")
	join := p.Func("net/proto", "connection", "Join")
	if term == nil || join == nil {
		r.Unk(rule, "C14.X6|anchors", "", "", "Terminate and Join found", fmt.Sprintf("Terminate=%v Join=%v", term != nil, join != nil))
		return
	}
	// Terminate: flag stored under the lock; every pool element closed
	{
		key := "C14.X6|Terminate"
		inst := "Terminate sets the terminated flag while it holds the pool lock and closes every link in the pool"
		var st ssa.Instruction
		closes := false
		eachInstr(term, func(in ssa.Instruction) {
			if s2, ok := in.(*ssa.Store); ok {
				if _, fl := fieldOwner(s2.Addr); fl == "terminated" {
					if b, okb := constBool(s2.Val); okb && b {
						st = in
					}
				}
			}
			if cc := callCommon(in); cc != nil && cc.IsInvoke() && cc.Method.Name() == "Close" {
				if ok, _ := loopExitsOnlyAtHeader(in); ok {
					closes = true
				}
			}
		})
		switch {
		case st == nil:
			r.Bad(rule, key, fname(term), p.Pos(term.Pos()), inst, "the flag is not set")
		case !inLock(term, st):
			r.Bad(rule, key, fname(term), p.Pos(st.Pos()), inst, "the flag is set outside the pool lock: a concurrent Join can test it, then add its link to the pool after the pool was closed")
		case !closes:
			r.Bad(rule, key, fname(term), p.Pos(term.Pos()), inst, "not every link of the pool is closed")
		default:
			r.OK(rule, key, fname(term), p.Pos(st.Pos()), inst, "flag stored inside the critical section; Close in a loop over the pool left only by exhaustion")
		}
	}
	// Join: flag tested and pool extended in one critical section
	{
		key := "C14.X6|Join"
		inst := "Join tests the terminated flag and appends the link to the pool inside one critical section of the pool lock"
		var test, app ssa.Instruction
		eachInstr(join, func(in ssa.Instruction) {
			if ld, ok := in.(*ssa.UnOp); ok && ld.Op == token.MUL {
				if _, path, okp := fieldPath(ld); okp && len(path) > 0 && path[len(path)-1] == "terminated" && test == nil {
					_, fls, _ := boolEdges(ld)
					if len(fls) > 0 {
						test = in
					}
				}
			}
			if s2, ok := in.(*ssa.Store); ok {
				if _, fl := fieldOwner(s2.Addr); fl == "pool" {
					app = in
				}
			}
		})
		switch {
		case test == nil || app == nil:
			r.Bad(rule, key, fname(join), p.Pos(join.Pos()), inst, fmt.Sprintf("flag test found: %v, pool append found: %v", test != nil, app != nil))
		case !inLock(join, test) || !inLock(join, app):
			r.Bad(rule, key, fname(join), p.Pos(test.Pos()), inst, "the flag is tested outside the pool lock (or the pool is extended outside it): the link can be added after Terminate has closed the pool and stays open")
		default:
			// same critical section: no Unlock on any path from the test to the append
			if reaches([]Point{after(test)}, func(in ssa.Instruction) bool { return in == app }, func(in ssa.Instruction) bool { return isLockOp(in, "Unlock") && instrReachable(in, app) }) != nil {
				r.Bad(rule, key, fname(join), p.Pos(test.Pos()), inst, "the lock is released between the test and the append")
			} else {
				r.OK(rule, key, fname(join), p.Pos(test.Pos()), inst, "test and append inside one critical section")
			}
		}
	}
	// the re-dial loop gives up: a peer that dropped the connection but keeps running accepts every
	// re-dialled link at the handshake level and closes it at once; without a bound the link goroutine
	// re-dials forever, the connection's wait group never drains and the node-down never happens
	{
		key := "C14.X6|Join|redial-bounded"
		inst := "the re-dial of a pool link is conditioned on progress: a link that keeps being closed before it received a frame is given up after a bounded number of attempts"
		var cl *ssa.Function
		for _, g := range family(join) {
			if g == join {
				continue
			}
			has := false
			eachInstr(g, func(in ssa.Instruction) {
				if callsNamed(in, "serve") {
					has = true
				}
			})
			if has {
				cl = g
			}
		}
		if cl == nil {
			r.Unk(rule, key, fname(join), p.Pos(join.Pos()), inst, "the link goroutine (the closure calling serve) was not found")
		} else {
			var serveCall *ssa.Call
			var dials []ssa.Instruction
			eachInstr(cl, func(in ssa.Instruction) {
				c, ok := in.(*ssa.Call)
				if !ok {
					return
				}
				if callsNamed(in, "serve") {
					serveCall = c
				}
				// the dial function is a captured parameter: a dynamic call of a value of type gen.NetworkDial
				if !c.Common().IsInvoke() && staticCallee(c.Common()) == nil && strings.HasSuffix(c.Common().Value.Type().String(), "gen.NetworkDial") {
					dials = append(dials, in)
				}
			})
			used := serveCall != nil && serveCall.Referrers() != nil && len(*serveCall.Referrers()) > 0
			bounded := len(dials) > 0
			for _, d := range dials {
				ok := false
				eachInstr(cl, func(in ssa.Instruction) {
					b, isB := in.(*ssa.BinOp)
					if !isB {
						return
					}
					switch b.Op {
					case token.LSS, token.LEQ, token.GTR, token.GEQ:
					default:
						return
					}
					_, cx := constInt(b.X)
					_, cy := constInt(b.Y)
					if cx == cy {
						return
					}
					t, fl, _ := boolEdges(b)
					if (len(t) > 0 && edgesDominate(t, d)) || (len(fl) > 0 && edgesDominate(fl, d)) {
						ok = true
					}
				})
				if !ok {
					bounded = false
				}
			}
			switch {
			case len(dials) == 0:
				r.OK(rule, key, fname(cl), p.Pos(cl.Pos()), inst, "no re-dial in the link goroutine")
			case !used:
				r.Bad(rule, key, fname(cl), p.Pos(cl.Pos()), inst, "the link goroutine does not look at what serve achieved: it cannot tell a link that worked from one the peer closes at once")
			case !bounded:
				r.Bad(rule, key, fname(cl), p.Pos(dials[0].Pos()), inst, "the re-dial is not behind a bound: when the peer has dropped the connection but keeps running, every re-dialled link is accepted and closed at once, the goroutine re-dials forever and this node never reports the peer as down")
			default:
				r.OK(rule, key, fname(cl), p.Pos(dials[0].Pos()), inst, "serve's result is used and the re-dial is dominated by a comparison with a constant bound")
			}
		}
	}
	// the dialer closes a link that was refused by Join
	{
		key := "C14.X6|Serve|refused-link-closed"
		inst := "a freshly dialled link that Join refuses is closed by the dialer"
		serve := p.Func("net/proto", "enp", "Serve")
		if serve == nil {
			r.Unk(rule, key, "", "", inst, "(*enp).Serve not found")
		} else {
			ok := false
			eachInstr(serve, func(in ssa.Instruction) {
				c, isC := in.(*ssa.Call)
				if !isC || !callsNamed(in, "Join") {
					return
				}
				_, nonNil, _ := nilEdges(c)
				var st []Point
				for _, e := range nonNil {
					st = append(st, Point{e.To(), 0})
				}
				if len(st) > 0 && len(walkAvoid(st, nil, func(i2 ssa.Instruction) bool {
					cc := callCommon(i2)
					return cc != nil && cc.IsInvoke() && cc.Method.Name() == "Close"
				})) > 0 {
					ok = true
				}
			})
			if ok {
				r.OK(rule, key, fname(serve), p.Pos(serve.Pos()), inst, "Close on the error edge of Join")
			} else {
				r.Bad(rule, key, fname(serve), p.Pos(serve.Pos()), inst, "the refused link is left open")
			}
		}
	}
}

// c14ResultChannels: X5 — a reply handed over with a non-blocking send must find room even when the
// requester has not reached its wait yet: every channel of a type that is the target of a
// non-blocking send (select with a default arm) is created with a capacity of at least 1.
func c14ResultChannels(p *load.Program, r *core.Report) {
	rule := "C14.X5 reply-not-lost-before-the-wait"
	r.Floor(rule, 2)
	// element types that are sent to without blocking
	type site struct {
		pos string
		fn  string
	}
	nb := map[string]site{}
	for _, f := range funcsOfPkgs(p, "net/proto", "node") {
		eachInstr(f, func(in ssa.Instruction) {
			sel, ok := in.(*ssa.Select)
			if !ok || sel.Blocking {
				return
			}
			for _, st := range sel.States {
				if st.Dir != types.SendOnly {
					continue
				}
				et := st.Chan.Type().Underlying().(*types.Chan).Elem()
				if n, ok := et.(*types.Named); ok && (n.Obj().Name() == "MessageResult" || n.Obj().Name() == "response") {
					nb[n.Obj().Pkg().Path()+"."+n.Obj().Name()] = site{p.Pos(in.Pos()), fname(f)}
				}
			}
		})
	}
	for tn, snd := range nb {
		n, bad := 0, []string{}
		for _, f := range funcsOfPkgs(p, "net/proto", "node") {
			eachInstr(f, func(in ssa.Instruction) {
				mk, ok := in.(*ssa.MakeChan)
				if !ok {
					return
				}
				et := mk.Type().Underlying().(*types.Chan).Elem()
				nn, ok := et.(*types.Named)
				if !ok || nn.Obj().Pkg().Path()+"."+nn.Obj().Name() != tn {
					return
				}
				n++
				if c, okc := constInt(mk.Size); !okc || c < 1 {
					bad = append(bad, fname(f)+" at "+p.Pos(mk.Pos()))
				}
			})
		}
		short := tn[strings.LastIndex(tn, "/")+1:]
		key := "C14.X5|" + short
		inst := "channels of " + short + " (filled by the non-blocking send in " + snd.fn + ") are buffered"
		switch {
		case n == 0:
			r.Unk(rule, key, "", "", inst, "no make site found")
		case len(bad) > 0:
			r.Bad(rule, key, snd.fn, snd.pos, inst, fmt.Sprintf("%d of %d channels are unbuffered (%s): a reply that arrives after the request was written but before the requester blocks in its wait is dropped, and the request times out although the peer executed it", len(bad), n, strings.Join(bad, ", ")))
		default:
			r.OK(rule, key, snd.fn, snd.pos, inst, fmt.Sprintf("%d make site(s), all with capacity >= 1", n))
		}
	}
}

var _ = load.Module
