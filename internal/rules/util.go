package rules

import (
	"fmt"
	"go/constant"
	"go/token"
	"go/types"
	"sort"
	"strings"

	"golang.org/x/tools/go/ssa"

	"verif/internal/core"
	"verif/internal/load"
)

// Set is the rule set of one property.
type Set struct {
	Explanation string
	NotDecided  []string
	Assumptions []string
	Run         func(p *load.Program, r *core.Report)
}

var Registry = map[string]Set{}

// ---------------------------------------------------------------------------------
// naming

func fname(f *ssa.Function) string {
	if f == nil {
		return "?"
	}
	s := f.String()
	return strings.ReplaceAll(s, load.Module+"/", "")
}

func inModule(f *ssa.Function) bool {
	for f != nil && f.Parent() != nil {
		f = f.Parent()
	}
	if f == nil || f.Pkg == nil {
		if f != nil && f.Origin() != nil && f.Origin().Pkg != nil {
			pp := f.Origin().Pkg.Pkg.Path()
			return pp == load.Module || strings.HasPrefix(pp, load.Module+"/")
		}
		return false
	}
	pp := f.Pkg.Pkg.Path()
	return pp == load.Module || strings.HasPrefix(pp, load.Module+"/")
}

func pkgSuffix(f *ssa.Function) string {
	for f != nil && f.Parent() != nil {
		f = f.Parent()
	}
	if f == nil || f.Pkg == nil {
		return ""
	}
	return strings.TrimPrefix(strings.TrimPrefix(f.Pkg.Pkg.Path(), load.Module), "/")
}

// root returns the outermost enclosing declared function.
func root(f *ssa.Function) *ssa.Function {
	for f.Parent() != nil {
		f = f.Parent()
	}
	return f
}

// ---------------------------------------------------------------------------------
// calls

// callCommon returns the CallCommon of an instruction that calls (Call, Go, Defer).
func callCommon(i ssa.Instruction) *ssa.CallCommon {
	if c, ok := i.(ssa.CallInstruction); ok {
		return c.Common()
	}
	return nil
}

// staticCallee resolves direct calls and calls of closures created in place.
func staticCallee(cc *ssa.CallCommon) *ssa.Function {
	if cc == nil {
		return nil
	}
	if f := cc.StaticCallee(); f != nil {
		return f
	}
	return nil
}

// isPkgFunc reports whether the call is a static call of pkgpath.name (package-level function).
func isPkgFunc(cc *ssa.CallCommon, pkgpath, name string) bool {
	f := staticCallee(cc)
	if f == nil || f.Pkg == nil || f.Signature.Recv() != nil {
		return false
	}
	return f.Pkg.Pkg.Path() == pkgpath && f.Name() == name
}

// methodOf reports the (receiver named type, method name) of a call, static or invoke.
func methodOf(cc *ssa.CallCommon) (recv *types.Named, name string) {
	if cc == nil {
		return nil, ""
	}
	if cc.IsInvoke() {
		t := cc.Value.Type()
		if n, ok := t.(*types.Named); ok {
			return n, cc.Method.Name()
		}
		return nil, cc.Method.Name()
	}
	f := staticCallee(cc)
	if f == nil || f.Signature.Recv() == nil {
		return nil, ""
	}
	t := f.Signature.Recv().Type()
	if p, ok := t.(*types.Pointer); ok {
		t = p.Elem()
	}
	n, _ := t.(*types.Named)
	return n, f.Name()
}

func namedIs(n *types.Named, pkgSuffix, name string) bool {
	if n == nil || n.Obj() == nil || n.Obj().Pkg() == nil {
		return false
	}
	return n.Obj().Name() == name && n.Obj().Pkg().Path() == load.Module+"/"+pkgSuffix
}

// isMethod reports whether the call is (static or invoke) of pkg.Type.name.
func isMethod(cc *ssa.CallCommon, pkgSuffix, typ, name string) bool {
	n, m := methodOf(cc)
	return m == name && namedIs(n, pkgSuffix, typ)
}

// recvValue returns the receiver value of a method call (invoke value or first argument).
func recvValue(cc *ssa.CallCommon) ssa.Value {
	if cc.IsInvoke() {
		return cc.Value
	}
	if f := staticCallee(cc); f != nil && f.Signature.Recv() != nil && len(cc.Args) > 0 {
		return cc.Args[0]
	}
	return nil
}

func isAtomic(cc *ssa.CallCommon, names ...string) bool {
	f := staticCallee(cc)
	if f == nil || f.Pkg == nil || f.Pkg.Pkg.Path() != "sync/atomic" {
		return false
	}
	for _, n := range names {
		if f.Name() == n {
			return true
		}
	}
	return len(names) == 0
}

// ---------------------------------------------------------------------------------
// values

// strip removes conversions / ChangeType / ChangeInterface wrappers.
func strip(v ssa.Value) ssa.Value {
	for {
		switch x := v.(type) {
		case *ssa.ChangeType:
			v = x.X
		case *ssa.Convert:
			v = x.X
		case *ssa.ChangeInterface:
			v = x.X
		case *ssa.MakeInterface:
			v = x.X
		default:
			return v
		}
	}
}

// loadThrough: a local captured by closures appears as an Alloc (or a FreeVar in the
// closure) with stores; if the cell has exactly one store in the whole function family,
// reads of it are reads of the stored value.
func singleStore(cell ssa.Value) ssa.Value {
	var refs *[]ssa.Instruction
	switch c := cell.(type) {
	case *ssa.Alloc:
		refs = c.Referrers()
	default:
		return nil
	}
	var stored ssa.Value
	n := 0
	for _, r := range *refs {
		if s, ok := r.(*ssa.Store); ok && s.Addr == cell {
			stored = s.Val
			n++
		}
	}
	if n == 1 {
		return stored
	}
	return nil
}

// resolveFreeVar maps a FreeVar of a closure to the value bound in the MakeClosure
// of its parent (if there is exactly one MakeClosure for it).
func resolveFreeVar(fv *ssa.FreeVar) ssa.Value {
	fn := fv.Parent()
	par := fn.Parent()
	if par == nil {
		return nil
	}
	idx := -1
	for i, f := range fn.FreeVars {
		if f == fv {
			idx = i
		}
	}
	if idx < 0 {
		return nil
	}
	var found ssa.Value
	n := 0
	for _, b := range par.Blocks {
		for _, in := range b.Instrs {
			if mc, ok := in.(*ssa.MakeClosure); ok && mc.Fn == fn {
				found = mc.Bindings[idx]
				n++
			}
		}
	}
	if n == 1 {
		return found
	}
	return nil
}

// canon follows loads of single-store cells and free variables to the underlying value,
// so that `p` inside a closure and `p` in the parent are the same canonical value.
func canon(v ssa.Value) ssa.Value {
	for i := 0; i < 32; i++ {
		switch x := v.(type) {
		case *ssa.UnOp:
			if x.Op == token.MUL {
				cell := canonCell(x.X)
				if s := singleStore(cell); s != nil {
					v = s
					continue
				}
			}
			return v
		case *ssa.FreeVar:
			if b := resolveFreeVar(x); b != nil {
				v = b
				continue
			}
			return v
		case *ssa.ChangeType:
			v = x.X
		case *ssa.TypeAssert:
			// p := value.(*process) keeps identity of the asserted object
			if !x.CommaOk {
				return v
			}
			return v
		default:
			return v
		}
	}
	return v
}

// canonCell resolves a cell address through free variables (address of a captured local).
func canonCell(v ssa.Value) ssa.Value {
	for i := 0; i < 32; i++ {
		if fv, ok := v.(*ssa.FreeVar); ok {
			if b := resolveFreeVar(fv); b != nil {
				v = b
				continue
			}
		}
		return v
	}
	return v
}

// fieldPath describes v (an address or a loaded value) as base + chain of field names,
// e.g. p.mailbox.Main -> (p, ["mailbox","Main"]). ok=false if v is not a field access.
func fieldPath(v ssa.Value) (base ssa.Value, path []string, ok bool) {
	for i := 0; i < 32; i++ {
		switch x := v.(type) {
		case *ssa.UnOp:
			if x.Op == token.MUL {
				// load
				if _, isAlloc := canonCell(x.X).(*ssa.Alloc); isAlloc {
					c := canon(x)
					if c == ssa.Value(x) {
						return v, path, len(path) > 0
					}
					v = c
					continue
				}
				v = x.X
				continue
			}
			return v, path, len(path) > 0
		case *ssa.FieldAddr:
			st := derefStruct(x.X.Type())
			if st == nil {
				return v, path, len(path) > 0
			}
			path = append([]string{st.Field(x.Field).Name()}, path...)
			v = x.X
		case *ssa.Field:
			st, _ := x.X.Type().Underlying().(*types.Struct)
			if st == nil {
				return v, path, len(path) > 0
			}
			path = append([]string{st.Field(x.Field).Name()}, path...)
			v = x.X
		case *ssa.FreeVar:
			if b := resolveFreeVar(x); b != nil {
				v = b
				continue
			}
			return v, path, len(path) > 0
		case *ssa.ChangeType:
			v = x.X
		default:
			return canon(v), path, len(path) > 0
		}
	}
	return v, path, len(path) > 0
}

func derefStruct(t types.Type) *types.Struct {
	if p, ok := t.Underlying().(*types.Pointer); ok {
		t = p.Elem()
	}
	st, _ := t.Underlying().(*types.Struct)
	return st
}

// fieldOwner returns the named struct type that a FieldAddr/Field selects from.
func fieldOwner(v ssa.Value) (*types.Named, string) {
	switch x := v.(type) {
	case *ssa.FieldAddr:
		t := x.X.Type()
		if p, ok := t.Underlying().(*types.Pointer); ok {
			t = p.Elem()
		}
		n, _ := t.(*types.Named)
		st := derefStruct(x.X.Type())
		if st == nil {
			return n, ""
		}
		return n, st.Field(x.Field).Name()
	case *ssa.Field:
		n, _ := x.X.Type().(*types.Named)
		st, _ := x.X.Type().Underlying().(*types.Struct)
		if st == nil {
			return n, ""
		}
		return n, st.Field(x.Field).Name()
	}
	return nil, ""
}

func constInt(v ssa.Value) (int64, bool) {
	v = strip(v)
	c, ok := v.(*ssa.Const)
	if !ok || c.Value == nil {
		return 0, false
	}
	if c.Value.Kind() != constant.Int {
		return 0, false
	}
	i, ok := constant.Int64Val(c.Value)
	return i, ok
}

// unspill resolves a load of a local cell (the result cell go/ssa introduces in functions with a
// defer, or any other local) to the value stored to it earlier in the same block, when there is one.
func unspill(v ssa.Value) ssa.Value {
	for k := 0; k < 4; k++ {
		u, ok := v.(*ssa.UnOp)
		if !ok || u.Op != token.MUL {
			return v
		}
		cell, ok := u.X.(*ssa.Alloc)
		if !ok || u.Block() == nil {
			return v
		}
		b := u.Block()
		found := false
		for i := indexIn(u) - 1; i >= 0; i-- {
			if st, ok := b.Instrs[i].(*ssa.Store); ok && st.Addr == ssa.Value(cell) {
				v = st.Val
				found = true
				break
			}
		}
		if !found {
			return v
		}
	}
	return v
}

func constBool(v ssa.Value) (bool, bool) {
	v = unspill(v)
	c, ok := v.(*ssa.Const)
	if !ok || c.Value == nil || c.Value.Kind() != constant.Bool {
		return false, false
	}
	return constant.BoolVal(c.Value), true
}

func isNilConst(v ssa.Value) bool {
	v = unspill(v)
	c, ok := v.(*ssa.Const)
	return ok && c.Value == nil
}

// enumConsts lists the constants of a named integer type declared in its package.
func enumConsts(n *types.Named) map[int64]string {
	m := map[int64]string{}
	if n == nil {
		return m
	}
	sc := n.Obj().Pkg().Scope()
	for _, name := range sc.Names() {
		c, ok := sc.Lookup(name).(*types.Const)
		if !ok || !types.Identical(c.Type(), n) {
			continue
		}
		if v, ok := constant.Int64Val(c.Val()); ok {
			if _, dup := m[v]; !dup {
				m[v] = name
			}
		}
	}
	return m
}

// ---------------------------------------------------------------------------------
// CFG

// Edge is a control-flow edge From -> From.Succs[Idx].
type Edge struct {
	From *ssa.BasicBlock
	Idx  int
}

func (e Edge) To() *ssa.BasicBlock { return e.From.Succs[e.Idx] }

// boolEdges finds the branches decided by boolean value v: edges taken when v is true / false.
// It follows ==/!= against boolean constants and negation. complete=false when v is also
// used in a way that is not understood as a branch (phi, stored, passed on).
func boolEdges(v ssa.Value) (tru, fls []Edge, complete bool) {
	complete = true
	refs := v.Referrers()
	if refs == nil {
		return nil, nil, false
	}
	for _, r := range *refs {
		switch x := r.(type) {
		case *ssa.If:
			tru = append(tru, Edge{x.Block(), 0})
			fls = append(fls, Edge{x.Block(), 1})
		case *ssa.BinOp:
			var other ssa.Value
			if x.X == v {
				other = x.Y
			} else {
				other = x.X
			}
			b, ok := constBool(other)
			if !ok || (x.Op != token.EQL && x.Op != token.NEQ) {
				complete = false
				continue
			}
			t2, f2, c2 := boolEdges(x)
			if !c2 {
				complete = false
			}
			same := (x.Op == token.EQL) == b
			if same {
				tru = append(tru, t2...)
				fls = append(fls, f2...)
			} else {
				tru = append(tru, f2...)
				fls = append(fls, t2...)
			}
		case *ssa.UnOp:
			if x.Op == token.NOT {
				t2, f2, c2 := boolEdges(x)
				if !c2 {
					complete = false
				}
				tru = append(tru, f2...)
				fls = append(fls, t2...)
			} else {
				complete = false
			}
		case *ssa.DebugRef:
		default:
			complete = false
		}
	}
	return
}

// tupleExtract returns the Extract of index i of a tuple-valued call.
func tupleExtract(v ssa.Value, i int) ssa.Value {
	refs := v.Referrers()
	if refs == nil {
		return nil
	}
	for _, r := range *refs {
		if e, ok := r.(*ssa.Extract); ok && e.Index == i {
			return e
		}
	}
	return nil
}

// Point is a position in a function: before instruction I of block B.
type Point struct {
	B *ssa.BasicBlock
	I int
}

func after(in ssa.Instruction) Point {
	b := in.Block()
	for i, x := range b.Instrs {
		if x == in {
			return Point{b, i + 1}
		}
	}
	return Point{b, len(b.Instrs)}
}

func indexIn(in ssa.Instruction) int {
	for i, x := range in.Block().Instrs {
		if x == in {
			return i
		}
	}
	return -1
}

// walkAvoid explores forward from the start points. stop(instr) == true ends that path
// (the instruction "satisfies"); visit is called for every instruction reached otherwise and
// may return true to record it as a hit. Returns the hits in deterministic order.
func walkAvoid(starts []Point, stop func(ssa.Instruction) bool, hit func(ssa.Instruction) bool) []ssa.Instruction {
	var hits []ssa.Instruction
	seenBlock := map[*ssa.BasicBlock]bool{}
	var work []Point
	work = append(work, starts...)
	for len(work) > 0 {
		p := work[len(work)-1]
		work = work[:len(work)-1]
		if p.I == 0 {
			if seenBlock[p.B] {
				continue
			}
			seenBlock[p.B] = true
		}
		stopped := false
		for i := p.I; i < len(p.B.Instrs); i++ {
			in := p.B.Instrs[i]
			if stop != nil && stop(in) {
				stopped = true
				break
			}
			if hit != nil && hit(in) {
				hits = append(hits, in)
			}
		}
		if stopped {
			continue
		}
		for _, s := range p.B.Succs {
			if !seenBlock[s] {
				work = append(work, Point{s, 0})
			}
		}
	}
	return hits
}

func isReturn(in ssa.Instruction) bool {
	_, ok := in.(*ssa.Return)
	return ok
}

// reachable reports whether `to` can be reached from the start points without passing stop.
func reaches(starts []Point, stop func(ssa.Instruction) bool, to func(ssa.Instruction) bool) ssa.Instruction {
	h := walkAvoid(starts, stop, to)
	if len(h) > 0 {
		return h[0]
	}
	return nil
}

// dominates (instruction level).
func instrDominates(a, b ssa.Instruction) bool {
	if a.Block() == b.Block() {
		return indexIn(a) < indexIn(b)
	}
	return a.Block().Dominates(b.Block())
}

// edgeDominates: every path from entry to instruction b passes through edge e.
// Decided by removing the edge and testing reachability of b from the entry.
func edgeDominates(e Edge, b ssa.Instruction) bool {
	fn := b.Parent()
	if len(fn.Blocks) == 0 {
		return false
	}
	seen := map[*ssa.BasicBlock]bool{}
	var work []*ssa.BasicBlock
	work = append(work, fn.Blocks[0])
	if fn.Recover != nil {
		work = append(work, fn.Recover)
	}
	for len(work) > 0 {
		x := work[len(work)-1]
		work = work[:len(work)-1]
		if seen[x] {
			continue
		}
		seen[x] = true
		for i, s := range x.Succs {
			if x == e.From && i == e.Idx {
				continue
			}
			work = append(work, s)
		}
	}
	return !seen[b.Block()]
}

// anyEdgeDominates: removing all edges in es makes b unreachable.
func edgesDominate(es []Edge, b ssa.Instruction) bool {
	fn := b.Parent()
	if len(fn.Blocks) == 0 || len(es) == 0 {
		return false
	}
	cut := map[Edge]bool{}
	for _, e := range es {
		cut[e] = true
	}
	seen := map[*ssa.BasicBlock]bool{}
	work := []*ssa.BasicBlock{fn.Blocks[0]}
	for len(work) > 0 {
		x := work[len(work)-1]
		work = work[:len(work)-1]
		if seen[x] {
			continue
		}
		seen[x] = true
		for i, s := range x.Succs {
			if cut[Edge{x, i}] {
				continue
			}
			work = append(work, s)
		}
	}
	return !seen[b.Block()]
}

// ---------------------------------------------------------------------------------
// enum value sets by branch refinement

type intSet map[int64]bool

func (s intSet) clone() intSet {
	c := intSet{}
	for k := range s {
		c[k] = true
	}
	return c
}

func (s intSet) String() string {
	var ks []int64
	for k := range s {
		ks = append(ks, k)
	}
	sort.Slice(ks, func(i, j int) bool { return ks[i] < ks[j] })
	var parts []string
	for _, k := range ks {
		parts = append(parts, fmt.Sprint(k))
	}
	return "{" + strings.Join(parts, ",") + "}"
}

func (s intSet) names(m map[int64]string) string {
	var ks []int64
	for k := range s {
		ks = append(ks, k)
	}
	sort.Slice(ks, func(i, j int) bool { return ks[i] < ks[j] })
	var parts []string
	for _, k := range ks {
		if n, ok := m[k]; ok {
			parts = append(parts, n)
		} else {
			parts = append(parts, fmt.Sprint(k))
		}
	}
	return "{" + strings.Join(parts, ",") + "}"
}

// other is the abstract "any value that is not a listed constant".
const otherVal = int64(-1 << 62)

// refineSets computes for every block the set of values v may have on entry, starting with
// universe at v's definition and refining along `v == c` / `v != c` branch edges
// (the shape Go switches lower to). Blocks not reachable from the definition are absent.
func refineSets(v ssa.Value, universe intSet) map[*ssa.BasicBlock]intSet {
	var defBlock *ssa.BasicBlock
	if in, ok := v.(ssa.Instruction); ok {
		defBlock = in.Block()
	} else if p, ok := v.(*ssa.Parameter); ok {
		defBlock = p.Parent().Blocks[0]
	} else {
		return nil
	}
	// comparisons of v
	type cmp struct {
		c   int64
		eql bool
	}
	cmps := map[ssa.Value]cmp{}
	// v and its value-preserving conversions (gen.MetaState(old), int32(state)) are one abstract value
	aliases := []ssa.Value{v}
	for i := 0; i < len(aliases) && i < 8; i++ {
		if refs := aliases[i].Referrers(); refs != nil {
			for _, r := range *refs {
				switch c := r.(type) {
				case *ssa.Convert:
					if isIntegerType(c.Type()) && isIntegerType(c.X.Type()) && intWidth(c.Type()) >= intWidth(c.X.Type()) {
						aliases = append(aliases, c)
					}
				case *ssa.ChangeType:
					aliases = append(aliases, c)
				}
			}
		}
	}
	for _, av := range aliases {
		refs := av.Referrers()
		if refs == nil {
			continue
		}
		for _, r := range *refs {
			if b, ok := r.(*ssa.BinOp); ok && (b.Op == token.EQL || b.Op == token.NEQ) {
				var o ssa.Value
				if b.X == av {
					o = b.Y
				} else {
					o = b.X
				}
				if c, ok := constInt(o); ok {
					cmps[b] = cmp{c, b.Op == token.EQL}
				}
			}
		}
	}
	out := map[*ssa.BasicBlock]intSet{} // set at block exit == set at entry (v is immutable) except via edges
	in := map[*ssa.BasicBlock]intSet{}
	in[defBlock] = universe.clone()
	work := []*ssa.BasicBlock{defBlock}
	for len(work) > 0 {
		b := work[len(work)-1]
		work = work[:len(work)-1]
		cur := in[b]
		out[b] = cur
		var ifc *ssa.If
		if len(b.Instrs) > 0 {
			ifc, _ = b.Instrs[len(b.Instrs)-1].(*ssa.If)
		}
		for i, s := range b.Succs {
			es := cur
			if ifc != nil {
				if c, ok := cmps[ifc.Cond]; ok {
					es = intSet{}
					takenWhenEq := (i == 0) == c.eql
					for k := range cur {
						if takenWhenEq {
							if k == c.c {
								es[k] = true
							}
						} else if k != c.c {
							es[k] = true
						}
					}
				}
			}
			if s == defBlock {
				continue
			}
			old, had := in[s]
			changed := false
			if !had {
				in[s] = es.clone()
				changed = true
			} else {
				for k := range es {
					if !old[k] {
						old[k] = true
						changed = true
					}
				}
			}
			if changed {
				work = append(work, s)
			}
		}
	}
	return in
}

// funcsOfPkgs returns the source functions of the given module package suffixes.
func funcsOfPkgs(p *load.Program, suffixes ...string) []*ssa.Function {
	var out []*ssa.Function
	for _, f := range p.SrcFuncs {
		s := pkgSuffix(f)
		for _, x := range suffixes {
			if s == x {
				out = append(out, f)
				break
			}
		}
	}
	return out
}

func eachInstr(f *ssa.Function, fn func(ssa.Instruction)) {
	for _, b := range f.Blocks {
		for _, in := range b.Instrs {
			fn(in)
		}
	}
}

// family returns f and all functions nested in it (closures), depth-first.
func family(f *ssa.Function) []*ssa.Function {
	out := []*ssa.Function{f}
	for _, a := range f.AnonFuncs {
		out = append(out, family(a)...)
	}
	return out
}

// paramOfType returns the n-th (0-based) non-receiver parameter whose type is the named type
// pkg.name ("gen.PID"), or whose type string equals name for unnamed types ("error").
func paramOfType(f *ssa.Function, name string, n int) *ssa.Parameter {
	ps := f.Params
	if f.Signature.Recv() != nil && len(ps) > 0 {
		ps = ps[1:]
	}
	for _, pa := range ps {
		t := pa.Type()
		match := false
		if p, ok := t.(*types.Pointer); ok {
			t = p.Elem()
		}
		if nt, ok := t.(*types.Named); ok && nt.Obj().Pkg() != nil {
			match = strings.TrimPrefix(nt.Obj().Pkg().Path(), load.Module+"/")+"."+nt.Obj().Name() == name
		} else {
			match = t.String() == name
		}
		if match {
			if n == 0 {
				return pa
			}
			n--
		}
	}
	return nil
}

// lastParamOfKinds returns the last non-receiver parameter whose named type is one of names.
func lastParamOfKinds(f *ssa.Function, names ...string) *ssa.Parameter {
	var out *ssa.Parameter
	ps := f.Params
	if f.Signature.Recv() != nil && len(ps) > 0 {
		ps = ps[1:]
	}
	for _, pa := range ps {
		nt, ok := pa.Type().(*types.Named)
		if !ok || nt.Obj().Pkg() == nil {
			continue
		}
		full := strings.TrimPrefix(nt.Obj().Pkg().Path(), load.Module+"/") + "." + nt.Obj().Name()
		for _, n := range names {
			if full == n {
				out = pa
			}
		}
	}
	return out
}

// leqEdges returns the edges of the branch on comparison b on which "E <= k" is implied, where E
// is the operand accepted by isE and the other operand is an integer constant. nonNeg: E is known
// to be >= 0 (a length), which lets `E != 0`'s false edge and `E == 0` work for k = 0.
func leqEdges(b *ssa.BinOp, isE func(ssa.Value) bool, k int64) []Edge {
	var e ssa.Value
	var c int64
	op := b.Op
	if cv, ok := constInt(b.Y); ok && isE(b.X) {
		e, c = b.X, cv
	} else if cv, ok := constInt(b.X); ok && isE(b.Y) {
		e, c = b.Y, cv
		// mirror the operator: c OP E  ==  E OP' c
		switch op {
		case token.LSS:
			op = token.GTR
		case token.LEQ:
			op = token.GEQ
		case token.GTR:
			op = token.LSS
		case token.GEQ:
			op = token.LEQ
		}
	}
	if e == nil {
		return nil
	}
	t, f, _ := boolEdges(b)
	switch op {
	case token.EQL:
		if c <= k {
			return t
		}
	case token.NEQ:
		if c <= k && c == 0 { // E != 0 false => E == 0
			return f
		}
	case token.LSS: // E < c  => E <= c-1
		if c-1 <= k {
			return t
		}
	case token.LEQ:
		if c <= k {
			return t
		}
	case token.GTR: // !(E > c) => E <= c
		if c <= k {
			return f
		}
	case token.GEQ: // !(E >= c) => E <= c-1
		if c-1 <= k {
			return f
		}
	}
	return nil
}

// isLenCallOf: v is len(x) (builtin) or x.Len() where pred(x) holds.
func isLenCallOf(v ssa.Value, pred func(ssa.Value) bool) bool {
	c, ok := v.(*ssa.Call)
	if !ok {
		return false
	}
	cc := c.Common()
	if b, ok := cc.Value.(*ssa.Builtin); ok && b.Name() == "len" {
		return pred(cc.Args[0])
	}
	if callsNamed(c, "Len") && len(cc.Args) > 0 {
		return pred(cc.Args[0])
	}
	return false
}

// loopExitsOnlyAtHeader: in is inside a loop (the strongly connected component of its block); the
// loop is left only from its header (the block entered from outside), i.e. by the loop condition —
// no break, return or goto out of the body. Blocks ending in a panic are not exits.
func loopExitsOnlyAtHeader(in ssa.Instruction) (bool, string) {
	b := in.Block()
	fwd := map[*ssa.BasicBlock]bool{}
	var walk func(x *ssa.BasicBlock, m map[*ssa.BasicBlock]bool, succ bool)
	walk = func(x *ssa.BasicBlock, m map[*ssa.BasicBlock]bool, succ bool) {
		next := x.Succs
		if !succ {
			next = x.Preds
		}
		for _, n := range next {
			if !m[n] {
				m[n] = true
				walk(n, m, succ)
			}
		}
	}
	walk(b, fwd, true)
	if !fwd[b] {
		return false, "is not a loop"
	}
	bwd := map[*ssa.BasicBlock]bool{}
	walk(b, bwd, false)
	scc := map[*ssa.BasicBlock]bool{}
	for x := range fwd {
		if bwd[x] {
			scc[x] = true
		}
	}
	var header *ssa.BasicBlock
	for x := range scc {
		for _, pr := range x.Preds {
			if !scc[pr] {
				if header != nil && header != x {
					return false, "has more than one entry"
				}
				header = x
			}
		}
	}
	if header == nil {
		return false, "has no entry"
	}
	for x := range scc {
		if x == header {
			continue
		}
		for _, sx := range x.Succs {
			if scc[sx] {
				continue
			}
			if len(sx.Instrs) > 0 {
				if _, isPanic := sx.Instrs[len(sx.Instrs)-1].(*ssa.Panic); isPanic {
					continue
				}
			}
			return false, fmt.Sprintf("is left from its body (block %d -> %d) before the list is exhausted", x.Index, sx.Index)
		}
		if len(x.Succs) == 0 {
			if _, isPanic := x.Instrs[len(x.Instrs)-1].(*ssa.Panic); !isPanic {
				return false, "returns from its body"
			}
		}
	}
	return true, ""
}

// resolveLocalCopy: v loads a local cell that has exactly one store (a loop variable or a copy kept
// in a variable because a field of it is addressed); returns the stored value, else v.
func resolveLocalCopy(v ssa.Value) ssa.Value {
	ld, ok := v.(*ssa.UnOp)
	if !ok || ld.Op != token.MUL {
		return v
	}
	cell, ok := ld.X.(*ssa.Alloc)
	if !ok || cell.Referrers() == nil {
		return v
	}
	var val ssa.Value
	n := 0
	for _, rf := range *cell.Referrers() {
		if st, ok := rf.(*ssa.Store); ok && st.Addr == ssa.Value(cell) {
			val = st.Val
			n++
		}
	}
	if n == 1 {
		return val
	}
	return v
}

// loopHeaderOf: the header block (the one entered from outside) of the innermost loop — here the
// strongly connected component — containing in; nil if in is not in a loop or the loop has several entries.
func loopHeaderOf(in ssa.Instruction) *ssa.BasicBlock {
	b := in.Block()
	fwd := map[*ssa.BasicBlock]bool{}
	bwd := map[*ssa.BasicBlock]bool{}
	var walk func(x *ssa.BasicBlock, m map[*ssa.BasicBlock]bool, succ bool)
	walk = func(x *ssa.BasicBlock, m map[*ssa.BasicBlock]bool, succ bool) {
		next := x.Succs
		if !succ {
			next = x.Preds
		}
		for _, n := range next {
			if !m[n] {
				m[n] = true
				walk(n, m, succ)
			}
		}
	}
	walk(b, fwd, true)
	if !fwd[b] {
		return nil
	}
	walk(b, bwd, false)
	var header *ssa.BasicBlock
	for x := range fwd {
		if !bwd[x] {
			continue
		}
		for _, pr := range x.Preds {
			if !(fwd[pr] && bwd[pr]) {
				if header != nil && header != x {
					return nil
				}
				header = x
			}
		}
	}
	return header
}

// instrReachableFromPoint: target is reachable from the program point pt.
func instrReachableFromPoint(pt Point, target ssa.Instruction) bool {
	return reaches([]Point{pt}, nil, func(in ssa.Instruction) bool { return in == target }) != nil
}

// condValue evaluates a boolean SSA value given truth values for some leaves (identified by the
// caller's key function: two loads of the same field are the same leaf). ok=false: not determined.
func condValue(v ssa.Value, leaf func(ssa.Value) string, known map[string]bool) (val, ok bool) {
	if b, okc := constBool(v); okc {
		return b, true
	}
	if k := leaf(v); k != "" {
		val, ok = known[k]
		return
	}
	switch x := v.(type) {
	case *ssa.UnOp:
		if x.Op == token.NOT {
			if r, ok2 := condValue(x.X, leaf, known); ok2 {
				return !r, true
			}
		}
	case *ssa.BinOp:
		switch x.Op {
		case token.EQL, token.NEQ:
			l, ok1 := condValue(x.X, leaf, known)
			r, ok2 := condValue(x.Y, leaf, known)
			if ok1 && ok2 {
				return (l == r) == (x.Op == token.EQL), true
			}
		}
	}
	return false, false
}

// reachesUnder is reaches() restricted to the paths consistent with the known leaf values: at a
// branch whose condition is determined only the taken successor is followed (short-circuit
// operators are already branches in SSA, so && and || need no special case).
func reachesUnder(starts []Point, leaf func(ssa.Value) string, known map[string]bool, stop func(ssa.Instruction) bool, target func(ssa.Instruction) bool) ssa.Instruction {
	seen := map[*ssa.BasicBlock]bool{}
	work := append([]Point(nil), starts...)
	for len(work) > 0 {
		pt := work[len(work)-1]
		work = work[:len(work)-1]
		if pt.I == 0 {
			if seen[pt.B] {
				continue
			}
			seen[pt.B] = true
		}
		stopped := false
		for i := pt.I; i < len(pt.B.Instrs); i++ {
			in := pt.B.Instrs[i]
			if stop != nil && stop(in) {
				stopped = true
				break
			}
			if target(in) {
				return in
			}
		}
		if stopped {
			continue
		}
		succs := pt.B.Succs
		if iff, ok := pt.B.Instrs[len(pt.B.Instrs)-1].(*ssa.If); ok {
			if v, okv := condValue(iff.Cond, leaf, known); okv {
				if v {
					succs = succs[:1]
				} else {
					succs = succs[1:2]
				}
			}
		}
		for _, s := range succs {
			if !seen[s] {
				work = append(work, Point{s, 0})
			}
		}
	}
	return nil
}

// maybeNilResult: the error result of ret can be nil: it is the nil constant, or a value (a call's
// result handed through) that is not known to be non-nil on this path. Error constants and values
// returned on the non-nil edge of their own test cannot be nil.
func maybeNilResult(ret *ssa.Return, idx int) bool {
	v := unspill(ret.Results[idx])
	switch errKind(v) {
	case "nil":
		return true
	case "global":
		return false
	}
	if _, isMk := v.(*ssa.MakeInterface); isMk {
		return false
	}
	_, nonNil, _ := nilEdges(v)
	if len(nonNil) > 0 && edgesDominate(nonNil, ret) {
		return false
	}
	return true
}


func isIntegerType(t types.Type) bool {
	b, ok := t.Underlying().(*types.Basic)
	return ok && b.Info()&types.IsInteger != 0
}

// intWidth: bits of an integer type (int/uint/uintptr counted as 64).
func intWidth(t types.Type) int {
	b, ok := t.Underlying().(*types.Basic)
	if !ok {
		return 0
	}
	switch b.Kind() {
	case types.Int8, types.Uint8:
		return 8
	case types.Int16, types.Uint16:
		return 16
	case types.Int32, types.Uint32:
		return 32
	}
	return 64
}
