package rules

import (
	"fmt"
	"go/ast"
	"go/constant"
	"go/token"
	"go/types"
	"sort"
	"strings"

	"golang.org/x/tools/go/ssa"

	"verif/internal/core"
	"verif/internal/load"
)

func init() {
	Registry["C12"] = Set{
		Explanation: "Decides structural clauses of remote delivery integrity on the raw frame protocol: R1 for every proto* message constant the writer's field map (offset, width, role pid/alias/ref word) agrees with the reader arm's field map, the header size allocated by the writer equals the offset at which the reader starts decoding the payload, and every identifier word the writer stores is read back; R5 an identifier the reader rebuilds with the peer's name/creation is one the writer owns (not guarded against the peer's creation) and vice versa, so 'from' is the true sender and 'to' the addressee; R2 the only write to a pooled link is in send, after the peer's max-message-size test which comes after compression; every frame builder ends in send; R3 no read of a receive buffer after it was released, no double release (ownership typestate over SSA); R4 each important-delivery acknowledgement carries the reference read from that frame, the error of that Route* call, and is addressed to the frame's sender; R6 the frame cutter uses one length for the frame and the tail. Added while probing: R1h every frame writer writes the complete header into the buffer it stamps (magic, version, its own length at [2:6], selector at 6, type at 7); R1e all integer accesses in net/proto and net/handshake are big-endian; R7 the compression envelope (type id, length prefix, offsets) agrees between send, the receive worker and each Compress/Decompress pair; R8 the stream reader appends at the buffer's logical end (offset sampled before the growth helper) and the new length is offset + n; R9 no frame is stranded in a receive queue (producer pushes before trying the lock; the worker re-checks after Unlock). R10 lock pairing — in every function that touches the link writer's (flusher) lock a forward data flow over (held read/write, unlock deferred) shows: no return while the lock is held without a deferred unlock, no unlock (explicit or deferred) of a lock that is not held or of the other kind, no second lock (a leaked lock blocks every later send on that link for ever, an unlock of an unlocked mutex is a fatal error that takes the node down). R3x pooled objects across calls — when a function may release a pooled buffer it received as a parameter (directly, through a callee resolved statically or by the VTA call graph, or deferred), no caller releases or re-dispatches the same object on a path compatible with the callee's releasing path; paths are correlated through the nil-ness of the callee's error result (a double release hands one object to two later users: frames of unrelated connections overwrite each other, a request is presented twice or answered with another request's reference). R3i = C02.D11 for buffers (released once inside a function, through phi nodes). R11 every successful return of the link writer after bytes went into its buffer has a flush pending or arms the flush timer. R12 in every frame writer that applies the atom mapping to a name the atom-cache lookup uses the mapped name, and (R12t) the text written is converted from the mapped name. R13 wherever a pool item's link is (re)assigned its writer is renewed for that very link in the same straight-line code. R14 every compact error code the response-error writer stores into the code byte has an arm in the reader's switch over that byte (an unknown code is dropped by the reader: the sender of an important message gets a timeout instead of the remote reason).",
		NotDecided: []string{
			"TCP segmentation / reassembly over every cut of the stream (only the append position and the cut at the declared length are decided)",
			"compression round trip, payload equality (see C11 clauses)",
			"behaviour under load, pooled link scheduling",
		},
		Assumptions: []string{"lib.Buffer.Allocate(n) reserves exactly n header bytes before the payload", "edf.Decode consumes the payload (C11)", "only net/proto builds frames (checked: writers are found by their store into byte 7)"},
		Run:         runC12,
	}
}

func protoLayouts(p *load.Program) (*layoutCtx, []frameLayout, []frameLayout, string) {
	pk := p.Pkg("net/proto")
	if pk == nil {
		return nil, nil, nil, ""
	}
	lc := &layoutCtx{pk: pk, info: pk.TypesInfo, prog: p}
	w := lc.extractWriters()
	rd, fn := lc.extractReaders()
	return lc, w, rd, fn
}

func keyOf(f lfield) string { return f.rng() }

func runC12(p *load.Program, r *core.Report) {
	lc, writers, readers, rfn := protoLayouts(p)
	if lc == nil || len(readers) == 0 || len(writers) == 0 {
		r.Unk("C12.anchors", "C12.anchors|layouts", "", "", "frame writers and the frame handler resolve", fmt.Sprintf("writers=%d reader arms=%d", len(writers), len(readers)))
		return
	}
	c12MappedNameCached(p, r)
	mappedNameText(p, r, "C12.R12t text-of-the-mapped-name", "C12.R12t", 5)
	c12ErrorCodesAgree(p, r)
	c12FlushArmed(p, r)
	c12WriterGoesWithLink(p, r)
	pooledIntra(p, r, "C12.R3i buffer-released-once", "C12.R3i", 12, "buffer", func(*ssa.Function) bool { return true })
	pooledRelease(p, r, "C12.R3x no-double-release-across-calls", "C12.R3x", 15, "buffer", func(*ssa.Function) bool { return true })
	lockPairing(p, r, "C12.R10 link-writer-lock-paired", "C12.R10", 3, func(o string) bool { return o == "lib.flusher" })
	c12Layout(p, r, lc, writers, readers, rfn, "C12.R1 frame-layout", "C12.R5 true-sender")
	c12Send(p, r)
	c12Release(p, r)
	c12Ack(p, r)
	c12Cut(p, r)
	c12Envelope(p, r)
	c12Reassembly(p, r)
	c12Header(p, r)
	byteOrderRule(p, r, "C12.R1e byte-order", "C12.R1e", []string{"net/proto", "net/handshake"}, 100)
	// R9: no frame is stranded in a receive queue
	if a, problems := getAnchors(p); len(problems) == 0 {
		r.Floor("C12.R9 no-stranded-frame", 1)
		recvWorkerRecheck(a, r, "C12.R9 no-stranded-frame", "C12.R9")
	} else {
		r.Unk("C12.R9 no-stranded-frame", "C12.R9|anchors", "", "", "anchors resolve", strings.Join(problems, "; "))
	}
}

// c12Header: R1h — every function that stamps a frame type (a protoMessage*/protoRequest* constant
// stored at index 7 of a buffer) writes the complete header into the same buffer: magic at 0,
// version at 1, the buffer's own length as a big-endian uint32 at [2:6], the receive-queue
// selector at 6. The reader cuts the stream by the length field and routes by bytes 6 and 7.
func c12Header(p *load.Program, r *core.Report) {
	rule := "C12.R1h frame-header"
	r.Floor(rule, 16)
	pk := p.Pkg("net/proto")
	if pk == nil {
		r.Unk(rule, "C12.R1h|pkg", "", "", "package net/proto", "not found")
		return
	}
	constVal := func(name string) (int64, bool) {
		if o, ok := pk.Types.Scope().Lookup(name).(*types.Const); ok {
			v, ok2 := constant.Int64Val(constant.ToInt(o.Val()))
			return v, ok2
		}
		return 0, false
	}
	magic, ok1 := constVal("protoMagic")
	version, ok2 := constVal("protoVersion")
	if !ok1 || !ok2 {
		r.Unk(rule, "C12.R1h|consts", "", "", "protoMagic / protoVersion resolve", "not found")
		return
	}
	typeConsts := map[int64]bool{}
	for _, n := range pk.Types.Scope().Names() {
		if strings.HasPrefix(n, "protoMessage") || strings.HasPrefix(n, "protoRequest") {
			if v, ok := constVal(n); ok {
				typeConsts[v] = true
			}
		}
	}
	for _, f := range funcsOfPkgs(p, "net/proto") {
		type hdr struct {
			b0, b1, b6, b7 bool
			b0v, b1v       int64
			lenOK          bool
			lenSeen        bool
			pos            token.Pos
		}
		byBuf := map[ssa.Value]*hdr{}
		get := func(b ssa.Value) *hdr {
			if byBuf[b] == nil {
				byBuf[b] = &hdr{}
			}
			return byBuf[b]
		}
		bufOf := func(v ssa.Value) ssa.Value {
			base, path, ok := fieldPath(v)
			if !ok || len(path) == 0 || path[len(path)-1] != "B" {
				return nil
			}
			return canon(base)
		}
		eachInstr(f, func(in ssa.Instruction) {
			switch x := in.(type) {
			case *ssa.Store:
				ia, ok := x.Addr.(*ssa.IndexAddr)
				if !ok {
					return
				}
				idx, okc := constInt(ia.Index)
				if !okc {
					return
				}
				b := bufOf(ia.X)
				if b == nil {
					return
				}
				h := get(b)
				c, isC := constInt(x.Val)
				switch idx {
				case 0:
					h.b0, h.b0v = isC, c
				case 1:
					h.b1, h.b1v = isC, c
				case 6:
					h.b6 = true
				case 7:
					if isC && typeConsts[c] {
						h.b7 = true
						h.pos = x.Pos()
					}
				}
			case *ssa.Call:
				sf := staticCallee(x.Common())
				if sf == nil || sf.Name() != "PutUint32" || len(x.Common().Args) < 3 {
					return
				}
				sl, ok := x.Common().Args[1].(*ssa.Slice)
				if !ok {
					return
				}
				lo, okl := constInt(sl.Low)
				hi, okh := constInt(sl.High)
				if sl.Low == nil || sl.High == nil || !okl || !okh || lo != 2 || hi != 6 {
					return
				}
				b := bufOf(sl.X)
				if b == nil {
					return
				}
				h := get(b)
				h.lenSeen = true
				// value: uint32(buf.Len()) of the same buffer
				if c, ok := strip(x.Common().Args[2]).(*ssa.Call); ok && callsNamed(c, "Len") && len(c.Common().Args) > 0 && canon(c.Common().Args[0]) == b {
					h.lenOK = true
				}
			}
		})
		n := 0
		for _, h := range byBuf {
			if !h.b7 {
				continue
			}
			n++
			key := fmt.Sprintf("C12.R1h|%s#%d", fname(f), n)
			if n == 1 {
				key = "C12.R1h|" + fname(f)
			}
			inst := "the frame header is complete: magic, version, own length at [2:6], selector at 6, type at 7"
			var probs []string
			if !h.b0 || h.b0v != magic {
				probs = append(probs, "byte 0 is not protoMagic")
			}
			if !h.b1 || h.b1v != version {
				probs = append(probs, "byte 1 is not protoVersion")
			}
			if !h.lenSeen {
				probs = append(probs, "the length field [2:6] is not written")
			} else if !h.lenOK {
				probs = append(probs, "the length field [2:6] is not the length of this buffer: the receiver cuts the stream at the wrong place")
			}
			if !h.b6 {
				probs = append(probs, "byte 6 (receive-queue selector) is not written: a recycled buffer's old value selects the queue")
			}
			if len(probs) > 0 {
				r.Bad(rule, key, fname(f), p.Pos(h.pos), inst, strings.Join(probs, "; "))
			} else {
				r.OK(rule, key, fname(f), p.Pos(h.pos), inst, "B[0]=magic B[1]=version PutUint32(B[2:6], Len()) B[6] B[7]")
			}
		}
	}
}

// c12Reassembly: R8 — the stream reader appends: the bytes of a Read land at the offset that was the
// buffer's length on entry (sampled before any helper that replaces the slice, since the growth
// helper returns a slice of a different length) and the new length is that offset plus the count read.
func c12Reassembly(p *load.Program, r *core.Report) {
	rule := "C12.R8 stream-append"
	r.Floor(rule, 1)
	f := p.Func("lib", "Buffer", "ReadDataFrom")
	key := "C12.R8|ReadDataFrom"
	inst := "received bytes are appended at the buffer's logical end: Read target starts at len(B) as it was before the buffer was regrown, and the new length is that offset + n"
	if f == nil {
		r.Unk(rule, key, "", "", inst, "(*lib.Buffer).ReadDataFrom not found")
		return
	}
	var read *ssa.Call
	eachInstr(f, func(in ssa.Instruction) {
		if c, ok := in.(*ssa.Call); ok && c.Common().IsInvoke() && c.Common().Method.Name() == "Read" {
			read = c
		}
	})
	if read == nil {
		r.Unk(rule, key, fname(f), p.Pos(f.Pos()), inst, "no Read on the io.Reader")
		return
	}
	sl, ok := read.Common().Args[0].(*ssa.Slice)
	if !ok || sl.Low == nil {
		r.Bad(rule, key, fname(f), p.Pos(read.Pos()), inst, "the Read target is not a slice of the buffer starting at its length: received bytes overwrite the part of the frame already received")
		return
	}
	// the len() calls the low bound comes from
	var lens []*ssa.Call
	var collect func(v ssa.Value, d int)
	seen := map[ssa.Value]bool{}
	collect = func(v ssa.Value, d int) {
		if seen[v] || d > 6 {
			return
		}
		seen[v] = true
		switch x := v.(type) {
		case *ssa.Call:
			if b, ok := x.Common().Value.(*ssa.Builtin); ok && b.Name() == "len" {
				lens = append(lens, x)
			}
		case *ssa.Phi:
			for _, e := range x.Edges {
				collect(e, d+1)
			}
		case *ssa.Convert:
			collect(x.X, d+1)
		}
	}
	collect(sl.Low, 0)
	var probs []string
	if len(lens) == 0 {
		probs = append(probs, "the Read offset is not the buffer length")
	}
	// helpers that replace b.B: callees (methods of Buffer) that store to field B
	replaces := func(in ssa.Instruction) bool {
		cc := callCommon(in)
		if cc == nil {
			return false
		}
		g := staticCallee(cc)
		if g == nil || len(g.Blocks) == 0 || g.Signature.Recv() == nil || namedOf(g.Signature.Recv().Type()) != "lib.Buffer" {
			return false
		}
		st := false
		eachInstr(g, func(i2 ssa.Instruction) {
			if s2, ok := i2.(*ssa.Store); ok {
				if _, fl := fieldOwner(s2.Addr); fl == "B" {
					st = true
				}
			}
		})
		return st
	}
	for _, lc := range lens {
		if _, path, okp := fieldPath(lc.Common().Args[0]); !okp || len(path) == 0 || path[len(path)-1] != "B" {
			probs = append(probs, "the offset is the length of something other than the buffer")
			continue
		}
		var helpers []Point
		eachInstr(f, func(in ssa.Instruction) {
			if replaces(in) {
				helpers = append(helpers, Point{in.Block(), indexIn(in) + 1})
			}
		})
		if len(helpers) > 0 {
			if hit := reaches(helpers, nil, func(in ssa.Instruction) bool { return in == ssa.Instruction(lc) }); hit != nil {
				probs = append(probs, "the length is sampled at "+p.Pos(lc.Pos())+" after the buffer was regrown (the growth helper returns a slice whose length is the old capacity): stale bytes are spliced into the frame")
			}
		}
	}
	// new length = low + n
	okLen := false
	eachInstr(f, func(in ssa.Instruction) {
		s2, ok := in.(*ssa.Slice)
		if !ok || s2.High == nil || s2 == sl {
			return
		}
		if b, ok := s2.High.(*ssa.BinOp); ok && b.Op == token.ADD {
			isN := func(v ssa.Value) bool {
				ex, ok := v.(*ssa.Extract)
				return ok && ex.Tuple == ssa.Value(read) && ex.Index == 0
			}
			if (b.X == sl.Low && isN(b.Y)) || (b.Y == sl.Low && isN(b.X)) {
				okLen = true
			}
		}
	})
	if !okLen {
		probs = append(probs, "the new length is not (offset + bytes read)")
	}
	if len(probs) > 0 {
		r.Bad(rule, key, fname(f), p.Pos(read.Pos()), inst, strings.Join(probs, "; "))
	} else {
		r.OK(rule, key, fname(f), p.Pos(read.Pos()), inst, fmt.Sprintf("offset = len(B) sampled before the growth helper (%d sample(s)); new length = offset + n", len(lens)))
	}
}

// c12Envelope: R7 — compression envelope agreement between send and the receive worker, and
// between each Compress*/Decompress* pair.
func c12Envelope(p *load.Program, r *core.Report) {
	rule := "C12.R7 compression-envelope"
	r.Floor(rule, 5)
	sendF := p.Func("net/proto", "connection", "send")
	recvF := p.Func("net/proto", "connection", "handleRecvQueue")
	if sendF == nil || recvF == nil {
		r.Unk(rule, "C12.R7|anchors", "", "", "send and the receive worker found", "not found")
		return
	}
	// writer: compression type -> Compress function (by the dominating comparison of compression.Type)
	algoOf := func(name, prefix string) string { return strings.TrimPrefix(name, prefix) }
	typeConst := func(v ssa.Value) string {
		if c, ok := v.(*ssa.Const); ok && c.Value != nil {
			return strings.Trim(c.Value.ExactString(), "\"")
		}
		return ""
	}
	wmap := map[string]string{} // type string -> algo
	var prealloc int64 = -1
	eachInstr(sendF, func(in ssa.Instruction) {
		c, ok := in.(*ssa.Call)
		if !ok {
			return
		}
		sf := staticCallee(c.Common())
		if sf == nil || !strings.HasPrefix(sf.Name(), "Compress") {
			return
		}
		if v, okc := constInt(c.Common().Args[1]); okc {
			prealloc = v
		}
		algo := algoOf(sf.Name(), "Compress")
		// dominating equality test of the type
		found := ""
		eachInstr(sendF, func(i2 ssa.Instruction) {
			b, okb := i2.(*ssa.BinOp)
			if !okb || b.Op != token.EQL {
				return
			}
			tc := typeConst(b.Y)
			if tc == "" {
				return
			}
			t, _, _ := boolEdges(b)
			if edgesDominate(t, in) {
				found = tc
			}
		})
		if found == "" {
			// default arm: the type that is written into the envelope is assigned explicitly
			eachInstr(sendF, func(i2 ssa.Instruction) {
				if st, oks := i2.(*ssa.Store); oks && i2.Block() == in.Block() {
					if tc := typeConst(st.Val); tc != "" {
						found = tc
					}
				}
			})
		}
		wmap[found] = algo
	})
	// the envelope byte 8 carries compression.Type.ID() of the (possibly reassigned) type
	// reader: case <Type>.ID() -> Decompress function
	rmap := map[string]string{}
	var skip int64 = -1
	pk := p.Pkg("net/proto")
	for _, file := range pk.Syntax {
		ast.Inspect(file, func(n ast.Node) bool {
			cc, ok := n.(*ast.CaseClause)
			if !ok || len(cc.List) != 1 {
				return true
			}
			ce, ok := cc.List[0].(*ast.CallExpr)
			if !ok {
				return true
			}
			se, ok := ce.Fun.(*ast.SelectorExpr)
			if !ok || se.Sel.Name != "ID" {
				return true
			}
			tv, ok := pk.TypesInfo.Types[se.X]
			if !ok || tv.Value == nil {
				return true
			}
			tname := strings.Trim(tv.Value.ExactString(), "\"")
			ast.Inspect(cc, func(m ast.Node) bool {
				c2, ok := m.(*ast.CallExpr)
				if !ok {
					return true
				}
				fn := types.ExprString(c2.Fun)
				if strings.HasPrefix(fn, "lib.Decompress") {
					rmap[tname] = strings.TrimPrefix(fn, "lib.Decompress")
				}
				return true
			})
			return true
		})
	}
	eachInstr(recvF, func(in ssa.Instruction) {
		c, ok := in.(*ssa.Call)
		if !ok {
			return
		}
		if sf := staticCallee(c.Common()); sf != nil && strings.HasPrefix(sf.Name(), "Decompress") {
			if v, okc := constInt(c.Common().Args[1]); okc {
				skip = v
			}
		}
	})
	{
		key := "C12.R7|type-table"
		inst := "the compression type written into the envelope selects, at the receiver, the decompressor of the algorithm the sender used"
		var probs []string
		var ts []string
		for t := range wmap {
			ts = append(ts, t)
		}
		sort.Strings(ts)
		for _, t := range ts {
			if rmap[t] == "" {
				probs = append(probs, fmt.Sprintf("type %q is compressed with %s but the receiver has no arm for it", t, wmap[t]))
			} else if rmap[t] != wmap[t] {
				probs = append(probs, fmt.Sprintf("type %q is compressed with %s and decompressed with %s", t, wmap[t], rmap[t]))
			}
		}
		if len(wmap) < 3 {
			probs = append(probs, fmt.Sprintf("only %d compression arms found in send", len(wmap)))
		}
		if len(probs) > 0 {
			r.Bad(rule, key, fname(sendF), p.Pos(sendF.Pos()), inst, strings.Join(probs, "; "))
		} else {
			r.OK(rule, key, fname(sendF), p.Pos(sendF.Pos()), inst, fmt.Sprintf("writer %v, reader %v", wmap, rmap))
		}
		key2 := "C12.R7|header-size"
		inst2 := "the envelope header reserved by the sender equals the number of bytes the receiver skips"
		if prealloc >= 0 && prealloc == skip {
			r.OK(rule, key2, fname(sendF), p.Pos(sendF.Pos()), inst2, fmt.Sprintf("%d bytes", skip))
		} else {
			r.Bad(rule, key2, fname(sendF), p.Pos(sendF.Pos()), inst2, fmt.Sprintf("sender reserves %d bytes, receiver skips %d: the unpacked length and the stream are read from the wrong offset", prealloc, skip))
		}
	}
	// ID() is injective and non-zero for the three types
	if fd, _ := p.FuncDecl("gen", "CompressionType", "ID"); fd != nil {
		gpk := p.Pkg("gen")
		ids := map[string]int64{}
		ast.Inspect(fd.Body, func(n ast.Node) bool {
			cc, ok := n.(*ast.CaseClause)
			if !ok || len(cc.List) != 1 {
				return true
			}
			for _, s := range cc.Body {
				if rs, ok := s.(*ast.ReturnStmt); ok && len(rs.Results) == 1 {
					if tv, ok := gpk.TypesInfo.Types[rs.Results[0]]; ok && tv.Value != nil {
						v, _ := constant.Int64Val(tv.Value)
						ids[types.ExprString(cc.List[0])] = v
					}
				}
			}
			return true
		})
		seen := map[int64]string{}
		var probs []string
		for n, v := range ids {
			if v == 0 {
				probs = append(probs, n+" has id 0 (the 'unknown' value)")
			}
			if o, dup := seen[v]; dup {
				probs = append(probs, n+" and "+o+" share id "+fmt.Sprint(v))
			}
			seen[v] = n
		}
		key := "C12.R7|type-ids"
		if len(probs) > 0 || len(ids) < 3 {
			sort.Strings(probs)
			r.Bad(rule, key, "gen.CompressionType.ID", p.Pos(fd.Pos()), "compression type ids are distinct and non-zero", strings.Join(probs, "; "))
		} else {
			r.OK(rule, key, "gen.CompressionType.ID", p.Pos(fd.Pos()), "compression type ids are distinct and non-zero", fmt.Sprint(ids))
		}
	}
	// pairs in lib
	for _, algo := range []string{"LZW", "ZLIB", "GZIP"} {
		cf := p.Func("lib", "", "Compress"+algo)
		df := p.Func("lib", "", "Decompress"+algo)
		key := "C12.R7|lib|" + algo
		inst := "Compress" + algo + " and Decompress" + algo + " use the same stream format, and the unpacked length sits in the same 4 bytes"
		if cf == nil || df == nil {
			r.Unk(rule, key, "", "", inst, "pair not found")
			continue
		}
		ctor := func(f *ssa.Function, prefix string) (pkg string, args []int64) {
			eachInstr(f, func(in ssa.Instruction) {
				c, ok := in.(*ssa.Call)
				if !ok {
					return
				}
				sf := staticCallee(c.Common())
				if sf == nil || sf.Pkg == nil || !strings.HasPrefix(sf.Pkg.Pkg.Path(), "compress/") || !strings.HasPrefix(sf.Name(), prefix) {
					return
				}
				pkg = sf.Pkg.Pkg.Path()
				for _, a := range c.Common().Args {
					if v, ok := constInt(a); ok {
						args = append(args, v)
					}
				}
			})
			return
		}
		cp, ca := ctor(cf, "NewWriter")
		dp, da := ctor(df, "NewReader")
		var probs []string
		if cp == "" || dp == "" || cp != dp {
			probs = append(probs, fmt.Sprintf("writer from %q, reader from %q", cp, dp))
		}
		if cp == "compress/lzw" && fmt.Sprint(ca) != fmt.Sprint(da) {
			probs = append(probs, fmt.Sprintf("lzw parameters differ: writer %v, reader %v", ca, da))
		}
		// length field: PutUint32 at [preallocate:] / Uint32 of source[:4] after skipping; Allocate(preallocate+4); reader from source[4:]
		put, get := false, false
		eachInstr(cf, func(in ssa.Instruction) {
			if c, ok := in.(*ssa.Call); ok {
				if sf := staticCallee(c.Common()); sf != nil && sf.Name() == "PutUint32" {
					put = true
				}
			}
		})
		eachInstr(df, func(in ssa.Instruction) {
			if c, ok := in.(*ssa.Call); ok {
				if sf := staticCallee(c.Common()); sf != nil && sf.Name() == "Uint32" {
					get = true
				}
			}
		})
		if !put || !get {
			probs = append(probs, "the 4-byte unpacked length is not written/read symmetrically")
		}
		if len(probs) > 0 {
			r.Bad(rule, key, fname(cf), p.Pos(cf.Pos()), inst, strings.Join(probs, "; "))
		} else {
			r.OK(rule, key, fname(cf), p.Pos(cf.Pos()), inst, cp+fmt.Sprint(ca))
		}
	}
}

// c12Layout emits the layout agreement (rule1) and ownership agreement (rule2) obligations.
func c12Layout(p *load.Program, r *core.Report, lc *layoutCtx, writers, readers []frameLayout, rfn string, rule1, rule2 string) {
	id1 := strings.SplitN(rule1, " ", 2)[0]
	id2 := ""
	if rule2 != "" {
		id2 = strings.SplitN(rule2, " ", 2)[0]
	}
	wBy := map[string][]frameLayout{}
	for _, w := range writers {
		wBy[w.konst] = append(wBy[w.konst], w)
	}
	rBy := map[string]frameLayout{}
	for _, rd := range readers {
		rBy[rd.konst] = rd
	}
	if rule1 != "" {
		r.Floor(rule1, 20)
	}
	if rule2 != "" {
		r.Floor(rule2, 22)
	}
	// every constant with a writer has a reader arm and vice versa
	var ks []string
	seen := map[string]bool{}
	for k := range wBy {
		if !seen[k] {
			seen[k] = true
			ks = append(ks, k)
		}
	}
	for k := range rBy {
		if !seen[k] {
			seen[k] = true
			ks = append(ks, k)
		}
	}
	sort.Strings(ks)
	for _, k := range ks {
		ws, hasW := wBy[k]
		rd, hasR := rBy[k]
		if !hasW || !hasR {
			if rule1 == "" {
				continue
			}
			key := id1 + "|" + k
			if !hasR {
				r.Bad(rule1, key, ws[0].fn, p.Pos(ws[0].pos), "message type "+k+" has a writer and a reader arm", "frames of type "+k+" are written by "+ws[0].fn+" but the frame handler has no arm for them: the message is dropped by the receiver")
			} else if k != "protoMessageZ" && k != "protoMessageAny" {
				r.Bad(rule1, key, rfn, p.Pos(rd.pos), "message type "+k+" has a writer and a reader arm", "the handler has an arm but nothing writes this type")
			}
			continue
		}
		for _, w := range ws {
			if k == "protoMessageZ" {
				continue // compression envelope: checked by R2/R6 rules
			}
			key := id1 + "|" + k + "|" + w.fn
			var probs []string
			// reader fields must be written
			wf := map[string]lfield{}
			for _, f := range w.fields {
				wf[keyOf(f)] = f
			}
			rf := map[string]lfield{}
			for _, f := range rd.fields {
				rf[keyOf(f)] = f
			}
			for _, f := range rd.fields {
				if f.lo.ok && !f.lo.sym && f.lo.c < 8 {
					continue // common header, validated by serve/read
				}
				g, ok := wf[keyOf(f)]
				if !ok {
					// a byte read inside a wider written field or a slice of the name: accept containment in a "bytes" field
					contained := false
					for _, h := range w.fields {
						if h.lo.ok && f.lo.ok && h.lo.sym == f.lo.sym && h.lo.c <= f.lo.c && (!h.hi.ok || (f.hi.ok && h.hi.sym == f.hi.sym && f.hi.c <= h.hi.c) || (h.kind == "bytes")) && h.kind == "bytes" {
							contained = true
						}
					}
					if !contained {
						probs = append(probs, fmt.Sprintf("reader reads %s %s (%s) which the writer never sets", f.kind, f.rng(), f.expr))
					}
					continue
				}
				if isIDKind(f.kind) && isIDKind(g.kind) && f.kind != g.kind {
					probs = append(probs, fmt.Sprintf("bytes %s are written as %s (%s) but read as %s (%s)", f.rng(), g.kind, g.expr, f.kind, f.varName))
				}
				if isIDKind(f.kind) != isIDKind(g.kind) && (isIDKind(f.kind) || isIDKind(g.kind)) && !(strings.HasPrefix(f.kind, "u") && g.kind == f.kind) {
					if widthOf(f) == widthOf(g) && (g.kind == "pid-id" || f.kind == "pid-id" || strings.HasPrefix(g.kind, "alias") || strings.HasPrefix(f.kind, "alias")) {
						probs = append(probs, fmt.Sprintf("bytes %s: writer stores %s (%s), reader uses them as %s (%s)", f.rng(), g.kind, g.expr, f.kind, f.varName))
					}
				}
			}
			// identifier words written must be read
			for _, g := range w.fields {
				if !isIDKind(g.kind) {
					continue
				}
				if _, ok := rf[keyOf(g)]; !ok {
					probs = append(probs, fmt.Sprintf("writer stores %s (%s) at %s but the reader arm never reads these bytes", g.kind, g.expr, g.rng()))
				}
			}
			// header size == payload offset
			if w.alloc.ok && rd.payload.ok {
				if w.alloc.c != rd.payload.c || w.alloc.sym != rd.payload.sym {
					probs = append(probs, fmt.Sprintf("writer reserves %s header bytes but the reader decodes the payload from offset %s", w.alloc, rd.payload))
				}
			} else {
				probs = append(probs, fmt.Sprintf("header size (%s) or payload offset (%s) not found", w.alloc, rd.payload))
			}
			// no written field beyond the header
			for _, g := range w.fields {
				if g.hi.ok && w.alloc.ok && g.hi.sym == w.alloc.sym && g.hi.c > w.alloc.c {
					probs = append(probs, fmt.Sprintf("writer stores %s at %s beyond the %s reserved header bytes (overwrites the payload)", g.expr, g.rng(), w.alloc))
				}
			}
			if rule1 != "" {
				inst := fmt.Sprintf("%s: field map of writer %s equals the reader arm's (header %s bytes)", k, w.fn, w.alloc)
				if len(probs) > 0 {
					r.Bad(rule1, key, w.fn, p.Pos(w.pos), inst, strings.Join(probs, "; "))
				} else {
					r.OK(rule1, key, w.fn, p.Pos(w.pos), inst, fmt.Sprintf("%d writer fields, %d reader fields, payload at %s", len(w.fields), len(rd.fields), rd.payload))
				}
			}
			// ownership
			if rule2 == "" {
				continue
			}
			for _, g := range w.fields {
				if g.kind != "pid-id" && g.kind != "alias-id[0]" {
					continue
				}
				f, ok := rf[keyOf(g)]
				if !ok || f.owner == "" || f.owner == "mixed" {
					continue
				}
				key2 := id2 + "|" + k + "|" + w.fn + "|" + g.varName
				inst := fmt.Sprintf("%s: identifier %s written by %s at %s is rebuilt by the reader with the right node and incarnation", k, g.expr, w.fn, g.rng())
				// reader owner "peer" => belongs to the writer's node => writer must not guard it with the peer's creation
				switch {
				case f.owner == "peer" && g.owner == "peer":
					r.Bad(rule2, key2, w.fn, p.Pos(g.pos), inst, fmt.Sprintf("the reader rebuilds it as an identifier of the SENDING node, but the writer refuses it unless its creation equals the PEER's creation (%s.Creation != peer_creation): the frame is never sent unless both nodes were started in the same second", g.varName))
				case f.owner == "self" && g.owner == "self":
					r.Bad(rule2, key2, w.fn, p.Pos(g.pos), inst, fmt.Sprintf("the reader rebuilds it as an identifier of ITS OWN node and incarnation, but the writer does not check %s.Creation against the peer's creation: an identifier minted by an earlier incarnation of the peer reaches a process of the new incarnation", g.varName))
				default:
					r.OK(rule2, key2, w.fn, p.Pos(g.pos), inst, "writer side: "+g.owner+"-owned; reader side rebuilds it as "+f.owner+"-owned")
				}
			}
		}
	}
}

func isIDKind(k string) bool {
	return k == "pid-id" || strings.HasPrefix(k, "alias-id") || strings.HasPrefix(k, "ref-id")
}

func widthOf(f lfield) int {
	if f.hi.ok && f.lo.ok {
		return f.hi.c - f.lo.c
	}
	return -1
}

// ---------------------------------------------------------------------------------
// R2: single writer to a link, dominated by the size test after compression

func c12Send(p *load.Program, r *core.Report) {
	rule := "C12.R2 size-limit-single-writer"
	connT := p.Named("net/proto", "connection")
	if connT == nil {
		r.Unk(rule, "C12.R2|conn", "", "", "connection type", "net/proto.connection not found")
		return
	}
	// link writes: calls of Write on the flusher field of a pool item
	var writes []ssa.Instruction
	for _, f := range funcsOfPkgs(p, "net/proto") {
		eachInstr(f, func(in ssa.Instruction) {
			cc := callCommon(in)
			if cc == nil {
				return
			}
			name := ""
			if cc.IsInvoke() {
				name = cc.Method.Name()
			} else if sf := staticCallee(cc); sf != nil {
				name = sf.Name()
			}
			if name != "Write" {
				return
			}
			rv := recvValue(cc)
			if rv == nil {
				return
			}
			_, path, ok := fieldPath(rv)
			if ok && len(path) > 0 && path[len(path)-1] == "fl" {
				writes = append(writes, in)
			}
		})
	}
	r.Floor(rule, 2)
	if len(writes) == 0 {
		r.Unk(rule, "C12.R2|write", "", "", "the write to a pooled link is found", "no Write call on a pool item's flusher found in net/proto")
		return
	}
	var sendFn *ssa.Function
	for i, w := range writes {
		f := w.Parent()
		fn := fname(f)
		key := fmt.Sprintf("C12.R2|%s|write#%d", fn, i+1)
		pos := p.Pos(w.Pos())
		inst := "the write of a frame to a pooled link is preceded on every path by the peer-max-message-size test, itself after compression"
		// find the size test: If on cond  buf.Len() > c.peer_maxmessagesize
		var sizeEdges []Edge
		var compress []ssa.Instruction
		eachInstr(f, func(in ssa.Instruction) {
			if iff, ok := in.(*ssa.If); ok {
				if b, ok := iff.Cond.(*ssa.BinOp); ok && (b.Op == token.GTR || b.Op == token.LSS || b.Op == token.GEQ || b.Op == token.LEQ) {
					for _, pr := range [][2]ssa.Value{{b.X, b.Y}, {b.Y, b.X}} {
						_, path, ok := fieldPath(pr[1])
						if _, isConst := pr[0].(*ssa.Const); isConst {
							continue
						}
						if ok && len(path) > 0 && strings.Contains(path[len(path)-1], "maxmessagesize") && strings.HasPrefix(path[len(path)-1], "peer") {
							// the edge on which the message is NOT too large: the one that does not return ErrTooLarge
							for idx := 0; idx < 2; idx++ {
								sizeEdges = append(sizeEdges, Edge{iff.Block(), idx})
							}
						}
					}
				}
			}
			if cc := callCommon(in); cc != nil {
				if sf := staticCallee(cc); sf != nil && strings.HasPrefix(sf.Name(), "Compress") {
					compress = append(compress, in)
				}
			}
		})
		var probs []string
		if len(sizeEdges) == 0 {
			probs = append(probs, "no comparison of the frame length with the peer's max message size in this function: a payload beyond the peer's limit is not refused at the sender")
		} else {
			// the If block must dominate the write, and the too-large edge must return an error
			var ifBlock *ssa.BasicBlock = sizeEdges[0].From
			// every path to the write passes the size comparison or the "limit disabled" bypass edge
			cut := map[Edge]bool{{ifBlock, 0}: true, {ifBlock, 1}: true}
			for _, pred := range ifBlock.Preds {
				if iff, ok := pred.Instrs[len(pred.Instrs)-1].(*ssa.If); ok {
					if b, ok := iff.Cond.(*ssa.BinOp); ok {
						_, px, _ := fieldPath(b.X)
						_, py, _ := fieldPath(b.Y)
						if (len(px) > 0 && strings.Contains(px[len(px)-1], "maxmessagesize")) || (len(py) > 0 && strings.Contains(py[len(py)-1], "maxmessagesize")) {
							for i, sc := range pred.Succs {
								if sc != ifBlock {
									cut[Edge{pred, i}] = true
								}
							}
						}
					}
				}
			}
			if reachAvoidEdges([]Point{{f.Blocks[0], 0}}, cut, nil, func(in ssa.Instruction) bool { return in == w }) != nil {
				probs = append(probs, "a path reaches the write without passing the size test (or its 'no limit' bypass)")
			}
			// one successor must lead to a return of ErrTooLarge without reaching the write
			okRefuse := false
			for idx := 0; idx < 2; idx++ {
				reachW := reaches([]Point{{ifBlock.Succs[idx], 0}}, nil, func(in ssa.Instruction) bool { return in == w })
				if reachW == nil {
					for _, ret := range walkAvoid([]Point{{ifBlock.Succs[idx], 0}}, nil, isReturn) {
						if errKind(ret.(*ssa.Return).Results[len(ret.(*ssa.Return).Results)-1]) == "global" {
							okRefuse = true
						}
					}
				}
			}
			if !okRefuse {
				probs = append(probs, "no branch of the size test refuses the frame with an error before the write")
			}
			for _, c := range compress {
				if !instrDominates(c, ifBlock.Instrs[len(ifBlock.Instrs)-1]) && reaches([]Point{{ifBlock, 0}}, nil, func(in ssa.Instruction) bool { return in == c }) != nil {
					probs = append(probs, "compression happens after the size test: the tested length is not the length written")
				}
			}
		}
		if len(probs) > 0 {
			r.Bad(rule, key, fn, pos, inst, strings.Join(probs, "; "))
		} else {
			r.OK(rule, key, fn, pos, inst, "size test dominates the write; its refusing branch returns an error; compression precedes it")
			sendFn = f
		}
	}
	if len(writes) != 1 {
		r.Bad(rule, "C12.R2|single-writer", "", "", "exactly one function writes frames to pooled links", fmt.Sprintf("%d write sites found", len(writes)))
	} else {
		r.OK(rule, "C12.R2|single-writer", fname(writes[0].Parent()), p.Pos(writes[0].Pos()), "exactly one function writes frames to pooled links", "1 site")
	}
	// every frame builder ends in send
	if sendFn == nil {
		return
	}
	rule2 := "C12.R2b builders-end-in-send"
	r.Floor(rule2, 15)
	lc, writers, _, _ := protoLayouts(p)
	_ = lc
	done := map[string]bool{}
	for _, w := range writers {
		if done[w.fn] || w.konst == "protoMessageZ" {
			continue
		}
		done[w.fn] = true
		f := p.Func("net/proto", "connection", w.fn)
		if f == nil {
			continue
		}
		key := "C12.R2b|" + w.fn
		// every return with nil error... : every path from the B[7] store to a return passes a call of send (or returns an error)
		calls := 0
		eachInstr(f, func(in ssa.Instruction) {
			if cc := callCommon(in); cc != nil && staticCallee(cc) == sendFn {
				calls++
			}
		})
		if calls == 0 {
			r.Bad(rule2, key, fname(f), p.Pos(f.Pos()), "frame builder hands its frame to send", "the function builds a frame but never calls send")
		} else {
			r.OK(rule2, key, fname(f), p.Pos(f.Pos()), "frame builder hands its frame to send", fmt.Sprintf("%d call(s) of send", calls))
		}
	}
}

// ---------------------------------------------------------------------------------
// R3: ownership typestate for receive buffers

func c12Release(p *load.Program, r *core.Report) {
	rule := "C12.R3 no-use-after-release"
	r.Floor(rule, 20)
	for _, f := range funcsOfPkgs(p, "net/proto") {
		var rels []ssa.Instruction
		eachInstr(f, func(in ssa.Instruction) {
			if cc := callCommon(in); cc != nil && isPkgFunc(cc, load.Module+"/lib", "ReleaseBuffer") {
				rels = append(rels, in)
			}
		})
		if len(rels) == 0 {
			continue
		}
		fn := fname(f)
		for i, rel := range rels {
			buf := callCommon(rel).Args[0]
			key := fmt.Sprintf("C12.R3|%s|release#%d", fn, i+1)
			pos := p.Pos(rel.Pos())
			inst := "after ReleaseBuffer the same buffer object is neither read nor released again on any path"
			// uses of the same SSA value reachable after the release (the value is immutable in SSA:
			// a reassignment `buf = x` creates another value, loop-carried phis are other values)
			uses := walkAvoid([]Point{after(rel)}, nil, func(in ssa.Instruction) bool {
				if in == rel {
					return false
				}
				for _, op := range in.Operands(nil) {
					if *op == buf {
						if _, isPhi := in.(*ssa.Phi); isPhi {
							return false
						}
						if _, isDbg := in.(*ssa.DebugRef); isDbg {
							return false
						}
						return true
					}
				}
				return false
			})
			// a use in a loop header reached again through the back edge is a fresh pop only if buf is
			// redefined per iteration: buf defined inside the loop body dominates its uses, and re-execution
			// of the definition yields a new object. Filter uses that are not dominated by the release AND
			// whose path from the release passes through buf's definition.
			var real []ssa.Instruction
			def, _ := buf.(ssa.Instruction)
			for _, u := range uses {
				if def != nil {
					// is there a path release -> u that avoids the definition of buf?
					hit := reaches([]Point{after(rel)}, func(in ssa.Instruction) bool { return in == def }, func(in ssa.Instruction) bool { return in == u })
					if hit == nil {
						continue
					}
				}
				real = append(real, u)
			}
			if len(real) > 0 {
				var where []string
				for _, u := range real {
					where = append(where, p.Pos(u.Pos()))
				}
				r.Bad(rule, key, fn, pos, inst, "the released buffer is used again at "+strings.Join(uniq(where), ", ")+": the pool may already have handed it to another frame (wrong reference/addressee or double free)")
			} else {
				r.OK(rule, key, fn, pos, inst, "no use of the released object is reachable without redefinition")
			}
		}
	}
}

// ---------------------------------------------------------------------------------
// R4: acknowledgement of important messages

func c12Ack(p *load.Program, r *core.Report) {
	rule := "C12.R4 important-ack"
	r.Floor(rule, 6)
	f := p.Func("net/proto", "connection", "handleRecvQueue")
	if f == nil {
		// find by semantic: the function containing the frame switch
		_, _, _, fn := protoLayouts(p)
		f = p.Func("net/proto", "connection", fn)
	}
	if f == nil {
		r.Unk(rule, "C12.R4|fn", "", "", "frame handler found", "not found")
		return
	}
	n := 0
	eachInstr(f, func(in ssa.Instruction) {
		cc := callCommon(in)
		if cc == nil {
			return
		}
		sf := staticCallee(cc)
		if sf == nil || sf.Name() != "SendResponseError" {
			return
		}
		n++
		key := fmt.Sprintf("C12.R4|%s|ack#%d", fname(f), n)
		pos := p.Pos(in.Pos())
		inst := "the delivery acknowledgement carries the error of the Route* call of this frame, is addressed to this frame's sender and carries this frame's reference"
		// args: recv, from, to, options, err
		errArg := cc.Args[len(cc.Args)-1]
		toArg := cc.Args[2]
		var probs []string
		// err: result of a call on c.core (Route*) — through phi/extract
		eo := reasonOrigin(errArg, 0)
		if !strings.HasPrefix(eo, "call:Route") {
			probs = append(probs, "the error sent back is not the result of the Route* call ("+eo+")")
		} else {
			// that Route call's `from` argument is the same value as the ack's `to`
			var rc *ssa.Call
			switch x := errArg.(type) {
			case *ssa.Call:
				rc = x
			case *ssa.Extract:
				rc, _ = x.Tuple.(*ssa.Call)
			}
			if rc != nil {
				rcc := rc.Common()
				var args []ssa.Value
				if rcc.IsInvoke() {
					args = rcc.Args
				} else {
					args = rcc.Args[1:]
				}
				if len(args) > 0 && !sameStructValue(args[0], toArg) {
					probs = append(probs, "the acknowledgement is not addressed to the sender given to the Route* call")
				}
				if !instrDominates(rc, in) {
					probs = append(probs, "the Route* call does not dominate the acknowledgement")
				}
			}
		}
		if len(probs) > 0 {
			r.Bad(rule, key, fname(f), pos, inst, strings.Join(probs, "; "))
		} else {
			r.OK(rule, key, fname(f), pos, inst, "error origin "+eo+"; addressee is the Route* call's sender")
		}
	})
}

// sameStructValue: both are loads of the same local cell, or the same SSA value.
func sameStructValue(a, b ssa.Value) bool {
	if a == b {
		return true
	}
	la, ok1 := a.(*ssa.UnOp)
	lb, ok2 := b.(*ssa.UnOp)
	if ok1 && ok2 && la.Op == token.MUL && lb.Op == token.MUL && la.X == lb.X {
		return true
	}
	return false
}

// ---------------------------------------------------------------------------------
// R6: one frame per read

func c12Cut(p *load.Program, r *core.Report) {
	rule := "C12.R6 frame-cut"
	r.Floor(rule, 1)
	f := p.Func("net/proto", "connection", "read")
	if f == nil {
		r.Unk(rule, "C12.R6|fn", "", "", "frame cutter found", "(*connection).read not found")
		return
	}
	// l := int(Uint32(buf.B[2:6])); ... tail.Append(buf.B[l:total]) / buf.B = buf.B[:l]
	var lenVals []ssa.Value
	eachInstr(f, func(in ssa.Instruction) {
		if c, ok := in.(*ssa.Call); ok {
			if sf := staticCallee(c.Common()); sf != nil && sf.Name() == "Uint32" {
				lenVals = append(lenVals, c)
			}
		}
	})
	key := "C12.R6|" + fname(f)
	if len(lenVals) == 0 {
		r.Unk(rule, key, fname(f), p.Pos(f.Pos()), "declared frame length is read", "no Uint32 read of the length field")
		return
	}
	// slices of buf.B whose bounds derive from the declared length: low bound of the tail == high bound of the frame
	derives := func(v ssa.Value) bool {
		v = strip(v)
		for _, l := range lenVals {
			if v == l || strip(v) == ssa.Value(l) {
				return true
			}
			if c, ok := v.(*ssa.Convert); ok && c.X == l {
				return true
			}
		}
		return false
	}
	var lows, highs int
	eachInstr(f, func(in ssa.Instruction) {
		sl, ok := in.(*ssa.Slice)
		if !ok {
			return
		}
		if sl.Low != nil && derivesConv(sl.Low, derives) {
			lows++
		}
		if sl.High != nil && derivesConv(sl.High, derives) {
			highs++
		}
	})
	inst := "the tail is cut at exactly the declared length and the frame keeps exactly the declared length"
	if lows >= 1 && highs >= 1 {
		r.OK(rule, key, fname(f), p.Pos(f.Pos()), inst, fmt.Sprintf("%d slice(s) start at the declared length (tail), %d end at it (frame)", lows, highs))
	} else {
		r.Bad(rule, key, fname(f), p.Pos(f.Pos()), inst, fmt.Sprintf("tail slices starting at the declared length: %d, frame slices ending at it: %d — frame and tail are not cut at the same position", lows, highs))
	}
}

func derivesConv(v ssa.Value, derives func(ssa.Value) bool) bool {
	if derives(v) {
		return true
	}
	if c, ok := v.(*ssa.Convert); ok {
		return derives(c.X)
	}
	return false
}

var _ = types.Typ

// c12MappedNameCached: R12 — a frame names its addressee either by text or by the id the atom has in
// the connection's atom cache; both must denote the SAME atom: the name after the connection's atom
// mapping was applied. In every frame writer that applies the mapping to a name, the key of the
// atom-cache lookup is the mapped name (the value that merges the original and the mapped atom), as
// is the text that is written. A lookup with the unmapped name sends the id of another atom: the
// peer hands the request to the process registered under the unmapped name.
func c12MappedNameCached(p *load.Program, r *core.Report) {
	rule := "C12.R12 cached-id-of-the-mapped-name"
	r.Floor(rule, 5)
	for _, f := range funcsOfPkgs(p, "net/proto") {
		if f.Parent() != nil {
			continue
		}
		// mapped names: phis that merge a raw atom with the (type-asserted) result of AtomMapping.Load
		mapLoads := map[ssa.Value]bool{} // results v of AtomMapping.Load
		var cacheLoads []*ssa.Call
		eachInstr(f, func(in ssa.Instruction) {
			c, ok := in.(*ssa.Call)
			if !ok {
				return
			}
			if m, okm := syncMapCall(c.Common()); !okm || m != "Load" {
				return
			}
			_, path, okp := fieldPath(c.Common().Args[0])
			if !okp || len(path) == 0 {
				return
			}
			switch path[len(path)-1] {
			case "AtomMapping":
				mapLoads[c] = true
			case "AtomCache":
				cacheLoads = append(cacheLoads, c)
			}
		})
		if len(mapLoads) == 0 || len(cacheLoads) == 0 {
			continue
		}
		fromMapping := func(v ssa.Value) bool {
			// v = typeassert(extract(load, 0))
			if ta, ok := v.(*ssa.TypeAssert); ok {
				v = ta.X
			}
			if ex, ok := v.(*ssa.Extract); ok {
				return mapLoads[ex.Tuple]
			}
			return false
		}
		var mapped []*ssa.Phi
		eachInstr(f, func(in ssa.Instruction) {
			ph, ok := in.(*ssa.Phi)
			if !ok {
				return
			}
			for _, e := range ph.Edges {
				if fromMapping(e) {
					mapped = append(mapped, ph)
					return
				}
			}
		})
		derivesFromMapped := func(v ssa.Value) bool {
			v = stripIface(v)
			seen := map[ssa.Value]bool{}
			var w func(x ssa.Value) bool
			w = func(x ssa.Value) bool {
				if seen[x] {
					return false
				}
				seen[x] = true
				for _, m := range mapped {
					if x == ssa.Value(m) {
						return true
					}
				}
				if ph, ok := x.(*ssa.Phi); ok {
					for _, e := range ph.Edges {
						if w(e) {
							return true
						}
					}
				}
				return false
			}
			return w(v)
		}
		for i, c := range cacheLoads {
			fn := fname(f)
			key := fmt.Sprintf("C12.R12|%s|cache-lookup#%d", fn, i+1)
			inst := "the atom-cache id written into the frame is the id of the name after atom mapping"
			k := c.Common().Args[1]
			// which raw atom does this lookup concern? only lookups of a name that has a mapped version
			raw := stripIface(k)
			concerns := derivesFromMapped(k)
			if !concerns {
				for _, m := range mapped {
					for _, e := range m.Edges {
						if sameTypeValue(e, raw) {
							concerns = true
						}
					}
				}
				if !concerns {
					continue // a lookup of some other atom (no mapping is applied to it in this writer)
				}
				r.Bad(rule, key, fn, p.Pos(c.Pos()), inst, "the lookup uses the unmapped name although the writer maps it: the frame carries the cache id of another atom and the peer addresses the process registered under the unmapped name")
				continue
			}
			r.OK(rule, key, fn, p.Pos(c.Pos()), inst, "key is the mapped name")
		}
	}
}

// c12FlushArmed: R11 — the link writer buffers what it is given and flushes on a timer. Every
// successful return of its Write either found a flush already pending or has armed the timer:
// otherwise the bytes stay in the buffer until some later frame goes over the same link ("sent"
// messages that are not delivered).
func c12FlushArmed(p *load.Program, r *core.Report) {
	rule := "C12.R11 buffered-bytes-get-flushed"
	r.Floor(rule, 1)
	f := p.Func("lib", "flusher", "Write")
	if f == nil {
		r.Unk(rule, "C12.R11|flusher.Write", "", "", "the link writer is found", "lib.(*flusher).Write not found")
		return
	}
	fn := fname(f)
	key := "C12.R11|" + fn
	inst := "after bytes were handed to the buffered writer, a successful return has a flush pending or arms the timer"
	var pendingTrue []Edge
	eachInstr(f, func(in ssa.Instruction) {
		ld, ok := in.(*ssa.UnOp)
		if !ok || ld.Op != token.MUL {
			return
		}
		if _, fl := fieldOwner(ld.X); fl == "pending" {
			t, _, _ := boolEdges(ld)
			pendingTrue = append(pendingTrue, t...)
		}
	})
	isArm := func(in ssa.Instruction) bool {
		cc := callCommon(in)
		if cc == nil {
			return false
		}
		sf := staticCallee(cc)
		return sf != nil && sf.Name() == "Reset" && sf.Pkg != nil && sf.Pkg.Pkg.Path() == "time"
	}
	var writes []ssa.Instruction
	eachInstr(f, func(in ssa.Instruction) {
		cc := callCommon(in)
		if cc == nil {
			return
		}
		if sf := staticCallee(cc); sf != nil && sf.Name() == "Write" && sf.Pkg != nil && sf.Pkg.Pkg.Path() == "bufio" {
			writes = append(writes, in)
		}
	})
	if len(writes) == 0 {
		r.Unk(rule, key, fn, p.Pos(f.Pos()), inst, "no write into a bufio.Writer found")
		return
	}
	idx := errResultIndex(f)
	var bad []string
	for _, w := range writes {
		// stop at: arming the timer, or passing the pending-true edge
		starts := []Point{after(w)}
		seen := map[*ssa.BasicBlock]bool{}
		var walk func(pt Point)
		walk = func(pt Point) {
			b := pt.B
			if pt.I == 0 {
				if seen[b] {
					return
				}
				seen[b] = true
			}
			for i := pt.I; i < len(b.Instrs); i++ {
				x := b.Instrs[i]
				if isArm(x) {
					return
				}
				if rt, ok := x.(*ssa.Return); ok {
					if idx >= 0 && errKind(rt.Results[idx]) == "nil" {
						bad = append(bad, p.Pos(rt.Pos()))
					}
					return
				}
			}
			for i, s := range b.Succs {
				skip := false
				for _, e := range pendingTrue {
					if e.From == b && e.Idx == i {
						skip = true
					}
				}
				if !skip {
					walk(Point{s, 0})
				}
			}
		}
		for _, s := range starts {
			walk(s)
		}
	}
	if len(bad) > 0 {
		r.Bad(rule, key, fn, p.Pos(f.Pos()), inst, "success is returned at "+strings.Join(uniq(bad), ", ")+" on a path that neither saw a pending flush nor armed the timer: what was copied into the buffer (a frame of exactly the buffer's size is copied, not passed through) stays there until another frame is sent over this link")
	} else {
		r.OK(rule, key, fn, p.Pos(f.Pos()), inst, fmt.Sprintf("%d buffered write(s); every successful return is behind 'pending' or timer.Reset", len(writes)))
	}
}

// c12WriterGoesWithLink: R13 — a pool item pairs a TCP link with the writer that wraps it. Wherever
// an item's link is (re)assigned, its writer is assigned in the same straight-line code to a new
// flusher of that very link.
func c12WriterGoesWithLink(p *load.Program, r *core.Report) {
	rule := "C12.R13 pool-item-writer-wraps-its-link"
	r.Floor(rule, 2)
	seq := map[string]int{}
	for _, f := range funcsOfPkgs(p, "net/proto") {
		eachInstr(f, func(in ssa.Instruction) {
			st, ok := in.(*ssa.Store)
			if !ok {
				return
			}
			own, fl := fieldOwner(st.Addr)
			if own == nil || own.Obj().Name() != "pool_item" || fl != "connection" {
				return
			}
			base, _, _ := fieldPath(st.Addr)
			fn := fname(f)
			seq[fn]++
			key := fmt.Sprintf("C12.R13|%s|link#%d", fn, seq[fn])
			inst := "the pool item's writer is renewed together with its link"
			ok2 := false
			for _, x := range in.Block().Instrs {
				s2, isSt := x.(*ssa.Store)
				if !isSt {
					continue
				}
				o2, f2 := fieldOwner(s2.Addr)
				b2, _, _ := fieldPath(s2.Addr)
				if o2 != own || f2 != "fl" || canon(b2) != canon(base) {
					continue
				}
				if c, isCall := s2.Val.(*ssa.Call); isCall {
					if sf := staticCallee(c.Common()); sf != nil && strings.HasPrefix(sf.Name(), "NewFlusher") && len(c.Common().Args) > 0 {
						unwrap := func(v ssa.Value) ssa.Value {
							for i := 0; i < 4; i++ {
								switch x := v.(type) {
								case *ssa.MakeInterface:
									v = x.X
								case *ssa.ChangeInterface:
									v = x.X
								}
							}
							return canon(v)
						}
						if unwrap(c.Common().Args[0]) == unwrap(st.Val) {
							ok2 = true
						}
					}
				}
			}
			if ok2 {
				r.OK(rule, key, fn, p.Pos(in.Pos()), inst, "fl = NewFlusher(the same link) next to it")
			} else {
				r.Bad(rule, key, fn, p.Pos(in.Pos()), inst, "the link is replaced but the writer still wraps the previous one: after a re-dial every frame routed to this pool item is written to a closed socket and lost, while the send reports success")
			}
		})
	}
}
