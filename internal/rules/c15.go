package rules

import (
	"fmt"
	"go/ast"
	"go/constant"
	"go/token"
	"go/types"
	"sort"
	"strings"

	"golang.org/x/tools/go/ssa"

	"verif/internal/core"
	"verif/internal/load"
)

func init() {
	Registry["C15"] = Set{
		Explanation: "Decides structural clauses of remote access control: H1 in every handshake role (Start, Accept incl. its Join branch, Join) each success return is dominated by a digest comparison whose mismatch edge fails and whose expected value depends both on the cookie and on a nonce generated locally in this invocation (value provenance through the hash object's Write/Sum state and fmt.Sprintf arguments) — a comparison without a local nonce accepts a replayed transcript; H2 the effective cookie reaches the handshake: the Cookie of the options passed to Accept/Start/Join may-flow (field-based heap flow) from the acceptor's / route's own cookie option and from the node cookie as fallback; H3 the Peer* fields of the handshake result originate from the peer's decoded Introduce and the Node* fields from the local options, field for field, in both roles, and the dialler compares the introduced name with the name it dialled; H4 NetworkFlags.MarshalEDF/UnmarshalEDF use the same bit for each field; H5 a remote spawn / application start is served only after the permission lookup for (name, authenticated peer name) succeeded, and both ends test the corresponding flag before sending/serving; H6 the requester's environment is copied into a request bound for another node only under the corresponding ExposeEnv* security option. Added while probing: H1 counts the cookie only as a direct input of the compared digest (a digest of the cookie that was sent to the peer is public). H2b the node cookie overwrites an endpoint's own cookie only on the edge that found it empty; H5 the capability flags are evaluated path-sensitively (effect unreachable under {Enable, !capability}, reachable under {Enable, capability}), the permission check is made in the name of the connection's peer, and Enable*/Disable* record true/false for each named node (sibling agreement of the four table writers). H1 also: a message carrying a digest of (peer-chosen input, cookie) is written only behind the match edge of a cookie-dependent digest check of that peer (no digest oracle for an unauthenticated peer). H7 the flags given to handshake.Accept may-flow from the acceptor's own flags and from the node's configured flags; H7b in the loop over explicitly configured acceptors every option that has a node-level counterpart (Flags, MaxMessageSize) is completed from the node's options (shape-dependent: moving the defaulting elsewhere needs the rule to follow). H8 the connection constructor refuses a handshake result whose PeerCreation is zero (the result of a Join, which has no Hello/Introduce exchange and can be replayed) before it builds the connection. H9 a new entry of the spawn / application-start allow-lists is complete when LoadOrStore publishes it: no field store and no map insertion into it (or into a merge of it with the entry found) is reachable after the publication — an empty node list means 'any node', so an entry published empty and restricted afterwards lets any node through in between.",
		NotDecided: []string{
			"cryptographic strength of the digest construction, TLS",
			"enable/disable histories of the permission tables at run time (decided: the lookup dominates the effect, is made for the peer's name, Enable* records true and Disable* records false)",
		},
		Assumptions: []string{"sha256 is collision resistant; lib.RandomString yields fresh values", "the peer name given to the permission lookup is the connection's authenticated peer (checked: it is the field the handshake result filled)"},
		Run:         runC15,
	}
}

func runC15(p *load.Program, r *core.Report) {
	c15Auth(p, r)
	c15CookieFlow(p, r)
	c15FlagsFlow(p, r)
	c15AcceptorDefaults(p, r)
	c15Result(p, r)
	c15Flags(p, r)
	c15Permissions(p, r)
	c15CookieOverride(p, r)
	c15Env(p, r)
	c15NoConnectionFromJoin(p, r)
	initBeforePublish(p, r, "C15.H9 allow-list-entry-complete-when-published", "C15.H9", 2, []string{"node"}, func(t string) bool { return t == "enableSpawn" || t == "enableAppStart" })
}

// provenance tags of a value: "cookie", "nonce", "peer", "local"
func provTags(v ssa.Value) map[string]bool {
	tags := map[string]bool{}
	type seenKey struct {
		v    ssa.Value
		deep bool
	}
	seen := map[seenKey]bool{}
	// hdepth counts the digests between the value examined and the tag source: the cookie counts
	// only as a direct input of the compared digest (hdepth <= 1) — a digest of the cookie that was
	// itself sent to the peer is public, so hashing it again proves nothing about knowing the cookie.
	hdepth := 0
	var rec func(v ssa.Value, d int)
	recStoresTo := func(cell ssa.Value, fn *ssa.Function, d int) {
		for _, g := range family(root(fn)) {
			eachInstr(g, func(in ssa.Instruction) {
				st, ok := in.(*ssa.Store)
				if !ok {
					return
				}
				a := st.Addr
				// direct store, or store into a field / element of the cell
				for i := 0; i < 4; i++ {
					if canonCell(a) == cell {
						rec(st.Val, d+1)
						return
					}
					switch x := a.(type) {
					case *ssa.FieldAddr:
						a = x.X
					case *ssa.IndexAddr:
						a = x.X
					default:
						return
					}
				}
			})
		}
	}
	rec = func(v ssa.Value, d int) {
		if v == nil || seen[seenKey{v, hdepth > 1}] || d > 40 {
			return
		}
		seen[seenKey{v, hdepth > 1}] = true
		switch x := v.(type) {
		case *ssa.Call:
			cc := x.Common()
			if sf := staticCallee(cc); sf != nil && sf.Name() == "RandomString" {
				tags["nonce"] = true
				return
			}
			if cc.IsInvoke() {
				rec(cc.Value, d+1)
				// object state: Sum depends on every Write on the same receiver
				if cc.Method.Name() == "Sum" {
					fn := x.Parent()
					hdepth++
					eachInstr(fn, func(in ssa.Instruction) {
						c2 := callCommon(in)
						if c2 != nil && c2.IsInvoke() && c2.Method.Name() == "Write" && c2.Value == cc.Value {
							for _, a := range c2.Args {
								rec(a, d+1)
							}
						}
					})
					hdepth--
				}
			}
			for _, a := range cc.Args {
				rec(a, d+1)
			}
		case *ssa.Convert:
			rec(x.X, d+1)
		case *ssa.ChangeType:
			rec(x.X, d+1)
		case *ssa.MakeInterface:
			rec(x.X, d+1)
		case *ssa.Extract:
			rec(x.Tuple, d+1)
		case *ssa.Phi:
			for _, e := range x.Edges {
				rec(e, d+1)
			}
		case *ssa.Slice:
			// variadic argument array
			if al, ok := x.X.(*ssa.Alloc); ok {
				recStoresTo(al, x.Parent(), d)
			} else {
				rec(x.X, d+1)
			}
		case *ssa.TypeAssert:
			tags["peer"] = true
		case *ssa.Field:
			_, path, _ := fieldPath(x)
			if len(path) > 0 && path[len(path)-1] == "Cookie" && hdepth <= 1 {
				tags["cookie"] = true
			}
			rec(x.X, d+1)
		case *ssa.UnOp:
			if x.Op != token.MUL {
				rec(x.X, d+1)
				return
			}
			_, path, _ := fieldPath(x)
			if len(path) > 0 && path[len(path)-1] == "Cookie" && hdepth <= 1 {
				tags["cookie"] = true
			}
			// load from a cell or from a field of a cell
			a := x.X
			for i := 0; i < 4; i++ {
				c := canonCell(a)
				if al, ok := c.(*ssa.Alloc); ok {
					recStoresTo(al, x.Parent(), d)
					return
				}
				if par, ok := c.(*ssa.Parameter); ok {
					if namedOf(par.Type()) == "gen.HandshakeOptions" {
						tags["local"] = true
					}
					return
				}
				switch y := a.(type) {
				case *ssa.FieldAddr:
					a = y.X
				case *ssa.IndexAddr:
					a = y.X
				default:
					return
				}
			}
		case *ssa.Parameter:
			tags["param:"+x.Name()] = true
		}
	}
	rec(v, 0)
	return tags
}

type digestCmp struct {
	in      *ssa.BinOp
	match   []Edge // edges on which the digests are equal
	tags    map[string]bool
	peerFld string
}

// findDigestCmps: string comparisons where one side is a field named Digest*/... of a decoded
// message and the other side is computed (Sprintf of a hash sum).
func findDigestCmps(f *ssa.Function) []digestCmp {
	var out []digestCmp
	eachInstr(f, func(in ssa.Instruction) {
		b, ok := in.(*ssa.BinOp)
		if !ok || (b.Op != token.NEQ && b.Op != token.EQL) {
			return
		}
		if bt, ok := b.X.Type().Underlying().(*types.Basic); !ok || bt.Kind() != types.String {
			return
		}
		for _, pr := range [][2]ssa.Value{{b.X, b.Y}, {b.Y, b.X}} {
			_, path, okp := fieldPath(pr[0])
			if !okp || len(path) == 0 || !strings.HasPrefix(path[len(path)-1], "Digest") {
				continue
			}
			if _, isCall := pr[1].(*ssa.Call); !isCall {
				continue
			}
			t, fl, _ := boolEdges(b)
			match := t
			if b.Op == token.NEQ {
				match = fl
			}
			out = append(out, digestCmp{in: b, match: match, tags: provTags(pr[1]), peerFld: path[len(path)-1]})
		}
	})
	return out
}

type fld struct {
	owner string
	name  string
}

// fieldClosure: backward closure from a value over field-based heap flow: the set of struct fields it may come from.
func fieldClosure(p *load.Program, start ssa.Value) map[fld]bool {
		fields := map[fld]bool{}
		seenV := map[ssa.Value]bool{}
		var work []ssa.Value
		work = append(work, start)
		addField := func(owner *types.Named, name string) {
			if owner == nil {
				return
			}
			k := fld{namedOf(owner), name}
			if fields[k] {
				return
			}
			fields[k] = true
			// all stores to that field anywhere in the module
			for _, f := range p.SrcFuncs {
				eachInstr(f, func(in ssa.Instruction) {
					if st, ok := in.(*ssa.Store); ok {
						if o2, n2 := fieldOwner(st.Addr); o2 == owner && n2 == name {
							work = append(work, st.Val)
						}
					}
				})
			}
		}
		for len(work) > 0 {
			v := work[len(work)-1]
			work = work[:len(work)-1]
			if v == nil || seenV[v] {
				continue
			}
			seenV[v] = true
			switch x := v.(type) {
			case *ssa.UnOp:
				if x.Op == token.MUL {
					if fa, ok := x.X.(*ssa.FieldAddr); ok {
						o, n := fieldOwner(fa)
						addField(o, n)
						// local struct cell: also its direct stores in this function
						if al, ok := canonCell(fa.X).(*ssa.Alloc); ok {
							eachInstr(x.Parent(), func(in ssa.Instruction) {
								if st, ok := in.(*ssa.Store); ok {
									if fa2, ok := st.Addr.(*ssa.FieldAddr); ok && canonCell(fa2.X) == ssa.Value(al) && fa2.Field == fa.Field {
										work = append(work, st.Val)
									}
								}
							})
						}
					} else if al, ok := canonCell(x.X).(*ssa.Alloc); ok {
						for _, g := range family(root(x.Parent())) {
							eachInstr(g, func(in ssa.Instruction) {
								if st, ok := in.(*ssa.Store); ok && canonCell(st.Addr) == ssa.Value(al) {
									work = append(work, st.Val)
								}
							})
						}
					}
				}
			case *ssa.Field:
				if n, ok := x.X.Type().(*types.Named); ok {
					st := n.Underlying().(*types.Struct)
					addField(n, st.Field(x.Field).Name())
				}
				work = append(work, x.X)
			case *ssa.Phi:
				work = append(work, x.Edges...)
			case *ssa.Convert:
				work = append(work, x.X)
			case *ssa.ChangeType:
				work = append(work, x.X)
			case *ssa.FreeVar:
				if b := resolveFreeVar(x); b != nil {
					work = append(work, b)
				}
			}
		}
		return fields
}

// c15Auth: H1
func c15Auth(p *load.Program, r *core.Report) {
	rule := "C15.H1 authentication-dominates-success"
	r.Floor(rule, 14)
	for _, name := range []string{"Start", "Accept", "Join"} {
		f := p.Func("net/handshake", "handshake", name)
		if f == nil {
			r.Unk(rule, "C15.H1|"+name, "", "", "handshake role "+name+" found", "not found")
			continue
		}
		fn := fname(f)
		cmps := findDigestCmps(f)
		errIdx := errResultIndex(f)
		n := 0
		eachInstr(f, func(in ssa.Instruction) {
			ret, ok := in.(*ssa.Return)
			if !ok || errKind(ret.Results[errIdx]) != "nil" {
				return
			}
			n++
			key := fmt.Sprintf("C15.H1|%s|success#%d", fn, n)
			inst := "a successful return of the handshake is dominated by a digest check that needs the cookie and a nonce minted in this invocation"
			var dom []digestCmp
			for _, c := range cmps {
				if len(c.match) > 0 && edgesDominate(c.match, ret) {
					dom = append(dom, c)
				}
			}
			if len(dom) == 0 {
				r.Bad(rule, key, fn, p.Pos(ret.Pos()), inst, "no digest comparison dominates this success return: the peer is accepted without proving knowledge of the cookie")
				return
			}
			var descr []string
			strong := false
			anyCookie := false
			for _, c := range dom {
				var ts []string
				for t := range c.tags {
					if !strings.HasPrefix(t, "param:") {
						ts = append(ts, t)
					}
				}
				sort.Strings(ts)
				descr = append(descr, fmt.Sprintf("%s@%s{%s}", c.peerFld, p.Pos(c.in.Pos()), strings.Join(ts, ",")))
				if c.tags["cookie"] {
					anyCookie = true
				}
				if c.tags["cookie"] && c.tags["nonce"] {
					strong = true
				}
			}
			switch {
			case !anyCookie:
				r.Bad(rule, key, fn, p.Pos(ret.Pos()), inst, "the expected digests do not depend on the cookie: "+strings.Join(descr, "; "))
			case !strong:
				r.Bad(rule, key, fn, p.Pos(ret.Pos()), inst, "the only digest checks on this path depend on the cookie and on values chosen by the peer, not on a nonce generated locally in this invocation: a peer that does not know the cookie can replay a recorded message and is accepted ("+strings.Join(descr, "; ")+")")
			default:
				r.OK(rule, key, fn, p.Pos(ret.Pos()), inst, strings.Join(descr, "; "))
			}
		})
		// no oracle: a digest that mixes the cookie with input chosen by the peer is handed to the
		// peer only after the peer has passed a digest check of its own (otherwise a peer that does
		// not know the cookie obtains H(its salt : cookie) and uses it against a third node)
		nw := 0
		eachInstr(f, func(in ssa.Instruction) {
			cc := callCommon(in)
			if cc == nil || !callsNamed(in, "writeMessage") || len(cc.Args) < 2 {
				return
			}
			tags := provTags(cc.Args[len(cc.Args)-1])
			if !(tags["cookie"] && tags["peer"]) {
				return
			}
			nw++
			key := fmt.Sprintf("C15.H1|%s|answer#%d", fn, nw)
			inst := "a message carrying a digest of (peer-chosen input, cookie) is written only after the peer passed a digest check"
			ok := false
			for _, c := range cmps {
				if c.tags["cookie"] && len(c.match) > 0 && edgesDominate(c.match, in) {
					ok = true
				}
			}
			if ok {
				r.OK(rule, key, fn, p.Pos(in.Pos()), inst, "dominated by the match edge of a cookie-dependent digest comparison")
			} else {
				r.Bad(rule, key, fn, p.Pos(in.Pos()), inst, "the answer is sent before the peer was checked: this node computes H(salt chosen by the peer : cookie) for anyone who asks — a peer without the cookie relays a challenge it received elsewhere and completes that handshake with the answer")
			}
		})
		// every mismatch edge fails
		for i, c := range cmps {
			key := fmt.Sprintf("C15.H1|%s|mismatch#%d", fn, i+1)
			t, fl, _ := boolEdges(c.in)
			mis := fl
			if c.in.Op == token.NEQ {
				mis = t
			}
			var st []Point
			for _, e := range mis {
				st = append(st, Point{e.To(), 0})
			}
			bad := false
			for _, ret := range walkAvoid(st, nil, isReturn) {
				if errKind(ret.(*ssa.Return).Results[errIdx]) == "nil" {
					bad = true
				}
			}
			if bad || len(st) == 0 {
				r.Bad(rule, key, fn, p.Pos(c.in.Pos()), "a digest mismatch ends the handshake with an error", "the mismatch edge can reach a successful return")
			} else {
				r.OK(rule, key, fn, p.Pos(c.in.Pos()), "a digest mismatch ends the handshake with an error", "mismatch edge returns a non-nil error")
			}
		}
	}
}

// c15CookieFlow: H2 (field-based backward closure)
func c15CookieFlow(p *load.Program, r *core.Report) {
	rule := "C15.H2 effective-cookie-reaches-handshake"
	r.Floor(rule, 3)
	closure := func(start ssa.Value) map[fld]bool { return fieldClosure(p, start) }
	// sink: Cookie field of the options struct passed to NetworkHandshake.Accept/Start/Join
	for _, f := range funcsOfPkgs(p, "node") {
		eachInstr(f, func(in ssa.Instruction) {
			cc := callCommon(in)
			if cc == nil || !cc.IsInvoke() {
				return
			}
			m := cc.Method.Name()
			if m != "Accept" && m != "Start" && m != "Join" {
				return
			}
			if n, _ := cc.Value.Type().(*types.Named); n == nil || n.Obj().Name() != "NetworkHandshake" {
				return
			}
			// options argument: value of type gen.HandshakeOptions
			var opt ssa.Value
			for _, a := range cc.Args {
				if namedOf(a.Type()) == "gen.HandshakeOptions" {
					opt = a
				}
			}
			if opt == nil {
				return
			}
			fn := fname(f)
			key := "C15.H2|" + fn + "|" + m
			// the Cookie component of opt: opt is a load of a cell; closure from stores to its Cookie field
			ld, ok := opt.(*ssa.UnOp)
			if !ok {
				r.Unk(rule, key, fn, p.Pos(in.Pos()), "cookie passed to handshake."+m, "options argument is not a local struct")
				return
			}
			cell := canonCell(ld.X)
			fields := map[fld]bool{}
			for _, g := range family(root(f)) {
				eachInstr(g, func(in2 ssa.Instruction) {
					st, ok := in2.(*ssa.Store)
					if !ok {
						return
					}
					if fa, ok := st.Addr.(*ssa.FieldAddr); ok && canonCell(fa.X) == cell {
						if _, fl := fieldOwner(fa); fl == "Cookie" {
							for k := range closure(st.Val) {
								fields[k] = true
							}
						}
					}
				})
			}
			var fl []string
			for k := range fields {
				fl = append(fl, k.owner+"."+k.name)
			}
			sort.Strings(fl)
			want := "gen.NetworkRoute.Cookie"
			role := "route"
			if m == "Accept" {
				want, role = "gen.AcceptorOptions.Cookie", "acceptor"
			}
			inst := fmt.Sprintf("the cookie given to handshake.%s can be the %s's own cookie option and falls back to the node cookie", m, role)
			hasOwn := fields[fld{strings.SplitN(want, ".", 3)[0] + "." + strings.SplitN(want, ".", 3)[1], "Cookie"}]
			hasNode := false
			for k := range fields {
				if k.owner == "node.network" && k.name == "cookie" {
					hasNode = true
				}
			}
			switch {
			case !hasOwn:
				r.Bad(rule, key, fn, p.Pos(in.Pos()), inst, "no flow from "+want+" to the handshake's cookie (sources: "+strings.Join(fl, ", ")+"): a cookie configured for this "+role+" is ignored and the node cookie is accepted instead")
			case !hasNode:
				r.Bad(rule, key, fn, p.Pos(in.Pos()), inst, "no fallback to the node cookie (sources: "+strings.Join(fl, ", ")+")")
			default:
				r.OK(rule, key, fn, p.Pos(in.Pos()), inst, "sources: "+strings.Join(fl, ", "))
			}
		})
	}
}

// c15Result: H3
// c15CookieOverride: H2b — the node cookie is only a fallback. Wherever a function overwrites the
// Cookie field of a value that already got an endpoint-specific cookie in the same function (the
// acceptor's, the route's), the overwrite is on the edge on which that field was found empty.
func c15CookieOverride(p *load.Program, r *core.Report) {
	rule := "C15.H2b node-cookie-is-a-fallback"
	r.Floor(rule, 3)
	seq := map[string]int{}
	for _, f := range funcsOfPkgs(p, "node") {
		type st struct {
			in   *ssa.Store
			base ssa.Value
			node bool // value is the node's own cookie
		}
		var stores []st
		eachInstr(f, func(in ssa.Instruction) {
			s2, ok := in.(*ssa.Store)
			if !ok {
				return
			}
			fa, ok := s2.Addr.(*ssa.FieldAddr)
			if !ok {
				return
			}
			if _, fl := fieldOwner(fa); fl != "Cookie" && fl != "cookie" {
				return
			}
			isNode := false
			if b, path, okp := fieldPath(s2.Val); okp && len(path) > 0 && path[len(path)-1] == "cookie" {
				if namedOf(deref(b.Type())) == "node.network" {
					isNode = true
				}
			}
			stores = append(stores, st{s2, canonCell(fa.X), isNode})
		})
		for _, s1 := range stores {
			if !s1.node {
				continue
			}
			// is there another store to the same field of the same value that is not the node cookie?
			specific := false
			for _, s2 := range stores {
				if s2.in != s1.in && s2.base == s1.base && !s2.node {
					specific = true
				}
			}
			if !specific {
				continue
			}
			fn := fname(f)
			seq[fn]++
			key := fmt.Sprintf("C15.H2b|%s|fallback#%d", fn, seq[fn])
			inst := "the node cookie replaces an endpoint's own cookie only when that cookie is empty"
			guarded := false
			eachInstr(f, func(in ssa.Instruction) {
				b, ok := in.(*ssa.BinOp)
				if !ok || (b.Op != token.EQL && b.Op != token.NEQ) {
					return
				}
				c, okc := b.Y.(*ssa.Const)
				if !okc || c.Value == nil || c.Value.Kind() != constant.String || constant.StringVal(c.Value) != "" {
					return
				}
				ld, okl := b.X.(*ssa.UnOp)
				if !okl || ld.Op != token.MUL {
					return
				}
				fa, okf := ld.X.(*ssa.FieldAddr)
				if !okf || canonCell(fa.X) != s1.base {
					return
				}
				if _, fl := fieldOwner(fa); fl != "Cookie" && fl != "cookie" {
					return
				}
				t, fls, _ := boolEdges(b)
				empty := t
				if b.Op == token.NEQ {
					empty = fls
				}
				if len(empty) > 0 && edgesDominate(empty, s1.in) {
					guarded = true
				}
			})
			if guarded {
				r.OK(rule, key, fn, p.Pos(s1.in.Pos()), inst, "store dominated by the Cookie == \"\" edge")
			} else {
				r.Bad(rule, key, fn, p.Pos(s1.in.Pos()), inst, "the endpoint's own cookie is overwritten unconditionally: an acceptor (or route) configured with its own cookie authenticates with the node cookie instead")
			}
		}
	}
}

func deref(t types.Type) types.Type {
	if pt, ok := t.(*types.Pointer); ok {
		return pt.Elem()
	}
	return t
}

func c15Result(p *load.Program, r *core.Report) {
	rule := "C15.H3 result-agreement"
	r.Floor(rule, 3)
	want := map[string][2]string{ // result field -> (side, source field)
		"Peer": {"peer", "Node"}, "PeerVersion": {"peer", "Version"}, "PeerCreation": {"peer", "Creation"},
		"PeerFlags": {"peer", "Flags"}, "PeerMaxMessageSize": {"peer", "MaxMessageSize"},
		"NodeFlags": {"local", "Flags"}, "NodeMaxMessageSize": {"local", "MaxMessageSize"},
	}
	for _, name := range []string{"Start", "Accept"} {
		f := p.Func("net/handshake", "handshake", name)
		if f == nil {
			continue
		}
		fn := fname(f)
		key := "C15.H3|" + fn
		var probs []string
		seen := map[string]bool{}
		eachInstr(f, func(in ssa.Instruction) {
			st, ok := in.(*ssa.Store)
			if !ok {
				return
			}
			own, fl := fieldOwner(st.Addr)
			if own == nil || own.Obj().Name() != "HandshakeResult" {
				return
			}
			w, ok := want[fl]
			if !ok {
				return
			}
			// the Join branch of Accept fills Peer from the Join message (peer) as well
			base, path, okp := fieldPath(st.Val)
			if !okp || len(path) == 0 {
				probs = append(probs, "result."+fl+" is not copied from a message/options field")
				return
			}
			src := path[len(path)-1]
			side := "?"
			switch b := base.(type) {
			case *ssa.Parameter:
				if namedOf(b.Type()) == "gen.HandshakeOptions" {
					side = "local"
				}
			case *ssa.Extract:
				if _, ok := b.Tuple.(*ssa.TypeAssert); ok {
					side = "peer"
				}
			case *ssa.TypeAssert:
				side = "peer"
			case *ssa.Alloc:
				// spilled local: stored from a type assertion?
				for _, rf := range *b.Referrers() {
					if s2, ok := rf.(*ssa.Store); ok && s2.Addr == ssa.Value(b) {
						switch v := s2.Val.(type) {
						case *ssa.Extract:
							if _, ok := v.Tuple.(*ssa.TypeAssert); ok {
								side = "peer"
							}
						case *ssa.TypeAssert:
							side = "peer"
						case *ssa.Parameter:
							if namedOf(v.Type()) == "gen.HandshakeOptions" {
								side = "local"
							}
						}
					}
				}
				if side == "?" {
					side = "local-built"
				}
			}
			seen[fl] = true
			if side != w[0] {
				probs = append(probs, fmt.Sprintf("result.%s is taken from the %s side (%s.%s), expected the %s side", fl, side, base.Name(), src, w[0]))
			} else if src != w[1] {
				probs = append(probs, fmt.Sprintf("result.%s is copied from field %s, expected %s", fl, src, w[1]))
			}
		})
		for k := range want {
			if !seen[k] {
				probs = append(probs, "result."+k+" is never set")
			}
		}
		inst := "the handshake result carries the peer's introduced name/version/creation/flags/limit and the local flags/limit, field for field"
		if len(probs) > 0 {
			sort.Strings(probs)
			r.Bad(rule, key, fn, p.Pos(f.Pos()), inst, strings.Join(probs, "; "))
		} else {
			r.OK(rule, key, fn, p.Pos(f.Pos()), inst, "7 fields verified")
		}
	}
	// the dialler compares the introduced name with the dialled one
	for _, f := range funcsOfPkgs(p, "node") {
		var startCall ssa.Instruction
		eachInstr(f, func(in ssa.Instruction) {
			cc := callCommon(in)
			if cc != nil && cc.IsInvoke() && cc.Method.Name() == "Start" {
				if n, _ := cc.Value.Type().(*types.Named); n != nil && n.Obj().Name() == "NetworkHandshake" {
					startCall = in
				}
			}
		})
		if startCall == nil {
			continue
		}
		fn := fname(f)
		key := "C15.H3|" + fn + "|peer-name"
		ok := false
		eachInstr(f, func(in ssa.Instruction) {
			b, isB := in.(*ssa.BinOp)
			if !isB || (b.Op != token.NEQ && b.Op != token.EQL) {
				return
			}
			for _, pr := range [][2]ssa.Value{{b.X, b.Y}, {b.Y, b.X}} {
				_, path, okp := fieldPath(pr[0])
				if okp && len(path) > 0 && path[len(path)-1] == "Peer" {
					if _, isPar := canon(pr[1]).(*ssa.Parameter); isPar {
						// mismatch edge returns error
						t, fl, _ := boolEdges(b)
						mis := t
						if b.Op == token.EQL {
							mis = fl
						}
						good := len(mis) > 0
						for _, e := range mis {
							for _, ret := range walkAvoid([]Point{{e.To(), 0}}, nil, isReturn) {
								if errKind(ret.(*ssa.Return).Results[errResultIndex(f)]) == "nil" {
									good = false
								}
							}
						}
						if good && instrDominates(startCall, b) {
							ok = true
						}
					}
				}
			}
		})
		inst := "the dialler refuses a peer that introduces itself under another name than the one dialled"
		if ok {
			r.OK(rule, key, fn, p.Pos(startCall.Pos()), inst, "result.Peer compared with the requested name; mismatch returns an error")
		} else {
			r.Bad(rule, key, fn, p.Pos(startCall.Pos()), inst, "no comparison of the introduced name with the dialled name: any node that knows the cookie can impersonate the requested one")
		}
	}
}

// c15Flags: H4
func c15Flags(p *load.Program, r *core.Report) {
	rule := "C15.H4 flags-codec"
	r.Floor(rule, 1)
	pk := p.Pkg("gen")
	if pk == nil {
		return
	}
	info := pk.TypesInfo
	enc := map[string]int64{}
	dec := map[string]int64{}
	konst := func(e ast.Expr) (int64, bool) {
		if tv, ok := info.Types[e]; ok && tv.Value != nil {
			return constant.Int64Val(constant.ToInt(tv.Value))
		}
		return 0, false
	}
	fdM, _ := p.FuncDecl("gen", "NetworkFlags", "MarshalEDF")
	fdU, _ := p.FuncDecl("gen", "NetworkFlags", "UnmarshalEDF")
	if fdM == nil || fdU == nil {
		r.Unk(rule, "C15.H4|codec", "", "", "NetworkFlags codec found", "MarshalEDF/UnmarshalEDF not found")
		return
	}
	ast.Inspect(fdM.Body, func(n ast.Node) bool {
		ifs, ok := n.(*ast.IfStmt)
		if !ok {
			return true
		}
		// if nf.F == true { flags |= C }
		var fldName string
		if be, ok := ifs.Cond.(*ast.BinaryExpr); ok {
			if se, ok := be.X.(*ast.SelectorExpr); ok {
				fldName = se.Sel.Name
			}
		} else if se, ok := ifs.Cond.(*ast.SelectorExpr); ok {
			fldName = se.Sel.Name
		}
		if fldName == "" {
			return true
		}
		for _, s := range ifs.Body.List {
			if as, ok := s.(*ast.AssignStmt); ok && as.Tok == token.OR_ASSIGN {
				if c, ok := konst(as.Rhs[0]); ok {
					enc[fldName] = c
				}
			}
		}
		return true
	})
	// flags = 1 for Enable
	ast.Inspect(fdM.Body, func(n ast.Node) bool {
		if as, ok := n.(*ast.AssignStmt); ok && as.Tok == token.ASSIGN && len(as.Lhs) == 1 && types.ExprString(as.Lhs[0]) == "flags" {
			if c, ok := konst(as.Rhs[0]); ok {
				enc["Enable"] = c
			}
		}
		return true
	})
	ast.Inspect(fdU.Body, func(n ast.Node) bool {
		as, ok := n.(*ast.AssignStmt)
		if !ok || len(as.Lhs) != 1 || len(as.Rhs) != 1 {
			return true
		}
		se, ok := as.Lhs[0].(*ast.SelectorExpr)
		if !ok {
			return true
		}
		// (flags & C) > 0
		var c int64
		found := false
		ast.Inspect(as.Rhs[0], func(m ast.Node) bool {
			if be, ok := m.(*ast.BinaryExpr); ok && be.Op == token.AND {
				if v, ok := konst(be.Y); ok {
					c, found = v, true
				}
			}
			return true
		})
		if found {
			dec[se.Sel.Name] = c
		}
		return true
	})
	var probs []string
	st := p.Named("gen", "NetworkFlags").Underlying().(*types.Struct)
	used := map[int64]string{}
	for i := 0; i < st.NumFields(); i++ {
		fl := st.Field(i).Name()
		e, okE := enc[fl]
		d, okD := dec[fl]
		switch {
		case !okE || !okD:
			probs = append(probs, fmt.Sprintf("field %s is not carried by both directions (marshal: %v, unmarshal: %v)", fl, okE, okD))
		case e != d:
			probs = append(probs, fmt.Sprintf("field %s is written as bit %d and read as bit %d", fl, e, d))
		case e&(e-1) != 0:
			probs = append(probs, fmt.Sprintf("field %s uses mask %d which is not a single bit", fl, e))
		}
		if prev, dup := used[e]; dup && okE {
			probs = append(probs, fmt.Sprintf("fields %s and %s share bit %d", prev, fl, e))
		}
		if okE {
			used[e] = fl
		}
	}
	inst := "every NetworkFlags field is encoded and decoded with the same single bit"
	if len(probs) > 0 {
		r.Bad(rule, "C15.H4|NetworkFlags", "gen.NetworkFlags", p.Pos(fdM.Pos()), inst, strings.Join(probs, "; ")+": the two nodes disagree about what the peer allows")
	} else {
		r.OK(rule, "C15.H4|NetworkFlags", "gen.NetworkFlags", p.Pos(fdM.Pos()), inst, fmt.Sprintf("%d fields", st.NumFields()))
	}
}

// c15Permissions: H5
func c15Permissions(p *load.Program, r *core.Report) {
	rule := "C15.H5 permissions-dominate-effects"
	r.Floor(rule, 14)
	type spec struct {
		fn, lookup, effect, flag string
	}
	for _, s := range []spec{
		{"RouteSpawn", "getEnabledSpawn", "spawn", ""},
		{"RouteApplicationStart", "isEnabledApplicationStart", "start", ""},
	} {
		var f *ssa.Function
		for _, g := range funcsOfPkgs(p, "node") {
			if g.Parent() == nil && g.Name() == s.fn && g.Signature.Recv() != nil {
				f = g
			}
		}
		key := "C15.H5|" + s.fn
		inst := s.fn + ": the local " + s.effect + " is reached only after the permission lookup for (name, requesting node) succeeded"
		if f == nil {
			r.Unk(rule, key, "", "", inst, "function not found")
			continue
		}
		var lookup *ssa.Call
		var effect ssa.Instruction
		eachInstr(f, func(in ssa.Instruction) {
			cc := callCommon(in)
			if cc == nil {
				return
			}
			sf := staticCallee(cc)
			if sf == nil {
				return
			}
			if sf.Name() == s.lookup {
				lookup, _ = in.(*ssa.Call)
			}
			if sf.Name() == s.effect && sf.Signature.Recv() != nil {
				effect = in
			}
		})
		if lookup == nil || effect == nil {
			r.Bad(rule, key, fname(f), p.Pos(f.Pos()), inst, fmt.Sprintf("lookup found: %v, effect found: %v", lookup != nil, effect != nil))
			continue
		}
		// error result of the lookup: nil edge dominates the effect
		var errv ssa.Value = lookup
		if lookup.Type().(interface{ String() string }).String() != "error" {
			errv = tupleExtract(lookup, lookup.Common().Signature().Results().Len()-1)
		}
		isNil, _, _ := nilEdges(errv)
		// source argument is the function's `source` parameter
		srcOK := false
		for _, a := range lookup.Common().Args {
			if pa, ok := a.(*ssa.Parameter); ok && pa == lastParamOfKinds(f, "gen.Atom") {
				srcOK = true
			}
		}
		switch {
		case len(isNil) == 0 || !edgesDominate(isNil, effect):
			r.Bad(rule, key, fname(f), p.Pos(effect.Pos()), inst, "the "+s.effect+" is reachable without a successful permission lookup: any connected peer can "+s.effect+" anything registered")
		case !srcOK:
			r.Bad(rule, key, fname(f), p.Pos(lookup.Pos()), inst, "the permission lookup is not made with the requesting node's name")
		default:
			r.OK(rule, key, fname(f), p.Pos(effect.Pos()), inst, "nil-error edge of "+s.lookup+"(name, source) dominates the effect")
		}
	}
	// the lookup functions: not-allowed edge returns an error
	for _, name := range []string{"getEnabledSpawn", "isEnabledApplicationStart"} {
		f := p.Func("node", "network", name)
		key := "C15.H5|" + name
		inst := name + ": a node that is not in a non-empty allow list is refused"
		if f == nil {
			r.Unk(rule, key, "", "", inst, "not found")
			continue
		}
		// a map lookup keyed by the source parameter, whose false result leads to an error return
		ok := false
		eachInstr(f, func(in ssa.Instruction) {
			lk, isL := in.(*ssa.Lookup)
			if !isL {
				return
			}
			if pa, isP := lk.Index.(*ssa.Parameter); !isP || pa.Name() != "source" {
				return
			}
			ok = true
		})
		errIdx := errResultIndex(f)
		retErr := false
		eachInstr(f, func(in ssa.Instruction) {
			if ret, isR := in.(*ssa.Return); isR && reasonOrigin(ret.Results[errIdx], 0) == "global:ErrNotAllowed" {
				retErr = true
			}
		})
		if ok && retErr {
			r.OK(rule, key, fname(f), p.Pos(f.Pos()), inst, "allow list indexed by the source node; ErrNotAllowed returned")
		} else {
			r.Bad(rule, key, fname(f), p.Pos(f.Pos()), inst, fmt.Sprintf("lookup by source: %v, ErrNotAllowed returned: %v", ok, retErr))
		}
	}
	// flag tests in net/proto: sender side (RemoteSpawn, applicationStart) and server side (routeMessage)
	type flagSite struct {
		fn, flagField, side, what string
	}
	for _, fs := range []flagSite{
		{"RemoteSpawn", "EnableRemoteSpawn", "peer_flags", "request a remote spawn"},
		{"applicationStart", "EnableRemoteApplicationStart", "peer_flags", "request a remote application start"},
		{"routeMessage", "EnableRemoteSpawn", "node_flags", "serve a remote spawn"},
		{"routeMessage", "EnableRemoteApplicationStart", "node_flags", "serve a remote application start"},
	} {
		f := p.Func("net/proto", "connection", fs.fn)
		key := "C15.H5|" + fs.fn + "|" + fs.flagField
		inst := fs.fn + ": " + fs.what + " only when " + fs.side + "." + fs.flagField + " allows it"
		if f == nil {
			r.Unk(rule, key, "", "", inst, "function not found")
			continue
		}
		effectName := map[string][]string{"RemoteSpawn": {"sendAny"}, "applicationStart": {"sendAny"}, "routeMessage": {"RouteSpawn", "RouteApplicationStart"}}[fs.fn]
		want := effectName
		if fs.fn == "routeMessage" {
			if fs.flagField == "EnableRemoteSpawn" {
				want = []string{"RouteSpawn"}
			} else {
				want = []string{"RouteApplicationStart"}
			}
		}
		// path-sensitive: with the flag set customised (Enable) and the capability off, the effect is
		// unreachable; with the capability on it is reachable (the gate is not simply closed)
		leaf := func(v ssa.Value) string {
			switch v.(type) {
			case *ssa.UnOp, *ssa.Field:
			default:
				return ""
			}
			_, path, okp := fieldPath(v)
			if !okp || len(path) < 2 || path[len(path)-2] != fs.side {
				return ""
			}
			switch path[len(path)-1] {
			case "Enable":
				return "enable"
			case fs.flagField:
				return "capability"
			}
			return ""
		}
		isEffect := func(i ssa.Instruction) bool { return callsNamed(i, want...) }
		entry := []Point{{f.Blocks[0], 0}}
		off := reachesUnder(entry, leaf, map[string]bool{"enable": true, "capability": false}, nil, isEffect)
		on := reachesUnder(entry, leaf, map[string]bool{"enable": true, "capability": true}, nil, isEffect)
		switch {
		case off != nil:
			r.Bad(rule, key, fname(f), p.Pos(off.Pos()), inst, "with "+fs.side+".Enable set and "+fs.flagField+" false the effect at "+p.Pos(off.Pos())+" is still reachable: the flag does not switch the capability off")
		case on == nil:
			r.Bad(rule, key, fname(f), p.Pos(f.Pos()), inst, "the effect is unreachable even with the capability switched on")
		default:
			r.OK(rule, key, fname(f), p.Pos(on.Pos()), inst, "effect unreachable under {Enable, !"+fs.flagField+"}, reachable under {Enable, "+fs.flagField+"}")
		}
	}
	c15PermissionTables(p, r, rule)
}

// c15PermissionTables: H5 continued — who asks and what the tables record.
func c15PermissionTables(p *load.Program, r *core.Report, rule string) {
	// the requesting node's name handed to the permission check is the connection's peer name
	if f := p.Func("net/proto", "connection", "routeMessage"); f != nil {
		for _, name := range []string{"RouteSpawn", "RouteApplicationStart"} {
			key := "C15.H5|routeMessage|" + name + "|source"
			inst := "the permission check for a remote " + name + " is made in the name of the connected peer"
			n, good := 0, 0
			eachInstr(f, func(in ssa.Instruction) {
				cc := callCommon(in)
				if cc == nil || !callsNamed(in, name) {
					return
				}
				n++
				last := cc.Args[len(cc.Args)-1]
				if _, path, ok := fieldPath(last); ok && len(path) > 0 && path[len(path)-1] == "peer" {
					good++
				}
			})
			switch {
			case n == 0:
				r.Unk(rule, key, fname(f), p.Pos(f.Pos()), inst, "no call site")
			case good != n:
				r.Bad(rule, key, fname(f), p.Pos(f.Pos()), inst, "the source argument is not the connection's peer name: the allow list is consulted for somebody else (e.g. the local node, which is always allowed)")
			default:
				r.OK(rule, key, fname(f), p.Pos(f.Pos()), inst, "source = c.peer")
			}
		}
	}
	// Enable* records true, Disable* records false for the named nodes
	for _, t := range []struct {
		fn   string
		want bool
	}{{"EnableSpawn", true}, {"DisableSpawn", false}, {"EnableApplicationStart", true}, {"DisableApplicationStart", false}} {
		f := p.Func("node", "network", t.fn)
		key := "C15.H5|" + t.fn + "|value"
		inst := fmt.Sprintf("%s records %v for each named node", t.fn, t.want)
		if f == nil {
			r.Unk(rule, key, "", "", inst, "function not found")
			continue
		}
		n, good := 0, 0
		eachInstr(f, func(in ssa.Instruction) {
			mu, ok := in.(*ssa.MapUpdate)
			if !ok {
				return
			}
			if _, path, okp := fieldPath(mu.Map); !okp || len(path) == 0 || path[len(path)-1] != "nodes" {
				return
			}
			n++
			if b, okb := constBool(mu.Value); okb && b == t.want {
				good++
			}
		})
		switch {
		case n == 0:
			r.Bad(rule, key, fname(f), p.Pos(f.Pos()), inst, "the allow list is never updated")
		case good != n:
			r.Bad(rule, key, fname(f), p.Pos(f.Pos()), inst, fmt.Sprintf("the allow list is updated with another value than %v: a node that was disabled stays (or becomes) allowed", t.want))
		default:
			r.OK(rule, key, fname(f), p.Pos(f.Pos()), inst, fmt.Sprintf("%d update(s) with %v", n, t.want))
		}
	}
}

// c15Env: H6
func c15Env(p *load.Program, r *core.Report) {
	rule := "C15.H6 environment-exposure"
	r.Floor(rule, 5)
	seq := map[string]int{}
	for _, f := range p.SrcFuncs {
		eachInstr(f, func(in ssa.Instruction) {
			st, ok := in.(*ssa.Store)
			if !ok {
				return
			}
			own, fl := fieldOwner(st.Addr)
			if own == nil || (fl != "ParentEnv" && fl != "CoreEnv") {
				return
			}
			fa := st.Addr.(*ssa.FieldAddr)
			cell := canonCell(fa.X)
			// is the struct bound for another node? it is passed to RouteSpawn/RemoteSpawn or put into a proto message
			remote := false
			for _, g := range family(root(f)) {
				eachInstr(g, func(in2 ssa.Instruction) {
					cc := callCommon(in2)
					if cc != nil && callsNamed(in2, "RouteSpawn", "RemoteSpawn", "RouteApplicationStart") {
						for _, a := range cc.Args {
							if ld, ok := a.(*ssa.UnOp); ok && canonCell(ld.X) == cell {
								remote = true
							}
						}
					}
					if s2, ok := in2.(*ssa.Store); ok {
						if o2, _ := fieldOwner(s2.Addr); o2 != nil && strings.HasPrefix(o2.Obj().Name(), "Message") && pkgSuffix(f) == "net/proto" {
							if ld, ok := s2.Val.(*ssa.UnOp); ok && canonCell(ld.X) == cell {
								remote = true
							}
						}
					}
				})
			}
			if !remote {
				return
			}
			fn := fname(f)
			seq[fn+fl]++
			key := fmt.Sprintf("C15.H6|%s|%s#%d", fn, fl, seq[fn+fl])
			wantFlag := "ExposeEnvRemoteSpawn"
			if fl == "CoreEnv" {
				wantFlag = "ExposeEnvRemoteApplicationStart"
			}
			inst := "the requester's environment is put into a request for another node only under security option " + wantFlag
			guarded := false
			eachInstr(f, func(in2 ssa.Instruction) {
				v, ok := in2.(ssa.Value)
				if !ok {
					return
				}
				_, path, okp := fieldPath(v)
				if !okp || len(path) == 0 || path[len(path)-1] != wantFlag {
					return
				}
				t, _, c := boolEdges(v)
				if c && len(t) > 0 && edgesDominate(t, st) {
					guarded = true
				}
			})
			if guarded {
				r.OK(rule, key, fn, p.Pos(st.Pos()), inst, "store dominated by the true edge of "+wantFlag)
			} else {
				r.Bad(rule, key, fn, p.Pos(st.Pos()), inst, "the environment is copied into a remote request unconditionally: secrets held in the environment travel to the other node although exposure was not switched on")
			}
		})
	}
}

var _ = load.Module

// c15FlagsFlow: H7 — which capabilities an accepted peer gets (remote spawn, remote application start,
// ...) is decided by the flags the acceptor hands to the handshake. They can be the acceptor's own
// flags and the flags its handshake was made with, and they fall back to the flags configured for the
// NODE; the library's permissive defaults apply only when nothing is configured at all. The Flags of
// the options given to NetworkHandshake.Accept may-flow (field-based) from gen.AcceptorOptions.Flags
// and from gen.NetworkOptions.Flags.
func c15FlagsFlow(p *load.Program, r *core.Report) {
	rule := "C15.H7 node-flags-reach-the-acceptor"
	r.Floor(rule, 1)
	for _, f := range funcsOfPkgs(p, "node") {
		eachInstr(f, func(in ssa.Instruction) {
			cc := callCommon(in)
			if cc == nil || !cc.IsInvoke() || cc.Method.Name() != "Accept" {
				return
			}
			if n, _ := cc.Value.Type().(*types.Named); n == nil || n.Obj().Name() != "NetworkHandshake" {
				return
			}
			var opt ssa.Value
			for _, a := range cc.Args {
				if namedOf(a.Type()) == "gen.HandshakeOptions" {
					opt = a
				}
			}
			fn := fname(f)
			key := "C15.H7|" + fn
			inst := "the flags given to handshake.Accept can be the acceptor's own and fall back to the flags configured for the node"
			ld, ok := opt.(*ssa.UnOp)
			if opt == nil || !ok {
				r.Unk(rule, key, fn, p.Pos(in.Pos()), inst, "options argument is not a local struct")
				return
			}
			cell := canonCell(ld.X)
			fields := map[fld]bool{}
			for _, g := range family(root(f)) {
				eachInstr(g, func(in2 ssa.Instruction) {
					st, ok := in2.(*ssa.Store)
					if !ok {
						return
					}
					if fa, ok := st.Addr.(*ssa.FieldAddr); ok && canonCell(fa.X) == cell {
						if _, fl := fieldOwner(fa); fl == "Flags" {
							for k := range fieldClosure(p, st.Val) {
								fields[k] = true
							}
						}
					}
				})
			}
			var fl []string
			for k := range fields {
				fl = append(fl, k.owner+"."+k.name)
			}
			sort.Strings(fl)
			switch {
			case !fields[fld{"gen.AcceptorOptions", "Flags"}]:
				r.Bad(rule, key, fn, p.Pos(in.Pos()), inst, "no flow from gen.AcceptorOptions.Flags (sources: "+strings.Join(fl, ", ")+")")
			case !fields[fld{"gen.NetworkOptions", "Flags"}]:
				r.Bad(rule, key, fn, p.Pos(in.Pos()), inst, "no flow from gen.NetworkOptions.Flags (sources: "+strings.Join(fl, ", ")+"): an acceptor without flags of its own runs with the library defaults, which enable remote spawn and remote application start although the node's configuration forbids them")
			default:
				r.OK(rule, key, fn, p.Pos(in.Pos()), inst, "sources: "+strings.Join(fl, ", "))
			}
		})
	}
}

// c15AcceptorDefaults: H7b — H7 is field-based and cannot tell the default acceptor (built from the
// node's options) from the explicitly configured ones. For those, the loop over the configured
// acceptors in network.start completes every option an acceptor leaves empty from the NODE's option
// of the same name: a store AcceptorOptions.F = NetworkOptions.F inside that loop for F in {Flags,
// MaxMessageSize}. Without it an explicitly configured acceptor that sets no flags of its own ends
// up with the library's permissive defaults.
func c15AcceptorDefaults(p *load.Program, r *core.Report) {
	rule := "C15.H7b configured-acceptors-inherit-the-node-options"
	r.Floor(rule, 2)
	f := p.Func("node", "network", "start")
	if f == nil {
		r.Unk(rule, "C15.H7b|start", "", "", "network.start found", "not found")
		return
	}
	fn := fname(f)
	for _, fieldName := range []string{"Flags", "MaxMessageSize"} {
		key := "C15.H7b|" + fn + "|" + fieldName
		inst := "an explicitly configured acceptor that leaves " + fieldName + " empty gets the node's " + fieldName
		found := false
		var at ssa.Instruction
		eachInstr(f, func(in ssa.Instruction) {
			st, ok := in.(*ssa.Store)
			if !ok {
				return
			}
			own, fl := fieldOwner(st.Addr)
			if own == nil || namedOf(own) != "gen.AcceptorOptions" || fl != fieldName {
				return
			}
			// value: NetworkOptions.<same field> of the function's options
			vo, vf := ssa.Value(nil), ""
			if ld, ok := st.Val.(*ssa.UnOp); ok && ld.Op == token.MUL {
				if o2, f2 := fieldOwner(ld.X); o2 != nil && namedOf(o2) == "gen.NetworkOptions" {
					vo, vf = ld, f2
				}
			}
			if fld, ok := st.Val.(*ssa.Field); ok {
				if o2, f2 := fieldOwner(fld); o2 != nil && namedOf(o2) == "gen.NetworkOptions" {
					vo, vf = fld, f2
				}
			}
			if vo == nil || vf != fieldName {
				return
			}
			// inside a loop (the walk over options.Acceptors)
			if loopHeaderOf(in) == nil {
				return
			}
			found = true
			at = in
		})
		if found {
			r.OK(rule, key, fn, p.Pos(at.Pos()), inst, "a."+fieldName+" = options."+fieldName+" in the loop over the configured acceptors")
		} else {
			why := "the loop over the configured acceptors never takes " + fieldName + " from the node's options"
			if fieldName == "Flags" {
				why += ": such an acceptor runs with gen.DefaultNetworkFlags (remote spawn and remote application start enabled) although the node's flags forbid them"
			}
			r.Bad(rule, key, fn, p.Pos(f.Pos()), inst, why)
		}
	}
}

// c15NoConnectionFromJoin: H8 — a Join handshake (an additional link for an EXISTING connection: one
// message, no Hello/Introduce exchange, no fresh nonce of the acceptor) yields a result without the
// peer's creation, flags and limits. When the connection it refers to is gone, the acceptor falls
// through to NewConnection; that function must refuse such a result — the test of
// result.PeerCreation against zero whose zero edge returns an error dominates the construction of
// the connection. (A Join can be recorded and replayed by someone who does not know the cookie: a
// connection built from it has creation 0, no flags — so no spawn/application-start restrictions —
// and no size limits.)
func c15NoConnectionFromJoin(p *load.Program, r *core.Report) {
	rule := "C15.H8 no-connection-from-a-join-result"
	r.Floor(rule, 1)
	f := p.Func("net/proto", "enp", "NewConnection")
	if f == nil {
		r.Unk(rule, "C15.H8|NewConnection", "", "", "the connection constructor is found", "not found")
		return
	}
	fn := fname(f)
	key := "C15.H8|" + fn
	inst := "a handshake result without the peer's creation (a Join) is refused before the connection is built"
	var build ssa.Instruction
	eachInstr(f, func(in ssa.Instruction) {
		if al, ok := in.(*ssa.Alloc); ok && al.Heap && strings.HasSuffix(al.Type().String(), "proto.connection") {
			build = in
		}
	})
	if build == nil {
		r.Unk(rule, key, fn, p.Pos(f.Pos()), inst, "the construction of the connection is not found")
		return
	}
	ok := false
	eachInstr(f, func(in ssa.Instruction) {
		b, isB := in.(*ssa.BinOp)
		if !isB || (b.Op != token.EQL && b.Op != token.NEQ) {
			return
		}
		c, isC := constInt(b.Y)
		if !isC || c != 0 {
			return
		}
		if _, path, okp := fieldPath(b.X); !okp || len(path) == 0 || path[len(path)-1] != "PeerCreation" {
			return
		}
		t, fl, complete := boolEdges(b)
		if !complete {
			return
		}
		zero, nonzero := t, fl
		if b.Op == token.NEQ {
			zero, nonzero = fl, t
		}
		if !edgesDominate(nonzero, build) {
			return
		}
		idx := errResultIndex(f)
		for _, rt := range walkAvoid(edgePoints(zero), nil, isReturn) {
			if idx >= 0 && errKind(rt.(*ssa.Return).Results[idx]) == "nil" {
				return
			}
		}
		if reaches(edgePoints(zero), nil, func(x ssa.Instruction) bool { return x == build }) != nil {
			return
		}
		ok = true
	})
	if ok {
		r.OK(rule, key, fn, p.Pos(build.Pos()), inst, "PeerCreation == 0 returns an error; the non-zero edge dominates the construction")
	} else {
		r.Bad(rule, key, fn, p.Pos(build.Pos()), inst, "no test of result.PeerCreation against zero guards the construction: a (replayed) Join that arrives while the named peer has no connection registers a full connection with creation 0, no flags and no limits, without any Hello/Introduce exchange")
	}
}
