package rules

import (
	"fmt"
	"go/token"

	"golang.org/x/tools/go/ssa"

	"verif/internal/core"
	"verif/internal/load"
)

// c18CountOutPerRelation: V9 — the subscriber counter of an event is incremented once per RELATION
// (a process that links and monitors an event is counted twice, V2). Where subscribers are counted
// out in bulk from the consumer list of an event (the subscribers of a node that went down), every
// list element that belongs to that node is counted: between the element and the increment there is
// no set-membership test (a "seen" map) — the list holds a process once per relation, and skipping
// the second occurrence leaves the counter above zero for ever (no MessageEventStop, and the next
// first subscriber gets no MessageEventStart).
func c18CountOutPerRelation(p *load.Program, r *core.Report) {
	rule := "C18.V9 bulk-count-out-is-per-relation"
	r.Floor(rule, 1)
	n := 0
	for _, f := range funcsOfPkgs(p, "node") {
		var lists []ssa.Value
		eachInstr(f, func(in ssa.Instruction) {
			cc := callCommon(in)
			if cc == nil {
				return
			}
			name := ""
			if cc.IsInvoke() {
				name = cc.Method.Name()
			} else if sf := staticCallee(cc); sf != nil {
				name = sf.Name()
			}
			if name == "GetConsumersForTarget" {
				if v, ok := in.(ssa.Value); ok {
					lists = append(lists, v)
				}
			}
		})
		if len(lists) == 0 {
			continue
		}
		// counting increments: m[k] = m[k] + 1 or *c = *c + 1 inside a loop
		eachInstr(f, func(in ssa.Instruction) {
			var val ssa.Value
			switch x := in.(type) {
			case *ssa.MapUpdate:
				val = x.Value
			case *ssa.Store:
				val = x.Val
			default:
				return
			}
			add, ok := val.(*ssa.BinOp)
			if !ok || add.Op != token.ADD {
				return
			}
			if c, okc := constInt(add.Y); !okc || c != 1 {
				return
			}
			scc := sccOf(in.Block())
			if len(scc) == 0 {
				return
			}
			// the loop ranges over one of the lists: some index into a list inside the loop
			ranges := false
			for b := range scc {
				for _, x := range b.Instrs {
					if ia, ok := x.(*ssa.IndexAddr); ok {
						for _, l := range lists {
							if ia.X == l {
								ranges = true
							}
						}
					}
				}
			}
			if !ranges {
				return
			}
			n++
			fn := fname(f)
			key := fmt.Sprintf("C18.V9|%s|count#%d", fn, n)
			inst := "every listed relation of the lost node is counted (no membership test between the list element and the count)"
			bad := ""
			for b := in.Block(); b != nil && scc[b]; b = b.Idom() {
				d := b.Idom()
				if d == nil || !scc[d] || len(d.Instrs) == 0 {
					break
				}
				iff, ok := d.Instrs[len(d.Instrs)-1].(*ssa.If)
				if !ok {
					continue
				}
				var uses func(v ssa.Value, depth int) bool
				uses = func(v ssa.Value, depth int) bool {
					if depth > 6 {
						return false
					}
					switch x := v.(type) {
					case *ssa.Lookup:
						return true
					case *ssa.Extract:
						return uses(x.Tuple, depth+1)
					case *ssa.BinOp:
						return uses(x.X, depth+1) || uses(x.Y, depth+1)
					case *ssa.UnOp:
						return uses(x.X, depth+1)
					case *ssa.Phi:
						for _, e := range x.Edges {
							if uses(e, depth+1) {
								return true
							}
						}
					}
					return false
				}
				if uses(iff.Cond, 0) {
					bad = fmt.Sprintf("the count is behind a map lookup tested at %s", p.Pos(iff.Cond.Pos()))
				}
			}
			if bad == "" {
				r.OK(rule, key, fn, p.Pos(in.Pos()), inst, "the conditions between the loop header and the count involve no map lookup")
			} else {
				r.Bad(rule, key, fn, p.Pos(in.Pos()), inst, bad+": a process that holds a link and a monitor on the event is counted in twice and out once — the counter never returns to zero")
			}
		})
	}
}

// c18RemoteOwnersTold: V4r — the owner's node of a REMOTE event counts its subscribers too (V2/V4
// run there), and while the connection stays nothing tells it that a subscriber process has
// terminated: the process release function hands both lists of CleanupConsumer to code that sends
// the owner's node an UnlinkEvent and a DemonitorEvent request for the remote events among them.
func c18RemoteOwnersTold(a *Anchors, r *core.Report) {
	rule := "C18.V4r remote-owner-told-about-a-terminated-subscriber"
	r.Floor(rule, 1)
	p := a.P
	f := p.Func("node", a.NodeT.Obj().Name(), "unregisterProcess")
	key := "C18.V4r|unregisterProcess"
	inst := "the nodes of the remote events a terminating process was subscribed to are sent UnlinkEvent / DemonitorEvent for it"
	if f == nil {
		r.Unk(rule, key, "", "", inst, "unregisterProcess not found")
		return
	}
	var cleanup *ssa.Call
	eachInstr(f, func(in ssa.Instruction) {
		if c, ok := in.(*ssa.Call); ok && callsNamed(in, "CleanupConsumer") {
			cleanup = c
		}
	})
	if cleanup == nil {
		r.Unk(rule, key, fname(f), p.Pos(f.Pos()), inst, "CleanupConsumer is not called")
		return
	}
	links, mons := tupleExtract(cleanup, 0), tupleExtract(cleanup, 1)
	sends := func(g *ssa.Function, method string) bool {
		hit := false
		for _, h := range family(g) {
			eachInstr(h, func(in ssa.Instruction) {
				if cc := callCommon(in); cc != nil && cc.IsInvoke() && cc.Method.Name() == method {
					hit = true
				}
			})
		}
		return hit
	}
	okL, okM := false, false
	eachInstr(f, func(in ssa.Instruction) {
		cc := callCommon(in)
		if cc == nil {
			return
		}
		g := staticCallee(cc)
		if g == nil || len(g.Blocks) == 0 {
			return
		}
		for _, arg := range cc.Args {
			if links != nil && arg == links && sends(g, "UnlinkEvent") {
				okL = true
			}
			if mons != nil && arg == mons && sends(g, "DemonitorEvent") {
				okM = true
			}
		}
	})
	if okL && okM {
		r.OK(rule, key, fname(f), p.Pos(cleanup.Pos()), inst, "the link list reaches code that invokes Connection.UnlinkEvent, the monitor list code that invokes Connection.DemonitorEvent")
	} else {
		r.Bad(rule, key, fname(f), p.Pos(cleanup.Pos()), inst, fmt.Sprintf("link list -> UnlinkEvent: %v, monitor list -> DemonitorEvent: %v — the owner's node keeps counting a subscriber that no longer exists: its producer never gets MessageEventStop while the connection stays", okL, okM))
	}
}

// initBeforePublish: an object that other goroutines find through a shared table (sync.Map
// Store / LoadOrStore of a pointer to a struct allocated in the same function) is complete when it
// is entered: no plain store to one of its fields is reachable after the publication. A reader that
// finds the entry in between sees the zero value — for an event's token that is a publisher check
// that the zero reference passes; it is also a data race.
func initBeforePublish(p *load.Program, r *core.Report, rule, rid string, floor int, pkgs []string, onlyTable func(string) bool) {
	r.Floor(rule, floor)
	for _, f := range funcsOfPkgs(p, pkgs...) {
		seq := 0
		eachInstr(f, func(in ssa.Instruction) {
			c, ok := in.(*ssa.Call)
			if !ok {
				return
			}
			m, okm := syncMapCall(c.Common())
			if !okm || (m != "Store" && m != "LoadOrStore") || len(c.Common().Args) < 3 {
				return
			}
			_, path, okp := fieldPath(c.Common().Args[0])
			if !okp || len(path) == 0 {
				return
			}
			table := path[len(path)-1]
			if onlyTable != nil && !onlyTable(table) {
				return
			}
			obj, isAlloc := stripIface(c.Common().Args[2]).(*ssa.Alloc)
			if !isAlloc || !obj.Heap {
				return
			}
			if derefStruct(obj.Type()) == nil {
				return
			}
			seq++
			fn := fname(f)
			key := fmt.Sprintf("%s|%s|%s#%d", rid, fn, table, seq)
			inst := "the object entered into table '" + table + "' is not written to after it became reachable"
			var late ssa.Instruction
			lateField := ""
			// the object and every merge it flows into ("the new entry or the one found")
			alias := map[ssa.Value]bool{obj: true}
			for changed := true; changed; {
				changed = false
				eachInstr(f, func(x ssa.Instruction) {
					if ph, ok := x.(*ssa.Phi); ok && !alias[ph] {
						for _, e := range ph.Edges {
							if alias[e] {
								alias[ph] = true
								changed = true
							}
						}
					}
				})
			}
			eachInstr(f, func(x ssa.Instruction) {
				var fa *ssa.FieldAddr
				switch y := x.(type) {
				case *ssa.Store:
					fa, _ = y.Addr.(*ssa.FieldAddr)
				case *ssa.MapUpdate:
					// an entry put into a map the object holds
					if ld, ok := y.Map.(*ssa.UnOp); ok {
						fa, _ = ld.X.(*ssa.FieldAddr)
					}
				}
				if fa == nil || !alias[fa.X] {
					return
				}
				if instrReachable(in, x) {
					late = x
					lateField = derefStruct(obj.Type()).Field(fa.Field).Name()
				}
			})
			if late == nil {
				r.OK(rule, key, fn, p.Pos(in.Pos()), inst, "no field store is reachable from the publication")
			} else {
				r.Bad(rule, key, fn, p.Pos(late.Pos()), inst, "field '"+lateField+"' is assigned after the entry can be found by others: a reader in between sees its zero value (and the accesses race)")
			}
		})
	}
}
