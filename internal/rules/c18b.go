package rules

import (
	"fmt"
	"go/token"

	"golang.org/x/tools/go/ssa"

	"verif/internal/core"
	"verif/internal/load"
)

// c18CountOutPerRelation: V9 — the subscriber counter of an event is incremented once per RELATION
// (a process that links and monitors an event is counted twice, V2). Where subscribers are counted
// out in bulk from the consumer list of an event (the subscribers of a node that went down), every
// list element that belongs to that node is counted: between the element and the increment there is
// no set-membership test (a "seen" map) — the list holds a process once per relation, and skipping
// the second occurrence leaves the counter above zero for ever (no MessageEventStop, and the next
// first subscriber gets no MessageEventStart).
func c18CountOutPerRelation(p *load.Program, r *core.Report) {
	rule := "C18.V9 bulk-count-out-is-per-relation"
	r.Floor(rule, 1)
	n := 0
	for _, f := range funcsOfPkgs(p, "node") {
		var lists []ssa.Value
		eachInstr(f, func(in ssa.Instruction) {
			cc := callCommon(in)
			if cc == nil {
				return
			}
			name := ""
			if cc.IsInvoke() {
				name = cc.Method.Name()
			} else if sf := staticCallee(cc); sf != nil {
				name = sf.Name()
			}
			if name == "GetConsumersForTarget" {
				if v, ok := in.(ssa.Value); ok {
					lists = append(lists, v)
				}
			}
		})
		if len(lists) == 0 {
			continue
		}
		// counting increments: m[k] = m[k] + 1 or *c = *c + 1 inside a loop
		eachInstr(f, func(in ssa.Instruction) {
			var val ssa.Value
			switch x := in.(type) {
			case *ssa.MapUpdate:
				val = x.Value
			case *ssa.Store:
				val = x.Val
			default:
				return
			}
			add, ok := val.(*ssa.BinOp)
			if !ok || add.Op != token.ADD {
				return
			}
			if c, okc := constInt(add.Y); !okc || c != 1 {
				return
			}
			scc := sccOf(in.Block())
			if len(scc) == 0 {
				return
			}
			// the loop ranges over one of the lists: some index into a list inside the loop
			ranges := false
			for b := range scc {
				for _, x := range b.Instrs {
					if ia, ok := x.(*ssa.IndexAddr); ok {
						for _, l := range lists {
							if ia.X == l {
								ranges = true
							}
						}
					}
				}
			}
			if !ranges {
				return
			}
			n++
			fn := fname(f)
			key := fmt.Sprintf("C18.V9|%s|count#%d", fn, n)
			inst := "every listed relation of the lost node is counted (no membership test between the list element and the count)"
			bad := ""
			for b := in.Block(); b != nil && scc[b]; b = b.Idom() {
				d := b.Idom()
				if d == nil || !scc[d] || len(d.Instrs) == 0 {
					break
				}
				iff, ok := d.Instrs[len(d.Instrs)-1].(*ssa.If)
				if !ok {
					continue
				}
				var uses func(v ssa.Value, depth int) bool
				uses = func(v ssa.Value, depth int) bool {
					if depth > 6 {
						return false
					}
					switch x := v.(type) {
					case *ssa.Lookup:
						return true
					case *ssa.Extract:
						return uses(x.Tuple, depth+1)
					case *ssa.BinOp:
						return uses(x.X, depth+1) || uses(x.Y, depth+1)
					case *ssa.UnOp:
						return uses(x.X, depth+1)
					case *ssa.Phi:
						for _, e := range x.Edges {
							if uses(e, depth+1) {
								return true
							}
						}
					}
					return false
				}
				if uses(iff.Cond, 0) {
					bad = fmt.Sprintf("the count is behind a map lookup tested at %s", p.Pos(iff.Cond.Pos()))
				}
			}
			if bad == "" {
				r.OK(rule, key, fn, p.Pos(in.Pos()), inst, "the conditions between the loop header and the count involve no map lookup")
			} else {
				r.Bad(rule, key, fn, p.Pos(in.Pos()), inst, bad+": a process that holds a link and a monitor on the event is counted in twice and out once — the counter never returns to zero")
			}
		})
	}
}
