package rules

import (
	"fmt"
	"sort"

	"golang.org/x/tools/go/ssa"
	"golang.org/x/tools/go/ssa/ssautil"

	"verif/internal/core"
	"verif/internal/load"
)

// lockPairing: for every mutex field of the selected owner types, in every function that touches it:
// a forward data flow over the control-flow graph with the abstract state (held?, unlock deferred?)
// decides
//   - leak:      no return is reachable while the lock is held and no unlock is deferred (the next
//                operation on the structure blocks forever),
//   - bad unlock: no Unlock/RUnlock is reachable while the lock is not held, and no return is reachable
//                with a deferred unlock pending while the lock is not held ("sync: unlock of unlocked
//                mutex" is a fatal error, it cannot be recovered and takes the node down),
//   - relock:    no Lock is reachable while it is held by the same function (self-deadlock).
// One obligation per (function, lock). Functions that by design return holding the lock or release a
// lock taken by their caller would be reported; there are none in the module today.
func lockPairing(p *load.Program, r *core.Report, rule, rid string, floor int, ownerMatches func(owner string) bool) {
	r.Floor(rule, floor)
	var all []*ssa.Function
	for f := range ssautil.AllFunctions(p.SSA) {
		if fnInModule(f) && len(f.Blocks) > 0 {
			all = append(all, f)
		}
	}
	sort.Slice(all, func(i, j int) bool { return all[i].String() < all[j].String() })
	type lid struct{ owner, field string }
	// a deferred closure that unlocks counts as a deferred unlock of that lock
	closureUnlocks := func(fn *ssa.Function) []mutexOp {
		var out []mutexOp
		eachInstr(fn, func(in ssa.Instruction) {
			if u := mutexOpOf(in); u != nil && (u.kind == "Unlock" || u.kind == "RUnlock") {
				out = append(out, *u)
			}
		})
		return out
	}
	// abstract state: (held: no / write / read) x (unlock deferred: no / yes), as a bit set
	const (
		sUnheld  = 1 << iota // not held, nothing deferred
		sHeldW               // write-held, nothing deferred
		sHeldR               // read-held, nothing deferred
		sUnheldD             // not held, unlock deferred
		sHeldWD              // write-held, unlock deferred
		sHeldRD              // read-held, unlock deferred
	)
	const sHeld, sHeldD = sHeldW | sHeldR, sHeldWD | sHeldRD
	for _, f := range all {
		ids := map[lid]bool{}
		type ev struct {
			kind string // "lock", "unlock", "defer"
			read bool   // RLock / RUnlock
		}
		events := map[ssa.Instruction]map[lid]ev{}
		add := func(in ssa.Instruction, id lid, e ev) {
			if events[in] == nil {
				events[in] = map[lid]ev{}
			}
			events[in][id] = e
			ids[id] = true
		}
		eachInstr(f, func(in ssa.Instruction) {
			if m := mutexOpOf(in); m != nil && ownerMatches(m.owner) {
				id := lid{m.owner, m.field}
				rd := m.kind == "RLock" || m.kind == "RUnlock"
				switch {
				case m.deferred && (m.kind == "Unlock" || m.kind == "RUnlock"):
					add(in, id, ev{"defer", rd})
				case m.deferred:
					// defer mu.Lock(): nonsense, report as relock at exit — treat as lock
					add(in, id, ev{"lock", rd})
				case m.kind == "Lock" || m.kind == "RLock":
					add(in, id, ev{"lock", rd})
				default:
					add(in, id, ev{"unlock", rd})
				}
				return
			}
			if d, ok := in.(*ssa.Defer); ok {
				if mc, ok := d.Call.Value.(*ssa.MakeClosure); ok {
					for _, u := range closureUnlocks(mc.Fn.(*ssa.Function)) {
						if ownerMatches(u.owner) {
							add(in, lid{u.owner, u.field}, ev{"defer", u.kind == "RUnlock"})
						}
					}
				}
			}
		})
		if len(ids) == 0 {
			continue
		}
		// a closure that only unlocks (deferred by its parent) is judged with the parent
		if f.Parent() != nil {
			onlyUnlock := true
			for _, m := range events {
				for _, e := range m {
					if e.kind != "unlock" {
						onlyUnlock = false
					}
				}
			}
			deferredByParent := false
			eachInstr(f.Parent(), func(in ssa.Instruction) {
				if d, ok := in.(*ssa.Defer); ok {
					if mc, ok := d.Call.Value.(*ssa.MakeClosure); ok && mc.Fn == ssa.Value(f) {
						deferredByParent = true
					}
				}
			})
			if onlyUnlock && deferredByParent {
				continue
			}
		}
		var idl []lid
		for id := range ids {
			idl = append(idl, id)
		}
		sort.Slice(idl, func(i, j int) bool { return idl[i].owner+idl[i].field < idl[j].owner+idl[j].field })
		for _, id := range idl {
			in := map[*ssa.BasicBlock]int{f.Blocks[0]: sUnheld}
			work := []*ssa.BasicBlock{f.Blocks[0]}
			var problems []string
			seenProblem := map[string]bool{}
			problem := func(at ssa.Instruction, msg string) {
				k := fmt.Sprint(at.Pos()) + msg
				if !seenProblem[k] {
					seenProblem[k] = true
					problems = append(problems, msg+" at "+p.Pos(at.Pos()))
				}
			}
			step := func(b *ssa.BasicBlock, s int, report bool) int {
				for _, x := range b.Instrs {
					if e, ok := events[x][id]; ok {
						n := 0
						switch e.kind {
						case "lock":
							if s&(sHeld|sHeldD) != 0 && report {
								problem(x, "the lock is taken while this function may already hold it (self-deadlock)")
							}
							h, hd := sHeldW, sHeldWD
							if e.read {
								h, hd = sHeldR, sHeldRD
							}
							if s&(sUnheld|sHeld) != 0 {
								n |= h
							}
							if s&(sUnheldD|sHeldD) != 0 {
								n |= hd
							}
						case "unlock":
							if s&(sUnheld|sUnheldD) != 0 && report {
								problem(x, "unlock is reachable while the lock is not held (fatal error: unlock of unlocked mutex)")
							}
							if report && ((e.read && s&(sHeldW|sHeldWD) != 0) || (!e.read && s&(sHeldR|sHeldRD) != 0)) {
								problem(x, "a read lock is released with Unlock or a write lock with RUnlock (fatal error / corrupted reader count)")
							}
							if s&(sUnheld|sHeld) != 0 {
								n |= sUnheld
							}
							if s&(sUnheldD|sHeldD) != 0 {
								n |= sUnheldD
							}
						case "defer":
							if report && ((e.read && s&(sHeldW|sHeldWD) != 0) || (!e.read && s&(sHeldR|sHeldRD) != 0)) {
								problem(x, "the deferred unlock does not match the kind of lock held (RLock/Unlock or Lock/RUnlock)")
							}
							if s&(sUnheld|sUnheldD) != 0 {
								n |= sUnheldD
							}
							if s&(sHeldW|sHeldWD) != 0 {
								n |= sHeldWD
							}
							if s&(sHeldR|sHeldRD) != 0 {
								n |= sHeldRD
							}
						}
						s = n
					}
					if report {
						if _, ok := x.(*ssa.Return); ok {
							if s&sHeld != 0 {
								problem(x, "the function can return while holding the lock (no unlock on this path, none deferred): every later operation on the structure blocks forever")
							}
							if s&sUnheldD != 0 {
								problem(x, "the function can return with a deferred unlock pending although the lock was already released on this path (fatal error: unlock of unlocked mutex)")
							}
						}
					}
				}
				return s
			}
			for len(work) > 0 {
				b := work[len(work)-1]
				work = work[:len(work)-1]
				s := step(b, in[b], false)
				for _, succ := range b.Succs {
					if in[succ]|s != in[succ] {
						in[succ] |= s
						work = append(work, succ)
					}
				}
			}
			var bl []*ssa.BasicBlock
			for b := range in {
				bl = append(bl, b)
			}
			sort.Slice(bl, func(i, j int) bool { return bl[i].Index < bl[j].Index })
			nops := 0
			for _, b := range bl {
				step(b, in[b], true)
			}
			for _, m := range events {
				if _, ok := m[id]; ok {
					nops++
				}
			}
			fn := fname(f)
			key := fmt.Sprintf("%s|%s|%s.%s", rid, fn, id.owner, id.field)
			inst := fmt.Sprintf("%s.%s: every Lock is released exactly once on every path through the function", id.owner, id.field)
			if len(problems) > 0 {
				sort.Strings(problems)
				r.Bad(rule, key, fn, p.Pos(f.Pos()), inst, problems[0])
			} else {
				r.OK(rule, key, fn, p.Pos(f.Pos()), inst, fmt.Sprintf("%d lock operations, %d blocks: no return while held, no unlock while not held, no second lock", nops, len(bl)))
			}
		}
	}
}
