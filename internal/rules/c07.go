package rules

import (
	"fmt"
	"go/token"
	"go/types"
	"strings"

	"golang.org/x/tools/go/ssa"

	"verif/internal/core"
	"verif/internal/load"
)

func init() {
	Registry["C07"] = Set{
		Explanation: "Decides structural clauses of request/response correlation: Q1 every synchronous request mints a fresh reference with MakeRef and the same reference value is given to the routed request and to the wait; Q2 in the wait, the payload of a received response is used only on the edge where its reference equals the awaited one, and the mismatch edge goes back to the receive (late replies are dropped, the wait continues); the wait is bracketed by the Running<->WaitResponse transitions; Q3 every reply site in the behaviour loops and in the meta handler passes the From and the Ref of the very mailbox message whose handler produced the result; Q4 RouteSendResponse / RouteSendResponseError hand the reply over with a non-blocking send carrying the caller's reference and report ErrResponseIgnored on the default arm; Q5 the response channel is received from only in the wait function and sent to only in those two functions. Uniqueness of references is C06.G2. Added while probing: Q6 the pool dispatcher hands a request to one worker only (no Forward reachable after a successful hand-over). Q7 pooled objects across calls — when a function may release a pooled mailbox message it received as a parameter (directly, through a callee resolved statically or by the VTA call graph, or deferred), no caller releases or re-dispatches the same object on a path compatible with the callee's releasing path; paths are correlated through the nil-ness of the callee's error result (a double release hands one object to two later users: frames of unrelated connections overwrite each other, a request is presented twice or answered with another request's reference). Q8 a reply never crosses incarnations: the response frames carry only numeric ids and the reader rebuilds pid and reference with its own creation, so each response writer refuses a target whose creation is not the peer's (the C14.X2 ownership rule restricted to the response frames). Q9 in every behaviour loop and in the meta handler no HandleCall* callback is reachable from another one without a mailbox Pop in between: (nil, nil) means the callback answers later, so a fall-through to a second callback presents an asynchronously answered request twice and sends a second reply.",
		NotDecided: []string{
			"at-most-once presentation of a request to the callee (consumer side of the mailbox)",
			"remote correlation framing (C12 R1/R4)",
			"timing of timeouts",
		},
		Assumptions: []string{"references never repeat (C06.G2)", "a process makes one synchronous request at a time (C01: the wait holds the token)"},
		Run:         runC07,
	}
}

func runC07(p *load.Program, r *core.Report) {
	// Q8: a reply never crosses incarnations — the response frames carry only the numeric ids, the
	// receiver rebuilds pid and reference with its own creation, so the writer's guard against the
	// peer's creation is the only barrier (same rule as C14.X2, restricted to the response frames)
	{
		rule := "C07.Q8 reply-stays-within-the-incarnation"
		r.Floor(rule, 2)
		if lc, writers, readers, rfn := protoLayouts(p); lc != nil && len(writers) > 0 && len(readers) > 0 {
			tmp := core.NewReport("C07")
			c12Layout(p, tmp, lc, writers, readers, rfn, "", rule)
			for _, o := range tmp.Obligations {
				if strings.Contains(o.Key, "protoMessageResponse") {
					o.Key = strings.Replace(o.Key, strings.SplitN(o.Key, "|", 2)[0], "C07.Q8", 1)
					r.Add(o)
				}
			}
		} else {
			r.Unk(rule, "C07.Q8|layouts", "", "", "frame writers and handler resolve", "not found")
		}
	}
	c07OneHandlerPerRequest(p, r)
	pooledRelease(p, r, "C07.Q7 mailbox-message-not-released-twice", "C07.Q7", 0, "mailbox message", func(*ssa.Function) bool { return true })
	a, problems := getAnchors(p)
	for _, pr := range problems {
		r.Unk("C07.anchors", "C07.anchors|"+pr, "", "", "anchors resolve", pr)
	}
	if len(problems) > 0 {
		return
	}
	// the wait function: the one that does CAS Running->WaitResponse
	ws := procWordSpec(a)
	var wait *ssa.Function
	for _, op := range stateOps(p, ws.owner, ws.field) {
		if op.Kind == "cas" && op.New == ws.wait {
			wait = op.Fn
		}
	}
	if wait == nil {
		r.Unk("C07.anchors", "C07.anchors|wait", "", "", "wait function found", "no function enters WaitResponse")
		return
	}
	c07Mint(a, r, wait)
	c07Wait(a, r, wait)
	c07Reply(a, r)
	c07Handover(a, r)
	c07Channel(a, r, wait)
	// Q6: a forwarded request reaches one responder only (pool dispatcher)
	if fwd := p.Func("act", "Pool", "forward"); fwd != nil {
		poolSingleHandover(p, r, "C07.Q6 one-responder", fwd)
	} else {
		r.Unk("C07.Q6 one-responder", "C07.Q6|forward", "", "", "Pool.forward found", "not found")
	}
}

// refOrigin: does v derive from a MakeRef call? returns the call.
func refOrigin(v ssa.Value) *ssa.Call {
	var found *ssa.Call
	dependsOn(v, func(c *ssa.Call) bool {
		cc := c.Common()
		if sf := staticCallee(cc); sf != nil && sf.Name() == "MakeRef" {
			found = c
			return true
		}
		if cc.IsInvoke() && cc.Method.Name() == "MakeRef" {
			found = c
			return true
		}
		return false
	})
	return found
}

// c07Mint: Q1
func c07Mint(a *Anchors, r *core.Report, wait *ssa.Function) {
	rule := "C07.Q1 fresh-ref-to-request-and-wait"
	r.Floor(rule, 8)
	for _, f := range funcsOfPkgs(a.P, "node") {
		seq := 0
		eachInstr(f, func(in ssa.Instruction) {
			cc := callCommon(in)
			if cc == nil || staticCallee(cc) != wait {
				return
			}
			seq++
			fn := fname(f)
			key := fmt.Sprintf("C07.Q1|%s|wait#%d", fn, seq)
			inst := "the reference awaited is the one minted for this request and sent with it"
			refArg := cc.Args[1]
			mint := refOrigin(refArg)
			if mint == nil {
				r.Bad(rule, key, fn, a.P.Pos(in.Pos()), inst, "the awaited reference does not come from MakeRef in this function: a stale or foreign reference is awaited")
				return
			}
			if !instrDominates(mint, in) {
				// the mint may sit under the important-delivery flag that also guards the wait:
				// cut the edges on which that flag is false and require every remaining path to pass the mint
				cut := map[Edge]bool{}
				eachInstr(f, func(i2 ssa.Instruction) {
					v, ok := i2.(ssa.Value)
					if !ok {
						return
					}
					if _, path, okp := fieldPath(v); okp && len(path) > 0 && path[len(path)-1] == "ImportantDelivery" {
						_, fls, _ := boolEdges(v)
						for _, e := range fls {
							cut[e] = true
						}
					}
				})
				if len(cut) == 0 || reachAvoidEdges([]Point{{f.Blocks[0], 0}}, cut, func(i2 ssa.Instruction) bool { return i2 == ssa.Instruction(mint) }, func(i2 ssa.Instruction) bool { return i2 == in }) != nil {
					r.Bad(rule, key, fn, a.P.Pos(in.Pos()), inst, "the wait is reachable on a path that did not mint a reference")
					return
				}
			}
			// a routed request between mint and wait that receives the same options/ref cell
			sent := false
			var refCell ssa.Value
			if ld, ok := refArg.(*ssa.UnOp); ok && ld.Op == token.MUL {
				if fa, ok := ld.X.(*ssa.FieldAddr); ok {
					refCell = canonCell(fa.X)
				} else {
					refCell = canonCell(ld.X)
				}
			}
			eachInstr(f, func(in2 ssa.Instruction) {
				c2 := callCommon(in2)
				if c2 == nil || in2 == in {
					return
				}
				name := ""
				if sf := staticCallee(c2); sf != nil {
					name = sf.Name()
				} else if c2.IsInvoke() {
					name = c2.Method.Name()
				}
				if !strings.HasPrefix(name, "Route") && !strings.HasPrefix(name, "Push") {
					return
				}
				if !instrDominates(in2, in) {
					return
				}
				for _, arg := range c2.Args {
					if ld, ok := arg.(*ssa.UnOp); ok && ld.Op == token.MUL && refCell != nil && canonCell(ld.X) == refCell {
						sent = true
					}
					if mi, ok := arg.(*ssa.MakeInterface); ok {
						// pushed mailbox message whose Ref field was stored from the same ref
						_ = mi
					}
				}
				if strings.HasPrefix(name, "Push") {
					// qm.Ref = ref
					if len(c2.Args) > 0 {
						qm := stripIface(c2.Args[0])
						if refs := qm.Referrers(); refs != nil {
							for _, rf := range *refs {
								if fa, ok := rf.(*ssa.FieldAddr); ok {
									if _, fl := fieldOwner(fa); fl == "Ref" {
										for _, rr := range *fa.Referrers() {
											if st, ok := rr.(*ssa.Store); ok && refOrigin(st.Val) == mint {
												sent = true
											}
										}
									}
								}
							}
						}
					}
				}
			})
			if sent {
				r.OK(rule, key, fn, a.P.Pos(in.Pos()), inst, "MakeRef at "+a.P.Pos(mint.Pos())+" flows to the routed request and to the wait")
			} else {
				r.Bad(rule, key, fn, a.P.Pos(in.Pos()), inst, "the reference awaited is minted here but the request routed before the wait does not carry it: the reply can never match (or matches another request)")
			}
		})
	}
}

// c07Wait: Q2
func c07Wait(a *Anchors, r *core.Report, wait *ssa.Function) {
	rule := "C07.Q2 reply-matched-by-ref"
	r.Floor(rule, 3)
	fn := fname(wait)
	var sel *ssa.Select
	eachInstr(wait, func(in ssa.Instruction) {
		if s, ok := in.(*ssa.Select); ok {
			for _, st := range s.States {
				if st.Dir == types.RecvOnly {
					if _, path, ok := fieldPath(st.Chan); ok && len(path) > 0 && path[len(path)-1] == "response" {
						sel = s
					}
				}
			}
		}
	})
	if sel == nil {
		r.Unk(rule, "C07.Q2|select", fn, "", "the wait receives from the response channel in a select", "no such select")
		return
	}
	refPar := paramOfType(wait, "gen.Ref", 0)
	// the comparison r.ref != ref
	var cmp *ssa.BinOp
	eachInstr(wait, func(in ssa.Instruction) {
		b, ok := in.(*ssa.BinOp)
		if !ok || (b.Op != token.NEQ && b.Op != token.EQL) {
			return
		}
		for _, pr := range [][2]ssa.Value{{b.X, b.Y}, {b.Y, b.X}} {
			_, path, okp := fieldPath(pr[0])
			if okp && len(path) > 0 && path[len(path)-1] == "ref" && isParamValue(pr[1], refPar) {
				cmp = b
			}
		}
	})
	key := "C07.Q2|" + fn + "|compare"
	if cmp == nil {
		r.Bad(rule, key, fn, a.P.Pos(sel.Pos()), "a received response is compared with the awaited reference", "no comparison of the response's reference with the awaited one: a late reply to an earlier timed-out request is returned as the answer to this one")
		return
	}
	t, fl, _ := boolEdges(cmp)
	match, mis := t, fl
	if cmp.Op == token.NEQ {
		match, mis = fl, t
	}
	r.OK(rule, key, fn, a.P.Pos(cmp.Pos()), "a received response is compared with the awaited reference", "comparison of response.ref with the parameter ref")
	// payload uses dominated by match edge
	var bad []string
	n := 0
	eachInstr(wait, func(in ssa.Instruction) {
		v, ok := in.(ssa.Value)
		if !ok {
			return
		}
		if _, isLoad := in.(*ssa.UnOp); !isLoad {
			if _, isF := in.(*ssa.Field); !isF {
				return
			}
		}
		_, path, okp := fieldPath(v)
		if !okp || len(path) == 0 {
			return
		}
		last := path[len(path)-1]
		if last != "message" && last != "err" {
			return
		}
		n++
		if !edgesDominate(match, in) {
			bad = append(bad, a.P.Pos(in.Pos()))
		}
	})
	key2 := "C07.Q2|" + fn + "|payload"
	inst2 := "the payload of a response is used only on the edge where its reference matched"
	if len(bad) > 0 || n == 0 {
		r.Bad(rule, key2, fn, a.P.Pos(cmp.Pos()), inst2, "payload read at "+strings.Join(bad, ", ")+" is not dominated by the matching edge")
	} else {
		r.OK(rule, key2, fn, a.P.Pos(cmp.Pos()), inst2, fmt.Sprintf("%d payload reads dominated by the match edge", n))
	}
	// mismatch edge returns to the select without returning
	key3 := "C07.Q2|" + fn + "|retry"
	inst3 := "a response with another reference is dropped and the wait continues"
	var st []Point
	for _, e := range mis {
		st = append(st, Point{e.To(), 0})
	}
	ret := reaches(st, func(in ssa.Instruction) bool { return in == ssa.Instruction(sel) }, isReturn)
	back := reaches(st, nil, func(in ssa.Instruction) bool { return in == ssa.Instruction(sel) })
	if ret != nil || back == nil {
		r.Bad(rule, key3, fn, a.P.Pos(cmp.Pos()), inst3, "the mismatch edge can return to the caller (or never gets back to the receive): a stray reply ends the wait")
	} else {
		r.OK(rule, key3, fn, a.P.Pos(cmp.Pos()), inst3, "mismatch edge loops back to the select")
	}
}

// c07Reply: Q3
func c07Reply(a *Anchors, r *core.Report) {
	rule := "C07.Q3 reply-carries-request-identity"
	r.Floor(rule, 14)
	procB := ifaceOf(a.P, "gen", "ProcessBehavior")
	sameMsgFields := func(from, ref ssa.Value) (bool, string) {
		bf, pf, ok1 := fieldPath(from)
		br, pr, ok2 := fieldPath(ref)
		if !ok1 || !ok2 || len(pf) == 0 || len(pr) == 0 {
			return false, "arguments are not fields of a mailbox message"
		}
		if pf[len(pf)-1] != "From" {
			return false, "the addressee is field " + pf[len(pf)-1] + ", not From"
		}
		if pr[len(pr)-1] != "Ref" {
			return false, "the reference is field " + pr[len(pr)-1] + ", not Ref"
		}
		if bf != br {
			return false, "From and Ref are taken from different messages"
		}
		return true, ""
	}
	for _, f := range a.P.SrcFuncs {
		isLoop := f.Parent() == nil && f.Name() == "ProcessRun" && f.Signature.Recv() != nil && types.Implements(f.Signature.Recv().Type(), procB)
		if !isLoop && f != a.MetaLoop {
			continue
		}
		seq := 0
		eachInstr(f, func(in ssa.Instruction) {
			cc := callCommon(in)
			if cc == nil {
				return
			}
			name := ""
			if sf := staticCallee(cc); sf != nil {
				name = sf.Name()
			} else if cc.IsInvoke() {
				name = cc.Method.Name()
			}
			var from, ref ssa.Value
			switch name {
			case "SendResponse", "SendResponseError":
				// (to, ref, result) on gen.Process
				args := cc.Args
				if !cc.IsInvoke() {
					args = args[1:]
				}
				if len(args) < 2 {
					return
				}
				from, ref = args[0], args[1]
			case "RouteSendResponse", "RouteSendResponseError":
				// (from, to, options, message): to = message.From ; options.Ref = message.Ref
				args := cc.Args
				if !cc.IsInvoke() {
					args = args[1:]
				}
				if len(args) < 3 {
					return
				}
				from = args[1]
				// options cell's Ref field
				if ld, ok := args[2].(*ssa.UnOp); ok {
					if cell, ok := ld.X.(*ssa.Alloc); ok {
						for _, rf := range *cell.Referrers() {
							if fa, ok := rf.(*ssa.FieldAddr); ok {
								if _, fl := fieldOwner(fa); fl == "Ref" {
									for _, rr := range *fa.Referrers() {
										if st, ok := rr.(*ssa.Store); ok {
											ref = st.Val
										}
									}
								}
							}
						}
					}
				}
			default:
				return
			}
			seq++
			fn := fname(f)
			key := fmt.Sprintf("C07.Q3|%s|reply#%d", fn, seq)
			inst := "the reply is addressed to the From and tagged with the Ref of the message being handled"
			if ref == nil {
				r.Bad(rule, key, fn, a.P.Pos(in.Pos()), inst, "the reply's reference is not set from the handled message")
				return
			}
			if ok, why := sameMsgFields(from, ref); ok {
				r.OK(rule, key, fn, a.P.Pos(in.Pos()), inst, "From and Ref of the same mailbox message")
			} else {
				r.Bad(rule, key, fn, a.P.Pos(in.Pos()), inst, why+": the reply reaches another caller or never matches")
			}
		})
	}
}

// c07Handover: Q4
func c07Handover(a *Anchors, r *core.Report) {
	rule := "C07.Q4 non-blocking-handover"
	r.Floor(rule, 2)
	for _, name := range []string{"RouteSendResponse", "RouteSendResponseError"} {
		var f *ssa.Function
		for _, g := range funcsOfPkgs(a.P, "node") {
			if g.Parent() == nil && g.Name() == name && recvIs(g, a.NodeT) {
				f = g
			}
		}
		key := "C07.Q4|" + name
		inst := name + ": non-blocking send of {caller's ref, payload} to the target's response channel; ErrResponseIgnored when nobody can take it"
		if f == nil {
			r.Unk(rule, key, "", "", inst, "function not found")
			continue
		}
		var sel *ssa.Select
		eachInstr(f, func(in ssa.Instruction) {
			if s, ok := in.(*ssa.Select); ok {
				sel = s
			}
		})
		var probs []string
		if sel == nil {
			probs = append(probs, "no select: a plain send blocks the replying process forever when the caller is gone")
		} else {
			if sel.Blocking {
				probs = append(probs, "the select has no default arm: the replying process blocks when the caller is gone")
			}
			okSend := false
			for _, st := range sel.States {
				if st.Dir == types.SendOnly {
					if _, path, ok := fieldPath(st.Chan); ok && len(path) > 0 && path[len(path)-1] == "response" {
						okSend = true
						// the sent struct's ref == options.Ref
						refOK := false
						if ld, ok := st.Send.(*ssa.UnOp); ok {
							if cell, ok := ld.X.(*ssa.Alloc); ok {
								for _, rf := range *cell.Referrers() {
									if fa, ok := rf.(*ssa.FieldAddr); ok {
										if _, fl := fieldOwner(fa); fl == "ref" {
											for _, rr := range *fa.Referrers() {
												if s2, ok := rr.(*ssa.Store); ok {
													_, p2, ok2 := fieldPath(s2.Val)
													if ok2 && len(p2) > 0 && p2[len(p2)-1] == "Ref" {
														refOK = true
													}
												}
											}
										}
									}
								}
							}
						}
						if !refOK {
							probs = append(probs, "the response does not carry the reference given in the options")
						}
					}
				}
			}
			if !okSend {
				probs = append(probs, "no send on the target's response channel")
			}
		}
		// ErrResponseIgnored returned somewhere
		ign := false
		errIdx := errResultIndex(f)
		eachInstr(f, func(in ssa.Instruction) {
			if ret, ok := in.(*ssa.Return); ok && reasonOrigin(ret.Results[errIdx], 0) == "global:ErrResponseIgnored" {
				ign = true
			}
		})
		if !ign {
			probs = append(probs, "ErrResponseIgnored is never returned")
		}
		if len(probs) > 0 {
			r.Bad(rule, key, fname(f), a.P.Pos(f.Pos()), inst, strings.Join(probs, "; "))
		} else {
			r.OK(rule, key, fname(f), a.P.Pos(f.Pos()), inst, "non-blocking select, response.ref = options.Ref, default arm reports ErrResponseIgnored")
		}
	}
}

// c07Channel: Q5
func c07Channel(a *Anchors, r *core.Report, wait *ssa.Function) {
	rule := "C07.Q5 response-channel-access"
	r.Floor(rule, 1)
	var recvs, sends []string
	for _, f := range a.P.SrcFuncs {
		eachInstr(f, func(in ssa.Instruction) {
			switch x := in.(type) {
			case *ssa.Select:
				for _, st := range x.States {
					own, fl := chanField(st.Chan)
					if own == a.ProcessT && fl == "response" {
						if st.Dir == types.RecvOnly {
							recvs = append(recvs, fname(f))
						} else {
							sends = append(sends, fname(f))
						}
					}
				}
			case *ssa.UnOp:
				if x.Op == token.ARROW {
					if own, fl := chanField(x.X); own == a.ProcessT && fl == "response" {
						recvs = append(recvs, fname(f))
					}
				}
			case *ssa.Send:
				if own, fl := chanField(x.Chan); own == a.ProcessT && fl == "response" {
					sends = append(sends, fname(f))
				}
			}
		})
	}
	key := "C07.Q5|response"
	inst := "the per-process response channel is received from only in the wait function and sent to only by the two response routers"
	var probs []string
	for _, x := range uniq(recvs) {
		if x != fname(wait) {
			probs = append(probs, "received from in "+x)
		}
	}
	for _, x := range uniq(sends) {
		if !strings.HasSuffix(x, ".RouteSendResponse") && !strings.HasSuffix(x, ".RouteSendResponseError") {
			probs = append(probs, "sent to in "+x)
		}
	}
	if len(recvs) == 0 || len(sends) < 2 {
		probs = append(probs, fmt.Sprintf("receivers: %v senders: %v", uniq(recvs), uniq(sends)))
	}
	if len(probs) > 0 {
		r.Bad(rule, key, "", "", inst, strings.Join(probs, "; ")+": a reply can be consumed by something else than the matching wait")
	} else {
		r.OK(rule, key, fname(wait), a.P.Pos(wait.Pos()), inst, fmt.Sprintf("receivers: %v; senders: %v", uniq(recvs), uniq(sends)))
	}
}

func chanField(v ssa.Value) (*types.Named, string) {
	if ld, ok := v.(*ssa.UnOp); ok && ld.Op == token.MUL {
		return fieldOwner(ld.X)
	}
	if f, ok := v.(*ssa.Field); ok {
		return fieldOwner(f)
	}
	return nil, ""
}

var _ = load.Module
