package rules

import (
	"go/token"
	"go/types"

	"golang.org/x/tools/go/ssa"

	"verif/internal/load"
)

// Anchors are the constructs the rules hang on, resolved semantically (by type,
// interface and data flow) from the loaded program.
type Anchors struct {
	P *load.Program

	ProcessT *types.Named // struct implementing gen.Process
	MetaT    *types.Named // struct implementing gen.MetaProcess
	NodeT    *types.Named // struct implementing gen.Node / gen.Core

	ProcWake *ssa.Function // (*process).run : CAS Sleep->Running, go closure invoking ProcessRun
	ProcLoop *ssa.Function // the closure
	MetaWake *ssa.Function // (*meta).handle
	MetaLoop *ssa.Function

	ProcState map[string]int64 // name -> value (gen.ProcessState*)
	MetaState map[string]int64

	MailboxT     *types.Named // gen.ProcessMailbox
	QueueIface   *types.Named // lib.QueueMPSC
	MailboxQs    []string     // queue field names of the mailbox struct
	MetaQs       []string     // queue fields of meta
	ProcStateFld string
	MetaStateFld string
}

func implementsPtr(n *types.Named, iface *types.Interface) bool {
	return types.Implements(types.NewPointer(n), iface)
}

func ifaceOf(p *load.Program, pkg, name string) *types.Interface {
	n := p.Named(pkg, name)
	if n == nil {
		return nil
	}
	i, _ := n.Underlying().(*types.Interface)
	return i
}

func getAnchors(p *load.Program) (*Anchors, []string) {
	a := &Anchors{P: p, ProcState: map[string]int64{}, MetaState: map[string]int64{}}
	var problems []string
	miss := func(s string) { problems = append(problems, s) }

	procI := ifaceOf(p, "gen", "Process")
	metaI := ifaceOf(p, "gen", "MetaProcess")
	coreI := ifaceOf(p, "gen", "Core")
	nodePkg := p.Pkg("node")
	if nodePkg == nil || procI == nil || metaI == nil || coreI == nil {
		miss("packages node/gen or the interfaces gen.Process, gen.MetaProcess, gen.Core not found")
		return a, problems
	}
	sc := nodePkg.Types.Scope()
	for _, name := range sc.Names() {
		tn, ok := sc.Lookup(name).(*types.TypeName)
		if !ok {
			continue
		}
		n, ok := tn.Type().(*types.Named)
		if !ok {
			continue
		}
		if _, ok := n.Underlying().(*types.Struct); !ok {
			continue
		}
		if implementsPtr(n, procI) {
			a.ProcessT = n
		}
		if implementsPtr(n, metaI) {
			a.MetaT = n
		}
		if implementsPtr(n, coreI) {
			a.NodeT = n
		}
	}
	if a.ProcessT == nil {
		miss("no struct in package node implements gen.Process")
	}
	if a.MetaT == nil {
		miss("no struct in package node implements gen.MetaProcess")
	}
	if a.NodeT == nil {
		miss("no struct in package node implements gen.Core")
	}
	a.MailboxT = p.Named("gen", "ProcessMailbox")
	a.QueueIface = p.Named("lib", "QueueMPSC")
	if a.MailboxT == nil || a.QueueIface == nil {
		miss("gen.ProcessMailbox / lib.QueueMPSC not found")
		return a, problems
	}
	if st, ok := a.MailboxT.Underlying().(*types.Struct); ok {
		for i := 0; i < st.NumFields(); i++ {
			if types.Identical(st.Field(i).Type(), a.QueueIface) {
				a.MailboxQs = append(a.MailboxQs, st.Field(i).Name())
			}
		}
	}
	if a.MetaT != nil {
		st := a.MetaT.Underlying().(*types.Struct)
		for i := 0; i < st.NumFields(); i++ {
			if types.Identical(st.Field(i).Type(), a.QueueIface) {
				a.MetaQs = append(a.MetaQs, st.Field(i).Name())
			}
		}
	}
	for v, n := range enumConsts(p.Named("gen", "ProcessState")) {
		a.ProcState[n] = v
	}
	for v, n := range enumConsts(p.Named("gen", "MetaState")) {
		a.MetaState[n] = v
	}

	// wake functions: a method that `go`es a closure invoking the behaviour's main callback
	procB := p.Named("gen", "ProcessBehavior")
	metaB := p.Named("gen", "MetaBehavior")
	for _, f := range funcsOfPkgs(p, "node") {
		if f.Parent() != nil {
			continue
		}
		eachInstr(f, func(in ssa.Instruction) {
			g, ok := in.(*ssa.Go)
			if !ok {
				return
			}
			var cl *ssa.Function
			if mc, ok := g.Call.Value.(*ssa.MakeClosure); ok {
				cl, _ = mc.Fn.(*ssa.Function)
			}
			if cl == nil {
				return
			}
			eachInstr(cl, func(in2 ssa.Instruction) {
				cc := callCommon(in2)
				if cc == nil || !cc.IsInvoke() {
					return
				}
				rn, _ := cc.Value.Type().(*types.Named)
				if rn == procB && cc.Method.Name() == "ProcessRun" && recvIs(f, a.ProcessT) {
					a.ProcWake, a.ProcLoop = f, cl
				}
				if rn == metaB && cc.Method.Name() == "HandleMessage" && recvIs(f, a.MetaT) {
					a.MetaWake, a.MetaLoop = f, cl
				}
			})
		})
	}
	if a.ProcWake == nil {
		miss("no method of the process type starts a goroutine that invokes ProcessBehavior.ProcessRun (wake-up function)")
	}
	if a.MetaWake == nil {
		miss("no method of the meta type starts a goroutine that invokes MetaBehavior.HandleMessage (wake-up function)")
	}
	// state word: the field CASed in the wake function
	a.ProcStateFld = casField(a.ProcWake, a.ProcessT)
	a.MetaStateFld = casField(a.MetaWake, a.MetaT)
	if a.ProcWake != nil && a.ProcStateFld == "" {
		miss("the process wake-up function has no compare-and-swap on a field of the process (state word)")
	}
	if a.MetaWake != nil && a.MetaStateFld == "" {
		miss("the meta wake-up function has no compare-and-swap on a field of the meta process (state word)")
	}
	return a, problems
}

func recvIs(f *ssa.Function, n *types.Named) bool {
	if f == nil || n == nil || f.Signature.Recv() == nil {
		return false
	}
	t := f.Signature.Recv().Type()
	if p, ok := t.(*types.Pointer); ok {
		t = p.Elem()
	}
	return t == types.Type(n)
}

func casField(f *ssa.Function, owner *types.Named) string {
	if f == nil {
		return ""
	}
	res := ""
	eachInstr(f, func(in ssa.Instruction) {
		cc := callCommon(in)
		if cc == nil || !isAtomic(cc, "CompareAndSwapInt32") || len(cc.Args) < 1 {
			return
		}
		if n, fld := fieldOwner(cc.Args[0]); n == owner && fld != "" {
			res = fld
		}
	})
	return res
}

// stateOp is one operation on a state word.
type stateOp struct {
	In     ssa.Instruction
	Fn     *ssa.Function
	Kind   string // "cas", "swap", "store", "load", "plainstore", "plainload"
	Old    int64  // cas: expected
	New    int64  // cas/swap/store: new value
	HasNew bool
	Base   ssa.Value // canonical object whose word is touched
	Result ssa.Value // cas: bool, swap: old value, load: value
}

// stateOps enumerates every operation on field fld of struct owner in the module.
func stateOps(p *load.Program, owner *types.Named, fld string) []stateOp {
	var ops []stateOp
	for _, f := range p.SrcFuncs {
		eachInstr(f, func(in ssa.Instruction) {
			switch x := in.(type) {
			case *ssa.Store:
				if n, fl := fieldOwner(x.Addr); n == owner && fl == fld {
					op := stateOp{In: in, Fn: f, Kind: "plainstore"}
					if c, ok := constInt(x.Val); ok {
						op.New, op.HasNew = c, true
					}
					b, _, _ := fieldPath(x.Addr)
					op.Base = b
					ops = append(ops, op)
				}
			case *ssa.UnOp:
				if x.Op == token.MUL {
					if n, fl := fieldOwner(x.X); n == owner && fl == fld {
						b, _, _ := fieldPath(x.X)
						ops = append(ops, stateOp{In: in, Fn: f, Kind: "plainload", Base: b, Result: x})
					}
				}
			default:
				cc := callCommon(in)
				if cc == nil || !isAtomic(cc) || len(cc.Args) < 1 {
					return
				}
				n, fl := fieldOwner(cc.Args[0])
				if n != owner || fl != fld {
					return
				}
				b, _, _ := fieldPath(cc.Args[0])
				op := stateOp{In: in, Fn: f, Base: b}
				if v, ok := in.(ssa.Value); ok {
					op.Result = v
				}
				switch staticCallee(cc).Name() {
				case "CompareAndSwapInt32":
					op.Kind = "cas"
					o, ok1 := constInt(cc.Args[1])
					nw, ok2 := constInt(cc.Args[2])
					if !ok1 || !ok2 {
						op.Kind = "cas?"
					}
					op.Old, op.New, op.HasNew = o, nw, ok2
				case "SwapInt32":
					op.Kind = "swap"
					nw, ok := constInt(cc.Args[1])
					op.New, op.HasNew = nw, ok
				case "StoreInt32":
					op.Kind = "store"
					nw, ok := constInt(cc.Args[1])
					op.New, op.HasNew = nw, ok
				case "LoadInt32":
					op.Kind = "load"
				default:
					op.Kind = "atomic:" + staticCallee(cc).Name()
				}
				ops = append(ops, op)
			}
		})
	}
	return ops
}

// literalInit finds composite-literal initialisations &T{fld: c}: in SSA these are stores too
// (handled by stateOps as plainstore).

// queueLeaves traces a queue value (lib.QueueMPSC interface value) back through phis to
// its origins: field loads (base, path) or something else (nil path).
type qleaf struct {
	Base  ssa.Value
	Path  []string
	Owner *types.Named // struct owning the last field
	Val   ssa.Value
}

func queueLeaves(v ssa.Value) []qleaf {
	var out []qleaf
	seen := map[ssa.Value]bool{}
	var rec func(v ssa.Value)
	rec = func(v ssa.Value) {
		if seen[v] {
			return
		}
		seen[v] = true
		switch x := v.(type) {
		case *ssa.Phi:
			for _, e := range x.Edges {
				rec(e)
			}
			return
		case *ssa.UnOp:
			if x.Op == token.MUL {
				if _, isAlloc := canonCell(x.X).(*ssa.Alloc); isAlloc {
					// local variable cell (captured or address-taken): all stores
					cell := canonCell(x.X).(*ssa.Alloc)
					n := 0
					for _, r := range *cell.Referrers() {
						if s, ok := r.(*ssa.Store); ok && s.Addr == ssa.Value(cell) {
							rec(s.Val)
							n++
						}
					}
					if n > 0 {
						return
					}
				}
				if fa, ok := x.X.(*ssa.FieldAddr); ok {
					owner, _ := fieldOwner(fa)
					b, path, _ := fieldPath(x)
					out = append(out, qleaf{Base: b, Path: path, Owner: owner, Val: v})
					return
				}
			}
		case *ssa.Field:
			owner, _ := fieldOwner(x)
			b, path, _ := fieldPath(x)
			out = append(out, qleaf{Base: b, Path: path, Owner: owner, Val: v})
			return
		case *ssa.Const:
			if x.Value == nil {
				return // nil initial value of `var queue lib.QueueMPSC`
			}
		}
		out = append(out, qleaf{Val: v})
	}
	rec(v)
	return out
}
