package rules

import (
	"fmt"
	"go/token"

	"golang.org/x/tools/go/ssa"

	"verif/internal/core"
	"verif/internal/load"
)

// orderClearedOnlyByOption: the frames of one sender travel over one link and through one receive
// queue because they carry the sender's order byte (protoOrder(from.ID)). A frame writer may replace
// that byte by 0 ("any link, any queue") only when the sender has switched KeepNetworkOrder off. In
// every frame writer of net/proto that computes the byte from the sender, every branch that leads
// to the assignment of the constant 0 tests the KeepNetworkOrder option and nothing else — an
// `|| options.ImportantDelivery` lets important messages overtake the plain ones sent before them.
func orderClearedOnlyByOption(p *load.Program, r *core.Report, rule, rid string, floor int) {
	r.Floor(rule, floor)
	ord := p.Func("net/proto", "", "protoOrder")
	if ord == nil {
		r.Unk(rule, rid+"|protoOrder", "", "", "the order function is found", "not found")
		return
	}
	for _, f := range funcsOfPkgs(p, "net/proto") {
		if f.Parent() != nil {
			continue
		}
		var calls []ssa.Value
		eachInstr(f, func(in ssa.Instruction) {
			if c, ok := in.(*ssa.Call); ok && staticCallee(c.Common()) == ord {
				calls = append(calls, c)
			}
		})
		if len(calls) == 0 {
			continue
		}
		n := 0
		eachInstr(f, func(in ssa.Instruction) {
			ph, ok := in.(*ssa.Phi)
			if !ok {
				return
			}
			fromOrder, zeroEdge := false, -1
			for i, e := range ph.Edges {
				for _, c := range calls {
					if e == c {
						fromOrder = true
					}
				}
				if c, okc := constInt(e); okc && c == 0 {
					zeroEdge = i
				}
			}
			if !fromOrder || zeroEdge < 0 {
				return
			}
			n++
			fn := fname(f)
			key := fmt.Sprintf("%s|%s|order#%d", rid, fn, n)
			inst := "the sender's order byte is replaced by 0 only on the edge where KeepNetworkOrder is off"
			// the block the zero comes from and every branch that enters it
			zb := ph.Block().Preds[zeroEdge]
			bad := ""
			seen := map[*ssa.BasicBlock]bool{}
			var walk func(b *ssa.BasicBlock)
			walk = func(b *ssa.BasicBlock) {
				for _, pr := range b.Preds {
					if seen[pr] {
						continue
					}
					seen[pr] = true
					iff, isIf := pr.Instrs[len(pr.Instrs)-1].(*ssa.If)
					if !isIf {
						continue
					}
					if !onlyKeepOrder(iff.Cond, 0) {
						bad = fmt.Sprintf("the branch at %s (%s) also leads to it", p.Pos(iff.Cond.Pos()), iff.Cond.String())
						continue
					}
					// a short-circuit chain: the block that holds this test may itself be entered by a test
					if len(pr.Instrs) <= 4 && pr != f.Blocks[0] && !pr.Dominates(zb) {
						walk(pr)
					}
				}
			}
			walk(zb)
			if bad == "" {
				r.OK(rule, key, fn, p.Pos(ph.Pos()), inst, "every branch into the assignment of 0 tests options.KeepNetworkOrder only")
			} else {
				r.Bad(rule, key, fn, p.Pos(ph.Pos()), inst, bad+": frames of a sender that keeps the network order are spread over links and receive queues and overtake its earlier frames")
			}
		})
	}
}

func onlyKeepOrder(v ssa.Value, d int) bool {
	if d > 4 {
		return false
	}
	switch x := v.(type) {
	case *ssa.Const:
		return true
	case *ssa.BinOp:
		if x.Op != token.EQL && x.Op != token.NEQ {
			return false
		}
		return onlyKeepOrder(x.X, d+1) && onlyKeepOrder(x.Y, d+1)
	case *ssa.UnOp:
		if x.Op == token.NOT {
			return onlyKeepOrder(x.X, d+1)
		}
		_, path, ok := fieldPath(x)
		return ok && len(path) > 0 && path[len(path)-1] == "KeepNetworkOrder"
	case *ssa.Field:
		return false
	}
	_, path, ok := fieldPath(v)
	return ok && len(path) > 0 && path[len(path)-1] == "KeepNetworkOrder"
}

// metaKeepsParentPriority: O8 — the meta processes of a process run in goroutines of their own and
// send on its behalf. The send priority of a process is a plain field; a function that assigns it
// (SendWithPriority does, for the time of one send) must not be reachable from a method of the meta
// process: a message the process itself sends at that moment would take the temporary priority, go
// into another mailbox queue of the receiver and overtake the messages sent before it.
func metaKeepsParentPriority(a *Anchors, r *core.Report) {
	rule := "C03.O8 meta-does-not-touch-the-parents-send-priority"
	r.Floor(rule, 3)
	p := a.P
	writers := map[*ssa.Function]bool{}
	for _, f := range funcsOfPkgs(p, "node") {
		eachInstr(f, func(in ssa.Instruction) {
			st, ok := in.(*ssa.Store)
			if !ok {
				return
			}
			if own, fld := fieldOwner(st.Addr); own == a.ProcessT && fld == "priority" {
				writers[f] = true
			}
		})
	}
	for _, f := range funcsOfPkgs(p, "node") {
		if f.Parent() != nil || !recvIs(f, a.MetaT) {
			continue
		}
		// does it send on behalf of the parent?
		sends := false
		var hit *ssa.Function
		seen := map[*ssa.Function]bool{f: true}
		work := []*ssa.Function{f}
		for len(work) > 0 {
			g := work[len(work)-1]
			work = work[:len(work)-1]
			eachInstr(g, func(in ssa.Instruction) {
				cc := callCommon(in)
				if cc == nil {
					return
				}
				sf := staticCallee(cc)
				if sf == nil || !recvIs(sf, a.ProcessT) {
					return
				}
				if g == f {
					sends = true
				}
				if writers[sf] {
					hit = sf
				}
				if !seen[sf] && len(sf.Blocks) > 0 {
					seen[sf] = true
					work = append(work, sf)
				}
			})
		}
		if !sends || (f.Name() != "Send" && f.Name() != "SendWithPriority" && f.Name() != "SendImportant") {
			continue
		}
		fn := fname(f)
		key := "C03.O8|" + fn
		inst := "no function that assigns the parent's send priority is reachable from this method of the meta process"
		if hit == nil {
			r.OK(rule, key, fn, p.Pos(f.Pos()), inst, fmt.Sprintf("%d process method(s) reachable, none stores to process.priority", len(seen)-1))
		} else {
			r.Bad(rule, key, fn, p.Pos(f.Pos()), inst, fname(hit)+" assigns process.priority and is reachable: called from the meta process's goroutine it changes the priority of what the process itself sends at that moment — its messages to one receiver land in different queues and overtake each other")
		}
	}
}
