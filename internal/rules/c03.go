package rules

import (
	"fmt"
	"go/token"
	"go/types"
	"sort"
	"strings"

	"golang.org/x/tools/go/ssa"

	"verif/internal/core"
	"verif/internal/load"
)

func init() {
	Registry["C03"] = Set{
		Explanation: "Decides the structural clauses of mailbox ordering: O1 every place that selects a mailbox queue from a message priority implements the same table (High->System, Max->Urgent, everything else->Main) — value sets of the switched priority are computed per incoming edge of the queue phi; O1b every push of a message whose Type is Exit or Inspect targets Urgent (meta mailbox: exit and inspect -> system, regular and request -> main); O1c down notifications are routed with Priority High; O1d log messages go to the Log queue; O2 in every ProcessRun implementation found through gen.ProcessBehavior and in the meta handler, the Pop of a lower class is dominated by the failure edge of the Pop of the next higher class (Urgent, System, Main, Log), and after any successful Pop no other Pop is reachable before Pop(Urgent) (one message per scan, restart from the top); O3 queue discipline: head is written only by an atomic swap in Push, tail only by the consumer in Pop, next only by the pusher that obtained the old head. Added while probing: O2 holds for every Pop site (several sites per class are allowed); O3 Pop advances tail by exactly one node (tail.next, once per call) and returns that node's value. O4 = C13.F5 (a compressed frame keeps the receive-queue selector of the frame it wraps). O5 the one-shot priority / importance a process lends itself for one send (SendWithPriority, SendImportant, CallWithPriority, CallImportant) is put back on every path, also when the send fails. O6 = C13.F7. O7 a frame writer replaces the sender's order byte by 0 only on a branch that tests options.KeepNetworkOrder and nothing else (an important message must not overtake the plain ones its sender sent before). O8 no function that assigns the send priority of a process is reachable from the sending methods of its meta processes (they run in other goroutines: SendWithPriority's temporary assignment would change the priority of what the process itself sends at that moment).",
		NotDecided: []string{
			"FIFO of the lock-free MPSC algorithm under concurrent producers (only who-writes-what is decided)",
			"fairness between priority classes",
			"the supervisor's documented 'strategy active => Urgent only' early return only defers lower classes and is accepted",
		},
		Assumptions: []string{"sync/atomic is sequentially consistent", "a single consumer pops a mailbox (C01)"},
		Run:         runC03,
	}
}

func runC03(p *load.Program, r *core.Report) {
	a, problems := getAnchors(p)
	for _, pr := range problems {
		r.Unk("C03.anchors", "C03.anchors|"+pr, "", "", "anchors resolve", pr)
	}
	if len(problems) > 0 {
		return
	}
	pushes, _, _ := findMailboxPushes(a, r)
	c03PriorityTable(a, r, pushes)
	c03TypeQueue(a, r, pushes)
	c03DownPriority(a, r)
	c03Dequeue(a, r)
	c03QueueDiscipline(a, r)
	// O4: per-sender order across the network also depends on compressed and plain frames of one pair
	// being decoded by the same receive worker (the C13.F5 rule, registered here for "whichever way
	// the message travels")
	if sendFn := a.P.Func("net/proto", "connection", "send"); sendFn != nil {
		c13Envelope(a.P, r, sendFn, "C03.O4 envelope-keeps-selector")
	} else {
		r.Unk("C03.O4 envelope-keeps-selector", "C03.O4|send", "", "", "the frame sender is found", "net/proto.(*connection).send not found")
	}
	c03TemporaryOverride(a, r)
	// O6 = C13.F7: "whichever addressing mode was used" also over the network
	c13SelectorAgreementAs(a.P, r, "C03.O6 receive-queue-selector-agrees-across-addressing-modes")
	orderClearedOnlyByOption(a.P, r, "C03.O7 order-byte-cleared-only-by-KeepNetworkOrder", "C03.O7", 15)
	metaKeepsParentPriority(a, r)
}

// c03TemporaryOverride: O5 — SendWithPriority / SendImportant (and their Call twins) lend the process a
// priority / importance for ONE send: they save the field, overwrite it, send, and put the saved
// value back. Every path from the overwrite to a return passes the restoring store — also the path
// on which the send failed. A leaked Max priority sends all later plain messages of the process to
// the receivers' Urgent queues, where they overtake its earlier normal-priority messages.
func c03TemporaryOverride(a *Anchors, r *core.Report) {
	rule := "C03.O5 one-shot-priority-restored"
	r.Floor(rule, 4)
	for _, f := range funcsOfPkgs(a.P, "node") {
		if f.Parent() != nil || !recvIs(f, a.ProcessT) {
			continue
		}
		// saved := p.F ; p.F = <param or const> ; ... ; p.F = saved
		type ov struct {
			field string
			over  *ssa.Store
			saved ssa.Value
		}
		var ovs []ov
		eachInstr(f, func(in ssa.Instruction) {
			st, ok := in.(*ssa.Store)
			if !ok {
				return
			}
			own, fl := fieldOwner(st.Addr)
			if own != a.ProcessT || (fl != "priority" && fl != "important" && fl != "keeporder" && fl != "compression") {
				return
			}
			// a load of the same field that dominates this store and is stored back later
			eachInstr(f, func(x ssa.Instruction) {
				ld, ok := x.(*ssa.UnOp)
				if !ok || ld.Op != token.MUL {
					return
				}
				if o2, f2 := fieldOwner(ld.X); o2 != a.ProcessT || f2 != fl || !instrDominates(x, in) {
					return
				}
				if st.Val == ssa.Value(ld) {
					return // this IS the restoring store
				}
				// is ld stored back somewhere?
				restored := false
				eachInstr(f, func(y ssa.Instruction) {
					s2, ok := y.(*ssa.Store)
					if ok && s2 != st && s2.Val == ssa.Value(ld) {
						if o3, f3 := fieldOwner(s2.Addr); o3 == a.ProcessT && f3 == fl {
							restored = true
						}
					}
				})
				if restored {
					ovs = append(ovs, ov{fl, st, ld})
				}
			})
		})
		for i, o := range ovs {
			fn := fname(f)
			key := fmt.Sprintf("C03.O5|%s|%s#%d", fn, o.field, i+1)
			inst := "the one-shot " + o.field + " is put back on every path, also when the send fails"
			isRestore := func(y ssa.Instruction) bool {
				s2, ok := y.(*ssa.Store)
				if !ok || s2.Val != o.saved {
					return false
				}
				o3, f3 := fieldOwner(s2.Addr)
				return o3 == a.ProcessT && f3 == o.field
			}
			if hit := reaches([]Point{after(o.over)}, isRestore, isReturn); hit != nil {
				r.Bad(rule, key, fn, a.P.Pos(o.over.Pos()), inst, "the return at "+a.P.Pos(hit.Pos())+" is reachable without restoring p."+o.field+": after one failed one-shot send the process keeps the borrowed "+o.field+" for all its later sends")
			} else {
				r.OK(rule, key, fn, a.P.Pos(o.over.Pos()), inst, "every path from the overwrite to a return stores the saved value back")
			}
		}
	}
}

func prioConsts(a *Anchors) (names map[int64]string, byName map[string]int64) {
	names = enumConsts(a.P.Named("gen", "MessagePriority"))
	byName = map[string]int64{}
	for v, n := range names {
		byName[n] = v
	}
	return
}

// c03PriorityTable: O1
func c03PriorityTable(a *Anchors, r *core.Report, pushes []mailboxPush) {
	rule := "C03.O1 priority->queue"
	r.Floor(rule, 9)
	names, byName := prioConsts(a)
	uni := intSet{}
	for v := range names {
		uni[v] = true
	}
	want := map[string]int64{"System": byName["MessagePriorityHigh"], "Urgent": byName["MessagePriorityMax"], "Main": byName["MessagePriorityNormal"]}
	prioT := a.P.Named("gen", "MessagePriority")
	seq := map[string]int{}
	for _, mp := range pushes {
		if mp.Kind != "process" {
			continue
		}
		phi, ok := mp.Call.Value.(*ssa.Phi)
		if !ok {
			continue // a fixed queue: checked by O1b
		}
		fn := fname(mp.Fn)
		seq[fn]++
		key := fmt.Sprintf("C03.O1|%s|switch#%d", fn, seq[fn])
		pos := a.P.Pos(mp.In.Pos())
		inst := "queue chosen from the message priority: High->System, Max->Urgent, otherwise Main"
		// the switched value: a value of type gen.MessagePriority compared with constants in this function
		var sw ssa.Value
		amb := false
		eachInstr(mp.Fn, func(in ssa.Instruction) {
			b, ok := in.(*ssa.BinOp)
			if !ok || b.Op != token.EQL {
				return
			}
			for _, pr := range [][2]ssa.Value{{b.X, b.Y}, {b.Y, b.X}} {
				if _, ok := constInt(pr[1]); ok && pr[0].Type() == types.Type(prioT) {
					if _, isC := pr[0].(*ssa.Const); isC {
						continue
					}
					if sw != nil && sw != pr[0] {
						amb = true
					}
					sw = pr[0]
				}
			}
		})
		if sw == nil || amb {
			r.Unk(rule, key, fn, pos, inst, "cannot identify the switched priority value")
			continue
		}
		sets := refineSets(sw, uni)
		var probs []string
		got := map[string]string{}
		for i, e := range phi.Edges {
			ls := queueLeaves(e)
			if len(ls) != 1 || len(ls[0].Path) == 0 {
				if c, ok := e.(*ssa.Const); ok && c.Value == nil {
					continue
				}
				probs = append(probs, "an incoming queue value is not a single mailbox field")
				continue
			}
			q := ls[0].Path[len(ls[0].Path)-1]
			pred := phi.Block().Preds[i]
			set := sets[pred]
			if set == nil {
				probs = append(probs, "priority value set unknown on the edge selecting "+q)
				continue
			}
			got[q] = set.names(names)
			switch q {
			case "System", "Urgent":
				if len(set) != 1 || !set[want[q]] {
					probs = append(probs, fmt.Sprintf("queue %s is selected for priorities %s (expected only %s)", q, set.names(names), names[want[q]]))
				}
			case "Main":
				if set[want["System"]] || set[want["Urgent"]] {
					probs = append(probs, fmt.Sprintf("queue Main is selected for priorities %s: a High/Max message is queued behind Normal traffic", set.names(names)))
				}
			default:
				probs = append(probs, "priority selects queue "+q)
			}
		}
		for _, q := range []string{"System", "Urgent", "Main"} {
			if _, ok := got[q]; !ok {
				probs = append(probs, "queue "+q+" is never selected")
			}
		}
		// the switched value is the message's priority (options.Priority / parameter priority / sender's p.priority)
		_, path, okp := fieldPath(sw)
		src := sw.Name()
		if okp {
			src = strings.Join(path, ".")
		}
		if okp && !strings.HasSuffix(strings.ToLower(src), "priority") {
			probs = append(probs, "the switched value is "+src+", not a priority")
		}
		if len(probs) > 0 {
			r.Bad(rule, key, fn, pos, inst, strings.Join(probs, "; "))
		} else {
			var parts []string
			for _, q := range []string{"Urgent", "System", "Main"} {
				parts = append(parts, q+"<-"+got[q])
			}
			r.OK(rule, key, fn, pos, inst, "switched on "+src+": "+strings.Join(parts, ", "))
		}
	}
}

// typeOfPushed: the constant stored into the Type field of the pushed mailbox message (-1 unknown).
func typeOfPushed(qm ssa.Value) (int64, bool) {
	qm = stripIface(qm)
	refs := qm.Referrers()
	if refs == nil {
		return 0, false
	}
	for _, rf := range *refs {
		if fa, ok := rf.(*ssa.FieldAddr); ok {
			if _, fl := fieldOwner(fa); fl == "Type" {
				for _, rr := range *fa.Referrers() {
					if st, ok := rr.(*ssa.Store); ok && st.Addr == ssa.Value(fa) {
						if c, ok := constInt(st.Val); ok {
							return c, true
						}
					}
				}
			}
		}
	}
	return 0, false
}

// c03TypeQueue: O1b + O1d
func c03TypeQueue(a *Anchors, r *core.Report, pushes []mailboxPush) {
	rule := "C03.O1b type->queue"
	r.Floor(rule, 18)
	tnames := enumConsts(a.P.Named("gen", "MailboxMessageType"))
	seq := map[string]int{}
	for _, mp := range pushes {
		fn := fname(mp.Fn)
		seq[fn]++
		key := fmt.Sprintf("C03.O1b|%s|push#%d", fn, seq[fn])
		pos := a.P.Pos(mp.In.Pos())
		qs := uniq(mp.Queues)
		sort.Strings(qs)
		if mp.Kind == "forwarded" {
			inst := "log messages are queued in the Log queue"
			if len(qs) == 1 && qs[0] == "Log" {
				r.OK(rule, key, fn, pos, inst, "process logger pushes to mailbox.Log")
			} else {
				r.Bad(rule, key, fn, pos, inst, "the process logger pushes to "+strings.Join(qs, "|"))
			}
			continue
		}
		t, ok := typeOfPushed(mp.Msg)
		if !ok {
			// Forward pushes an existing message: its queue comes from the priority parameter (O1)
			if _, isPhi := mp.Call.Value.(*ssa.Phi); isPhi {
				r.OK(rule, key, fn, pos, "a forwarded message keeps the class chosen by the forwarding priority", "queue chosen by the priority switch (O1)")
				continue
			}
			r.Unk(rule, key, fn, pos, "message type of the pushed mailbox message is known", "no constant store to the Type field of the pushed message")
			continue
		}
		tn := tnames[t]
		inst := fmt.Sprintf("%s message with type %s goes to the right queue class", mp.Kind, tn)
		urgentType := tn == "MailboxMessageTypeExit" || tn == "MailboxMessageTypeInspect"
		var bad string
		if mp.Kind == "process" {
			if urgentType {
				if !(len(qs) == 1 && qs[0] == "Urgent") {
					bad = "exit/inspect message is pushed to " + strings.Join(qs, "|") + " instead of Urgent: it can be overtaken by ordinary traffic"
				}
			} else {
				if _, isPhi := mp.Call.Value.(*ssa.Phi); !isPhi {
					bad = "regular/request/event message is pushed to the fixed queue " + strings.Join(qs, "|") + " instead of the queue of its priority"
				}
			}
		} else { // meta
			if urgentType {
				if !(len(qs) == 1 && qs[0] == "system") {
					bad = "exit/inspect for a meta process is pushed to " + strings.Join(qs, "|") + " instead of system"
				}
			} else if !(len(qs) == 1 && qs[0] == "main") {
				bad = "regular/request for a meta process is pushed to " + strings.Join(qs, "|") + " instead of main"
			}
		}
		if bad != "" {
			r.Bad(rule, key, fn, pos, inst, bad)
		} else {
			r.OK(rule, key, fn, pos, inst, "queue "+strings.Join(qs, "|"))
		}
	}
}

// c03DownPriority: O1c
func c03DownPriority(a *Anchors, r *core.Report) {
	rule := "C03.O1c down=>High"
	r.Floor(rule, 5)
	_, byName := prioConsts(a)
	high := byName["MessagePriorityHigh"]
	for _, f := range funcsOfPkgs(a.P, "node") {
		if f.Parent() != nil || !recvIs(f, a.NodeT) {
			continue
		}
		// functions that build MessageDown* literals and route them
		buildsDown := false
		eachInstr(f, func(in ssa.Instruction) {
			if al, ok := in.(*ssa.Alloc); ok {
				if pt, ok := al.Type().(*types.Pointer); ok {
					if n, ok := pt.Elem().(*types.Named); ok && strings.HasPrefix(n.Obj().Name(), "MessageDown") {
						buildsDown = true
					}
				}
			}
		})
		if !buildsDown {
			continue
		}
		fn := fname(f)
		key := "C03.O1c|" + fn
		inst := "down notifications are routed with priority High (System class)"
		// every RouteSendPID in f whose message is a MessageDown*: its options argument's Priority is High
		n, okAll := 0, true
		eachInstr(f, func(in ssa.Instruction) {
			cc := callCommon(in)
			if cc == nil {
				return
			}
			sf := staticCallee(cc)
			if sf == nil || sf.Name() != "RouteSendPID" {
				return
			}
			n++
			opt := cc.Args[3]
			// load of a local MessageOptions whose Priority field is stored High
			ld, ok := opt.(*ssa.UnOp)
			if !ok {
				okAll = false
				return
			}
			cell, ok := ld.X.(*ssa.Alloc)
			if !ok {
				okAll = false
				return
			}
			found := false
			for _, rf := range *cell.Referrers() {
				if fa, ok := rf.(*ssa.FieldAddr); ok {
					if _, fl := fieldOwner(fa); fl == "Priority" {
						for _, rr := range *fa.Referrers() {
							if st, ok := rr.(*ssa.Store); ok {
								if c, ok := constInt(st.Val); ok && c == high {
									found = true
								} else {
									okAll = false
								}
							}
						}
					}
				}
			}
			if !found {
				okAll = false
			}
		})
		if n == 0 {
			r.Bad(rule, key, fn, a.P.Pos(f.Pos()), inst, "down messages are built but never routed with RouteSendPID")
		} else if okAll {
			r.OK(rule, key, fn, a.P.Pos(f.Pos()), inst, fmt.Sprintf("%d route call(s), options.Priority = MessagePriorityHigh", n))
		} else {
			r.Bad(rule, key, fn, a.P.Pos(f.Pos()), inst, "a down notification is routed with another priority than High")
		}
	}
}

// c03Dequeue: O2
func c03Dequeue(a *Anchors, r *core.Report) {
	rule := "C03.O2 dequeue-order"
	r.Floor(rule, 5)
	procB := ifaceOf(a.P, "gen", "ProcessBehavior")
	var impls []*ssa.Function
	for _, f := range a.P.SrcFuncs {
		if f.Parent() == nil && f.Name() == "ProcessRun" && f.Signature.Recv() != nil && types.Implements(f.Signature.Recv().Type(), procB) {
			impls = append(impls, f)
		}
	}
	check := func(f *ssa.Function, order []string, owner *types.Named, what string) {
		fn := fname(f)
		key := "C03.O2|" + fn
		pops := map[string][]ssa.Instruction{}
		eachInstr(f, func(in ssa.Instruction) {
			cc := callCommon(in)
			if cc == nil || !cc.IsInvoke() || cc.Method.Name() != "Pop" || cc.Value.Type() != types.Type(a.QueueIface) {
				return
			}
			ls := queueLeaves(cc.Value)
			if len(ls) == 1 && len(ls[0].Path) > 0 && ls[0].Owner == owner {
				q := ls[0].Path[len(ls[0].Path)-1]
				pops[q] = append(pops[q], in)
			}
		})
		inst := what + ": classes are polled " + strings.Join(order, " > ") + ", one message per scan, restarting from the top"
		var probs []string
		okEdges := func(pop ssa.Instruction) (succ, fail []Edge) {
			okv := tupleExtract(pop.(ssa.Value), 1)
			if okv == nil {
				return nil, nil
			}
			t, fl, _ := boolEdges(okv)
			return t, fl
		}
		for _, q := range order {
			if len(pops[q]) == 0 {
				probs = append(probs, "queue "+q+" is never polled: its messages are never handled")
			}
		}
		if len(probs) == 0 {
			rank := map[string]int{}
			for i, q := range order {
				rank[q] = i
			}
			// (a) every Pop of a lower class is dominated by the empty edge of a Pop of each higher class
			for _, q := range order {
				for _, lo := range pops[q] {
					for j := 0; j < rank[q]; j++ {
						ok := false
						for _, hi := range pops[order[j]] {
							_, fail := okEdges(hi)
							if len(fail) > 0 && edgesDominate(fail, lo) {
								ok = true
							}
						}
						if !ok {
							probs = append(probs, fmt.Sprintf("Pop(%s) at %s is not dominated by the empty edge of a Pop(%s): a lower class can be served while a higher one has messages", q, a.P.Pos(lo.Pos()), order[j]))
						}
					}
				}
			}
			// (b) after any successful Pop the next Pop reached on every path is one of the top class
			isTop := func(in ssa.Instruction) bool {
				for _, t := range pops[order[0]] {
					if in == t {
						return true
					}
				}
				return false
			}
			for _, q := range order {
				for _, site := range pops[q] {
					succ, _ := okEdges(site)
					var starts []Point
					for _, e := range succ {
						starts = append(starts, Point{e.To(), 0})
					}
					hit := walkAvoid(starts, isTop, func(in ssa.Instruction) bool {
						if isTop(in) {
							return false
						}
						for _, q2 := range order {
							for _, s2 := range pops[q2] {
								if in == s2 {
									return true
								}
							}
						}
						return false
					})
					if len(hit) > 0 {
						probs = append(probs, fmt.Sprintf("after a message from %s another Pop (%s) is reachable without polling %s first: lower classes are drained while a higher class waits", q, a.P.Pos(hit[0].Pos()), order[0]))
					}
				}
			}
		}
		if len(probs) > 0 {
			r.Bad(rule, key, fn, a.P.Pos(f.Pos()), inst, strings.Join(probs, "; "))
		} else {
			r.OK(rule, key, fn, a.P.Pos(f.Pos()), inst, "each Pop dominated by the empty edge of the next higher class; no Pop reachable after a successful Pop before the top one")
		}
	}
	for _, f := range impls {
		check(f, []string{"Urgent", "System", "Main", "Log"}, a.MailboxT, "behaviour loop")
	}
	if a.MetaLoop != nil {
		check(a.MetaLoop, []string{"system", "main"}, a.MetaT, "meta handler")
	}
}

// c03QueueDiscipline: O3
func c03QueueDiscipline(a *Anchors, r *core.Report) {
	rule := "C03.O3 queue-discipline"
	r.Floor(rule, 23)
	// every use of the addresses &q.head, &q.tail, &item.next in package lib
	type use struct {
		f     *ssa.Function
		fld   string
		how   string
		pos   token.Pos
		fresh bool
	}
	var uses []use
	for _, f := range funcsOfPkgs(a.P, "lib") {
		eachInstr(f, func(in ssa.Instruction) {
			fa, ok := in.(*ssa.FieldAddr)
			if !ok {
				return
			}
			own, fl := fieldOwner(fa)
			if own == nil || !(strings.Contains(own.Obj().Name(), "MPSC")) {
				return
			}
			if fl != "head" && fl != "tail" && fl != "next" {
				return
			}
			_, fresh := fa.X.(*ssa.Alloc)
			// follow conversions to the atomic call
			var follow func(v ssa.Value, depth int)
			follow = func(v ssa.Value, depth int) {
				if depth > 4 || v.Referrers() == nil {
					return
				}
				for _, rf := range *v.Referrers() {
					switch x := rf.(type) {
					case *ssa.Convert:
						follow(x, depth+1)
					case *ssa.ChangeType:
						follow(x, depth+1)
					case *ssa.Store:
						if x.Addr == v {
							uses = append(uses, use{f, fl, "plain-store", x.Pos(), fresh})
						}
					case *ssa.UnOp:
						if x.Op == token.MUL {
							uses = append(uses, use{f, fl, "plain-load", x.Pos(), fresh})
						}
					case *ssa.FieldAddr:
						// &q.tail.next : q.tail loaded first (handled as UnOp)
					default:
						if cc := callCommon(rf); cc != nil && isAtomic(cc) {
							uses = append(uses, use{f, fl, staticCallee(cc).Name(), rf.Pos(), fresh})
						}
					}
				}
			}
			follow(fa, 0)
		})
	}
	seq := map[string]int{}
	for _, u := range uses {
		fn := fname(u.f)
		k := fn + u.fld + u.how
		seq[k]++
		key := fmt.Sprintf("C03.O3|%s|%s|%s#%d", fn, u.fld, u.how, seq[k])
		inst := fmt.Sprintf("access %s of queue field %s respects the single-producer-swap / single-consumer discipline", u.how, u.fld)
		bad := ""
		short := u.f.Name()
		switch u.fld {
		case "head":
			switch {
			case u.how == "SwapPointer" && short == "Push":
			case u.how == "plain-store" && u.fresh:
			default:
				bad = "head is accessed by " + u.how + " in " + short + " (only the atomic swap in Push may write it)"
			}
		case "tail":
			switch {
			case u.how == "StorePointer" && short == "Pop":
			case u.how == "LoadPointer" || u.how == "plain-load":
			case u.how == "plain-store" && u.fresh:
			default:
				bad = "tail is accessed by " + u.how + " in " + short + " (only the consumer's store in Pop may write it)"
			}
		case "next":
			switch {
			case u.how == "StorePointer" && short == "Push":
			case u.how == "LoadPointer" || u.how == "plain-load":
			default:
				bad = "next is accessed by " + u.how + " in " + short + " (only the pusher that swapped the head may link it)"
			}
		}
		if bad != "" {
			r.Bad(rule, key, fn, a.P.Pos(u.pos), inst, bad)
		} else {
			r.OK(rule, key, fn, a.P.Pos(u.pos), inst, "allowed")
		}
	}
	// in Pop: the consumer advances by exactly one node and returns that node's value
	for _, f := range funcsOfPkgs(a.P, "lib") {
		if f.Name() != "Pop" || f.Signature.Recv() == nil || !strings.Contains(f.Signature.Recv().Type().String(), "MPSC") {
			continue
		}
		fn := fname(f)
		key := "C03.O3|" + fn + "|advance"
		inst := "Pop moves tail to tail.next (one node, once per call) and returns the value of that node"
		// nextOfTail: v is (a conversion of) a load of tail.next where tail is loaded from the receiver
		nextOfTail := func(v ssa.Value) bool {
			v = strip(v)
			var addr ssa.Value
			switch x := v.(type) {
			case *ssa.Call:
				if !isAtomic(x.Common(), "LoadPointer") {
					return false
				}
				addr = strip(x.Common().Args[0])
			case *ssa.UnOp:
				if x.Op != token.MUL {
					return false
				}
				addr = x.X
			default:
				return false
			}
			fa, ok := addr.(*ssa.FieldAddr)
			if !ok {
				return false
			}
			if _, fl := fieldOwner(fa); fl != "next" {
				return false
			}
			ld, ok := fa.X.(*ssa.UnOp)
			if !ok || ld.Op != token.MUL {
				if c, okc := fa.X.(*ssa.Call); okc && isAtomic(c.Common(), "LoadPointer") {
					if fa2, ok2 := strip(c.Common().Args[0]).(*ssa.FieldAddr); ok2 {
						_, fl := fieldOwner(fa2)
						_, isRecv := fa2.X.(*ssa.Parameter)
						return fl == "tail" && isRecv
					}
				}
				return false
			}
			fa2, ok := ld.X.(*ssa.FieldAddr)
			if !ok {
				return false
			}
			_, fl := fieldOwner(fa2)
			_, isRecv := fa2.X.(*ssa.Parameter)
			return fl == "tail" && isRecv
		}
		var stores []*ssa.Call
		eachInstr(f, func(in ssa.Instruction) {
			c, ok := in.(*ssa.Call)
			if !ok || !isAtomic(c.Common(), "StorePointer") {
				return
			}
			if fa, ok := strip(c.Common().Args[0]).(*ssa.FieldAddr); ok {
				if _, fl := fieldOwner(fa); fl == "tail" {
					stores = append(stores, c)
				}
			}
		})
		var probs []string
		if len(stores) == 0 {
			probs = append(probs, "tail is never advanced")
		}
		for _, st := range stores {
			if !nextOfTail(st.Common().Args[1]) {
				probs = append(probs, "the value stored to tail at "+a.P.Pos(st.Pos())+" is not the node loaded from tail.next")
			}
			isOther := func(in ssa.Instruction) bool {
				for _, o := range stores {
					if in == ssa.Instruction(o) {
						return true
					}
				}
				return false
			}
			if hit := reaches([]Point{{st.Block(), indexIn(st) + 1}}, nil, isOther); hit != nil {
				probs = append(probs, "tail is advanced a second time at "+a.P.Pos(hit.Pos())+" in the same call: a queued item is skipped")
			}
		}
		// the value returned with ok=true is the value field of the node tail advances to
		eachInstr(f, func(in ssa.Instruction) {
			ret, ok := in.(*ssa.Return)
			if !ok || len(ret.Results) != 2 {
				return
			}
			if b, okb := constBool(ret.Results[1]); !okb || !b {
				return
			}
			ld, ok := unspill(ret.Results[0]).(*ssa.UnOp)
			good := false
			if ok && ld.Op == token.MUL {
				if fa, okf := ld.X.(*ssa.FieldAddr); okf {
					if _, fl := fieldOwner(fa); fl == "value" && nextOfTail(fa.X) {
						good = true
					}
				}
			}
			if !good {
				probs = append(probs, "the value returned at "+a.P.Pos(ret.Pos())+" is not the value of the node tail advances to")
			}
		})
		if len(probs) > 0 {
			r.Bad(rule, key, fn, a.P.Pos(f.Pos()), inst, strings.Join(probs, "; "))
		} else {
			r.OK(rule, key, fn, a.P.Pos(f.Pos()), inst, fmt.Sprintf("%d tail store(s), each of tail.next, none followed by another", len(stores)))
		}
	}
	// in Push: the next-link store targets the old head obtained by the swap, and stores the new item
	for _, f := range funcsOfPkgs(a.P, "lib") {
		if f.Name() != "Push" || f.Signature.Recv() == nil {
			continue
		}
		var swap, store *ssa.Call
		eachInstr(f, func(in ssa.Instruction) {
			if c, ok := in.(*ssa.Call); ok && isAtomic(c.Common(), "SwapPointer") {
				swap = c
			}
			if c, ok := in.(*ssa.Call); ok && isAtomic(c.Common(), "StorePointer") {
				store = c
			}
		})
		fn := fname(f)
		key := "C03.O3|" + fn + "|link"
		inst := "Push links the new item behind the head it replaced (swap then store next of the OLD head)"
		if swap == nil || store == nil {
			r.Bad(rule, key, fn, a.P.Pos(f.Pos()), inst, "no atomic swap of head followed by a store of next")
			continue
		}
		// store's address derives from swap's result; stored value == swapped-in value
		derives := false
		var walk func(v ssa.Value, d int)
		walk = func(v ssa.Value, d int) {
			if d > 6 {
				return
			}
			if v == ssa.Value(swap) {
				derives = true
				return
			}
			switch x := v.(type) {
			case *ssa.Convert:
				walk(x.X, d+1)
			case *ssa.ChangeType:
				walk(x.X, d+1)
			case *ssa.FieldAddr:
				walk(x.X, d+1)
			}
		}
		walk(store.Common().Args[0], 0)
		same := strip(store.Common().Args[1]) == strip(swap.Common().Args[1])
		if derives && same && instrDominates(swap, store) {
			r.OK(rule, key, fn, a.P.Pos(swap.Pos()), inst, "store targets old_head.next with the item that became the head")
		} else {
			r.Bad(rule, key, fn, a.P.Pos(swap.Pos()), inst, fmt.Sprintf("address derives from swap result: %v, same item: %v, swap before store: %v", derives, same, instrDominates(swap, store)))
		}
	}
}
