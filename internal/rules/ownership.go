package rules

import (
	"fmt"
	"go/types"
	"sort"
	"strings"

	"golang.org/x/tools/go/ssa"
	"golang.org/x/tools/go/ssa/ssautil"

	"verif/internal/core"
	"verif/internal/load"
)

// Pooled objects (lib.Buffer from TakeBuffer, gen.MailboxMessage from TakeMailboxMessage) go back to
// a process-wide sync.Pool with ReleaseBuffer / ReleaseMailboxMessage. Releasing one object twice
// hands the same object to two later users: frames of unrelated connections overwrite each other,
// a mailbox message is seen zeroed or with another request's reference.
//
// pooledRelease decides, across calls: when a function may release a pooled object it received as a
// parameter (directly, through a callee, or deferred), no caller releases the same object again
// on a path that is compatible with the callee's releasing path. Paths are correlated through the
// callee's error result: the callee's summary says on which kind of return (nil error / non-nil
// error / any) a release has happened, the caller's later release is classified by the nil-ness
// edges of that result which dominate it.
type relSummary map[int]map[string]bool // parameter index -> kinds of return after a release

func pooledKind(t types.Type) string {
	pt, ok := t.(*types.Pointer)
	if !ok {
		return ""
	}
	n, ok := pt.Elem().(*types.Named)
	if !ok || n.Obj().Pkg() == nil {
		return ""
	}
	switch n.Obj().Pkg().Path() + "." + n.Obj().Name() {
	case load.Module + "/lib.Buffer":
		return "buffer"
	case load.Module + "/gen.MailboxMessage":
		return "mailbox message"
	}
	return ""
}

func isReleasePrimitive(cc *ssa.CallCommon) bool {
	return isPkgFunc(cc, load.Module+"/lib", "ReleaseBuffer") || isPkgFunc(cc, load.Module+"/gen", "ReleaseMailboxMessage")
}

func releaseSummaries(p *load.Program) map[*ssa.Function]relSummary {
	var all []*ssa.Function
	for f := range ssautil.AllFunctions(p.SSA) {
		if fnInModule(f) && len(f.Blocks) > 0 {
			all = append(all, f)
		}
	}
	sort.Slice(all, func(i, j int) bool { return all[i].String() < all[j].String() })
	sum := map[*ssa.Function]relSummary{}
	retKinds := func(f *ssa.Function, from ssa.Instruction, deferred bool) map[string]bool {
		out := map[string]bool{}
		idx := errResultIndex(f)
		var rets []ssa.Instruction
		if deferred {
			eachInstr(f, func(in ssa.Instruction) {
				if isReturn(in) {
					rets = append(rets, in)
				}
			})
		} else {
			rets = walkAvoid([]Point{after(from)}, nil, isReturn)
		}
		for _, rt := range rets {
			if idx < 0 {
				out["any"] = true
				continue
			}
			switch errKind(rt.(*ssa.Return).Results[idx]) {
			case "nil":
				out["nil"] = true
			case "global", "call", "new":
				out["err"] = true
			default:
				if maybeNilResult(rt.(*ssa.Return), idx) {
					out["any"] = true
				} else {
					out["err"] = true
				}
			}
		}
		return out
	}
	for round := 0; round < 4; round++ {
		changed := false
		for _, f := range all {
			for i, par := range f.Params {
				if pooledKind(par.Type()) == "" {
					continue
				}
				eachInstr(f, func(in ssa.Instruction) {
					cc := callCommon(in)
					if cc == nil {
						return
					}
					_, isDefer := in.(*ssa.Defer)
					if _, isGo := in.(*ssa.Go); isGo {
						return
					}
					var kinds map[string]bool
					if isReleasePrimitive(cc) && len(cc.Args) > 0 && cc.Args[0] == ssa.Value(par) {
						kinds = retKinds(f, in, isDefer)
					} else {
						for _, g := range calleesAt(p, in) {
							if sum[g] == nil {
								continue
							}
							for j, a := range cc.Args {
								if a == ssa.Value(par) && len(sum[g][paramIndex(cc, j)]) > 0 {
									// the callee may release: any return of f after this call may follow a release
									kinds = retKinds(f, in, isDefer)
								}
							}
						}
					}
					if len(kinds) == 0 {
						return
					}
					if sum[f] == nil {
						sum[f] = relSummary{}
					}
					if sum[f][i] == nil {
						sum[f][i] = map[string]bool{}
					}
					for k := range kinds {
						if !sum[f][i][k] {
							sum[f][i][k] = true
							changed = true
						}
					}
				})
			}
		}
		if !changed {
			break
		}
	}
	return sum
}

// calleesAt: the module functions a call may invoke — the static callee, or for an interface/closure
// call the targets the VTA call graph gives for that site.
func calleesAt(p *load.Program, in ssa.Instruction) []*ssa.Function {
	cc := callCommon(in)
	if cc == nil {
		return nil
	}
	if g := staticCallee(cc); g != nil {
		return []*ssa.Function{g}
	}
	site, ok := in.(ssa.CallInstruction)
	if !ok {
		return nil
	}
	var out []*ssa.Function
	if n := p.CallGraph().Nodes[in.Parent()]; n != nil {
		for _, e := range n.Out {
			if e.Site == site && e.Callee.Func != nil && fnInModule(e.Callee.Func) {
				out = append(out, e.Callee.Func)
			}
		}
	}
	sort.Slice(out, func(i, j int) bool { return out[i].String() < out[j].String() })
	return out
}

// argIndexFor: position of argument k of the call in the callee's Params (an invoke passes the
// receiver separately: callee.Params[0] is the receiver).
func paramIndex(cc *ssa.CallCommon, k int) int {
	if cc.IsInvoke() {
		return k + 1
	}
	return k
}

func kindsCompatible(a, b string) bool { return a == "any" || b == "any" || a == b }

func kindList(m map[string]bool) string {
	var ks []string
	for k := range m {
		ks = append(ks, k)
	}
	sort.Strings(ks)
	return strings.Join(ks, "/")
}

// pooledRelease: one obligation per call site that hands a pooled object to a function which may
// release it.
func pooledRelease(p *load.Program, r *core.Report, rule, rid string, floor int, kind string, inScope func(caller *ssa.Function) bool) {
	r.Floor(rule, floor)
	sum := releaseSummaries(p)
	var all []*ssa.Function
	for f := range ssautil.AllFunctions(p.SSA) {
		if fnInModule(f) && len(f.Blocks) > 0 && inScope(f) {
			all = append(all, f)
		}
	}
	sort.Slice(all, func(i, j int) bool { return all[i].String() < all[j].String() })
	for _, g := range all {
		seq := 0
		eachInstr(g, func(in ssa.Instruction) {
			c, ok := in.(*ssa.Call)
			if !ok {
				return
			}
			cc := c.Common()
			var f *ssa.Function
			merged := relSummary{}
			for _, g0 := range calleesAt(p, in) {
				if sum[g0] == nil {
					continue
				}
				if f == nil {
					f = g0
				}
				for j := range cc.Args {
					for k := range sum[g0][paramIndex(cc, j)] {
						if merged[j] == nil {
							merged[j] = map[string]bool{}
						}
						merged[j][k] = true
					}
				}
			}
			if f == nil {
				return
			}
			for j, b := range cc.Args {
				k1 := merged[j]
				if len(k1) == 0 || pooledKind(b.Type()) != kind {
					continue
				}
				seq++
				fn := fname(g)
				key := fmt.Sprintf("%s|%s|%s#%d", rid, fn, f.Name(), seq)
				pos := p.Pos(in.Pos())
				inst := fmt.Sprintf("the %s handed to %s (which may release it before returning: %s) is not released again by the caller on a compatible path", pooledKind(b.Type()), f.Name(), kindList(k1))
				// the error result of the call
				var errv ssa.Value
				if idx := errResultIndex(f); idx >= 0 {
					if f.Signature.Results().Len() == 1 {
						errv = c
					} else {
						errv = tupleExtract(c, idx)
					}
				}
				var nilE, nonNilE []Edge
				if errv != nil {
					nilE, nonNilE = nilEdgesCell(errv)
				}
				classify := func(l ssa.Instruction) string {
					if len(nonNilE) > 0 && edgesDominate(nonNilE, l) {
						return "err"
					}
					if len(nilE) > 0 && edgesDominate(nilE, l) {
						return "nil"
					}
					return "any"
				}
				var conflicts []string
				check := func(l ssa.Instruction, what string, deferred bool) {
					k2 := "any"
					if !deferred {
						k2 = classify(l)
					}
					for k := range k1 {
						if kindsCompatible(k, k2) {
							conflicts = append(conflicts, fmt.Sprintf("%s at %s (callee released on a %s return, this release is on the %s side)", what, p.Pos(l.Pos()), k, k2))
							return
						}
					}
				}
				// later releases of the same value
				for _, l := range walkAvoid([]Point{after(in)}, nil, func(x ssa.Instruction) bool {
					c2 := callCommon(x)
					if c2 == nil {
						return false
					}
					if _, isGo := x.(*ssa.Go); isGo {
						return false
					}
					if isReleasePrimitive(c2) && len(c2.Args) > 0 && c2.Args[0] == b {
						return true
					}
					for _, f2 := range calleesAt(p, x) {
						if sum[f2] == nil {
							continue
						}
						for j2, a2 := range c2.Args {
							if a2 == b && len(sum[f2][paramIndex(c2, j2)]) > 0 {
								return true
							}
						}
					}
					return false
				}) {
					_, isDefer := l.(*ssa.Defer)
					check(l, "released again", isDefer)
				}
				// a release deferred before the call runs at every exit
				eachInstr(g, func(x ssa.Instruction) {
					d, ok := x.(*ssa.Defer)
					if !ok || !instrReachable(x, in) {
						return
					}
					if isReleasePrimitive(d.Common()) && len(d.Common().Args) > 0 && d.Common().Args[0] == b {
						check(x, "a release deferred earlier", true)
					}
				})
				if len(conflicts) > 0 {
					r.Bad(rule, key, fn, pos, inst, "double release: "+strings.Join(uniq(conflicts), "; ")+" — the pool hands the same object to two users")
				} else {
					r.OK(rule, key, fn, pos, inst, "no release of the same object is reachable on a compatible path after the call")
				}
			}
		})
	}
}

// pooledIntra: inside one function, a pooled object that has been released is not released again and
// not handed on, along any path — a forward data flow over the set of released SSA values, through
// phi nodes (the loop variable that still holds the released object when the loop is re-entered) and
// killed at re-definition (the next Pop yields a new object). One obligation per function that
// releases objects of the kind.
func pooledIntra(p *load.Program, r *core.Report, rule, rid string, floor int, kind string, inScope func(*ssa.Function) bool) {
	r.Floor(rule, floor)
	var all []*ssa.Function
	for f := range ssautil.AllFunctions(p.SSA) {
		if fnInModule(f) && len(f.Blocks) > 0 && inScope(f) {
			all = append(all, f)
		}
	}
	sort.Slice(all, func(i, j int) bool { return all[i].String() < all[j].String() })
	for _, f := range all {
		n := 0
		eachInstr(f, func(in ssa.Instruction) {
			if cc := callCommon(in); cc != nil && isReleasePrimitive(cc) && len(cc.Args) > 0 && pooledKind(cc.Args[0].Type()) == kind {
				if _, isDefer := in.(*ssa.Defer); !isDefer {
					n++
				}
			}
		})
		if n == 0 {
			continue
		}
		type set map[ssa.Value]bool
		in := map[*ssa.BasicBlock]set{f.Blocks[0]: {}}
		out := map[*ssa.BasicBlock]set{}
		var problems []string
		seenP := map[string]bool{}
		step := func(b *ssa.BasicBlock, s set, report bool) set {
			cur := set{}
			for k := range s {
				cur[k] = true
			}
			for _, x := range b.Instrs {
				if _, isPhi := x.(*ssa.Phi); isPhi {
					continue
				}
				if cc := callCommon(x); cc != nil {
					if _, isDefer := x.(*ssa.Defer); !isDefer {
						if isReleasePrimitive(cc) && len(cc.Args) > 0 && pooledKind(cc.Args[0].Type()) == kind {
							v := cc.Args[0]
							if cur[v] && report {
								k := "released again at " + p.Pos(x.Pos())
								if !seenP[k] {
									seenP[k] = true
									problems = append(problems, k)
								}
							}
							cur[v] = true
						} else {
							for _, a := range cc.Args {
								if cur[stripIface(a)] && pooledKind(stripIface(a).Type()) == kind && report {
									k := "handed on at " + p.Pos(x.Pos()) + " after it was released"
									if !seenP[k] {
										seenP[k] = true
										problems = append(problems, k)
									}
								}
							}
						}
					}
				}
				// a re-definition yields a new object
				if v, ok := x.(ssa.Value); ok && cur[v] {
					delete(cur, v)
				}
			}
			return cur
		}
		work := []*ssa.BasicBlock{f.Blocks[0]}
		for len(work) > 0 {
			b := work[len(work)-1]
			work = work[:len(work)-1]
			o := step(b, in[b], false)
			out[b] = o
			for _, succ := range b.Succs {
				ns := set{}
				for k := range o {
					ns[k] = true
				}
				// phis of succ: killed, then set from this edge
				pi := -1
				for i, pr := range succ.Preds {
					if pr == b {
						pi = i
					}
				}
				for _, x := range succ.Instrs {
					ph, ok := x.(*ssa.Phi)
					if !ok {
						break
					}
					delete(ns, ph)
					if pi >= 0 && o[ph.Edges[pi]] {
						ns[ph] = true
					}
				}
				old := in[succ]
				changed := old == nil
				if old == nil {
					old = set{}
				}
				for k := range ns {
					if !old[k] {
						old[k] = true
						changed = true
					}
				}
				in[succ] = old
				if changed {
					work = append(work, succ)
				}
			}
		}
		var bl []*ssa.BasicBlock
		for b := range in {
			bl = append(bl, b)
		}
		sort.Slice(bl, func(i, j int) bool { return bl[i].Index < bl[j].Index })
		for _, b := range bl {
			step(b, in[b], true)
		}
		fn := fname(f)
		key := rid + "|" + fn
		inst := fmt.Sprintf("a %s released in this function is neither released again nor handed on afterwards", kind)
		if len(problems) > 0 {
			sort.Strings(problems)
			r.Bad(rule, key, fn, p.Pos(f.Pos()), inst, strings.Join(problems, "; ")+": the pool hands the same object to two later users (messages lost, delivered to the wrong process or with another request's reference)")
		} else {
			r.OK(rule, key, fn, p.Pos(f.Pos()), inst, fmt.Sprintf("%d release site(s), %d blocks: no released value reaches a second release or a hand-over", n, len(bl)))
		}
	}
}
