package rules

import (
	"fmt"
	"go/token"
	"go/types"
	"sort"
	"strings"

	"golang.org/x/tools/go/ssa"

	"verif/internal/core"
	"verif/internal/load"
)

func init() {
	Registry["C08"] = Set{
		Explanation: "Decides structural clauses of the supervisor's restart semantics in the three state machines (one-for-one, all/rest-for-one, simple-one-for-one): S1 restart decision table — the restart point (the restart-intensity check whose 'not exceeded' edge produces a start action) is reachable only with strategy Permanent, or with strategy Transient on paths that passed reason != Normal and reason != Shutdown, never with Temporary, and never for a disabled child spec (enum value sets of the strategy refined along the switch edges, must-pass of the reason tests, unreachability from the disabled edge); S2 no termination goes unnoticed — every MessageExit* arm of the supervisor's loop hands the exit to the state machine's childTerminated and its action to handleAction on every path, and a failing handleAction ends the loop with that error; S3 handleAction forces LinkChild and LinkParent before every spawn and records the child before asking the state machine for the next action; a spawn error ends the supervisor; S4 sibling agreement on shutdown bookkeeping — wherever a state machine enters its shutdown mode it also sets the wait set and the shutdown reason on the same path, and in shutdown mode it terminates itself exactly when the wait set is empty. Added while probing: S3 the loop that sends the exits is left only by exhausting the list; S5 every spec handed out for starting is a fresh one or has its disabled flag tested false; S6 shutdown is entered only through a cause edge (non-child exit, significant child, intensity exceeded); S7 the Terminate action is produced only on an emptiness edge of the running/wait set; S8 the terminated child's slot is cleared where it is recognised; S9 (all/rest-for-one) the restart position is the child's own index, set under the rest-for-one edge, stops walk the spec list in reverse and starts forward, both from that position; S10 in the stopping phase every termination is compared with the restart position; S11 every explicit panic of a state machine is a listed belief. S12 when a state machine starts the supervisor's own termination, the loop that fills the wait set leaves a child out only because its slot is empty or it is the child that just terminated (every skip decision in the loop is a comparison of the child's pid with the empty/terminated pid or of its name with the terminated name). S13 where any other function parks pids in the wait set (DisableChild), childTerminated deletes the terminated pid on every path, in every mode. S14 every successful return of DisableChild has marked the spec disabled (or found it disabled). S15 a Terminate action produced because nobody is running has a cause on its path (non-child exit, significant child, shutdown in progress, intensity exceeded) or the auto-shutdown option. S16 = C04.L6 the link that reports a child's termination exists before the child can terminate. S17 in every strategy the restart-intensity bookkeeping is reached only behind the not-disabled edge of the terminated child's disabled flag (the intensity counts restarts; a disabled child is not restarted). S18 in the strategy functions every assignment to a field of the answered action is followed by the return of that action without a conditional branch outside a loop in between (a field assigned in a branch that is not taken to its return leaks into a later answer: an empty terminate list with a reason is read as 'terminate the supervisor'). S19 in the all-for-one/rest-for-one strategy every return of childStarted taken in the starting mode either answers with the next child to start or resets the mode.",
		NotDecided: []string{
			"which children run after an arbitrary history (the behavioural core of the property)",
			"the full start/stop choreography with KeepOrder over several rounds (only the walk direction, the restart position, the shutdown causes and the emptiness condition of self-termination are decided)",
			"interleaving of several children dying while a restart is in progress",
		},
		Assumptions: []string{"the exit of a child reaches the supervisor (C04/C10: children are linked both ways)"},
		Run:         runC08,
	}
	Registry["C09"] = Set{
		Explanation: "Decides structural clauses of the restart intensity limit: I1 units — the window test subtracts two values of the same clock unit and compares with the period multiplied by that unit's per-second factor; I2 comparison normal form — 'exceeded' is returned true only under len(restarts) > intensity (or an equivalent form) evaluated after the pruning loop, the early 'not exceeded' return is under len <= intensity, the pruning drops only from the old end and only entries whose age is strictly greater than the period, and the current restart is recorded before counting; I3 plumbing — each of the three callers passes its own restart list, its Period and its Intensity in that order, stores the returned list back, starts the child on the not-exceeded edge and on the exceeded edge terminates the children with ErrSupervisorRestartsExceeded. Added while probing: a 'not exceeded' return is dominated by len(restarts) <= intensity, and the count is never compared with intensity±k. I3 also: on the exceeded edge the recorded shutdown reason is ErrSupervisorRestartsExceeded. I1w the period is converted to clock units by a product computed in a 64-bit type (a narrow product wraps for periods above 65 s), checked whatever the helper's signature is. I4 in every strategy the answer 'start this child (again)' is given only after the restart-intensity bookkeeping has run on that path (the call dominates the assignment of the start-child action).",
		NotDecided: []string{
			"the behaviour over timing patterns (runtime clock values)",
			"clock jumps",
		},
		Assumptions: []string{"time.Now().UnixMilli() is monotone enough over the period"},
		Run:         runC09,
	}
}

func supMachines(p *load.Program) []*ssa.Function {
	var out []*ssa.Function
	for _, f := range funcsOfPkgs(p, "act") {
		if f.Parent() == nil && f.Name() == "childTerminated" && f.Signature.Recv() != nil {
			out = append(out, f)
		}
	}
	sort.Slice(out, func(i, j int) bool { return out[i].String() < out[j].String() })
	return out
}

func runC08(p *load.Program, r *core.Report) {
	machines := supMachines(p)
	if len(machines) < 3 {
		r.Unk("C08.anchors", "C08.anchors|machines", "", "", "three supervisor state machines found", fmt.Sprintf("%d found", len(machines)))
		return
	}
	stratT := p.Named("act", "SupervisorStrategy")
	names := enumConsts(stratT)
	uni := intSet{}
	for v := range names {
		uni[v] = true
	}
	// ---- S1
	rule := "C08.S1 restart-decision-table"
	r.Floor(rule, 3)
	for _, f := range machines {
		fn := fname(f)
		key := "C08.S1|" + fn
		inst := "a restart is considered only for strategy Permanent, or Transient with an abnormal reason; never for Temporary or for a disabled child"
		var check *ssa.Call
		eachInstr(f, func(in ssa.Instruction) {
			if c, ok := in.(*ssa.Call); ok && callsNamed(in, "supCheckRestartIntensity") {
				check = c
			}
		})
		if check == nil {
			r.Bad(rule, key, fn, p.Pos(f.Pos()), inst, "no restart-intensity check in this state machine: restarts are unlimited (C09) or never happen")
			continue
		}
		var sw ssa.Value
		eachInstr(f, func(in ssa.Instruction) {
			b, ok := in.(*ssa.BinOp)
			if !ok || b.Op != token.EQL {
				return
			}
			if _, okc := constInt(b.Y); okc && b.X.Type() == types.Type(stratT) {
				sw = b.X
			}
		})
		var probs []string
		if sw == nil {
			probs = append(probs, "the strategy is never examined: Temporary and Transient children are restarted like Permanent ones")
		} else {
			sets := refineSets(sw, uni)
			set := sets[check.Block()]
			if set == nil {
				probs = append(probs, "strategy value set unknown at the restart point")
			}
			reasonPar := paramOfType(f, "error", 0)
			for v := range set {
				switch names[v] {
				case "SupervisorStrategyPermanent":
				case "SupervisorStrategyTransient":
					// from the Transient edge, the restart point is reachable only through reason != Normal and reason != Shutdown
					var trEdges []Edge
					eachInstr(f, func(in ssa.Instruction) {
						b, ok := in.(*ssa.BinOp)
						if !ok || b.Op != token.EQL || b.X != sw {
							return
						}
						if c, okc := constInt(b.Y); okc && c == v {
							t, _, _ := boolEdges(b)
							trEdges = append(trEdges, t...)
						}
					})
					for _, g := range []string{"TerminateReasonNormal", "TerminateReasonShutdown"} {
						cut := map[Edge]bool{}
						eachInstr(f, func(in ssa.Instruction) {
							b, ok := in.(*ssa.BinOp)
							if !ok || (b.Op != token.EQL && b.Op != token.NEQ) {
								return
							}
							for _, pr := range [][2]ssa.Value{{b.X, b.Y}, {b.Y, b.X}} {
								if pr[0] == ssa.Value(reasonPar) && reasonOrigin(pr[1], 0) == "global:"+g {
									t, fl, _ := boolEdges(b)
									ne := fl
									if b.Op == token.NEQ {
										ne = t
									}
									for _, e := range ne {
										cut[e] = true
									}
								}
							}
						})
						var st []Point
						for _, e := range trEdges {
							st = append(st, Point{e.To(), 0})
						}
						if len(cut) == 0 || reachAvoidEdges(st, cut, nil, func(in ssa.Instruction) bool { return in == ssa.Instruction(check) }) != nil {
							probs = append(probs, "with strategy Transient the restart point is reachable when the reason is "+g+": a child that finished normally is restarted")
						}
					}
				default:
					probs = append(probs, "the restart point is reachable with strategy "+names[v]+": such a child must never be restarted")
				}
			}
		}
		// disabled
		disabledOK := false
		eachInstr(f, func(in ssa.Instruction) {
			v, ok := in.(ssa.Value)
			if !ok {
				return
			}
			if _, path, okp := fieldPath(v); okp && len(path) > 0 && path[len(path)-1] == "disabled" {
				t, _, c := boolEdges(v)
				if c && len(t) > 0 {
					var st []Point
					for _, e := range t {
						st = append(st, Point{e.To(), 0})
					}
					if reaches(st, nil, func(i2 ssa.Instruction) bool { return i2 == ssa.Instruction(check) }) == nil {
						disabledOK = true
					}
				}
			}
		})
		if !disabledOK {
			probs = append(probs, "a disabled child spec can reach the restart point: a disabled child comes back")
		}
		if len(probs) > 0 {
			r.Bad(rule, key, fn, p.Pos(check.Pos()), inst, strings.Join(uniq(probs), "; "))
		} else {
			r.OK(rule, key, fn, p.Pos(check.Pos()), inst, "strategy set at the restart point contains no Temporary; Transient passes both reason tests; disabled edge cannot reach it")
		}
	}

	// ---- S2
	rule2 := "C08.S2 no-termination-unnoticed"
	r.Floor(rule2, 5)
	run := p.Func("act", "Supervisor", "ProcessRun")
	if run == nil {
		r.Unk(rule2, "C08.S2|run", "", "", "supervisor loop found", "not found")
	} else {
		fn := fname(run)
		exitTypes := map[string]bool{"MessageExitPID": true, "MessageExitProcessID": true, "MessageExitAlias": true, "MessageExitEvent": true, "MessageExitNode": true}
		resultCell := namedResultCell(run)
		eachInstr(run, func(in ssa.Instruction) {
			ta, ok := in.(*ssa.TypeAssert)
			if !ok || !ta.CommaOk {
				return
			}
			n, _ := ta.AssertedType.(*types.Named)
			if n == nil || !exitTypes[n.Obj().Name()] {
				return
			}
			key := "C08.S2|" + fn + "|" + n.Obj().Name()
			inst := "exit signal " + n.Obj().Name() + " is handed to the state machine and its action is carried out on every path"
			okv := tupleExtract(ta, 1)
			t, _, _ := boolEdges(okv)
			var st []Point
			for _, e := range t {
				st = append(st, Point{e.To(), 0})
			}
			isCT := func(i ssa.Instruction) bool { return callsNamed(i, "childTerminated") }
			isHA := func(i ssa.Instruction) bool { return callsNamed(i, "handleAction") }
			// leaving the arm: a return or the next mailbox poll
			isPop := func(i ssa.Instruction) bool { return callsNamed(i, "Pop") || isReturn(i) }
			var probs []string
			if h := reaches(st, isCT, isPop); h != nil {
				probs = append(probs, "a path leaves the arm at "+p.Pos(h.Pos())+" without calling childTerminated: the state machine still counts the child as running")
			}
			if h := reaches(st, isHA, isPop); h != nil {
				probs = append(probs, "a path leaves the arm at "+p.Pos(h.Pos())+" without handleAction: the restart/termination decided by the state machine is not carried out")
			}
			// an error from handleAction ends the loop with it
			okErr := false
			for _, g := range walkAvoid(st, isPop, isHA) {
				c := g.(*ssa.Call)
				_, nn, _ := nilEdges(c)
				for _, e := range nn {
					for _, ret := range walkAvoid([]Point{{e.To(), 0}}, func(i ssa.Instruction) bool { return callsNamed(i, "Pop") }, isReturn) {
						if rv := returnedError(ret.(*ssa.Return), resultCell); rv == ssa.Value(c) {
							okErr = true
						}
					}
				}
			}
			if !okErr {
				probs = append(probs, "an error returned by handleAction (supervisor must terminate) is not returned from the loop")
			}
			if len(probs) > 0 {
				r.Bad(rule2, key, fn, p.Pos(ta.Pos()), inst, strings.Join(uniq(probs), "; "))
			} else {
				r.OK(rule2, key, fn, p.Pos(ta.Pos()), inst, "childTerminated and handleAction on every path; its error ends the loop")
			}
		})
	}

	// ---- S3
	rule3 := "C08.S3 start-action"
	r.Floor(rule3, 3)
	ha := p.Func("act", "Supervisor", "handleAction")
	if ha == nil {
		r.Unk(rule3, "C08.S3|fn", "", "", "handleAction found", "not found")
	} else {
		fn := fname(ha)
		seq := 0
		var started ssa.Instruction
		eachInstr(ha, func(in ssa.Instruction) {
			if callsNamed(in, "childStarted") {
				started = in
			}
		})
		eachInstr(ha, func(in ssa.Instruction) {
			c, ok := in.(*ssa.Call)
			if !ok || !(callsNamed(in, "Spawn") || callsNamed(in, "SpawnRegister")) {
				return
			}
			seq++
			key := fmt.Sprintf("C08.S3|%s|spawn#%d", fn, seq)
			inst := "a child is started linked both ways, recorded, and only then reported to the state machine; a start failure ends the supervisor"
			var opt ssa.Value
			for _, arg := range c.Common().Args {
				if namedOf(arg.Type()) == "gen.ProcessOptions" {
					opt = arg
				}
			}
			var probs []string
			if !linkParentTrue(opt, in) {
				probs = append(probs, "LinkParent is not forced true")
			}
			if !fieldForcedTrue(opt, in, "LinkChild") {
				probs = append(probs, "LinkChild is not forced true: the supervisor does not get the child's exit")
			}
			// record before childStarted
			rec := false
			eachInstr(ha, func(i2 ssa.Instruction) {
				if mu, ok := i2.(*ssa.MapUpdate); ok {
					if _, path, okp := fieldPath(mu.Map); okp && len(path) > 0 && path[len(path)-1] == "children" {
						if started != nil && instrDominates(i2, started) {
							rec = true
						}
					}
				}
			})
			if !rec {
				probs = append(probs, "the child is not recorded in the children table before childStarted")
			}
			// spawn error returns it
			errv := tupleExtract(c, 1)
			okErr := false
			if errv != nil {
				// the error may flow through a phi of the two spawn forms
				eachInstr(ha, func(i2 ssa.Instruction) {
					if ret, ok := i2.(*ssa.Return); ok {
						o := ret.Results[0]
						if o == errv {
							okErr = true
						}
						if phi, ok := o.(*ssa.Phi); ok {
							for _, e := range phi.Edges {
								if e == errv {
									okErr = true
								}
							}
						}
					}
				})
			}
			if !okErr {
				probs = append(probs, "a failed child start is not returned as the supervisor's termination reason")
			}
			if len(probs) > 0 {
				r.Bad(rule3, key, fn, p.Pos(in.Pos()), inst, strings.Join(probs, "; "))
			} else {
				r.OK(rule3, key, fn, p.Pos(in.Pos()), inst, "LinkChild/LinkParent forced, recorded before childStarted, error returned")
			}
		})
		key := "C08.S3|" + fn + "|terminate-children"
		inst := "the terminate action sends the exit with the action's reason to every listed child and terminates the supervisor when the list is empty"
		sendOK, retOK := false, false
		eachInstr(ha, func(in ssa.Instruction) {
			cc := callCommon(in)
			if cc != nil && callsNamed(in, "SendExit") {
				args := cc.Args
				if !cc.IsInvoke() {
					args = args[1:]
				}
				if _, path, ok := fieldPath(args[len(args)-1]); ok && len(path) > 0 && path[len(path)-1] == "reason" {
					sendOK = true
				}
			}
			if ret, ok := in.(*ssa.Return); ok {
				if _, path, okp := fieldPath(ret.Results[0]); okp && len(path) > 0 && path[len(path)-1] == "reason" {
					retOK = true
				}
			}
		})
		// "every listed child": the loop around the SendExit is left only by exhausting the list
		loopProblem := ""
		eachInstr(ha, func(in ssa.Instruction) {
			if callCommon(in) != nil && callsNamed(in, "SendExit") {
				if ok, why := loopExitsOnlyAtHeader(in); !ok {
					loopProblem = why + " (" + p.Pos(in.Pos()) + ")"
				}
			}
		})
		if sendOK && retOK && loopProblem != "" {
			r.Bad(rule3, key, fn, p.Pos(ha.Pos()), inst, "the loop over the listed children "+loopProblem+": the remaining children never get the exit and the supervisor waits for them forever")
		} else if sendOK && retOK {
			r.OK(rule3, key, fn, p.Pos(ha.Pos()), inst, "SendExit(pid, action.reason) in a loop left only by exhaustion; return action.reason")
		} else {
			r.Bad(rule3, key, fn, p.Pos(ha.Pos()), inst, fmt.Sprintf("exit with the action's reason: %v, termination with the action's reason: %v", sendOK, retOK))
		}
	}

	// ---- S5 a disabled child stays down
	c08DisabledStaysDown(p, r)
	// ---- S6..S9
	c08Endings(p, r, machines)
	c08Bookkeeping(p, r, machines)
	c08Stopping(p, r, machines)
	c08WaitSetComplete(p, r, machines, "C08.S12 wait-set-complete", "C08.S12", 3)
	c08WaitBookkeeping(p, r, machines)
	// S16: the link that tells the supervisor about a child's termination exists before the child can terminate
	if a, problems := getAnchors(p); len(problems) == 0 {
		r.Floor("C08.S16 child-linked-before-it-can-terminate", 1)
		c04SpawnLinkChild(a, r, "C08.S16 child-linked-before-it-can-terminate")
	}
	c08DisableMarks(p, r)
	c08IntensityCountsRestartsOnly(p, r)
	c08ActionAssignedWhereReturned(p, r)
	c08StartModeEnds(p, r)

	// ---- S4
	rule4 := "C08.S4 shutdown-bookkeeping"
	r.Floor(rule4, 12)
	for _, f := range machines {
		fn := fname(f)
		// sites that enter shutdown: store true into field shutdown, or store 3 into field mode
		seq := 0
		eachInstr(f, func(in ssa.Instruction) {
			st, ok := in.(*ssa.Store)
			if !ok {
				return
			}
			_, fl := fieldOwner(st.Addr)
			enter := false
			if fl == "shutdown" {
				if b, ok := constBool(st.Val); ok && b {
					enter = true
				}
			}
			if fl == "mode" {
				if c, ok := constInt(st.Val); ok && c == 3 {
					enter = true
				}
			}
			if !enter {
				return
			}
			seq++
			key := fmt.Sprintf("C08.S4|%s|enter-shutdown#%d", fn, seq)
			inst := "entering shutdown sets the wait set and the shutdown reason on the same path"
			// same block (straight-line) stores to wait (or MapUpdate on wait earlier in a dominating loop) and shutdownReason
			waitOK, reasonOK := false, false
			for _, i2 := range in.Block().Instrs {
				if s2, ok := i2.(*ssa.Store); ok {
					if _, f2 := fieldOwner(s2.Addr); f2 == "wait" {
						waitOK = true
					} else if f2 == "shutdownReason" {
						reasonOK = true
					}
				}
			}
			if !waitOK {
				// wait filled by MapUpdate in a loop that precedes
				eachInstr(f, func(i2 ssa.Instruction) {
					if mu, ok := i2.(*ssa.MapUpdate); ok {
						if _, path, okp := fieldPath(mu.Map); okp && len(path) > 0 && path[len(path)-1] == "wait" && instrReachable(i2, in) {
							waitOK = true
						}
					}
				})
			}
			if waitOK && reasonOK {
				r.OK(rule4, key, fn, p.Pos(in.Pos()), inst, "wait set and shutdownReason stored with the mode change")
			} else {
				r.Bad(rule4, key, fn, p.Pos(in.Pos()), inst, fmt.Sprintf("wait set stored: %v, shutdown reason stored: %v — the supervisor waits for nobody (terminates while children run) or terminates with a stale reason", waitOK, reasonOK))
			}
		})
		// in shutdown mode: terminate exactly when wait is empty
		key := "C08.S4|" + fn + "|drain"
		inst := "in shutdown mode the supervisor terminates itself exactly when the wait set is empty, with the recorded reason"
		okDrain := false
		eachInstr(f, func(in ssa.Instruction) {
			b, ok := in.(*ssa.BinOp)
			if !ok {
				return
			}
			fl := leqEdges(b, func(v ssa.Value) bool {
				return isLenCallOf(v, func(x ssa.Value) bool {
					_, path, okp := fieldPath(x)
					return okp && len(path) > 0 && path[len(path)-1] == "wait"
				})
			}, 0)
			// on the empty edge: action.do = supActionTerminate and reason = s.shutdownReason
			for _, e := range fl {
				blk := e.To()
				term, rsn := false, false
				for _, i2 := range blk.Instrs {
					if s2, ok := i2.(*ssa.Store); ok {
						_, f2 := fieldOwner(s2.Addr)
						if f2 == "do" {
							if cv, ok := constInt(s2.Val); ok && cv == 4 {
								term = true
							}
						}
						if f2 == "reason" {
							if _, path, okp := fieldPath(s2.Val); okp && len(path) > 0 && path[len(path)-1] == "shutdownReason" {
								rsn = true
							}
						}
					}
				}
				if term && rsn {
					okDrain = true
				}
			}
		})
		if okDrain {
			r.OK(rule4, key, fn, p.Pos(f.Pos()), inst, "len(wait) > 0 false edge: action Terminate with shutdownReason")
		} else {
			r.Bad(rule4, key, fn, p.Pos(f.Pos()), inst, "no branch that, on an empty wait set, returns the Terminate action with the recorded shutdown reason")
		}
	}
}

// fieldForcedTrue: like linkParentTrue for an arbitrary bool field.
// c08DisabledStaysDown (S5): every child spec a state machine hands out for starting — a value
// stored into the spec field of an action, or returned by a helper whose result is stored there —
// is either a spec created in the same function, or the dereference of a spec pointer whose
// disabled flag was tested false (or just set false: enable) on every path to that point.
func c08DisabledStaysDown(p *load.Program, r *core.Report) {
	rule := "C08.S5 disabled-stays-down"
	r.Floor(rule, 15)
	// functions exempt by construction, confirmed by reading: they only see specs they create
	exempt := map[string]string{
		"init": "builds the spec list from the supervisor spec; disabled is the zero value",
	}
	isStrategy := func(f *ssa.Function) bool {
		rv := root(f).Signature.Recv()
		if rv == nil {
			return false
		}
		n := namedOf(rv.Type())
		return n == "act.supOFO" || n == "act.supARFO" || n == "act.supSOFO"
	}
	ptrKey := func(ptr ssa.Value) string {
		if ld, ok := ptr.(*ssa.UnOp); ok && ld.Op == token.MUL {
			if ia, ok := ld.X.(*ssa.IndexAddr); ok {
				if _, path, okp := fieldPath(ia.X); okp && len(path) > 0 {
					return "elem:" + path[len(path)-1] + "[" + ia.Index.Name() + "]"
				}
			}
		}
		return "val:" + ptr.Name()
	}
	// guarded: at instruction `at`, the spec behind pointer ptr is known not to be disabled
	guarded := func(f *ssa.Function, ptr ssa.Value, at ssa.Instruction) bool {
		key := ptrKey(ptr)
		ok := false
		eachInstr(f, func(in ssa.Instruction) {
			fa, isFA := in.(*ssa.FieldAddr)
			if !isFA || ok {
				return
			}
			if _, fl := fieldOwner(fa); fl != "disabled" || ptrKey(fa.X) != key {
				return
			}
			for _, rf := range *fa.Referrers() {
				switch x := rf.(type) {
				case *ssa.UnOp:
					if x.Op == token.MUL {
						_, fls, _ := boolEdges(x)
						if len(fls) > 0 && edgesDominate(fls, at) {
							ok = true
						}
					}
				case *ssa.Store:
					if b, okb := constBool(x.Val); okb && !b && x.Addr == ssa.Value(fa) && instrDominates(x, at) {
						ok = true
					}
				}
			}
		})
		return ok
	}
	var checkValue func(f *ssa.Function, v ssa.Value, at ssa.Instruction, depth int) (bool, string)
	checkValue = func(f *ssa.Function, v ssa.Value, at ssa.Instruction, depth int) (bool, string) {
		switch x := v.(type) {
		case *ssa.UnOp:
			if x.Op == token.MUL {
				if al, ok := x.X.(*ssa.Alloc); ok {
					// local spec value: created here (field-wise), or a copy of something else
					for _, rf := range *al.Referrers() {
						if st, ok := rf.(*ssa.Store); ok && st.Addr == ssa.Value(al) && depth < 2 {
							if ok2, w := checkValue(f, st.Val, st, depth+1); !ok2 {
								return false, w
							}
						}
					}
					return true, "spec value local to the function"
				}
				if guarded(f, x.X, at) {
					return true, "dereference of a spec whose disabled flag is false on every path"
				}
				return false, "the spec is taken from the list without its disabled flag having been tested"
			}
		case *ssa.Parameter:
			return true, "spec passed in by the caller"
		case *ssa.Call:
			if g := staticCallee(x.Common()); g != nil && depth < 2 && len(g.Blocks) > 0 {
				allOK, why := true, ""
				eachInstr(g, func(in ssa.Instruction) {
					ret, ok := in.(*ssa.Return)
					if !ok || len(ret.Results) == 0 {
						return
					}
					if ok2, w := checkValue(g, unspill(ret.Results[0]), ret, depth+1); !ok2 {
						allOK, why = false, fname(g)+": "+w
					}
				})
				if allOK {
					return true, "result of " + fname(g) + ", which returns only enabled specs"
				}
				return false, why
			}
		}
		return false, fmt.Sprintf("spec value of unrecognised origin (%T)", v)
	}
	for _, f := range funcsOfPkgs(p, "act") {
		if !isStrategy(f) {
			continue
		}
		seq := 0
		eachInstr(f, func(in ssa.Instruction) {
			st, ok := in.(*ssa.Store)
			if !ok {
				return
			}
			fa, ok := st.Addr.(*ssa.FieldAddr)
			if !ok {
				return
			}
			own, fl := fieldOwner(fa)
			if own == nil || own.Obj().Name() != "supAction" || fl != "spec" {
				return
			}
			seq++
			fn := fname(f)
			key := fmt.Sprintf("C08.S5|%s|start-spec#%d", fn, seq)
			inst := "the child spec handed out for starting is not a disabled one"
			if why, ex := exempt[f.Name()]; ex {
				r.OK(rule, key, fn, p.Pos(st.Pos()), inst, "listed: "+why)
				return
			}
			if ok2, why := checkValue(f, st.Val, st, 0); ok2 {
				r.OK(rule, key, fn, p.Pos(st.Pos()), inst, why)
			} else {
				r.Bad(rule, key, fn, p.Pos(st.Pos()), inst, why+": a child disabled with DisableChild is started again by the restart strategy")
			}
		})
	}
}

func fieldForcedTrue(opt ssa.Value, at ssa.Instruction, field string) bool {
	ld, ok := opt.(*ssa.UnOp)
	if !ok {
		return false
	}
	f := at.Parent()
	found := false
	eachInstr(f, func(in ssa.Instruction) {
		st, ok := in.(*ssa.Store)
		if !ok {
			return
		}
		fa, ok := st.Addr.(*ssa.FieldAddr)
		if !ok {
			return
		}
		if _, fl := fieldOwner(fa); fl != field {
			return
		}
		b1, p1, _ := fieldPath(fa.X)
		b2, p2, _ := fieldPath(ld.X)
		if canonCell(fa.X) != canonCell(ld.X) && !(b1 == b2 && strings.Join(p1, ".") == strings.Join(p2, ".")) {
			return
		}
		if b, ok := constBool(st.Val); ok && b && instrDominates(in, at) {
			found = true
		}
	})
	return found
}

func runC09(p *load.Program, r *core.Report) {
	c09RestartPassesIntensity(p, r)
	f := p.Func("act", "", "supCheckRestartIntensity")
	if f == nil {
		r.Unk("C09.anchors", "C09.anchors|fn", "", "", "intensity check found", "act.supCheckRestartIntensity not found")
		return
	}
	fn := fname(f)
	// ---- I1w: the conversion of the period to clock units is not done in a narrow type (whatever the signature is)
	{
		rule := "C09.I1w period-product-not-in-a-narrow-type"
		r.Floor(rule, 1)
		n := 0
		eachInstr(f, func(in ssa.Instruction) {
			b, ok := in.(*ssa.BinOp)
			if !ok || b.Op != token.MUL {
				return
			}
			var c int64
			var okc bool
			if c, okc = constInt(b.Y); !okc {
				if c, okc = constInt(b.X); !okc {
					return
				}
			}
			if c != 1000 && c != 1000000 && c != 1000000000 {
				return
			}
			n++
			key := fmt.Sprintf("C09.I1w|%s|product#%d", fn, n)
			inst := "the restart period is multiplied by the clock's per-second factor in a 64-bit type"
			if w := intWidth(b.Type()); isIntegerType(b.Type()) && w < 64 {
				r.Bad(rule, key, fn, p.Pos(in.Pos()), inst, fmt.Sprintf("the product is computed in %s (%d bits) and converted afterwards: for a period of 66 s or more it wraps — restarts that are still inside the configured period are dropped as too old and the supervisor never gives up", b.Type().String(), w))
			} else {
				r.OK(rule, key, fn, p.Pos(in.Pos()), inst, "product in "+b.Type().String())
			}
		})
		if n == 0 {
			r.Unk(rule, "C09.I1w|"+fn, fn, p.Pos(f.Pos()), "the period is converted to clock units by a multiplication with 10^3/10^6/10^9", "no such product found")
		}
	}
	if len(f.Params) != 3 {
		r.Unk("C09.anchors", "C09.anchors|params", fn, p.Pos(f.Pos()), "parameters (restarts, period, intensity)", "signature changed")
		return
	}
	// by position and type: ([]int64, int, int)
	restarts, period, intensity := f.Params[0], f.Params[1], f.Params[2]
	if _, ok := restarts.Type().Underlying().(*types.Slice); !ok {
		r.Unk("C09.anchors", "C09.anchors|params", fn, p.Pos(f.Pos()), "parameters (restarts, period, intensity)", "first parameter is not the restart list")
		return
	}
	// ---- I1 units
	rule := "C09.I1 units"
	r.Floor(rule, 1)
	{
		factor := map[string]int64{"Unix": 1, "UnixMilli": 1000, "UnixMicro": 1000000, "UnixNano": 1000000000}
		clock := ""
		eachInstr(f, func(in ssa.Instruction) {
			if cc := callCommon(in); cc != nil {
				if sf := staticCallee(cc); sf != nil && sf.Pkg != nil && sf.Pkg.Pkg.Path() == "time" {
					if _, ok := factor[sf.Name()]; ok {
						clock = sf.Name()
					}
				}
			}
		})
		// period * K
		var k int64 = -1
		eachInstr(f, func(in ssa.Instruction) {
			b, ok := in.(*ssa.BinOp)
			if !ok || b.Op != token.MUL {
				return
			}
			for _, pr := range [][2]ssa.Value{{b.X, b.Y}, {b.Y, b.X}} {
				if strip(pr[0]) == ssa.Value(period) {
					if c, ok := constInt(pr[1]); ok {
						k = c
					}
				}
			}
		})
		key := "C09.I1|" + fn
		inst := "the period (seconds) is converted to the unit of the clock the restart timestamps use"
		switch {
		case clock == "":
			r.Bad(rule, key, fn, p.Pos(f.Pos()), inst, "no wall-clock reading found")
		case k < 0 && factor[clock] != 1:
			r.Bad(rule, key, fn, p.Pos(f.Pos()), inst, "timestamps are "+clock+" but the period is not scaled")
		case k >= 0 && k != factor[clock]:
			r.Bad(rule, key, fn, p.Pos(f.Pos()), inst, fmt.Sprintf("timestamps come from time.%s (factor %d per second) but the period is multiplied by %d: the window is %gx too long/short", clock, factor[clock], k, float64(k)/float64(factor[clock])))
		default:
			r.OK(rule, key, fn, p.Pos(f.Pos()), inst, fmt.Sprintf("time.%s with period * %d", clock, factor[clock]))
		}
	}
	// ---- I2
	rule2 := "C09.I2 comparison-normal-form"
	r.Floor(rule2, 4)
	{
		// list value after append: the phi/slices of restarts; len(x) where x derives from restarts
		derivesList := func(v ssa.Value) bool {
			seen := map[ssa.Value]bool{}
			var rec func(v ssa.Value, d int) bool
			rec = func(v ssa.Value, d int) bool {
				if seen[v] || d > 10 {
					return false
				}
				seen[v] = true
				if v == ssa.Value(restarts) {
					return true
				}
				switch x := v.(type) {
				case *ssa.Phi:
					for _, e := range x.Edges {
						if rec(e, d+1) {
							return true
						}
					}
				case *ssa.Slice:
					return rec(x.X, d+1)
				case *ssa.Call:
					if b, ok := x.Common().Value.(*ssa.Builtin); ok && b.Name() == "append" {
						return rec(x.Common().Args[0], d+1)
					}
				}
				return false
			}
			return rec(v, 0)
		}
		isLenList := func(v ssa.Value) bool {
			c, ok := v.(*ssa.Call)
			if !ok {
				return false
			}
			b, ok := c.Common().Value.(*ssa.Builtin)
			return ok && b.Name() == "len" && derivesList(c.Common().Args[0])
		}
		// exceedEdges: edges on which len(list) > intensity holds, for the accepted comparison shapes
		type cmp struct {
			in          *ssa.BinOp
			gtEdges     []Edge // len > intensity
			leEdges     []Edge // len <= intensity
			afterAppend bool
		}
		var cmps []cmp
		eachInstr(f, func(in ssa.Instruction) {
			b, ok := in.(*ssa.BinOp)
			if !ok {
				return
			}
			t, fl, _ := boolEdges(b)
			lenL, lenR := isLenList(b.X), isLenList(b.Y)
			intL, intR := b.X == ssa.Value(intensity), b.Y == ssa.Value(intensity)
			switch {
			case lenL && intR && b.Op == token.GTR, intL && lenR && b.Op == token.LSS:
				cmps = append(cmps, cmp{in: b, gtEdges: t, leEdges: fl})
			case lenL && intR && b.Op == token.LEQ, intL && lenR && b.Op == token.GEQ:
				cmps = append(cmps, cmp{in: b, gtEdges: fl, leEdges: t})
			case lenL && intR && (b.Op == token.GEQ || b.Op == token.LSS), intL && lenR && (b.Op == token.LEQ || b.Op == token.GTR):
				// off by one: len >= intensity / len < intensity
				cmps = append(cmps, cmp{in: b})
			}
		})
		var probs []string
		// returns
		nTrue, nFalse := 0, 0
		var loopPrune *ssa.Slice
		eachInstr(f, func(in ssa.Instruction) {
			if sl, ok := in.(*ssa.Slice); ok && derivesList(sl.X) {
				if c, okc := constInt(sl.Low); sl.Low != nil && okc && c == 1 && sl.High == nil {
					loopPrune = sl
				}
			}
		})
		eachInstr(f, func(in ssa.Instruction) {
			ret, ok := in.(*ssa.Return)
			if !ok || len(ret.Results) != 2 {
				return
			}
			bv, okb := constBool(ret.Results[1])
			if !okb {
				probs = append(probs, "the exceeded flag is not a constant at "+p.Pos(ret.Pos()))
				return
			}
			if bv {
				nTrue++
				ok := false
				for _, c := range cmps {
					if len(c.gtEdges) > 0 && edgesDominate(c.gtEdges, ret) {
						// evaluated after pruning: the compare is not inside/before the loop: the prune slice cannot be reached from the compare
						if loopPrune == nil || !instrReachable(c.in, loopPrune) {
							ok = true
						}
					}
				}
				if !ok {
					probs = append(probs, "'exceeded' is returned at "+p.Pos(ret.Pos())+" without being dominated by len(restarts) > intensity evaluated after the pruning: the supervisor gives up one restart too early or too late, or counts restarts outside the window")
				}
			} else {
				nFalse++
				ok := false
				for _, c := range cmps {
					if len(c.leEdges) > 0 && edgesDominate(c.leEdges, ret) {
						ok = true
					}
				}
				if !ok {
					probs = append(probs, "'not exceeded' is returned at "+p.Pos(ret.Pos())+" without being dominated by len(restarts) <= intensity: one restart more than the limit is let through")
				}
			}
		})
		// comparisons of the count with something computed from the limit
		eachInstr(f, func(in ssa.Instruction) {
			b, ok := in.(*ssa.BinOp)
			if !ok {
				return
			}
			switch b.Op {
			case token.LSS, token.LEQ, token.GTR, token.GEQ, token.EQL, token.NEQ:
			default:
				return
			}
			derived := func(v ssa.Value) bool {
				ar, ok := v.(*ssa.BinOp)
				return ok && (ar.Op == token.ADD || ar.Op == token.SUB) && (ar.X == ssa.Value(intensity) || ar.Y == ssa.Value(intensity))
			}
			if (isLenList(b.X) && derived(b.Y)) || (isLenList(b.Y) && derived(b.X)) {
				probs = append(probs, "the restart count is compared with intensity±k at "+p.Pos(b.Pos())+" instead of the limit itself")
			}
		})
		for _, c := range cmps {
			if len(c.gtEdges) == 0 && len(c.leEdges) == 0 {
				probs = append(probs, "comparison at "+p.Pos(c.in.Pos())+" is off by one against the limit (len >= intensity / len < intensity): the (Intensity)-th restart is refused")
			}
		}
		if nTrue == 0 {
			probs = append(probs, "'exceeded' is never returned true: the limit is not enforced")
		}
		if nFalse == 0 {
			probs = append(probs, "'exceeded' is never returned false")
		}
		key := "C09.I2|" + fn + "|limit"
		inst := "exceeded <=> more than Intensity restarts remain inside the window after pruning"
		if len(probs) > 0 {
			r.Bad(rule2, key, fn, p.Pos(f.Pos()), inst, strings.Join(uniq(probs), "; "))
		} else {
			r.OK(rule2, key, fn, p.Pos(f.Pos()), inst, fmt.Sprintf("%d comparison(s) of len(restarts) with intensity; %d true / %d false return(s)", len(cmps), nTrue, nFalse))
		}
		// pruning: drop oldest only, strictly older than period
		key2 := "C09.I2|" + fn + "|prune"
		inst2 := "only the oldest entries are dropped, and only when strictly older than the period"
		var p2 []string
		if loopPrune == nil {
			p2 = append(p2, "no restarts = restarts[1:] pruning: restarts older than the period keep counting")
		} else {
			// guarded by now - restarts[0] > periodMillis (strict)
			ok := false
			eachInstr(f, func(in ssa.Instruction) {
				b, okb := in.(*ssa.BinOp)
				if !okb {
					return
				}
				sub, oks := b.X.(*ssa.BinOp)
				if !oks || sub.Op != token.SUB {
					return
				}
				// sub.Y is load of index 0 of the list
				ld, okl := sub.Y.(*ssa.UnOp)
				if !okl {
					return
				}
				ia, oki := ld.X.(*ssa.IndexAddr)
				if !oki || !derivesList(ia.X) {
					return
				}
				if c, okc := constInt(ia.Index); !okc || c != 0 {
					p2 = append(p2, "the age test looks at another element than the oldest")
					return
				}
				t, _, _ := boolEdges(b)
				switch b.Op {
				case token.GTR:
					if edgesDominate(t, loopPrune) {
						ok = true
					}
				case token.GEQ:
					p2 = append(p2, "entries exactly one period old are dropped (>=): a restart at the edge of the window is forgotten")
				}
			})
			if !ok && len(p2) == 0 {
				p2 = append(p2, "the pruning is not guarded by 'now - oldest > period'")
			}
		}
		if len(p2) > 0 {
			r.Bad(rule2, key2, fn, p.Pos(f.Pos()), inst2, strings.Join(uniq(p2), "; "))
		} else {
			r.OK(rule2, key2, fn, p.Pos(loopPrune.Pos()), inst2, "restarts[1:] under now - restarts[0] > period*unit")
		}
		// the current restart is appended before counting
		key3 := "C09.I2|" + fn + "|record"
		inst3 := "the current restart is recorded (appended with the current time) before the count is taken"
		var app *ssa.Call
		eachInstr(f, func(in ssa.Instruction) {
			if c, ok := in.(*ssa.Call); ok {
				if b, okb := c.Common().Value.(*ssa.Builtin); okb && b.Name() == "append" && c.Common().Args[0] == ssa.Value(restarts) {
					app = c
				}
			}
		})
		okApp := app != nil
		if okApp {
			for _, c := range cmps {
				if !instrDominates(app, c.in) {
					okApp = false
				}
			}
		}
		if okApp {
			r.OK(rule2, key3, fn, p.Pos(app.Pos()), inst3, "append dominates every comparison")
		} else {
			r.Bad(rule2, key3, fn, p.Pos(f.Pos()), inst3, "the restart being decided is not in the list when it is counted: the limit is effectively Intensity+1")
		}
		// every returned list is the pruned/appended one
		key4 := "C09.I2|" + fn + "|returned-list"
		okRet := true
		eachInstr(f, func(in ssa.Instruction) {
			if ret, ok := in.(*ssa.Return); ok && len(ret.Results) == 2 {
				if ret.Results[0] == ssa.Value(restarts) || !derivesList(ret.Results[0]) {
					okRet = false
				}
			}
		})
		if okRet {
			r.OK(rule2, key4, fn, p.Pos(f.Pos()), "the updated list is returned on every path", "all returns hand back the appended/pruned list")
		} else {
			r.Bad(rule2, key4, fn, p.Pos(f.Pos()), "the updated list is returned on every path", "a return hands back the original list: that restart is forgotten")
		}
	}
	// ---- I3 plumbing
	rule3 := "C09.I3 plumbing"
	r.Floor(rule3, 3)
	for _, m := range supMachines(p) {
		mf := fname(m)
		key := "C09.I3|" + mf
		inst := "the state machine passes its own restart list, Period and Intensity, stores the list back, starts the child when not exceeded and otherwise terminates the children with ErrSupervisorRestartsExceeded"
		var call *ssa.Call
		eachInstr(m, func(in ssa.Instruction) {
			if c, ok := in.(*ssa.Call); ok && staticCallee(c.Common()) == f {
				call = c
			}
		})
		if call == nil {
			r.Bad(rule3, key, mf, p.Pos(m.Pos()), inst, "no call of the intensity check")
			continue
		}
		var probs []string
		args := call.Common().Args
		fieldOfArg := func(v ssa.Value) string {
			_, path, ok := fieldPath(strip(v))
			if !ok {
				return "?"
			}
			return strings.Join(path, ".")
		}
		if a0 := fieldOfArg(args[0]); a0 != "restarts" {
			probs = append(probs, "first argument is "+a0+", not the machine's restart list")
		}
		if a1 := fieldOfArg(args[1]); a1 != "restart.Period" {
			probs = append(probs, "second argument is "+a1+", not restart.Period (period and intensity swapped?)")
		}
		if a2 := fieldOfArg(args[2]); a2 != "restart.Intensity" {
			probs = append(probs, "third argument is "+a2+", not restart.Intensity")
		}
		// store back
		list := tupleExtract(call, 0)
		stored := false
		eachInstr(m, func(in ssa.Instruction) {
			if st, ok := in.(*ssa.Store); ok && st.Val == list {
				if _, fl := fieldOwner(st.Addr); fl == "restarts" {
					stored = true
				}
			}
		})
		if !stored {
			probs = append(probs, "the returned list is not stored back: the window never fills")
		}
		// exceeded edges
		exc := tupleExtract(call, 1)
		t, fl, c := boolEdges(exc)
		if !c || len(t) == 0 {
			probs = append(probs, "the exceeded flag is not branched on")
		} else {
			// on true edge: a store of ErrSupervisorRestartsExceeded into action.reason before return, and no start action
			var ts, fs []Point
			for _, e := range t {
				ts = append(ts, Point{e.To(), 0})
			}
			for _, e := range fl {
				fs = append(fs, Point{e.To(), 0})
			}
			isExceededReason := func(in ssa.Instruction) bool {
				st, ok := in.(*ssa.Store)
				return ok && reasonOrigin(st.Val, 0) == "global:ErrSupervisorRestartsExceeded"
			}
			if reaches(ts, isExceededReason, isReturn) != nil {
				probs = append(probs, "on the exceeded edge a return is reachable without setting the reason ErrSupervisorRestartsExceeded")
			}
			isStart := func(in ssa.Instruction) bool {
				st, ok := in.(*ssa.Store)
				if !ok {
					return false
				}
				_, fld := fieldOwner(st.Addr)
				cv, okc := constInt(st.Val)
				return fld == "do" && okc && cv == 1
			}
			if h := reaches(ts, func(in ssa.Instruction) bool { return isReturn(in) }, isStart); h != nil {
				probs = append(probs, "on the exceeded edge the child is still started")
			}
			// the reason the supervisor will terminate with once its children are gone (shutdownReason)
			// is the 'exceeded' reason as well, not the child's own reason
			eachInstr(m, func(in ssa.Instruction) {
				st, ok := in.(*ssa.Store)
				if !ok {
					return
				}
				if _, fld := fieldOwner(st.Addr); fld != "shutdownReason" {
					return
				}
				if !edgesDominate(t, st) && reaches(ts, nil, func(i2 ssa.Instruction) bool { return i2 == ssa.Instruction(st) }) == nil {
					return
				}
				if !edgesDominate(t, st) {
					// a store shared with other causes (merge block): its value must carry the exceeded reason on this path
					o := reasonOrigin(st.Val, 0)
					if ld, okl := st.Val.(*ssa.UnOp); okl && ld.Op == token.MUL {
						if fa, okf := ld.X.(*ssa.FieldAddr); okf {
							if cell, okc := fa.X.(*ssa.Alloc); okc {
								// a field of a local struct (the action being built): union over the stores to that field
								var os []string
								for _, rf := range *cell.Referrers() {
									fa2, ok2 := rf.(*ssa.FieldAddr)
									if !ok2 || fa2.Field != fa.Field {
										continue
									}
									for _, r2 := range *fa2.Referrers() {
										if s2, ok3 := r2.(*ssa.Store); ok3 && s2.Addr == ssa.Value(fa2) {
											os = append(os, reasonOrigin(s2.Val, 0))
										}
									}
								}
								o = strings.Join(os, "+")
							}
						}
					}
					if !strings.Contains(o, "global:ErrSupervisorRestartsExceeded") {
						probs = append(probs, "the shutdown reason recorded after exceeding the intensity ("+o+") cannot be ErrSupervisorRestartsExceeded")
					}
					return
				}
				if o := reasonOrigin(st.Val, 0); o != "global:ErrSupervisorRestartsExceeded" {
					probs = append(probs, "on the exceeded edge the shutdown reason is recorded as "+o+" at "+p.Pos(st.Pos())+": when other children are still running the supervisor terminates with the child's reason instead of ErrSupervisorRestartsExceeded")
				}
			})
			if h := reaches(fs, isStart, isReturn); h != nil && !strings.Contains(mf, "ARFO") {
				probs = append(probs, "on the not-exceeded edge a return is reachable without a start action: the child is not restarted although the limit allows it")
			}
		}
		if len(probs) > 0 {
			r.Bad(rule3, key, mf, p.Pos(call.Pos()), inst, strings.Join(uniq(probs), "; "))
		} else {
			r.OK(rule3, key, mf, p.Pos(call.Pos()), inst, "arguments restarts, restart.Period, restart.Intensity; list stored back; exceeded -> ErrSupervisorRestartsExceeded")
		}
	}
}

var _ = load.Module
