package rules

import (
	"sort"
	"fmt"
	"go/token"
	"go/types"
	"strings"

	"golang.org/x/tools/go/ssa"

	"verif/internal/core"
	"verif/internal/load"
)

func init() {
	Registry["C13"] = Set{
		Explanation: "Decides structural clauses of network FIFO on every frame writer: F1 the link selector handed to send and the receive-queue selector stored in the order byte are pure functions of the sender/receiver identifier (no counter, clock or random leaf); F2 on every path on which KeepNetworkOrder is true (and in writers without that option) the value range of both selectors excludes 0, the round-robin sentinel tested in send and serve — decided with an interval domain over %, &, +, >>, conversions to narrower unsigned types, and one level of helper inlining; a constant 0 is accepted only in the frozen list of writers that have no ordered stream (termination notices, replies addressed by name/event); F3 one worker per receive queue: the producer pushes, then tries the queue lock, and starts the worker only on the lock's success edge with the same queue; the queue index is the order byte modulo the queue count whenever the byte is non-zero; F4 the modulus applied to the link selector for ordered traffic must not change during the connection's life (today it is len(c.pool), which grows while links are joined: known finding F-V). Added while probing: F5 the compression envelope copies the receive-queue selector (byte 6) of the frame it wraps; F6 every options literal a process or meta process builds for a Route{Send,Call}* call sets KeepNetworkOrder from the process's keeporder field. F6 also: when the options value is replaced on some path by the result of a helper, that helper's literal carries the keep-order setting too. F7 the receive-queue selector of the six message-carrying writers is derived from the same end of the pair (the sender) in every addressing mode. F8 = C03.O7: the order byte is replaced by 0 only on a branch that tests KeepNetworkOrder and nothing else. F9 the frame writer writes a frame to one link only, an element of the pool indexed by a remainder of the pool length (no neighbour link takes over a failed write, no second write is reachable). F10 the constructors of the link writer hand the underlying writer to bufio.NewWriter and keep it nowhere else (one path to the socket).",
		NotDecided: []string{
			"relative delay of pooled TCP links",
			"behaviour after a link is lost and re-dialled",
			"ordering inside one TCP stream and inside one receive queue (C02 D3 / C03 cover the queue side)",
		},
		Assumptions: []string{"uint8 conversion wraps modulo 256 (Go semantics)", "the round-robin sentinel is the value 0 (checked: send and serve compare the selector with 0)"},
		Run:         runC13,
	}
}

// zeroAllowed: writers whose selector may be the constant 0 (no ordered stream exists for them).
var c13ZeroAllowed = map[string]string{
	"SendTerminatePID":       "termination notice of a target, addressed to the peer node as a whole",
	"SendTerminateProcessID": "termination notice of a name, addressed to the peer node as a whole",
	"SendTerminateEvent":     "termination notice of an event, addressed to the peer node as a whole (that it overtakes the publications is judged by C18.V8: open finding F-BI)",
	"SendTerminateAlias":     "termination notice of an alias, addressed to the peer node as a whole",
	"routeMessage":           "replies to link/monitor/spawn requests whose target is a name/event (no identifier to derive an order from); the peer-side selector is still derived from the requester's id",
	"SendEvent":              "receive-queue selector of an event publication: fan-out to all subscribers on the peer, no single receiver id",
	"SendProcessID":          "receive-queue selector when the receiver is addressed by name: no receiver id at the sender",
	"CallProcessID":          "receive-queue selector when the receiver is addressed by name: no receiver id at the sender",
	"send":                   "compressed envelope copies the order byte of the original frame",
}

func runC13(p *load.Program, r *core.Report) {
	sendFn := p.Func("net/proto", "connection", "send")
	anyFn := p.Func("net/proto", "connection", "sendAny")
	if sendFn == nil || anyFn == nil {
		r.Unk("C13.anchors", "C13.anchors|send", "", "", "send/sendAny resolve", "(*connection).send or sendAny not found")
		return
	}
	rule1 := "C13.F1 selector-pure"
	rule2 := "C13.F2 keep-order=>non-zero"
	r.Floor(rule2, 28)
	r.Floor(rule1, 28)

	// message-carrying raw frame writers (control traffic through sendAny is request/response
	// correlated by reference and not part of the pairwise message stream)
	_, writers, _, _ := protoLayouts(p)
	isWriter := map[string]bool{}
	for _, w := range writers {
		if w.konst != "protoMessageAny" && w.konst != "protoMessageZ" {
			isWriter[w.fn] = true
		}
	}
	for _, f := range funcsOfPkgs(p, "net/proto") {
		if f.Parent() != nil || !isWriter[f.Name()] {
			continue
		}
		// keep-order false edges of this function
		var keepFalse []Edge
		hasKeep := false
		eachInstr(f, func(in ssa.Instruction) {
			v, ok := in.(ssa.Value)
			if !ok {
				return
			}
			switch in.(type) {
			case *ssa.UnOp, *ssa.Field:
			default:
				return
			}
			_, path, okp := fieldPath(v)
			if !okp || len(path) == 0 || path[len(path)-1] != "KeepNetworkOrder" {
				return
			}
			if b, isB := v.Type().Underlying().(*types.Basic); !isB || b.Kind() != types.Bool {
				return
			}
			hasKeep = true
			_, fls, _ := boolEdges(v)
			keepFalse = append(keepFalse, fls...)
		})
		skip := func(phi *ssa.Phi, i int) bool {
			pred := phi.Block().Preds[i]
			for _, e := range keepFalse {
				if e.To() == pred && len(pred.Preds) == 1 {
					return true
				}
				if len(pred.Instrs) > 0 && edgeDominates(e, pred.Instrs[0]) {
					return true
				}
			}
			return false
		}
		type site struct {
			in   ssa.Instruction
			val  ssa.Value
			what string
		}
		var sites []site
		eachInstr(f, func(in ssa.Instruction) {
			if st, ok := in.(*ssa.Store); ok {
				if ia, ok := st.Addr.(*ssa.IndexAddr); ok {
					if idx, ok := constInt(ia.Index); ok && idx == 6 {
						_, path, okp := fieldPath(ia.X)
						if okp && len(path) > 0 && path[len(path)-1] == "B" {
							sites = append(sites, site{in, st.Val, "order byte (receive-queue selector)"})
						}
					}
				}
			}
			if cc := callCommon(in); cc != nil {
				switch staticCallee(cc) {
				case sendFn:
					sites = append(sites, site{in, cc.Args[2], "link selector passed to send"})
				case anyFn:
					sites = append(sites, site{in, cc.Args[2], "link selector passed to sendAny"})
					sites = append(sites, site{in, cc.Args[3], "receive-queue selector passed to sendAny"})
				}
			}
		})
		fn := fname(f)
		short := f.Name()
		if f.Parent() != nil {
			short = root(f).Name()
		}
		seq := map[string]int{}
		for _, s := range sites {
			seq[s.what]++
			env := &ivalEnv{skipEdge: skip}
			iv := evalIval(s.val, env)
			pos := p.Pos(s.in.Pos())
			key1 := fmt.Sprintf("C13.F1|%s|%s#%d", fn, s.what, seq[s.what])
			key2 := fmt.Sprintf("C13.F2|%s|%s#%d", fn, s.what, seq[s.what])
			inst1 := s.what + " depends only on identifiers"
			if len(iv.impure) > 0 {
				r.Bad(rule1, key1, fn, pos, inst1, "the selector depends on "+strings.Join(uniq(iv.impure), ", ")+": two messages of one sender can get different links/queues")
			} else {
				r.OK(rule1, key1, fn, pos, inst1, "leaves: "+strings.Join(uniq(iv.leaves), ", "))
			}
			inst2 := s.what + " is never 0 when order keeping is on"
			if hasKeep {
				inst2 += " (paths with KeepNetworkOrder == false excluded)"
			}
			switch {
			case iv.lo >= 1:
				r.OK(rule2, key2, fn, pos, inst2, "value range "+iv.String())
			case iv.lo == 0 && iv.hi == 0:
				if why, ok := c13ZeroAllowed[short]; ok {
					r.OK(rule2, key2, fn, pos, inst2, "constant 0 by design: "+why)
				} else {
					r.Bad(rule2, key2, fn, pos, inst2, "the selector is the constant 0 (round-robin) in a writer that carries an ordered stream: messages of one sender are spread over links/queues")
				}
			default:
				r.Bad(rule2, key2, fn, pos, inst2, fmt.Sprintf("value range %s contains 0, the 'no order' sentinel: for identifiers mapping to 0 the messages of one process are distributed round-robin and can overtake each other (leaves: %s)", iv.String(), strings.Join(uniq(iv.leaves), ", ")))
			}
		}
	}
	c13SelectorAgreement(p, r, isWriter)
	c13Sentinel(p, r, sendFn)
	c13Worker(p, r)
	c13Modulus(p, r, sendFn)
	c13Envelope(p, r, sendFn, "C13.F5 envelope-keeps-selector")
	c13OneLinkPerFrame(p, r, sendFn)
	c13SinglePathToSocket(p, r)
	c13Option(p, r)
}

// c13Sentinel: send and serve treat exactly 0 as "no order".
func c13Sentinel(p *load.Program, r *core.Report, sendFn *ssa.Function) {
	rule := "C13.F2s sentinel"
	r.Floor(rule, 2)
	chk := func(f *ssa.Function, what string, isSel func(v ssa.Value) bool) {
		if f == nil {
			r.Unk(rule, "C13.F2s|"+what, "", "", what, "function not found")
			return
		}
		found := false
		eachInstr(f, func(in ssa.Instruction) {
			b, ok := in.(*ssa.BinOp)
			if !ok {
				return
			}
			switch b.Op {
			case token.EQL, token.NEQ, token.GTR, token.LSS:
			default:
				return
			}
			for _, pr := range [][2]ssa.Value{{b.X, b.Y}, {b.Y, b.X}} {
				if c, ok := constInt(pr[1]); ok && c == 0 && isSel(pr[0]) {
					found = true
				}
			}
		})
		key := "C13.F2s|" + fname(f)
		if found {
			r.OK(rule, key, fname(f), p.Pos(f.Pos()), what, "the selector is compared with 0 and nothing else")
		} else {
			r.Bad(rule, key, fname(f), p.Pos(f.Pos()), what, "no comparison of the selector with 0 found: the round-robin sentinel changed, the non-zero rule F2 no longer matches the code")
		}
	}
	chk(sendFn, "send treats selector 0 as round-robin", func(v ssa.Value) bool {
		pa, ok := v.(*ssa.Parameter)
		if !ok {
			return false
		}
		b, isB := pa.Type().Underlying().(*types.Basic)
		return isB && b.Kind() == types.Uint8
	})
	serve := p.Func("net/proto", "connection", "serve")
	chk(serve, "serve treats order byte 0 as round-robin", func(v ssa.Value) bool {
		// int(buf.B[6])
		v = strip(v)
		ld, ok := v.(*ssa.UnOp)
		if !ok {
			return false
		}
		ia, ok := ld.X.(*ssa.IndexAddr)
		if !ok {
			return false
		}
		idx, ok := constInt(ia.Index)
		return ok && idx == 6
	})
}

// c13Envelope: F5 — a compressed frame keeps the order byte of the frame it wraps: the receive-queue
// selector written at index 6 of the envelope is a load of index 6 of the original buffer.
func c13Envelope(p *load.Program, r *core.Report, sendFn *ssa.Function, rule string) {
	r.Floor(rule, 1)
	key := strings.SplitN(rule, " ", 2)[0] + "|" + fname(sendFn)
	inst := "the compression envelope carries the receive-queue selector (byte 6) of the frame it wraps"
	n, good := 0, 0
	var badPos string
	bufPar := paramOfType(sendFn, "lib.Buffer", 0)
	eachInstr(sendFn, func(in ssa.Instruction) {
		st, ok := in.(*ssa.Store)
		if !ok {
			return
		}
		ia, ok := st.Addr.(*ssa.IndexAddr)
		if !ok {
			return
		}
		if idx, okc := constInt(ia.Index); !okc || idx != 6 {
			return
		}
		base, path, okp := fieldPath(ia.X)
		if !okp || len(path) == 0 || path[len(path)-1] != "B" {
			return
		}
		if bufPar != nil && (base == ssa.Value(bufPar) || isParamValue(base, bufPar)) {
			return // a write into the original frame, not the envelope
		}
		n++
		// value: load of buf.B[6] where buf is the original (parameter) buffer
		if ld, ok := st.Val.(*ssa.UnOp); ok && ld.Op == token.MUL {
			if ia2, ok := ld.X.(*ssa.IndexAddr); ok {
				if idx2, okc := constInt(ia2.Index); okc && idx2 == 6 {
					if b2, p2, ok2 := fieldPath(ia2.X); ok2 && len(p2) > 0 && p2[len(p2)-1] == "B" && bufPar != nil && (b2 == ssa.Value(bufPar) || isParamValue(b2, bufPar)) {
						good++
						return
					}
				}
			}
		}
		badPos = p.Pos(st.Pos())
	})
	switch {
	case n == 0:
		r.Bad(rule, key, fname(sendFn), p.Pos(sendFn.Pos()), inst, "the envelope's order byte is never written: compressed frames are decoded by a round-robin queue and overtake each other")
	case good != n:
		r.Bad(rule, key, fname(sendFn), badPos, inst, "the envelope's byte 6 is not copied from byte 6 of the wrapped frame: compressed and uncompressed frames of one sender/receiver pair are decoded by different workers and overtake each other")
	default:
		r.OK(rule, key, fname(sendFn), p.Pos(sendFn.Pos()), inst, fmt.Sprintf("%d envelope write(s): zbuf.B[6] = buf.B[6]", n))
	}
}

// c13Option: F6 — every message a process (or one of its meta processes) routes carries the
// process's keep-order setting: the options literal built next to a Route{Send,Call}* call sets
// KeepNetworkOrder from the keeporder field (sibling agreement over all such sites).
func c13Option(p *load.Program, r *core.Report) {
	rule := "C13.F6 keep-order-option-propagated"
	r.Floor(rule, 16)
	routes := map[string]bool{"RouteSendPID": true, "RouteSendProcessID": true, "RouteSendAlias": true, "RouteCallPID": true, "RouteCallProcessID": true, "RouteCallAlias": true, "RouteSendResponse": true, "RouteSendResponseError": true, "RouteSendEvent": true}
	for _, f := range funcsOfPkgs(p, "node") {
		rv := root(f).Signature.Recv()
		if rv == nil {
			continue
		}
		if n := namedOf(rv.Type()); n != "node.process" && n != "node.meta" {
			continue
		}
		seq := map[string]int{}
		eachInstr(f, func(in ssa.Instruction) {
			cc := callCommon(in)
			if cc == nil {
				return
			}
			name := calleeName(cc)
			if !routes[name] {
				return
			}
			var opt ssa.Value
			for _, a := range cc.Args {
				if namedOf(a.Type()) == "gen.MessageOptions" {
					opt = a
				}
			}
			if opt == nil {
				return
			}
			ld, ok := opt.(*ssa.UnOp)
			if !ok {
				return // passed through from the caller
			}
			cell, ok := canonCell(ld.X).(*ssa.Alloc)
			if !ok {
				return
			}
			seq[name]++
			key := fmt.Sprintf("C13.F6|%s|%s#%d", fname(f), name, seq[name])
			inst := "the routed message's options carry the sending process's keep-order setting"
			set := false
			for _, g := range family(root(f)) {
				eachInstr(g, func(i2 ssa.Instruction) {
					st, ok := i2.(*ssa.Store)
					if !ok {
						return
					}
					fa, ok := st.Addr.(*ssa.FieldAddr)
					if !ok || canonCell(fa.X) != ssa.Value(cell) {
						return
					}
					if _, fl := fieldOwner(fa); fl != "KeepNetworkOrder" {
						return
					}
					if _, path, okp := fieldPath(st.Val); okp && len(path) > 0 && path[len(path)-1] == "keeporder" {
						set = true
					}
				})
			}
			// the whole options value can also be replaced by the result of a helper on some path: that
			// helper's literal has to carry the setting as well
			overwrittenBy := ""
			for _, g := range family(root(f)) {
				eachInstr(g, func(i2 ssa.Instruction) {
					st, ok := i2.(*ssa.Store)
					if !ok || canonCell(st.Addr) != ssa.Value(cell) || !instrReachable(i2, in) {
						return
					}
					c, isCall := st.Val.(*ssa.Call)
					if !isCall {
						return
					}
					h := staticCallee(c.Common())
					if h == nil || len(h.Blocks) == 0 {
						overwrittenBy = "a dynamic call"
						return
					}
					okH := false
					eachInstr(h, func(i3 ssa.Instruction) {
						s3, ok := i3.(*ssa.Store)
						if !ok {
							return
						}
						if _, fl := fieldOwner(s3.Addr); fl != "KeepNetworkOrder" {
							return
						}
						if _, path, okp := fieldPath(s3.Val); okp && len(path) > 0 && path[len(path)-1] == "keeporder" {
							okH = true
						}
					})
					if !okH {
						overwrittenBy = h.Name()
					}
				})
			}
			if set && overwrittenBy != "" {
				r.Bad(rule, key, fname(f), p.Pos(in.Pos()), inst, "on some path the options are replaced by the result of "+overwrittenBy+", which leaves KeepNetworkOrder at false: those messages travel round-robin and overtake the ordered ones sent just before")
			} else if set {
				r.OK(rule, key, fname(f), p.Pos(in.Pos()), inst, "KeepNetworkOrder = keeporder")
			} else {
				r.Bad(rule, key, fname(f), p.Pos(in.Pos()), inst, "the options built for this call leave KeepNetworkOrder at false: the connection picks the link and the receive queue round-robin and two messages of one pair can overtake each other although order keeping is enabled")
			}
		})
	}
}

// c13Worker: F3
func c13Worker(p *load.Program, r *core.Report) {
	rule := "C13.F3 one-worker-per-queue"
	r.Floor(rule, 2)
	serve := p.Func("net/proto", "connection", "serve")
	if serve == nil {
		r.Unk(rule, "C13.F3|serve", "", "", "serve found", "not found")
		return
	}
	qi := p.Named("lib", "QueueMPSC")
	var push ssa.Instruction
	eachInstr(serve, func(in ssa.Instruction) {
		cc := callCommon(in)
		if cc != nil && cc.IsInvoke() && cc.Method.Name() == "Push" && cc.Value.Type() == types.Type(qi) {
			push = in
		}
	})
	fn := fname(serve)
	if push == nil {
		r.Unk(rule, "C13.F3|push", fn, "", "producer push found", "no Push on a receive queue in serve")
		return
	}
	q := callCommon(push).Value
	// after the push: every path to the next loop iteration/return passes q.Lock(); go worker(q) only on success edge
	var lock ssa.Instruction
	eachInstr(serve, func(in ssa.Instruction) {
		cc := callCommon(in)
		if cc != nil && cc.IsInvoke() && cc.Method.Name() == "Lock" && cc.Value == q {
			lock = in
		}
	})
	key := "C13.F3|" + fn + "|producer"
	inst := "after pushing a frame the producer tries the queue lock and starts the worker only if it got it, with the same queue"
	var probs []string
	if lock == nil || !instrDominates(push, lock) || lock.Block() != push.Block() {
		probs = append(probs, "the push is not followed by a lock attempt on the same queue")
	} else {
		t, fl, c := boolEdges(lock.(ssa.Value))
		if !c {
			probs = append(probs, "the lock result is not a plain branch")
		}
		var goIn *ssa.Go
		eachInstr(serve, func(in ssa.Instruction) {
			if g, ok := in.(*ssa.Go); ok {
				if sf := staticCallee(g.Common()); sf != nil && sf.Name() == "handleRecvQueue" {
					goIn = g
				}
			}
		})
		if goIn == nil {
			probs = append(probs, "no worker is started")
		} else {
			if !edgesDominate(t, goIn) {
				probs = append(probs, "the worker is started without holding the queue lock: two workers can decode one queue concurrently and reorder its frames")
			}
			for _, e := range fl {
				if reaches([]Point{{e.To(), 0}}, func(in ssa.Instruction) bool { return in == push }, func(in ssa.Instruction) bool { return in == ssa.Instruction(goIn) }) != nil {
					probs = append(probs, "a worker is started on the failed-lock edge")
				}
			}
			args := goIn.Common().Args
			if len(args) < 2 || args[1] != q {
				probs = append(probs, "the worker is started for another queue than the one pushed to")
			}
		}
	}
	if len(probs) > 0 {
		r.Bad(rule, key, fn, p.Pos(push.Pos()), inst, strings.Join(probs, "; "))
	} else {
		r.OK(rule, key, fn, p.Pos(push.Pos()), inst, "push; Lock; go worker(queue) on the success edge")
	}
	// queue index: recvQueues[x] where x = order % N on the order>0 path
	key2 := "C13.F3|" + fn + "|queue-index"
	inst2 := "the receive queue is chosen by the frame's order byte modulo the queue count whenever the byte is non-zero"
	ld, ok := q.(*ssa.UnOp)
	okIdx := false
	detail := ""
	if ok {
		if ia, ok := ld.X.(*ssa.IndexAddr); ok {
			// index is phi(recvN % n, order % n)
			var leaves []string
			pure := false
			var visit func(v ssa.Value, d int)
			visit = func(v ssa.Value, d int) {
				if d > 6 {
					return
				}
				switch x := v.(type) {
				case *ssa.Phi:
					for _, e := range x.Edges {
						visit(e, d+1)
					}
				case *ssa.BinOp:
					if x.Op == token.REM {
						l := strip(x.X)
						if u, ok := l.(*ssa.UnOp); ok {
							if ia2, ok := u.X.(*ssa.IndexAddr); ok {
								if c, ok := constInt(ia2.Index); ok && c == 6 {
									pure = true
									leaves = append(leaves, "buf.B[6] % N")
									return
								}
							}
						}
						leaves = append(leaves, "counter % N")
					}
				case *ssa.Convert:
					visit(x.X, d+1)
				}
			}
			visit(ia.Index, 0)
			okIdx = pure
			detail = strings.Join(leaves, " | ")
		}
	}
	if okIdx {
		r.OK(rule, key2, fn, p.Pos(push.Pos()), inst2, "index candidates: "+detail)
	} else {
		r.Bad(rule, key2, fn, p.Pos(push.Pos()), inst2, "the queue index does not derive from the order byte ("+detail+")")
	}
}

// c13Modulus: F4
func c13Modulus(p *load.Program, r *core.Report, sendFn *ssa.Function) {
	rule := "C13.F4 stable-link-choice"
	r.Floor(rule, 1)
	fn := fname(sendFn)
	// the ordered branch: n := int(order) % l ; l = len(c.pool)
	var found bool
	eachInstr(sendFn, func(in ssa.Instruction) {
		b, ok := in.(*ssa.BinOp)
		if !ok || b.Op != token.REM {
			return
		}
		x := strip(b.X)
		if pa, ok := x.(*ssa.Parameter); !ok || pa.Name() != "order" {
			return
		}
		found = true
		key := "C13.F4|" + fn + "|ordered-modulus"
		inst := "the modulus applied to the link selector of ordered traffic does not change while the connection lives"
		y := strip(b.Y)
		if c, ok := y.(*ssa.Call); ok {
			if bi, ok := c.Common().Value.(*ssa.Builtin); ok && bi.Name() == "len" {
				_, path, _ := fieldPath(c.Common().Args[0])
				// is that field appended to / shrunk after construction?
				mut := poolMutators(p, path)
				if len(mut) > 0 {
					r.Bad(rule, key, fn, p.Pos(b.Pos()), inst, "the modulus is len("+strings.Join(path, ".")+"), which is modified by "+strings.Join(mut, ", ")+" while traffic flows: the same sender's stream hops between TCP links and is reordered")
					return
				}
			}
		}
		if _, ok := y.(*ssa.Const); ok {
			r.OK(rule, key, fn, p.Pos(b.Pos()), inst, "constant modulus")
			return
		}
		r.OK(rule, key, fn, p.Pos(b.Pos()), inst, "modulus is not the length of a mutable pool")
	})
	if !found {
		r.Unk(rule, "C13.F4|"+fn+"|ordered-modulus", fn, p.Pos(sendFn.Pos()), "ordered link choice found", "no `order % n` in send")
	}
}

// poolMutators lists functions (other than constructors) that assign the field.
func poolMutators(p *load.Program, path []string) []string {
	if len(path) == 0 {
		return nil
	}
	fld := path[len(path)-1]
	var out []string
	for _, f := range funcsOfPkgs(p, "net/proto") {
		hit := false
		eachInstr(f, func(in ssa.Instruction) {
			st, ok := in.(*ssa.Store)
			if !ok {
				return
			}
			if _, fl := fieldOwner(st.Addr); fl == fld {
				if _, isPar := fieldOwnerBase(st.Addr).(*ssa.Alloc); isPar {
					return // initialisation of a fresh object
				}
				hit = true
			}
		})
		if hit {
			out = append(out, fname(f))
		}
	}
	return out
}

func fieldOwnerBase(v ssa.Value) ssa.Value {
	if fa, ok := v.(*ssa.FieldAddr); ok {
		return fa.X
	}
	return nil
}

var _ = load.Module

// c13SelectorAgreement: F7 — the order between two processes is kept per receive queue of the peer, so
// every frame that carries a message or request from process A to process B has to select the SAME
// queue, however B is addressed (pid, registered name, alias). The selector written into byte 6 is
// derived from the sender in the name-addressed writers (the receiver's id is not known there); the
// pid/alias-addressed writers must derive it from the sender too. One obligation for the family.
func c13SelectorAgreement(p *load.Program, r *core.Report, isWriter map[string]bool) {
	c13SelectorAgreementAs(p, r, "C13.F7 receive-queue-selector-agrees-across-addressing-modes")
	orderClearedOnlyByOption(p, r, "C13.F8 order-byte-cleared-only-by-KeepNetworkOrder", "C13.F8", 15)
}

func c13SelectorAgreementAs(p *load.Program, r *core.Report, rule string) {
	r.Floor(rule, 1)
	carrying := map[string]bool{"SendPID": true, "SendProcessID": true, "SendAlias": true, "CallPID": true, "CallProcessID": true, "CallAlias": true}
	roots := func(v ssa.Value, f *ssa.Function) map[int]bool {
		out := map[int]bool{}
		seen := map[ssa.Value]bool{}
		var w func(x ssa.Value, d int)
		w = func(x ssa.Value, d int) {
			if x == nil || seen[x] || d > 12 {
				return
			}
			seen[x] = true
			if pa, ok := x.(*ssa.Parameter); ok {
				for i, q := range f.Params {
					if q == pa {
						out[i] = true
					}
				}
				return
			}
			if al, ok := x.(*ssa.Alloc); ok {
				for _, rf := range *al.Referrers() {
					if st, ok := rf.(*ssa.Store); ok && st.Addr == ssa.Value(al) {
						w(st.Val, d+1)
					}
				}
				return
			}
			if in, ok := x.(ssa.Instruction); ok {
				for _, op := range in.Operands(nil) {
					if *op != nil {
						w(*op, d+1)
					}
				}
			}
		}
		w(v, 0)
		return out
	}
	bySource := map[string][]string{}
	var pos string
	for _, f := range funcsOfPkgs(p, "net/proto") {
		if f.Parent() != nil || !carrying[f.Name()] {
			continue
		}
		eachInstr(f, func(in ssa.Instruction) {
			st, ok := in.(*ssa.Store)
			if !ok {
				return
			}
			ia, ok := st.Addr.(*ssa.IndexAddr)
			if !ok {
				return
			}
			if idx, okc := constInt(ia.Index); !okc || idx != 6 {
				return
			}
			if _, path, okp := fieldPath(ia.X); !okp || len(path) == 0 || path[len(path)-1] != "B" {
				return
			}
			rs := roots(st.Val, f)
			// f.Params: [receiver, from, to, options, message]
			src := "neither"
			switch {
			case rs[1] && !rs[2]:
				src = "sender"
			case rs[2] && !rs[1]:
				src = "receiver"
			case rs[1] && rs[2]:
				src = "both"
			}
			bySource[src] = append(bySource[src], f.Name())
			if pos == "" || src == "receiver" {
				pos = p.Pos(in.Pos())
			}
		})
	}
	key := strings.SplitN(rule, " ", 2)[0] + "|selector-source"
	inst := "the receive-queue selector of every message-carrying frame is derived from the same end of the pair in all addressing modes"
	var parts []string
	for _, k := range []string{"sender", "receiver", "both", "neither"} {
		if len(bySource[k]) > 0 {
			sort.Strings(bySource[k])
			parts = append(parts, k+": "+strings.Join(bySource[k], ", "))
		}
	}
	switch {
	case len(bySource["sender"])+len(bySource["receiver"])+len(bySource["both"])+len(bySource["neither"]) < 6:
		r.Unk(rule, key, "", pos, inst, "fewer than the six message-carrying writers were found: "+strings.Join(parts, "; "))
	case len(bySource["receiver"]) > 0 && len(bySource["sender"]) > 0 || len(bySource["both"]) > 0 || len(bySource["neither"]) > 0:
		r.Bad(rule, key, "net/proto frame writers", pos, inst, strings.Join(parts, "; ")+" — a message sent by name and the next one sent by pid (or alias) between the same two processes land in different receive queues of the peer, each drained by its own worker: they can be delivered in the reverse order")
	default:
		r.OK(rule, key, "net/proto frame writers", pos, inst, strings.Join(parts, "; "))
	}
}
