package rules

import (
	"fmt"
	"go/constant"
	"go/token"
	"go/types"
	"math"
	"strings"

	"golang.org/x/tools/go/ssa"
)

// ival is an unsigned interval with provenance notes.
type ival struct {
	lo, hi uint64
	impure []string // leaves that are not a pure function of the inputs (counters, clocks, ...)
	leaves []string // input leaves the value depends on
}

func (a ival) String() string { return fmt.Sprintf("[%d,%d]", a.lo, a.hi) }

func typeMax(t types.Type) uint64 {
	b, ok := t.Underlying().(*types.Basic)
	if !ok {
		return math.MaxUint64
	}
	switch b.Kind() {
	case types.Uint8:
		return math.MaxUint8
	case types.Uint16:
		return math.MaxUint16
	case types.Uint32:
		return math.MaxUint32
	case types.Int8:
		return math.MaxInt8
	case types.Int16:
		return math.MaxInt16
	case types.Int32:
		return math.MaxInt32
	case types.Int, types.Int64:
		return math.MaxInt64
	case types.Bool:
		return 1
	}
	return math.MaxUint64
}

func union(a, b ival) ival {
	if a.lo > a.hi { // empty
		return b
	}
	if b.lo > b.hi {
		return a
	}
	r := ival{lo: a.lo, hi: a.hi}
	if b.lo < r.lo {
		r.lo = b.lo
	}
	if b.hi > r.hi {
		r.hi = b.hi
	}
	r.impure = append(append([]string{}, a.impure...), b.impure...)
	r.leaves = append(append([]string{}, a.leaves...), b.leaves...)
	return r
}

type ivalEnv struct {
	params   map[*ssa.Parameter]ival
	skipEdge func(phi *ssa.Phi, i int) bool
	depth    int
	seen     map[ssa.Value]bool
}

func leafName(v ssa.Value) string {
	_, path, ok := fieldPath(v)
	base, _, _ := fieldPath(v)
	bn := "?"
	if base != nil {
		bn = base.Name()
	}
	if ok {
		return bn + "." + strings.Join(path, ".")
	}
	return v.Name()
}

// evalIval computes an over-approximating unsigned interval of an integer SSA value.
func evalIval(v ssa.Value, env *ivalEnv) ival {
	full := ival{0, typeMax(v.Type()), nil, nil}
	if env.seen == nil {
		env.seen = map[ssa.Value]bool{}
	}
	switch x := v.(type) {
	case *ssa.Const:
		if x.Value != nil && x.Value.Kind() == constant.Int {
			if u, ok := constant.Uint64Val(x.Value); ok {
				return ival{lo: u, hi: u}
			}
		}
		return full
	case *ssa.Parameter:
		if iv, ok := env.params[x]; ok {
			return iv
		}
		full.leaves = []string{x.Name()}
		return full
	case *ssa.Convert:
		in := evalIval(x.X, env)
		if in.hi <= typeMax(x.Type()) {
			return in
		}
		full.impure, full.leaves = in.impure, in.leaves
		return full
	case *ssa.ChangeType:
		return evalIval(x.X, env)
	case *ssa.BinOp:
		a := evalIval(x.X, env)
		b := evalIval(x.Y, env)
		r := ival{impure: append(append([]string{}, a.impure...), b.impure...), leaves: append(append([]string{}, a.leaves...), b.leaves...)}
		max := typeMax(x.Type())
		switch x.Op {
		case token.REM:
			if b.lo == b.hi && b.lo > 0 {
				r.lo, r.hi = 0, b.lo-1
				if a.hi < r.hi {
					r.hi = a.hi
				}
				if a.hi < b.lo {
					r.lo = a.lo
				}
				return r
			}
		case token.ADD:
			if a.hi <= max && b.hi <= max && a.hi+b.hi >= a.hi && a.hi+b.hi <= max {
				r.lo, r.hi = a.lo+b.lo, a.hi+b.hi
				return r
			}
		case token.AND:
			if b.lo == b.hi {
				r.lo, r.hi = 0, b.hi
				if a.hi < r.hi {
					r.hi = a.hi
				}
				return r
			}
			if a.lo == a.hi {
				r.lo, r.hi = 0, a.hi
				return r
			}
		case token.SHR:
			if b.lo == b.hi && b.lo < 64 {
				r.lo, r.hi = a.lo>>b.lo, a.hi>>b.lo
				return r
			}
		case token.OR:
			if a.hi <= max && b.hi <= max {
				// upper bound: next power of two minus one
				m := a.hi | b.hi
				for i := uint(1); i < 64; i <<= 1 {
					m |= m >> i
				}
				r.lo, r.hi = maxU(a.lo, b.lo), m
				return r
			}
		}
		r.lo, r.hi = 0, max
		return r
	case *ssa.Phi:
		if env.seen[x] {
			return full
		}
		env.seen[x] = true
		var r *ival
		for i, e := range x.Edges {
			if env.skipEdge != nil && env.skipEdge(x, i) {
				continue
			}
			iv := evalIval(e, env)
			if r == nil {
				c := iv
				r = &c
			} else {
				u := union(*r, iv)
				r = &u
			}
		}
		if r == nil {
			return full
		}
		return *r
	case *ssa.Call:
		cc := x.Common()
		sf := staticCallee(cc)
		if sf != nil && sf.Pkg != nil {
			pp := sf.Pkg.Pkg.Path()
			if pp == "sync/atomic" || pp == "time" || strings.HasPrefix(pp, "math/rand") || pp == "crypto/rand" {
				full.impure = []string{"call " + pp + "." + sf.Name()}
				return full
			}
		}
		if sf != nil && inModule(sf) && env.depth < 2 && sf.Signature.Results().Len() == 1 && len(sf.Blocks) > 0 {
			sub := &ivalEnv{params: map[*ssa.Parameter]ival{}, depth: env.depth + 1}
			for i, par := range sf.Params {
				if i < len(cc.Args) {
					sub.params[par] = evalIval(cc.Args[i], env)
				}
			}
			var r *ival
			eachInstr(sf, func(in ssa.Instruction) {
				if ret, ok := in.(*ssa.Return); ok {
					iv := evalIval(ret.Results[0], sub)
					if r == nil {
						c := iv
						r = &c
					} else {
						u := union(*r, iv)
						r = &u
					}
				}
			})
			if r != nil {
				return *r
			}
		}
		name := "?"
		if sf != nil {
			name = sf.Name()
		} else if cc.IsInvoke() {
			name = cc.Method.Name()
		}
		full.impure = []string{"call " + name}
		return full
	case *ssa.UnOp:
		if x.Op == token.MUL {
			full.leaves = []string{leafName(x)}
			// load of a shared mutable counter field
			return full
		}
	case *ssa.Field, *ssa.Index, *ssa.IndexAddr:
		full.leaves = []string{leafName(v)}
		return full
	case *ssa.Extract:
		return evalIval(x.Tuple, env)
	}
	full.leaves = []string{leafName(v)}
	return full
}

func maxU(a, b uint64) uint64 {
	if a > b {
		return a
	}
	return b
}
