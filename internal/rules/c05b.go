package rules

import (
	"fmt"
	"go/token"
	"strings"

	"golang.org/x/tools/go/ssa"

	"verif/internal/core"
	"verif/internal/load"
)

// c05ShutdownReason: T9 — a supervisor that is shutting down (it was told to, a child that takes
// the supervisor with it terminated, the restart intensity was exceeded) records the cause in its
// shutdownReason field and terminates its children; when the last of them is gone it terminates
// itself WITH THAT CAUSE. In every strategy implementation, inside the branch taken while the
// shutdown flag is set, the reason put into the action is read from the shutdownReason field — the
// reason of whichever child happened to go last is not the cause.
func c05ShutdownReason(p *load.Program, r *core.Report) {
	rule := "C05.T9 supervisor-terminates-with-the-cause-of-its-shutdown"
	r.Floor(rule, 3)
	for _, f := range funcsOfPkgs(p, "act") {
		if f.Parent() != nil || f.Signature.Recv() == nil {
			continue
		}
		st := derefStruct(f.Signature.Recv().Type())
		if st == nil {
			continue
		}
		has := map[string]bool{}
		for i := 0; i < st.NumFields(); i++ {
			has[st.Field(i).Name()] = true
		}
		if !has["shutdownReason"] || (!has["shutdown"] && !has["mode"]) {
			continue
		}
		// the shutdown test on the receiver
		var edges []Edge
		eachInstr(f, func(in ssa.Instruction) {
			u, ok := in.(*ssa.UnOp)
			if !ok {
				return
			}
			b, path, okp := fieldPath(u)
			if !okp || len(path) != 1 || path[0] != "shutdown" || canon(b) != ssa.Value(f.Params[0]) {
				return
			}
			if t, _, complete := boolEdges(u); complete {
				edges = append(edges, t...)
			}
		})
		// or a mode word: the values stored into `mode` next to a store of shutdownReason mean "shutting down"
		if has["mode"] {
			shutdownModes := map[int64]bool{}
			for _, g := range funcsOfPkgs(p, "act") {
				if g.Signature.Recv() == nil || g.Signature.Recv().Type().String() != f.Signature.Recv().Type().String() {
					continue
				}
				for _, b := range g.Blocks {
					setsReason := false
					var modes []int64
					for _, x := range b.Instrs {
						st, ok := x.(*ssa.Store)
						if !ok {
							continue
						}
						if _, path, okp := fieldPath(st.Addr); okp && len(path) == 1 {
							if path[0] == "shutdownReason" {
								setsReason = true
							}
							if path[0] == "mode" {
								if c, okc := constInt(st.Val); okc {
									modes = append(modes, c)
								}
							}
						}
					}
					if setsReason {
						for _, c := range modes {
							shutdownModes[c] = true
						}
					}
				}
			}
			eachInstr(f, func(in ssa.Instruction) {
				b, ok := in.(*ssa.BinOp)
				if !ok || b.Op != token.EQL {
					return
				}
				c, okc := constInt(b.Y)
				if !okc || !shutdownModes[c] {
					return
				}
				if bb, path, okp := fieldPath(b.X); okp && len(path) == 1 && path[0] == "mode" && canon(bb) == ssa.Value(f.Params[0]) {
					if t, _, complete := boolEdges(b); complete {
						edges = append(edges, t...)
					}
				}
			})
		}
		if len(edges) == 0 {
			continue
		}
		// stores into a `reason` field dominated by the shutdown-true edge
		n := 0
		eachInstr(f, func(in ssa.Instruction) {
			s, ok := in.(*ssa.Store)
			if !ok {
				return
			}
			fa, ok := s.Addr.(*ssa.FieldAddr)
			if !ok {
				return
			}
			ast := derefStruct(fa.X.Type())
			if ast == nil || ast.Field(fa.Field).Name() != "reason" || !strings.HasSuffix(fa.X.Type().String(), "supAction") {
				return
			}
			if !edgesDominate(edges, in) {
				return
			}
			n++
			fn := fname(f)
			key := fmt.Sprintf("C05.T9|%s|reason#%d", fn, n)
			inst := "while shutting down, the reason the supervisor terminates with is the recorded cause of the shutdown"
			_, path, okp := fieldPath(s.Val)
			if okp && len(path) == 1 && path[0] == "shutdownReason" {
				r.OK(rule, key, fn, p.Pos(in.Pos()), inst, "read from the shutdownReason field")
			} else {
				r.Bad(rule, key, fn, p.Pos(in.Pos()), inst, "the reason is "+s.Val.String()+" ("+reasonOrigin(s.Val, 0)+"): the supervisor's Terminate callback, its links and monitors get the reason of the child that went last instead of the exit signal's reason, 'shutdown' or 'restart intensity exceeded'")
			}
		})
	}
}
