package rules

import (
	"fmt"
	"strings"

	"golang.org/x/tools/go/ssa"

	"verif/internal/core"
	"verif/internal/load"
)

// mapReentrancy: lock re-entrancy on lib.Map (a map guarded by a sync.RWMutex whose Range/RangeLock
// run the callback with the lock held). For every Range/RangeLock call on a struct field F, no
// function reachable synchronously from the callback (static callees, closures handed on, deferred
// calls; calls started with `go` run elsewhere and are not followed) may call a write-locking
// method of lib.Map (for RangeLock: any locking method) on the field of the same name and owner:
// sync.RWMutex is not re-entrant, the goroutine would wait for itself forever.
func mapReentrancy(p *load.Program, r *core.Report, rule, rid string, ownerType string) {
	r.Floor(rule, 3)
	isLibMapMethod := func(cc *ssa.CallCommon) (string, bool) {
		sf := staticCallee(cc)
		if sf == nil || sf.Signature.Recv() == nil {
			return "", false
		}
		if !strings.HasPrefix(namedOf(sf.Signature.Recv().Type()), "lib.Map") {
			return "", false
		}
		n := sf.Name()
		if i := strings.IndexByte(n, '['); i > 0 {
			n = n[:i]
		}
		return n, true
	}
	fieldOf := func(v ssa.Value) (owner, field string) {
		fa, ok := v.(*ssa.FieldAddr)
		if !ok {
			return "", ""
		}
		own, fl := fieldOwner(fa)
		if own == nil {
			return "", ""
		}
		return own.Obj().Name(), fl
	}
	writeLock := map[string]bool{"Store": true, "Delete": true, "LoadAndDelete": true, "LoadOrStore": true, "RangeLock": true}
	anyLock := map[string]bool{"Store": true, "Delete": true, "LoadAndDelete": true, "LoadOrStore": true, "RangeLock": true, "Load": true, "Len": true, "Range": true}
	seq := map[string]int{}
	for _, f := range p.SrcFuncs {
		eachInstr(f, func(in ssa.Instruction) {
			cc := callCommon(in)
			if cc == nil {
				return
			}
			m, ok := isLibMapMethod(cc)
			if !ok || (m != "Range" && m != "RangeLock") || len(cc.Args) < 2 {
				return
			}
			own, fld := fieldOf(cc.Args[0])
			if own == "" || (ownerType != "" && own != ownerType) {
				return
			}
			mc, ok := cc.Args[1].(*ssa.MakeClosure)
			if !ok {
				return
			}
			forbidden := writeLock
			if m == "RangeLock" {
				forbidden = anyLock
			}
			fn := fname(f)
			seq[fn]++
			key := fmt.Sprintf("%s|%s|%s.%s.%s#%d", rid, fn, own, fld, m, seq[fn])
			inst := fmt.Sprintf("nothing the %s callback over %s.%s calls synchronously takes that map's lock again", m, own, fld)
			// breadth-first over synchronously reachable functions, remembering how we got there
			type item struct {
				f    *ssa.Function
				path []string
			}
			seen := map[*ssa.Function]bool{}
			work := []item{{mc.Fn.(*ssa.Function), []string{fname(mc.Fn.(*ssa.Function))}}}
			var hit string
			n := 0
			for len(work) > 0 && hit == "" {
				it := work[0]
				work = work[1:]
				if seen[it.f] || len(it.f.Blocks) == 0 {
					continue
				}
				seen[it.f] = true
				n++
				if n > 4000 {
					break
				}
				eachInstr(it.f, func(i2 ssa.Instruction) {
					if hit != "" {
						return
					}
					if _, isGo := i2.(*ssa.Go); isGo {
						return
					}
					c2 := callCommon(i2)
					if c2 == nil {
						return
					}
					if m2, ok := isLibMapMethod(c2); ok {
						o2, f2 := fieldOf(c2.Args[0])
						if forbidden[m2] && o2 == own && f2 == fld {
							hit = strings.Join(it.path, " -> ") + " -> " + own + "." + fld + "." + m2 + " at " + p.Pos(i2.Pos())
						}
						return
					}
					if sf := staticCallee(c2); sf != nil {
						// only the module's own code and closures
						if sf.Pkg == nil || strings.HasPrefix(sf.Pkg.Pkg.Path(), load.Module) {
							work = append(work, item{sf, append(append([]string(nil), it.path...), fname(sf))})
						}
					}
					for _, a := range c2.Args {
						if mc2, ok := a.(*ssa.MakeClosure); ok {
							g := mc2.Fn.(*ssa.Function)
							work = append(work, item{g, append(append([]string(nil), it.path...), fname(g))})
						}
					}
				})
			}
			if hit != "" {
				r.Bad(rule, key, fn, p.Pos(in.Pos()), inst, "self-deadlock: "+hit+" (sync.RWMutex is not re-entrant: the goroutine waits for its own read lock)")
			} else {
				r.OK(rule, key, fn, p.Pos(in.Pos()), inst, fmt.Sprintf("%d function(s) reachable from the callback, none locks %s.%s for writing", n, own, fld))
			}
		})
	}
}
